#!/usr/bin/env python3
"""Regenerates /verif/MANIFEST.json from checks_config.py (single source of truth)."""
import json, os, subprocess, sys
ROOT = os.path.dirname(os.path.abspath(__file__))
sys.path.insert(0, ROOT)
from checks_config import CHECKS, NOT_APPLICABLE

hook_commits = subprocess.run(
    ["git", "-C", "/repo", "log", "--format=%H %s", "a2a1cda..HEAD"], capture_output=True, text=True).stdout.splitlines()
hooks = [l.split()[0] for l in hook_commits if "verif hook" in l]

BASE = ("for m in $(cat /w/out/gomods.txt); do MF=$(cd /repo/$m && . /w/out/goenv.sh && gomodflag); "
        "(cd /repo/$m && go test $MF -json -vet=off -count=1 -timeout 25m ./...); done")

ENABLED = [l.strip() for l in open(os.path.join(ROOT, "cfg", "ENABLED")) if l.strip()]
CHECKS = {k: v for k, v in CHECKS.items() if k in ENABLED}
checks = []
for pid in sorted(CHECKS):
    c = CHECKS[pid]
    e = {
        "property_id": pid,
        "quick_cmd": "./check %s quick" % pid,
        "evidence_file": "/verif/evidence/%s.json" % pid,
        "replay_cmd_template": "./check %s --replay {path}" % pid,
        "engine": "harness",
        "level_claimed": {"category": c.get("level", "exploration"), "text": c["level_text"], "design_ref": "DESIGN.md §4 " + pid},
        "level_note": c["level_note"],
        "technique": c["technique"],
    }
    if "thorough" in c:
        e["thorough_cmd"] = "./check %s thorough" % pid
    checks.append(e)

m = {
    "version": 1,
    "setup_cmd": "./check setup",
    "hooks": {
        "guard": "verif",
        "enable": "go test -tags verif (harness module /verif/harness with replace github.com/LiskHQ/lisk-engine => /repo)",
        "baseline_off_cmd": BASE,
        "source_commits": list(reversed(hooks)),
        "add_only": True,
    },
    "engines": [{"name": "harness", "path": "/verif/harness", "serves_properties": sorted(CHECKS),
                 "kind_free_text": "Go test packages driven by pgregory.net/rapid v1.3.0 (random + state-machine generation, shrinking), "
                                   "exhaustive enumeration of small domains, native go fuzzing in thorough tiers; Python driver /verif/check"}],
    "checks": checks,
    "not_applicable": [{"property_id": k, "reason": v} for k, v in sorted(NOT_APPLICABLE.items()) if k not in CHECKS],
    "notes": "Every property is decided by generated-input search against an explicit oracle (see DESIGN.md). "
             "Exit codes: 0 held, 1 VIOLATION, 2 infrastructure/inconclusive.",
}
json.dump(m, open(os.path.join(ROOT, "MANIFEST.json"), "w"), indent=1)
print("checks:", [c["property_id"] for c in checks], "n/a:", len(m["not_applicable"]), "hooks:", len(hooks))
