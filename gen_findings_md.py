#!/usr/bin/env python3
"""Regenerates /verif/FINDINGS.md (human-readable table) from /verif/known_findings/*.json of the claimed checks."""
import json, glob, os
ROOT = os.path.dirname(os.path.abspath(__file__))
enabled = [l.strip() for l in open(os.path.join(ROOT, "cfg", "ENABLED")) if l.strip()]
out = ["# Findings recorded by the checks (generated from known_findings/*.json; do not edit)\n",
       "`fixed` = repaired by a `fix:` commit in /repo (the regression case runs in every tier); `known` = genuine defect left in place, reported as KNOWN-FINDING.\n",
       "| id | status | commit | what failed |", "|---|---|---|---|"]
n = 0
for f in sorted(glob.glob(os.path.join(ROOT, "known_findings", "C*.json"))):
    if os.path.basename(f)[:-5] not in enabled:
        continue
    for x in json.load(open(f))["findings"]:
        w = x["what"]
        if w.startswith("fixed:"):
            w = w.split(" ", 3)[-1]
        out.append("| %s | %s | %s | %s |" % (x["id"], x["status"], x.get("commit", ""), w.replace("|", "/").replace("\n", " ")))
        n += 1
open(os.path.join(ROOT, "FINDINGS.md"), "w").write("\n".join(out) + "\n")
print(n, "findings")
