#!/usr/bin/env python3
"""Mechanical mutation operators for Go source (sensitivity measurement of the checks, DESIGN 9.6).

usage: mut.py list  <repo-relative file>            -> one line per mutant: index, line, operator, before -> after
       mut.py apply <repo-relative file> <index> <worktree>   -> rewrites the file in the worktree
Operators: relational boundary (< <=, > >=), relational negation (== !=, not against nil/err), && <-> ||, +1/-1 dropped,
constant 0 <-> 1 in comparisons. Comments, strings, for-clauses, channel arrows, shifts and generics are left alone.
"""
import re, sys

REPO = '/repo'

def mask(line):
    """blank out string/rune literals and // comments, keep length"""
    out = []
    i, n = 0, len(line)
    while i < n:
        c = line[i]
        if c == '/' and i + 1 < n and line[i + 1] == '/':
            out.append(' ' * (n - i)); break
        if c in '"`\'':
            q = c; j = i + 1
            while j < n and line[j] != q:
                if line[j] == '\\' and q != '`': j += 1
                j += 1
            out.append(' ' * (min(j, n - 1) - i + 1)); i = j + 1; continue
        out.append(c); i += 1
    return ''.join(out)[:n]

RULES = [
    (r'(?<![<>=!:+\-*/&|^%])<=(?![=])', '<', 'rel-boundary'),
    (r'(?<![<>=!:+\-*/&|^%])>=(?![=])', '>', 'rel-boundary'),
    (r'(?<![<>=!:+\-*/&|^%\-])<(?![<=\-])', '<=', 'rel-boundary'),
    (r'(?<![<>=!:+\-*/&|^%\-])>(?![>=])', '>=', 'rel-boundary'),
    (r'(?<![<>=!:+\-*/&|^%])==(?!=)', '!=', 'rel-negate'),
    (r'!=(?!=)', '==', 'rel-negate'),
    (r'&&', '||', 'logic'),
    (r'\|\|', '&&', 'logic'),
    (r'(?<=[\w\)\]]) ?\+ ?1\b(?!\.)', '', 'off-by-one'),
    (r'(?<=[\w\)\]]) ?- ?1\b(?!\.)', '', 'off-by-one'),
]

def mutants(path):
    src = open(path).read().split('\n')
    res = []
    in_block_comment = False
    in_import = False
    for ln, line in enumerate(src):
        s = line.strip()
        if in_block_comment:
            if '*/' in line: in_block_comment = False
            continue
        if s.startswith('/*'):
            if '*/' not in line: in_block_comment = True
            continue
        if s.startswith('import (') : in_import = True
        if in_import:
            if s == ')': in_import = False
            continue
        if s.startswith('//') or s.startswith('func ') and '[' in s.split('(')[0]:
            continue
        if s.startswith('for ') and ';' in s:
            continue
        if 'Errorf' in s or 'logger.' in s or 'Debugf' in s or s.startswith('panic('):
            continue
        m = mask(line)
        for rx, rep, op in RULES:
            for mt in re.finditer(rx, m):
                a, b = mt.span()
                ctx = m[max(0, a - 12):b + 12]
                if op == 'rel-negate' and re.search(r'\bnil\b|\berr\b|\bok\b', m[max(0, a - 25):b + 8]):
                    continue
                if op == 'off-by-one' and re.search(r'\[[^\]]*$', m[:a]) and False:
                    continue
                new = line[:a] + rep + line[b:]
                res.append((ln + 1, op, line.strip(), new.strip(), ln, new))
    return src, res

def main():
    cmd, f = sys.argv[1], sys.argv[2]
    if cmd == 'list':
        _, ms = mutants(REPO + '/' + f)
        for i, (ln, op, old, new, _, _) in enumerate(ms):
            print('%d\t%d\t%s\t%s\t=>\t%s' % (i, ln, op, old, new))
    elif cmd == 'apply':
        idx, wt = int(sys.argv[3]), sys.argv[4]
        src, ms = mutants(REPO + '/' + f)
        ln, op, old, new, i, full = ms[idx]
        src[i] = full
        open(wt + '/' + f, 'w').write('\n'.join(src))
        print('%s:%d %s: %s  =>  %s' % (f, ln, op, old, new))

if __name__ == '__main__':
    main()
