#!/usr/bin/env python3
"""Mutation campaign runner: mut/run.py <workers> <per-file sample> <out.tsv> [file ...]
For every sampled mutant of every file: scratch worktree -> build -> the package's own tests (a mutant they kill is not interesting)
-> the quick tier of the properties anchored in that file (VERIF_REPO=<worktree>). One TSV line per mutant.
Never touches /repo; worktrees live under /tmp/mutw and are removed at the end."""
import os, random, subprocess, sys, threading, queue, time

sys.path.insert(0, os.path.dirname(__file__))
import mut  # noqa

MAP = {
 'pkg/consensus/liskbft/validator.go': ['C02', 'C01'],
 'pkg/consensus/liskbft/api.go': ['C02', 'C06'],
 'pkg/consensus/liskbft/module.go': ['C02'],
 'pkg/consensus/liskbft/util.go': ['C02'],
 'pkg/consensus/contradiction/contradiction.go': ['C07'],
 'pkg/consensus/forkchoice/fork_choice.go': ['C07'],
 'pkg/consensus/certificate/pool.go': ['C06', 'C20'],
 'pkg/consensus/certificate/certificate.go': ['C06'],
 'pkg/consensus/certificate.go': ['C06', 'C03'],
 'pkg/consensus/verify.go': ['C03'],
 'pkg/consensus/execute.go': ['C03', 'C04', 'C05'],
 'pkg/consensus/abi_caller.go': ['C03'],
 'pkg/consensus/validator/block_slot.go': ['C03'],
 'pkg/blockchain/data_access.go': ['C05', 'C19'],
 'pkg/blockchain/chain.go': ['C05', 'C13'],
 'pkg/blockchain/block_cache.go': ['C05', 'C20'],
 'pkg/blockchain/block.go': ['C03', 'C08'],
 'pkg/blockchain/transaction.go': ['C03', 'C08'],
 'pkg/db/diffdb/db.go': ['C12', 'C16'],
 'pkg/db/diffdb/cachedb.go': ['C12', 'C16'],
 'pkg/db/diffdb/diff.go': ['C12', 'C05'],
 'pkg/db/diffdb/util.go': ['C12'],
 'pkg/db/iterator.go': ['C12'],
 'pkg/db/reader.go': ['C12'],
 'pkg/db/db.go': ['C12'],
 'pkg/txpool/txpool.go': ['C14'],
 'pkg/txpool/txlist.go': ['C14'],
 'pkg/txpool/heap.go': ['C14'],
 'pkg/txpool/fee.go': ['C14'],
 'pkg/generator/generator.go': ['C15'],
 'pkg/generator/selector.go': ['C15'],
 'pkg/consensus/sync/peer_selection.go': ['C19'],
 'pkg/consensus/sync/download.go': ['C19'],
 'pkg/consensus/sync/fast_sync.go': ['C19', 'C04'],
 'pkg/consensus/sync/block_sync.go': ['C19'],
 'pkg/consensus/sync/sync.go': ['C19'],
 'pkg/consensus/sync/request.go': ['C19'],
 'pkg/trie/smt/smt.go': ['C10'], 'pkg/trie/smt/subtree.go': ['C10'], 'pkg/trie/smt/utils.go': ['C10'], 'pkg/trie/smt/proof.go': ['C10'],
 'pkg/trie/smt/verify.go': ['C10'], 'pkg/trie/smt/node.go': ['C10'],
 'pkg/trie/rmt/rmt.go': ['C11'], 'pkg/trie/rmt/root.go': ['C11'], 'pkg/trie/rmt/util.go': ['C11'], 'pkg/trie/rmt/verify.go': ['C11'],
 'pkg/trie/rmt/proof.go': ['C11'],
 'pkg/codec/reader.go': ['C08'], 'pkg/codec/writer.go': ['C08'], 'pkg/codec/key.go': ['C08'], 'pkg/codec/bytes.go': ['C08'],
 'pkg/p2p/message_protocol.go': ['C17'], 'pkg/p2p/conngater.go': ['C18'], 'pkg/p2p/peer.go': ['C18'], 'pkg/p2p/ratelimit.go': ['C18'],
 'pkg/statemachine/execute.go': ['C16'], 'pkg/statemachine/event_logger.go': ['C16'], 'pkg/framework/state_batch.go': ['C16'],
 'pkg/framework/handler.go': ['C16'],
}
ENV = dict(os.environ, GOFLAGS='-mod=mod', GOPROXY='off', GOSUMDB='off', GOTOOLCHAIN='local')


def sh(cmd, cwd=None, timeout=1800):
    try:
        p = subprocess.run(cmd, cwd=cwd, env=ENV, shell=True, capture_output=True, text=True, timeout=timeout)
        return p.returncode, p.stdout + p.stderr
    except subprocess.TimeoutExpired:
        return 124, 'TIMEOUT'


def worker(wid, q, out, lock):
    wt = '/tmp/mutw/w%d' % wid
    os.makedirs('/tmp/mutw', exist_ok=True)
    sh('git -C /repo worktree remove --force %s; git -C /repo worktree add --detach %s HEAD' % (wt, wt))
    while True:
        try:
            f, idx = q.get_nowait()
        except queue.Empty:
            break
        sh('git checkout -- .', cwd=wt)
        rc, desc = sh('python3 /verif/mut/mut.py apply %s %d %s' % (f, idx, wt))
        desc = desc.strip().replace('\t', ' ')
        pkgdir = os.path.dirname(f)
        t0 = time.time()
        rc, o = sh('go build ./pkg/... ', cwd=wt)
        if rc != 0:
            res = 'uncompilable'
        else:
            rc, o = sh('go test -vet=off -count=1 -timeout 600s ./%s/' % pkgdir, cwd=wt, timeout=700)
            bad = [l for l in o.split('\n') if l.startswith('--- FAIL') and not any(k in l for k in ('TestGenerateProof', 'TestVerifyProof', 'TestGenerateProofJumboFixture', 'TestRemoveTreeFixture'))]
            if rc != 0 and (bad or 'panic:' in o or 'TIMEOUT' in o or 'build failed' in o):
                res = 'killed-by-suite'
            else:
                res = None
                per = []
                for prop in MAP[f]:
                    rc, o = sh('VERIF_REPO=%s ./check %s quick' % (wt, prop), cwd='/verif', timeout=2400)
                    per.append('%s=%d' % (prop, rc))
                    if rc == 1:
                        res = 'killed-by-' + prop
                        break
                if res is None:
                    res = 'SURVIVED(' + ','.join(per) + ')'
        with lock:
            out.write('%s\t%d\t%s\t%ds\t%s\n' % (f, idx, res, time.time() - t0, desc))
            out.flush()
    sh('git -C /repo worktree remove --force %s' % wt)
    import hashlib
    sh('rm -rf /verif/harness/.bin/alt-' + hashlib.sha1(wt.encode()).hexdigest()[:10])


def main():
    workers, per, outp = int(sys.argv[1]), int(sys.argv[2]), sys.argv[3]
    files = sys.argv[4:] or sorted(MAP)
    rnd = random.Random(int(os.environ.get('MUT_SEED', '1')))
    q = queue.Queue()
    jobs = []
    for f in files:
        _, ms = mut.mutants('/repo/' + f)
        idxs = list(range(len(ms)))
        rnd.shuffle(idxs)
        for i in sorted(idxs[:per]):
            jobs.append((f, i))
    rnd.shuffle(jobs)
    for j in jobs:
        q.put(j)
    print('%d mutants' % len(jobs))
    out = open(outp, 'a')
    lock = threading.Lock()
    ts = [threading.Thread(target=worker, args=(w, q, out, lock)) for w in range(workers)]
    [t.start() for t in ts]
    [t.join() for t in ts]
    print('MUTDONE')


if __name__ == '__main__':
    main()
