#!/bin/bash
# usage: seed_regress.sh <parallel> <out.tsv> [ID ...] — re-evaluates every stored seeded change of the given properties (all if none given)
# against the property's quick tier; one line per seed: id, rc (1 = caught), seconds. Seeds recorded as caught by a NEIGHBOURING check only are listed with their rc too.
here=$(cd "$(dirname "$0")" && pwd); par=$1; out=$2; shift 2
ids=${@:-C01 C02 C03 C04 C05 C06 C07 C08 C09 C10 C11 C12 C13 C14 C15 C16 C17 C18 C19 C20}
cd $here
for p in $ids; do for d in seeded/$p-*; do [ -f $d/patch.diff ] && echo "$p $d"; done; done | xargs -P $par -L 1 bash -c '
 p=$0; d=$1; t0=$(date +%s); r=$('$here'/seed_eval.sh $p $d/patch.diff quick 2>&1 | grep -o "check-rc=[0-9]*\|PATCH DOES NOT APPLY\|BUILD FAILS" | tr "\n" " "); echo -e "$(basename $d)\t$r\t$(( $(date +%s)-t0 ))s" >> '$out'
'
echo REGRESSDONE
