#!/bin/bash
# usage: tools_mut.sh <file-in-repo> <sed-expr> <ID> [tier]   — apply a one-off mutation to /repo, run the check, revert.
f=$1; expr=$2; id=$3; tier=${4:-quick}
cd /repo || exit 9
if [ -n "$(git status --porcelain)" ]; then echo "repo dirty"; exit 9; fi
sed -i "$expr" "$f"
if [ -z "$(git diff --stat)" ]; then echo "MUTATION DID NOT APPLY"; exit 9; fi
git diff | grep '^[+-]' | grep -v '^+++\|^---'
cd /verif && ./check $id $tier 2>&1 | grep -E "VIOLATION|KNOWN|evaluations=|BUILD|INCONCL" | head -5
echo "rc=${PIPESTATUS[0]}"
cd /repo && git checkout -- . 
