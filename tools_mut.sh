#!/bin/bash
# usage: tools_mut.sh <worktree-name> <file-in-repo> <sed-expr> <ID> [tier]
# Applies a one-off mutation in a scratch worktree of /repo (created on demand under /tmp/mut/<name>), runs the check against it, reverts.
name=$1; f=$2; expr=$3; id=$4; tier=${5:-quick}
wt=/tmp/mut/$name
if [ ! -d $wt ]; then mkdir -p /tmp/mut; git -C /repo worktree add --detach $wt HEAD >/dev/null 2>&1 || exit 9; fi
cd $wt || exit 9
git checkout -q --detach $(git -C /repo rev-parse HEAD) 2>/dev/null
git checkout -- .
sed -i "$expr" "$f"
if [ -z "$(git diff --stat)" ]; then echo "MUTATION DID NOT APPLY"; exit 9; fi
git diff | grep '^[+-]' | grep -v '^+++\|^---'
cd /verif && VERIF_REPO=$wt ./check $id $tier 2>&1 | grep -E "VIOLATION|KNOWN|evaluations=|BUILD|INCONCL" | head -5
echo "rc=${PIPESTATUS[0]}"
cd $wt && git checkout -- .
