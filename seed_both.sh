#!/bin/bash
# usage: seed_both.sh <dir-prefix e.g. /tmp/seed3> <base-commit> ID... — evaluates (quick tier in a scratch worktree) and verifies
# (demo passes on base / fails with patch / existing tests pass) the primary and second seeded change of each ID; log in <prefix>_<ID>.log
pfx=$1; base=$2; shift 2
cd /verif
for c in "$@"; do
 { for sub in "" "/second"; do
  o=$pfx-$c-out$sub
  [ -f $o/patch.diff ] || continue
  echo "=== EVAL $c$sub"; ./seed_eval.sh $c $o/patch.diff quick
  echo "=== VERIFY $c$sub"; ./seed_verify.sh $o $base 2>&1 | grep -v "^ok"
 done; echo ALLDONE; } > ${pfx}_$c.log 2>&1
done
