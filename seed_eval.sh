#!/bin/bash
# usage: seed_eval.sh <PROP> <patch.diff> [tier] — applies a seeded change in a scratch worktree of /repo HEAD and runs the property's check on it
here=$(cd "$(dirname "$0")" && pwd)
prop=$1; patch=$(readlink -f $2); tier=${3:-quick}
wt=/tmp/sv-$$
git -C /repo worktree add --detach $wt HEAD >/dev/null 2>&1 || exit 9
cd $wt && git apply $patch || { echo "PATCH DOES NOT APPLY"; cd /; git -C /repo worktree remove --force $wt; exit 9; }
export GOFLAGS=-mod=mod GOPROXY=off GOSUMDB=off GOTOOLCHAIN=local
go build ./... || { echo "BUILD FAILS"; }
cd $here && VERIF_REPO=$wt ./check $prop $tier 2>&1 | grep -E "^VIOLATION|KNOWN-FINDING|evaluations=|BUILD|INCONCL|^--- FAIL" | head -8
echo "check-rc=${PIPESTATUS[0]}"
git -C /repo worktree remove --force $wt
rm -rf $here/harness/.bin/alt-$(python3 -c "import hashlib;print(hashlib.sha1('$wt'.encode()).hexdigest()[:10])")
