#!/bin/bash
# usage: seed_verify.sh <outdir> <base-commit> — confirms a seeded change: demo passes on base, fails with patch; touched packages' tests pass with patch
out=$1; base=${2:-HEAD}
wt=/tmp/svv-$$
git -C /repo worktree add --detach $wt $base >/dev/null 2>&1 || exit 9
export GOFLAGS=-mod=mod GOPROXY=off GOSUMDB=off GOTOOLCHAIN=local
cd $wt
# where do the demo files go?
[ -n "$DEMODIR" ] && dir=$DEMODIR || dir=$(grep -oh 'pkg/[A-Za-z0-9_/]*/seeded[A-Za-z0-9_]*_test\.go' $out/demo.md | head -1 | xargs dirname 2>/dev/null)
if [ -z "$dir" ]; then dir=$(grep -m1 '^+++ b/' $out/patch.diff | sed 's#+++ b/##' | xargs dirname); fi
cp $out/*_test.go $dir/ 2>/dev/null
run=$(grep -oh 'func Test[A-Za-z0-9_]*' $out/*_test.go | sed 's/func //' | grep -i 'seed\|demo' | paste -sd'|')
[ -z "$run" ] && run=$(grep -oh 'func Test[A-Za-z0-9_]*' $out/*_test.go | sed 's/func //' | paste -sd'|')
echo "demo dir=$dir run=$run"
go test $DEMOTAGS -vet=off -count=1 -run "$run" ./$dir/ >/tmp/svv-base.log 2>&1; echo "base: demo rc=$? (expect 0)"
git apply $out/patch.diff || echo "PATCH FAILS TO APPLY"
go build ./... || echo BUILD-FAIL
go test $DEMOTAGS -vet=off -count=1 -run "$run" ./$dir/ >/tmp/svv-mut.log 2>&1; echo "mutant: demo rc=$? (expect non-zero)"
rm -f $dir/seeded*_test.go
pk=$(grep '^+++ b/' $out/patch.diff | sed 's#+++ b/##' | xargs -n1 dirname | sort -u | sed 's#^#./#' | paste -sd' ')
go test -vet=off -count=1 $pk ./pkg/consensus/... ./pkg/blockchain/ ./pkg/db/... ./pkg/txpool/ ./pkg/generator/ ./pkg/statemachine/ 2>&1 | grep -v "no test files" | grep -v "^ok" | head -5; echo "existing tests done (lines above = non-ok)"
cd /; git -C /repo worktree remove --force $wt
