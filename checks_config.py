"""Per-property run specifications for /verif/check.

Each tier is a list of run specs: pkg (harness test package), run (-test.run regexp), checks (rapid cases per shard),
shards (parallel processes, one seed each), race, timeout (s), env, scale (VERIF_SCALE for enumerating sub-runs).
"""

CHECKS = {}

CHECKS["C07"] = {
    "level": "exploration",
    "rule": "exhaustive header pairs over (height,maxHeightGenerated,maxHeightPrevoted) in 0..R x same/different generator + rapid "
            "pairs over uint32 boundary values; fork-choice inputs over all equality patterns; chains of a protocol-following "
            "generator replayed through the real BFT module. Non-trivial = same-generator pair with at least one field tie, or a "
            "fork-choice input on which >=2 predicates are true, or a chain case in which the generator switched chains; "
            "distinct by digest of the field tuple",
    "assumptions": ["reference = my transcription of LIP-0014", "wall clock read by forkchoice.NewForkChoice is steered by slot placement"],
    "quick": [{"pkg": "c07", "checks": 3000, "timeout": 600}],
    "thorough": [{"pkg": "c07", "checks": 30000, "shards": 8, "scale": 1.5, "timeout": 1500}],
}
