"""Per-property run specifications for /verif/check: one fragment per property in /verif/cfg/<ID>.py defining CHECK.

Each tier (quick/thorough/replay) is a list of run specs: pkg (harness test package), run (-test.run regexp), checks (rapid cases per
shard), shards (parallel processes, one seed each), race, timeout (s), env, scale (VERIF_SCALE for enumerating sub-runs), steps, args.
Other keys: level, rule, level_text, level_note, technique, assumptions, exhaustive.
"""
import glob, os, runpy

_here = os.path.dirname(os.path.abspath(__file__))
CHECKS = {}
for _f in sorted(glob.glob(os.path.join(_here, "cfg", "C*.py"))):
    CHECKS[os.path.basename(_f)[:-3]] = runpy.run_path(_f)["CHECK"]

# Properties without a committed check (kept current).
NOT_APPLICABLE = {}  # every listed property is claimed (see cfg/ENABLED)
