"""Per-property run specifications for /verif/check.

Each tier is a list of run specs: pkg (harness test package), run (-test.run regexp), checks (rapid cases per shard),
shards (parallel processes, one seed each), race, timeout (s), env, scale (VERIF_SCALE for enumerating sub-runs).
"""

CHECKS = {}

# Properties without a committed check yet (kept current; emptied as checks land).
NOT_APPLICABLE = {("C%02d" % i): "check not built yet in this session (planned, see DESIGN.md §4)" for i in range(1, 21)}

CHECKS["C07"] = {
    "level": "exploration",
    "rule": "exhaustive header pairs over (height,maxHeightGenerated,maxHeightPrevoted) in 0..R x same/different generator + rapid "
            "pairs over uint32 boundary values; fork-choice inputs over all equality patterns; chains of a protocol-following "
            "generator replayed through the real BFT module. Non-trivial = same-generator pair with at least one field tie, or a "
            "fork-choice input on which >=2 predicates are true, or a chain case in which the generator switched chains; "
            "distinct by digest of the field tuple",
    "level_text": "Exhaustive comparison of the contradiction relation with the LIP-0014 definition and with the semantic statement "
                  "(neither header is a legitimate successor of the other) over all field triples in 0..6 (0..8 thorough), random uint32 "
                  "pairs, all fork-choice predicate patterns with the first-match classification order, and replayed two-branch chains of "
                  "protocol-following generators through the real BFT module. Exhaustive on the small domain, sampled beyond it.",
    "level_note": "Trusts my transcription of LIP-0014; wall clock steered by slot placement (500 s margins).",
    "technique": "exhaustive enumeration + property-based testing (rapid) against a LIP-0014 reference",
    "assumptions": ["reference = my transcription of LIP-0014", "wall clock read by forkchoice.NewForkChoice is steered by slot placement"],
    "quick": [{"pkg": "c07", "checks": 3000, "timeout": 600}],
    "thorough": [{"pkg": "c07", "checks": 30000, "shards": 8, "scale": 1.5, "timeout": 1500}],
}

CHECKS["C02"] = {
    "level": "exploration",
    "rule": "rapid-generated single chains of headers (genesis height 0/1/1000, batch size 2-6, length up to 6*batchSize+2, generators active/"
            "standby/removed, maxHeightGenerated honest/0/h-1/>=h/random, aggregate commits, legal parameter changes incl. no-ops) replayed through "
            "the real liskbft module and a height-indexed LIP-0058 model, compared after every header; plus SetBFTParameters validation cases and "
            "fault-free round-robin runs with the two-quorum finality bound. Non-trivial = chain longer than the 3*batchSize window with at least "
            "one of {effective parameter change, validator joined/left, header with maxHeightGenerated>=height, certified height advanced}; "
            "round-robin runs longer than the window; rejected parameter sets. Distinct by digest of the full step list",
    "level_text": "Differential test of the real BFT module against an independent transcription of LIP-0058 after every header of generated "
                  "chains: three heights, per-block prevote/precommit weights, per-validator vote info, parameter lookups/pruning, plus byte-level "
                  "determinism of two nodes fed the same chain and a model-independent finality bound in fault-free round-robin runs.",
    "level_note": "Model is my reading of LIP-0058; only headers verifyBlock admits (consecutive heights, maxHeightPrevoted = node value, not contradicting).",
    "technique": "property-based differential testing (rapid) against a LIP-0058 reference model",
    "assumptions": ["LIP-0058 transcription in harness/model/bft", "ImpliesMaximalPrevotes not asserted (outside the statement)"],
    "quick": [{"pkg": "c02", "checks": 1500, "timeout": 600}],
    "thorough": [{"pkg": "c02", "checks": 12000, "shards": 16, "timeout": 2400}],
}
