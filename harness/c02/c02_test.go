package c02

import (
	"bytes"
	"errors"
	"fmt"
	"testing"

	"github.com/LiskHQ/lisk-engine/pkg/blockchain"
	"github.com/LiskHQ/lisk-engine/pkg/consensus/liskbft"
	"github.com/LiskHQ/lisk-engine/pkg/statemachine"
	"pgregory.net/rapid"

	"verifharness/bftsim"
	"verifharness/evid"
	mbft "verifharness/model/bft"
)

func TestMain(m *testing.M) { evid.Main(m, "C02") }

const poolSize = 9

var pool [][]byte
var blsOf = map[string][]byte{}

func init() {
	for i := 0; i < poolSize; i++ {
		a := bytes.Repeat([]byte{byte(0x10 + i*7)}, 20)
		a[19] = byte(i)
		pool = append(pool, a)
		blsOf[string(a)] = bytes.Repeat([]byte{byte(0x80 + i)}, 48)
	}
}

type paramDraw struct {
	idx       []int
	weights   []uint64
	precommit uint64
	cert      uint64
}

func (p paramDraw) sim() bftsim.Params {
	out := bftsim.Params{Precommit: p.precommit, Cert: p.cert}
	for i, ix := range p.idx {
		out.Vals = append(out.Vals, bftsim.Val{Addr: pool[ix], Weight: p.weights[i], BLS: blsOf[string(pool[ix])]})
	}
	return out
}

func (p paramDraw) model() []mbft.Val {
	var out []mbft.Val
	for i, ix := range p.idx {
		out = append(out, mbft.Val{Addr: pool[ix], Weight: p.weights[i]})
	}
	return out
}

func (p paramDraw) total() uint64 {
	var w uint64
	for _, x := range p.weights {
		w += x
	}
	return w
}

func drawParams(t *rapid.T, batch int, label string) paramDraw {
	n := rapid.IntRange(1, batch).Draw(t, label+"-n")
	if n > poolSize-1 {
		n = poolSize - 1
	}
	// subset of the first poolSize-1 addresses (the last one stays a permanent standby generator)
	perm := rapid.Permutation([]int{0, 1, 2, 3, 4, 5, 6, 7}).Draw(t, label+"-perm")
	p := paramDraw{idx: perm[:n]}
	style := rapid.SampledFrom([]string{"equal", "equal", "skewed", "heavy"}).Draw(t, label+"-style")
	for i := 0; i < n; i++ {
		w := uint64(1)
		switch style {
		case "skewed":
			w = rapid.Uint64Range(1, 5).Draw(t, label+"-w")
		case "heavy":
			if i == 0 {
				w = rapid.Uint64Range(2, 10).Draw(t, label+"-w")
			}
		}
		p.weights = append(p.weights, w)
	}
	tot := p.total()
	p.precommit = rapid.Uint64Range(tot/3+1, tot).Draw(t, label+"-pc")
	p.cert = rapid.Uint64Range(tot/3+1, tot).Draw(t, label+"-ct")
	if rapid.IntRange(0, 2).Draw(t, label+"-std") == 0 {
		p.precommit, p.cert = tot*2/3+1, tot*2/3+1
	}
	return p
}

type step struct {
	Gen    int
	MHG    uint32
	MHP    uint32
	Agg    int64 // -1 none
	Change *paramDraw
}

// fataler is what compare needs of a test handle (rapid.T in generated runs, testing.T in the enumerating run).
type fataler interface {
	Fatalf(format string, args ...any)
}

func compare(t fataler, s *bftsim.Sim, m *mbft.Model, hist func() string) {
	p, pc, c := s.Heights()
	if p != m.MHP || pc != m.MHPC || c != m.MHC {
		t.Fatalf("heights: code (prevoted=%d precommitted=%d certified=%d) model (%d %d %d)\n%s", p, pc, c, m.MHP, m.MHPC, m.MHC, hist())
	}
	if !(pc <= p || pc == m.Genesis) {
		// precommitted <= prevoted (LIP-0058 sanity)
		t.Fatalf("precommitted %d > prevoted %d\n%s", pc, p, hist())
	}
	v, err := liskbft.VerifDumpVotes(s.Store())
	if err != nil {
		t.Fatalf("dump: %v", err)
	}
	n := m.N
	if n > m.Window {
		n = m.Window
	}
	if len(v.Blocks) != n {
		t.Fatalf("window length code=%d model=%d\n%s", len(v.Blocks), n, hist())
	}
	for _, b := range v.Blocks {
		mb := m.Blocks[b.Height]
		if mb == nil || b.Height < m.Oldest() {
			t.Fatalf("block %d in code window but not in model window\n%s", b.Height, hist())
		}
		if b.PrevoteWeight != mb.Prevotes || b.PrecommitWeight != mb.Precommit || !bytes.Equal(b.Generator, mb.Gen) || b.MaxHeightGenerated != mb.MHG || b.MaxHeightPrevoted != mb.MHP {
			t.Fatalf("block %d: code prevote=%d precommit=%d, model prevote=%d precommit=%d\n%s", b.Height, b.PrevoteWeight, b.PrecommitWeight, mb.Prevotes, mb.Precommit, hist())
		}
	}
	if len(v.Validators) != len(m.Active) {
		t.Fatalf("active validators code=%d model=%d\n%s", len(v.Validators), len(m.Active), hist())
	}
	for i, vi := range v.Validators {
		mv := m.Active[i]
		if !bytes.Equal(vi.Address, mv.Addr) || vi.MinActiveHeight != mv.MinActiveHeight || vi.LargestHeightPrecommit != mv.LargestHeightPrecommit {
			t.Fatalf("validator %d: code (%x min=%d lhp=%d) model (%x min=%d lhp=%d)\n%s", i, vi.Address[:2], vi.MinActiveHeight, vi.LargestHeightPrecommit,
				mv.Addr[:2], mv.MinActiveHeight, mv.LargestHeightPrecommit, hist())
		}
	}
	// parameters at every height of interest
	st := s.Store()
	api := s.Mod.API()
	lo := int64(m.Genesis) - 1
	if lo < 0 {
		lo = 0
	}
	for h := uint32(lo); h <= m.Tip+2; h++ {
		got, err := api.GetBFTParameters(st, h)
		want, _, ok := m.ParamsAt(h)
		if !ok {
			if err == nil {
				t.Fatalf("params at %d: code has, model pruned/none\n%s", h, hist())
			}
			if !errors.Is(err, liskbft.ErrBFTParamsNotFound) {
				t.Fatalf("params at %d: %v", h, err)
			}
		} else {
			if err != nil {
				t.Fatalf("params at %d: code err %v, model has\n%s", h, err, hist())
			}
			if got.PrevoteThreshold() != want.Prevote || got.PrecommitThreshold() != want.Precommit || got.CertificateThreshold() != want.Cert || len(got.Validators()) != len(want.Vals) {
				t.Fatalf("params at %d: code (%d,%d,%d,n=%d) model (%d,%d,%d,n=%d)\n%s", h, got.PrevoteThreshold(), got.PrecommitThreshold(), got.CertificateThreshold(), len(got.Validators()),
					want.Prevote, want.Precommit, want.Cert, len(want.Vals), hist())
			}
			for i, gv := range got.Validators() {
				if !bytes.Equal(gv.Address(), want.Vals[i].Addr) || gv.BFTWeight() != want.Vals[i].Weight {
					t.Fatalf("params at %d validator %d differs\n%s", h, i, hist())
				}
			}
		}
		ex, err := api.ExistBFTParameters(st, h)
		if err != nil {
			t.Fatalf("exist: %v", err)
		}
		if _, mex := m.Params[h]; mex != ex {
			t.Fatalf("ExistBFTParameters(%d) code=%v model=%v\n%s", h, ex, mex, hist())
		}
		nh, err := api.NextHeightBFTParameters(st, h)
		wn, wok := m.NextChangeAfter(h)
		if wok {
			if err != nil || nh != wn {
				t.Fatalf("NextHeightBFTParameters(%d) code=%d,%v model=%d\n%s", h, nh, err, wn, hist())
			}
		} else if !errors.Is(err, statemachine.ErrNotFound) {
			t.Fatalf("NextHeightBFTParameters(%d) code=%d,%v model=none\n%s", h, nh, err, hist())
		}
	}
	if m.N > 0 {
		cv, err := api.GetCurrentValidators(st)
		want, _, _ := m.ParamsAt(m.Tip)
		if err != nil || len(cv) != len(want.Vals) {
			t.Fatalf("GetCurrentValidators: %v n=%d want %d\n%s", err, len(cv), len(want.Vals), hist())
		}
		for i := range cv {
			if !bytes.Equal(cv[i].Address(), want.Vals[i].Addr) || cv[i].BFTWeight() != want.Vals[i].Weight {
				t.Fatalf("GetCurrentValidators[%d] differs\n%s", i, hist())
			}
		}
	}
}

func runChain(t *rapid.T) {
	batch := rapid.IntRange(2, 6).Draw(t, "batch")
	genesis := rapid.SampledFrom([]uint32{0, 1, 1000}).Draw(t, "genesis")
	s, twin := bftsim.New(batch), bftsim.New(batch)
	defer s.Close()
	defer twin.Close()
	m := mbft.New(batch, genesis)
	p0 := drawParams(t, batch, "p0")
	if err := s.Genesis(genesis, p0.sim()); err != nil {
		t.Fatalf("genesis: %v", err)
	}
	twin.Genesis(genesis, p0.sim())
	if err := m.SetParams(p0.model(), p0.precommit, p0.cert); err != nil {
		t.Fatalf("model rejects legal genesis params: %v", err)
	}
	var steps []step
	hist := func() string {
		out := fmt.Sprintf("batch=%d genesis=%d p0=%+v\n", batch, genesis, p0)
		for i, st := range steps {
			out += fmt.Sprintf("  h=%d gen=%d mhg=%d mhp=%d agg=%d", int(genesis)+i+1, st.Gen, st.MHG, st.MHP, st.Agg)
			if st.Change != nil {
				out += fmt.Sprintf(" change=%+v", *st.Change)
			}
			out += "\n"
		}
		return out
	}
	compare(t, s, m, hist)
	length := rapid.IntRange(1, 6*batch+2).Draw(t, "length")
	lastGen := map[int]uint32{} // honest bookkeeping: largest height generated per validator index
	current := p0
	var removed []int
	flags := map[string]bool{}
	for i := 0; i < length; i++ {
		h := m.Tip + 1
		// A node's history is more than its chain: blocks of an abandoned branch are processed and reverted (fork switch).
		// The node under test (not the twin, not the model) takes such detours; what it reports afterwards must not depend on them.
		if rapid.IntRange(0, 4).Draw(t, "detour") == 0 {
			dump := s.Dump()
			k := rapid.IntRange(1, 3).Draw(t, "detourLen")
			for j := 0; j < k; j++ {
				g := rapid.SampledFrom(current.idx).Draw(t, "detourGen")
				dp, _, _ := s.Heights()
				dh := &bftsim.Hdr{H: h + uint32(j), Gen: pool[g], MHG: lastGen[g], MHP: dp}
				var ch *bftsim.Params
				if rapid.IntRange(0, 1).Draw(t, "detourChange") == 0 {
					x := drawParams(t, batch, "detourChg").sim()
					ch = &x
				}
				if err := s.Apply(dh, ch); err != nil {
					break
				}
			}
			s.Load(dump)
			flags["detour"] = true
		}
		var st step
		ok := false
		for try := 0; try < 6 && !ok; try++ {
			// generator: mostly active validators, sometimes the standby (index 8) or a removed one
			kind := rapid.SampledFrom([]string{"active", "active", "active", "active", "standby", "removed"}).Draw(t, "genKind")
			switch {
			case kind == "removed" && len(removed) > 0:
				st.Gen = rapid.SampledFrom(removed).Draw(t, "removedGen")
				flags["gen-removed"] = true
			case kind == "standby":
				st.Gen = poolSize - 1
				flags["gen-standby"] = true
			default:
				st.Gen = rapid.SampledFrom(current.idx).Draw(t, "activeGen")
			}
			switch rapid.SampledFrom([]string{"honest", "honest", "honest", "zero", "hm1", "ge", "random"}).Draw(t, "mhgKind") {
			case "honest":
				st.MHG = lastGen[st.Gen]
			case "zero":
				st.MHG = 0
			case "hm1":
				st.MHG = h - 1
			case "ge":
				st.MHG = h + rapid.Uint32Range(0, 3).Draw(t, "geOff")
			default:
				st.MHG = rapid.Uint32Range(0, h).Draw(t, "mhgRand")
			}
			st.MHP = m.MHP
			hd := &bftsim.Hdr{H: h, Gen: pool[st.Gen], MHG: st.MHG, MHP: st.MHP}
			real := s.Contradicting(hd)
			mod := m.Contradicting(pool[st.Gen], h, st.MHG, st.MHP)
			if real != mod {
				t.Fatalf("IsHeaderContradictingChain code=%v model=%v for h=%d gen=%d mhg=%d mhp=%d\n%s", real, mod, h, st.Gen, st.MHG, st.MHP, hist())
			}
			ok = !real
		}
		if !ok {
			break // no admissible header found; verifyBlock would reject all candidates
		}
		if st.MHG >= h {
			flags["mhg>=h"] = true
		}
		st.Agg = -1
		if m.MHPC > m.MHC && rapid.IntRange(0, 3).Draw(t, "agg") == 0 {
			st.Agg = int64(rapid.Uint32Range(m.MHC+1, m.MHPC).Draw(t, "aggH"))
			flags["certified"] = true
		}
		if rapid.IntRange(0, 5).Draw(t, "chg") == 0 {
			var c paramDraw
			switch rapid.SampledFrom([]string{"fresh", "noop", "reweight", "dropone", "addone"}).Draw(t, "chgKind") {
			case "noop":
				c = current
			case "reweight":
				c = current
				c.weights = append([]uint64{}, current.weights...)
				j := rapid.IntRange(0, len(c.weights)-1).Draw(t, "rwIdx")
				c.weights[j] = rapid.Uint64Range(1, 6).Draw(t, "rw")
				tot := c.total()
				c.precommit = rapid.Uint64Range(tot/3+1, tot).Draw(t, "rw-pc")
				c.cert = rapid.Uint64Range(tot/3+1, tot).Draw(t, "rw-ct")
			case "dropone":
				c = current
				if len(current.idx) > 1 {
					j := rapid.IntRange(0, len(current.idx)-1).Draw(t, "dropIdx")
					c.idx = append(append([]int{}, current.idx[:j]...), current.idx[j+1:]...)
					c.weights = append(append([]uint64{}, current.weights[:j]...), current.weights[j+1:]...)
					tot := c.total()
					c.precommit, c.cert = tot*2/3+1, tot*2/3+1
				}
			case "addone":
				c = current
				if len(current.idx) < batch && len(current.idx) < 8 {
					for cand := 0; cand < 8; cand++ {
						in := false
						for _, x := range current.idx {
							in = in || x == cand
						}
						if !in {
							c.idx = append(append([]int{}, current.idx...), cand)
							c.weights = append(append([]uint64{}, current.weights...), rapid.Uint64Range(1, 3).Draw(t, "addW"))
							break
						}
					}
					tot := c.total()
					c.precommit, c.cert = tot*2/3+1, tot*2/3+1
				}
			default:
				c = drawParams(t, batch, "chg")
			}
			st.Change = &c
		}
		steps = append(steps, st)
		hd := &bftsim.Hdr{H: h, Gen: pool[st.Gen], MHG: st.MHG, MHP: st.MHP}
		if st.Agg >= 0 {
			hd.Agg = &blockchain.AggregateCommit{Height: uint32(st.Agg), AggregationBits: []byte{1}, CertificateSignature: []byte{1}}
		}
		var ch *bftsim.Params
		if st.Change != nil {
			x := st.Change.sim()
			ch = &x
		}
		if err := s.Apply(hd, ch); err != nil {
			t.Fatalf("code rejects admissible header: %v\n%s", err, hist())
		}
		if err := twin.Apply(hd, ch); err != nil {
			t.Fatalf("twin: %v", err)
		}
		if err := m.Apply(pool[st.Gen], st.MHG, st.MHP, st.Agg >= 0, uint32(st.Agg)); err != nil {
			t.Fatalf("model: %v\n%s", err, hist())
		}
		if st.Change != nil {
			before := len(m.Params)
			_, hadNext := m.Params[m.Tip+1]
			if err := m.SetParams(st.Change.model(), st.Change.precommit, st.Change.cert); err != nil {
				t.Fatalf("model rejects legal params: %v", err)
			}
			if _, has := m.Params[m.Tip+1]; has && !hadNext {
				_ = before
				flags["param-change"] = true
				// bookkeeping of joined/left validators
				for _, x := range current.idx {
					still := false
					for _, y := range st.Change.idx {
						still = still || x == y
					}
					if !still {
						removed = append(removed, x)
						flags["validator-left"] = true
					}
				}
				for _, y := range st.Change.idx {
					was := false
					for _, x := range current.idx {
						was = was || x == y
					}
					if !was {
						flags["validator-joined"] = true
					}
				}
				current = *st.Change
			} else {
				flags["noop-change"] = true
			}
		}
		if h > lastGen[st.Gen] {
			lastGen[st.Gen] = h
		}
		compare(t, s, m, hist)
		// determinism: twin fed the same chain has byte-identical BFT records
		d1, d2 := s.Dump(), twin.Dump()
		if len(d1) != len(d2) {
			t.Fatalf("twin dump length differs\n%s", hist())
		}
		for k := range d1 {
			if !bytes.Equal(d1[k][0], d2[k][0]) || !bytes.Equal(d1[k][1], d2[k][1]) {
				t.Fatalf("twin differs at key %x\n%s", d1[k][0], hist())
			}
		}
	}
	long := m.N > m.Window
	nt := long && (flags["param-change"] || flags["validator-left"] || flags["validator-joined"] || flags["mhg>=h"] || flags["certified"])
	labels := []string{"chain"}
	if long {
		labels = append(labels, "longer-than-window")
	}
	for k := range map[string]bool{"detour": true, "param-change": true, "validator-left": true, "validator-joined": true, "mhg>=h": true, "certified": true, "noop-change": true, "gen-standby": true, "gen-removed": true} {
		if flags[k] {
			labels = append(labels, k)
		}
	}
	if m.MHPC > m.Genesis {
		labels = append(labels, "finality-advanced")
	}
	evid.R.Case(hist(), nt, func() any {
		return map[string]any{"kind": "chain", "batchSize": batch, "genesisHeight": genesis, "length": len(steps), "steps": steps,
			"final": map[string]uint32{"prevoted": m.MHP, "precommitted": m.MHPC, "certified": m.MHC}}
	}, labels...)
}

func TestChains(t *testing.T) { rapid.Check(t, runChain) }

// Illegal parameter sets are rejected exactly when the documented bounds say so.
func TestSetParamsValidation(t *testing.T) {
	rapid.Check(t, func(t *rapid.T) {
		batch := rapid.IntRange(1, 5).Draw(t, "batch")
		s := bftsim.New(batch)
		defer s.Close()
		m := mbft.New(batch, 0)
		st := s.Store()
		s.Mod.InitGenesisState(&bftsim.Hdr{H: 0, Gen: make([]byte, 20)}, st)
		n := rapid.IntRange(0, 7).Draw(t, "n")
		var vals liskbft.BFTValidators
		var mv []mbft.Val
		var tot uint64
		for i := 0; i < n; i++ {
			w := rapid.Uint64Range(0, 4).Draw(t, "w")
			if rapid.IntRange(0, 3).Draw(t, "nz") != 0 && w == 0 {
				w = 1
			}
			tot += w
			vals = append(vals, liskbft.NewValidator(pool[i], w, blsOf[string(pool[i])]))
			mv = append(mv, mbft.Val{Addr: pool[i], Weight: w})
		}
		pc := rapid.Uint64Range(0, tot+2).Draw(t, "pc")
		ct := rapid.Uint64Range(0, tot+2).Draw(t, "ct")
		if rapid.Bool().Draw(t, "nearBounds") { // both thresholds at or next to the legal bounds
			pc = rapid.SampledFrom([]uint64{tot / 3, tot/3 + 1, tot, tot + 1}).Draw(t, "pcB")
			ct = rapid.SampledFrom([]uint64{tot / 3, tot/3 + 1, tot, tot + 1}).Draw(t, "ctB")
		}
		err := s.Mod.API().SetBFTParameters(st, pc, ct, vals)
		merr := m.SetParams(mv, pc, ct)
		if (err == nil) != (merr == nil) {
			t.Fatalf("SetBFTParameters(n=%d batch=%d total=%d pc=%d ct=%d) code err=%v model err=%v", n, batch, tot, pc, ct, err, merr)
		}
		evid.R.Case(fmt.Sprintf("setparams|%d|%d|%v|%d|%d", batch, n, mv, pc, ct), err != nil && n > 0, nil, "setparams", fmt.Sprintf("setparams-ok-%v", err == nil))
	})
}

// Independent of the model: fault-free equal-weight round robin finalises every block within q_v + q_c further blocks.
func TestRoundRobinLiveness(t *testing.T) {
	rapid.Check(t, func(t *rapid.T) {
		n := rapid.IntRange(1, 8).Draw(t, "n")
		batch := rapid.IntRange(n, n+2).Draw(t, "batch")
		genesis := rapid.SampledFrom([]uint32{0, 5, 1000}).Draw(t, "genesis")
		w := uint64(n)
		pcThr := rapid.Uint64Range(w/3+1, w).Draw(t, "precommitThreshold")
		qv := int(w*2/3 + 1)
		qc := int(pcThr)
		s := bftsim.New(batch)
		defer s.Close()
		var p bftsim.Params
		for i := 0; i < n; i++ {
			p.Vals = append(p.Vals, bftsim.Val{Addr: pool[i], Weight: 1, BLS: blsOf[string(pool[i])]})
		}
		p.Precommit, p.Cert = pcThr, pcThr
		if err := s.Genesis(genesis, p); err != nil {
			t.Fatalf("genesis %v", err)
		}
		length := rapid.IntRange(qv+qc+1, 5*batch+qv+qc).Draw(t, "length")
		last := map[int]uint32{}
		off := rapid.IntRange(0, n-1).Draw(t, "offset")
		for i := 0; i < length; i++ {
			h := genesis + uint32(i) + 1
			g := (i + off) % n
			mhp, _, _ := s.Heights()
			if err := s.Apply(&bftsim.Hdr{H: h, Gen: pool[g], MHG: last[g], MHP: mhp}, nil); err != nil {
				t.Fatalf("apply %v", err)
			}
			last[g] = h
			_, pc, _ := s.Heights()
			if i+1 >= qv+qc && int64(pc) < int64(h)-int64(qv+qc) {
				t.Fatalf("n=%d precommitThreshold=%d: at tip %d precommitted height is %d, expected >= tip-(%d+%d)", n, pcThr, h, pc, qv, qc)
			}
			if int64(pc) > int64(h)-int64(qv+qc)+1 && pc != genesis {
				t.Fatalf("n=%d precommitThreshold=%d: at tip %d precommitted height %d is earlier than two quorums allow (q_v=%d q_c=%d)", n, pcThr, h, pc, qv, qc)
			}
		}
		evid.R.Case(fmt.Sprintf("rr|%d|%d|%d|%d|%d|%d", n, batch, genesis, pcThr, length, off), length > 3*batch, func() any {
			return map[string]any{"kind": "round-robin", "n": n, "batchSize": batch, "precommitThreshold": pcThr, "length": length}
		}, "round-robin")
	})
}
