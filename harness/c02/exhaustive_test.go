package c02

import (
	"encoding/json"
	"fmt"
	"os"
	"strconv"
	"testing"

	"verifharness/bftsim"
	"verifharness/evid"
	mbft "verifharness/model/bft"
)

// Small-scope enumeration (planned in DESIGN §4 C02, built in session 5): EVERY chain over a small alphabet up to a fixed depth,
// instead of a random sample. Per header the alphabet is generator x maxHeightGenerated-kind; candidates the contradiction rule
// refuses are not applied (verifyBlock would refuse them) but the verdict itself is compared between code and model for every
// candidate. After every applied header the full comparison of TestChains runs. Backtracking restores the module's store from a
// dump and the model from a clone, so the walk is a depth-first search over the tree of admissible chains.
type exWorld struct {
	Name      string
	Batch     int
	Weights   []uint64
	Precommit uint64
	Cert      uint64
	Standby   bool     // the permanent standby generator (no BFT weight) is part of the alphabet
	Kinds     []string // maxHeightGenerated kinds
	Depth     int
	// ChangeAt > 0: the header at that depth carries a parameter change to ChangeTo (effective from the next height)
	ChangeAt int
	ChangeTo *paramDraw
}

type exStep struct {
	Gen int
	MHG uint32
}

func (w exWorld) params() paramDraw {
	p := paramDraw{precommit: w.Precommit, cert: w.Cert}
	for i, x := range w.Weights {
		p.idx = append(p.idx, i)
		p.weights = append(p.weights, x)
	}
	return p
}

type exRun struct {
	t       *testing.T
	w       exWorld
	s       *bftsim.Sim
	path    []exStep
	nodes   int64
	leaves  int64
	refused int64
	budget  int64
	// iterative deepening: the walk is repeated with maxDepth 1, 2, ... so that a node budget cuts the enumeration at a
	// COMPLETE depth (a depth-first walk cut at a budget would cover a narrow corner of the deepest level only)
	maxDepth int
	aborted  bool
}

func (r *exRun) hist() string {
	b, _ := json.Marshal(r.path)
	return fmt.Sprintf("exhaustive world %+v\npath %s", r.w, b)
}

func (r *exRun) fail(format string, a ...any) {
	msg := fmt.Sprintf(format, a...)
	p := evid.R.FailCase("exhaustive", map[string]any{"world": r.w.Name, "path": r.path, "message": msg})
	r.t.Fatalf("%s\n%s\nreplay case: %s", msg, r.hist(), p)
}

// walk explores all admissible continuations of the current chain.
func (r *exRun) walk(m *mbft.Model, lastGen map[int]uint32, current paramDraw, depth int) {
	if r.budget > 0 && r.nodes >= r.budget {
		r.aborted = true // this depth cannot be completed within the node budget; the previous depth was complete
		return
	}
	if depth == r.maxDepth {
		r.leaves++
		long := m.N > m.Window
		labels := []string{"exhaustive", "exhaustive-" + r.w.Name}
		if long {
			labels = append(labels, "exhaustive-longer-than-window")
		}
		if m.MHPC > m.Genesis {
			labels = append(labels, "exhaustive-finality-advanced")
		}
		evid.R.Case(r.hist(), long || m.MHPC > m.Genesis, func() any {
			return map[string]any{"kind": "exhaustive", "world": r.w.Name, "path": append([]exStep{}, r.path...),
				"final": map[string]uint32{"prevoted": m.MHP, "precommitted": m.MHPC, "certified": m.MHC}}
		}, labels...)
		return
	}
	h := m.Tip + 1
	gens := append([]int{}, current.idx...)
	if r.w.Standby {
		gens = append(gens, poolSize-1)
	}
	dump := r.s.Dump()
	for _, g := range gens {
		seen := map[uint32]bool{}
		for _, k := range r.w.Kinds {
			var mhg uint32
			switch k {
			case "honest":
				mhg = lastGen[g]
			case "zero":
				mhg = 0
			case "hm1":
				mhg = h - 1
			case "h":
				mhg = h
			case "hm2":
				if h < 2 {
					continue
				}
				mhg = h - 2
			}
			if seen[mhg] {
				continue
			}
			seen[mhg] = true
			hd := &bftsim.Hdr{H: h, Gen: pool[g], MHG: mhg, MHP: m.MHP}
			real := r.s.Contradicting(hd)
			mod := m.Contradicting(pool[g], h, mhg, m.MHP)
			r.path = append(r.path, exStep{g, mhg})
			if real != mod {
				r.fail("IsHeaderContradictingChain code=%v model=%v for h=%d gen=%d mhg=%d mhp=%d", real, mod, h, g, mhg, m.MHP)
			}
			if real {
				r.refused++
				r.path = r.path[:len(r.path)-1]
				continue
			}
			var ch *bftsim.Params
			next := current
			if r.w.ChangeAt == depth+1 && r.w.ChangeTo != nil {
				x := r.w.ChangeTo.sim()
				ch = &x
				next = *r.w.ChangeTo
			}
			if err := r.s.Apply(hd, ch); err != nil {
				r.fail("code rejects admissible header: %v", err)
			}
			mc := m.Clone()
			if err := mc.Apply(pool[g], mhg, m.MHP, false, 0); err != nil {
				r.fail("model: %v", err)
			}
			if ch != nil {
				if err := mc.SetParams(next.model(), next.precommit, next.cert); err != nil {
					r.fail("model rejects legal params: %v", err)
				}
			}
			r.nodes++
			compare(exFatal{r}, r.s, mc, r.hist)
			lg := map[int]uint32{}
			for a, b := range lastGen {
				lg[a] = b
			}
			if h > lg[g] {
				lg[g] = h
			}
			r.walk(mc, lg, next, depth+1)
			r.s.Load(dump)
			r.path = r.path[:len(r.path)-1]
			if r.aborted {
				return
			}
		}
	}
}

type exFatal struct{ r *exRun }

func (e exFatal) Fatalf(format string, a ...any) { e.r.fail(format, a...) }

func exWorlds() []exWorld {
	d := func(quick, thorough int) int {
		if evid.Thorough() {
			return thorough
		}
		return quick
	}
	join := paramDraw{idx: []int{0, 1, 2}, weights: []uint64{1, 1, 1}, precommit: 3, cert: 3}
	leave := paramDraw{idx: []int{1}, weights: []uint64{1}, precommit: 1, cert: 1}
	rew := paramDraw{idx: []int{0, 1}, weights: []uint64{3, 1}, precommit: 3, cert: 2}
	return []exWorld{
		{Name: "2of2-deep", Batch: 2, Weights: []uint64{1, 1}, Precommit: 2, Cert: 2, Kinds: []string{"honest", "h"}, Depth: d(10, 14)},
		{Name: "heavy-deep", Batch: 2, Weights: []uint64{1, 2}, Precommit: 3, Cert: 3, Kinds: []string{"honest", "zero"}, Depth: d(10, 14)},
		{Name: "2of2", Batch: 2, Weights: []uint64{1, 1}, Precommit: 2, Cert: 2, Kinds: []string{"honest", "zero", "hm1", "h"}, Depth: d(8, 10)},
		{Name: "2of2-standby", Batch: 2, Weights: []uint64{1, 1}, Precommit: 2, Cert: 2, Standby: true, Kinds: []string{"honest", "hm2", "h"}, Depth: d(7, 9)},
		{Name: "heavy-2-1", Batch: 2, Weights: []uint64{2, 1}, Precommit: 2, Cert: 3, Kinds: []string{"honest", "zero", "h"}, Depth: d(8, 10)},
		{Name: "3of3-low-precommit", Batch: 3, Weights: []uint64{1, 1, 1}, Precommit: 2, Cert: 2, Kinds: []string{"honest", "hm1", "h"}, Depth: d(6, 7)},
		{Name: "3of3", Batch: 3, Weights: []uint64{1, 1, 1}, Precommit: 3, Cert: 3, Standby: true, Kinds: []string{"honest", "h"}, Depth: d(6, 8)},
		{Name: "join-at-3", Batch: 3, Weights: []uint64{1, 1}, Precommit: 2, Cert: 2, Kinds: []string{"honest", "h"}, Depth: d(7, 9), ChangeAt: 3, ChangeTo: &join},
		{Name: "leave-at-4", Batch: 2, Weights: []uint64{1, 1}, Precommit: 2, Cert: 2, Kinds: []string{"honest", "zero", "h"}, Depth: d(8, 10), ChangeAt: 4, ChangeTo: &leave},
		{Name: "reweight-at-2", Batch: 2, Weights: []uint64{1, 1}, Precommit: 2, Cert: 2, Kinds: []string{"honest", "hm1", "h"}, Depth: d(8, 9), ChangeAt: 2, ChangeTo: &rew},
	}
}

func runWorld(t *testing.T, w exWorld, genesis uint32, only []exStep) *exRun {
	s := bftsim.New(w.Batch)
	defer s.Close()
	m := mbft.New(w.Batch, genesis)
	p0 := w.params()
	if err := s.Genesis(genesis, p0.sim()); err != nil {
		t.Fatalf("genesis: %v", err)
	}
	if err := m.SetParams(p0.model(), p0.precommit, p0.cert); err != nil {
		t.Fatalf("model rejects legal genesis params: %v", err)
	}
	budget := 1000
	if evid.Thorough() {
		budget = 150000
	}
	r := &exRun{t: t, w: w, s: s, budget: int64(evid.Scale(budget))}
	compare(exFatal{r}, s, m, r.hist)
	dump := s.Dump()
	for r.maxDepth = 1; r.maxDepth <= w.Depth; r.maxDepth++ {
		before := r.nodes
		r.walk(m, map[int]uint32{}, p0, 0)
		s.Load(dump)
		if r.aborted {
			r.maxDepth--
			break
		}
		// the next depth costs at least as much as this one did
		if r.nodes+(r.nodes-before) > r.budget {
			break
		}
	}
	if r.maxDepth > w.Depth {
		r.maxDepth = w.Depth
	}
	return r
}

func TestExhaustiveSmall(t *testing.T) {
	// thorough tier: the 16 world x genesis runs are spread over the shards of the run spec (VERIF_SHARD of VERIF_SHARDS)
	shard, _ := strconv.Atoi(os.Getenv("VERIF_SHARD"))
	shards, _ := strconv.Atoi(os.Getenv("VERIF_SHARDS"))
	if shards < 1 {
		shards = 1
	}
	i := -1
	for _, w := range exWorlds() {
		for _, genesis := range []uint32{0, 1000} {
			i++
			if i%shards != shard%shards {
				continue
			}
			r := runWorld(t, w, genesis, nil)
			evid.R.Label("exhaustive-nodes", r.nodes)
			evid.R.Label("exhaustive-refused-candidates", r.refused)
			evid.R.Label(fmt.Sprintf("exhaustive-complete-to-depth-%d", r.maxDepth), 1)
			evid.R.Note("exhaustive world %s genesis %d: every admissible chain up to %d headers (alphabet: generators x %v), %d headers applied, %d candidates refused", w.Name, genesis, r.maxDepth, w.Kinds, r.nodes, r.refused)
			t.Logf("world %s genesis %d: complete to depth %d, %d headers applied, %d chains, %d candidates refused as contradicting", w.Name, genesis, r.maxDepth, r.nodes, r.leaves, r.refused)
		}
	}
}

// replay of a saved enumeration failure: VERIF_REPLAY_CASE=<json> (re-walks the world; the enumeration is deterministic)
func TestReplayExhaustive(t *testing.T) {
	p := os.Getenv("VERIF_REPLAY_CASE")
	if p == "" {
		t.Skip("no VERIF_REPLAY_CASE")
	}
	b, err := os.ReadFile(p)
	if err != nil {
		t.Fatal(err)
	}
	var c struct {
		World string `json:"world"`
	}
	if json.Unmarshal(b, &c) != nil || c.World == "" {
		t.Skip("not an exhaustive case")
	}
	for _, w := range exWorlds() {
		if w.Name == c.World {
			for _, genesis := range []uint32{0, 1000} {
				runWorld(t, w, genesis, nil)
			}
		}
	}
}
