package c13

import (
	"bytes"
	"encoding/binary"
	"fmt"
	"sort"
	"strings"
	"testing"
	"time"

	"github.com/LiskHQ/lisk-engine/pkg/blockchain"
	"github.com/LiskHQ/lisk-engine/pkg/consensus/liskbft"
	"pgregory.net/rapid"

	"verifharness/evid"
	"verifharness/node"
)

func TestMain(m *testing.M) { evid.Main(m, "C13") }

type step struct {
	Kind     string // apply | delete | tiebreak | restore
	Block    *blockchain.Block
	SaveTemp bool
	Desc     string
}

func newNodeOn(fs *countFS, cfg node.Config) (*node.Node, error) {
	cfg.FS = fs
	cfg.DBPath = "db"
	return node.New(cfg)
}

func prepareFS() *countFS {
	fs := newCountFS()
	if err := fs.MemFS.MkdirAll("db", 0o755); err != nil {
		panic(err)
	}
	d, err := fs.MemFS.OpenDir("")
	if err != nil {
		panic(err)
	}
	d.Sync()
	d.Close()
	d, _ = fs.MemFS.OpenDir("db")
	d.Sync()
	d.Close()
	return fs
}

func runStep(n *node.Node, s step) error {
	switch s.Kind {
	case "apply":
		if err := n.Exec.VerifProcess(node.CloneBlock(s.Block), "peer"); err != nil {
			return err
		}
		if !bytes.Equal(n.Tip().Header.ID, s.Block.Header.ID) {
			return fmt.Errorf("block %d not appended", s.Block.Header.Height)
		}
	case "delete":
		return n.Exec.VerifDeleteBlock(n.Tip(), s.SaveTemp)
	case "restore":
		// what fastSyncer.restoreBlocks does with a block parked in the temp area: back on the chain, temp copy removed
		if err := n.Exec.VerifProcessValidated(node.CloneBlock(s.Block), false, true); err != nil {
			return err
		}
		if !bytes.Equal(n.Tip().Header.ID, s.Block.Header.ID) {
			return fmt.Errorf("block %d not restored", s.Block.Header.Height)
		}
	case "tiebreak":
		n.Exec.VerifSetLastBlockReceived(nil)
		nowish := n.Slot.GetSlotTime(n.Cfg.SlotsBehind - 1)
		_ = nowish
		late := ptrTime()
		n.Exec.VerifSetLastBlockReceived(late)
		if err := n.Exec.VerifProcess(node.CloneBlock(s.Block), "peer"); err != nil {
			return err
		}
		if !bytes.Equal(n.Tip().Header.ID, s.Block.Header.ID) {
			return fmt.Errorf("tie break did not replace the tip")
		}
	}
	return nil
}

func dumpEqual(a, b map[string]string) bool {
	if len(a) != len(b) {
		return false
	}
	for k, v := range a {
		if w, ok := b[k]; !ok || w != v {
			return false
		}
	}
	return true
}

func dumpDiff(a, b map[string]string) string {
	var keys []string
	for k := range a {
		if w, ok := b[k]; !ok || w != a[k] {
			keys = append(keys, k)
		}
	}
	for k := range b {
		if _, ok := a[k]; !ok {
			keys = append(keys, k)
		}
	}
	sort.Strings(keys)
	var sb strings.Builder
	for i, k := range keys {
		if i > 10 {
			sb.WriteString("…")
			break
		}
		_, ia := a[k]
		_, ib := b[k]
		fmt.Fprintf(&sb, "%x(ref=%v,got=%v) ", k, ia, ib)
	}
	return sb.String()
}

// structural consistency of a reopened node (independent of the reference dumps)
func checkStructure(n *node.Node) error {
	tip := n.Tip().Header
	da := n.Chain.DataAccess()
	F := n.Finalized()
	if F > tip.Height {
		return fmt.Errorf("finalized height %d above tip %d", F, tip.Height)
	}
	// highest height index = tip; no index above
	if _, err := da.GetBlockByHeight(tip.Height + 1); err == nil {
		return fmt.Errorf("height index above the tip (%d)", tip.Height+1)
	}
	diffs := map[uint32]bool{}
	for _, kv := range n.Dump() {
		if len(kv.K) == 5 && kv.K[0] == 51 {
			diffs[binary.BigEndian.Uint32(kv.K[1:])] = true
		}
	}
	for h := range diffs {
		if h > tip.Height {
			return fmt.Errorf("state diff for height %d above tip %d (diff without its block)", h, tip.Height)
		}
	}
	for h := F + 1; h <= tip.Height; h++ {
		b, err := da.GetBlockByHeight(h)
		if err != nil {
			return fmt.Errorf("height %d (finalized %d, tip %d): block not retrievable: %v", h, F, tip.Height, err)
		}
		if err := b.Validate(); err != nil {
			return fmt.Errorf("height %d: stored block does not validate: %v", h, err)
		}
		if !diffs[h] {
			return fmt.Errorf("height %d above finality has no state diff (cannot be reverted)", h)
		}
	}
	v, err := liskbft.VerifDumpVotes(n.Store())
	if err != nil {
		return fmt.Errorf("BFT votes unreadable: %v", err)
	}
	if len(v.Blocks) > 0 && v.Blocks[0].Height != tip.Height {
		return fmt.Errorf("consensus store newest block info is height %d but the tip is %d", v.Blocks[0].Height, tip.Height)
	}
	if len(v.Blocks) == 0 && tip.Height != n.Cfg.GenesisHeight {
		return fmt.Errorf("consensus store empty but tip is %d", tip.Height)
	}
	return nil
}

func runCase(t *rapid.T) {
	nVal := rapid.IntRange(1, 4).Draw(t, "validators")
	cfg := node.Config{Genesis: node.EqualGenesis(nVal), BatchSize: nVal + 1, KeepEvents: rapid.SampledFrom([]int{-1, 2, 300, node.KeepEventsNone}).Draw(t, "keepEvents"),
		// a small block cache is drained by a few consecutive removals: the removal that empties it refills it from the database
		// (a branch of RemoveBlock of its own; seeded C13-v hid a second synced write there). 515 = the engine's default.
		MaxBlockCache: rapid.SampledFrom([]int{2, 3, 515, 515}).Draw(t, "cache")}
	bigBlocks := rapid.IntRange(0, 2).Draw(t, "bigBlocks") == 0
	if bigBlocks {
		cfg.MaxTxLength = 256 * 1024 // a chain configured for large payloads: one block's batch spans several WAL blocks
	}
	// ---- reference run (crash-free): build the history and learn per-step dumps and operation counts
	fs0 := prepareFS()
	n0, err := newNodeOn(fs0, cfg)
	if err != nil {
		t.Fatalf("node: %v", err)
	}
	cfg.GenesisTS = n0.Cfg.GenesisTS
	opts := node.GenOpts{MaxTxs: 3, AllowChange: true, AllowAgg: true, AllowStandby: true, AllowRotate: true}
	nSteps := rapid.IntRange(3, 12).Draw(t, "steps")
	var steps []step
	var dumps []map[string]string // dumps[i] = state before step i; dumps[len] = final
	var counts []int
	var kinds [][]string
	flagsPer := []map[string]bool{}
	parked := map[uint32]*blockchain.Block{} // blocks currently held in the temp area, by height
	for i := 0; i < nSteps; i++ {
		dumps = append(dumps, node.NormDump(n0.Dump()))
		tip := n0.Tip()
		var s step
		kind := rapid.SampledFrom([]string{"apply", "apply", "apply", "delete", "tiebreak", "tiebreak"}).Draw(t, "kind")
		fl := map[string]bool{}
		if cfg.MaxBlockCache < 10 && len(steps) > 0 && steps[len(steps)-1].Kind == "delete" && rapid.IntRange(0, 2).Draw(t, "deleteOn") != 0 {
			kind = "delete" // removals in a row (a rollback), so that a small cache runs empty
		}
		if pb := parked[tip.Header.Height+1]; pb != nil && bytes.Equal(pb.Header.PreviousBlockID, tip.Header.ID) && rapid.IntRange(0, 3).Draw(t, "restoreParked") != 0 {
			kind = "restore"
		}
		if kind == "delete" && (tip.Header.Height == 0 || tip.Header.Height <= n0.Finalized()) {
			kind = "apply"
		}
		if kind == "tiebreak" {
			if tip.Header.Height == 0 || tip.Header.Height <= n0.Finalized() || n0.SlotOf(tip.Header.Timestamp) >= n0.Cfg.SlotsBehind {
				kind = "apply"
			}
		}
		if n0.SlotOf(tip.Header.Timestamp) >= n0.Cfg.SlotsBehind-3 && kind == "apply" {
			kind = "delete"
			if tip.Header.Height <= n0.Finalized() {
				break
			}
		}
		switch kind {
		case "apply":
			sp := n0.DrawSpec(t, opts, fl)
			if bigBlocks && rapid.Bool().Draw(t, "big") {
				sp.Txs = nil
				// large in BYTES (3-12 transactions of 4-13 KB: one block batch spans several WAL blocks; seeded change C13-b split batches
				// above 32 KiB), large in NUMBER of records (65-140 small transactions; seeded change C13-w wrote the bodies of blocks with
				// more than 64 transactions in a synced write of their own), or both
				switch rapid.SampledFrom([]string{"bytes", "bytes", "count", "both"}).Draw(t, "bigKind") {
				case "bytes":
					for j := 0; j < rapid.IntRange(3, 12).Draw(t, "bigTxs"); j++ {
						sp.Txs = append(sp.Txs, node.MakeTx(10+j%4, uint64(i*100+j), 1000, node.TxOK, 1, rapid.IntRange(4000, 13000).Draw(t, "bigPad")))
					}
				case "count":
					cnt := rapid.IntRange(65, 140).Draw(t, "manyTxs")
					for j := 0; j < cnt; j++ {
						sp.Txs = append(sp.Txs, node.MakeTx(10+j%4, uint64(i*1000+j), 1000, node.TxOK, 1, 0))
					}
					fl["many-transactions"] = true
				default:
					cnt := rapid.IntRange(65, 140).Draw(t, "manyTxs")
					pad := rapid.IntRange(400, 900).Draw(t, "manyPad")
					for j := 0; j < cnt; j++ {
						sp.Txs = append(sp.Txs, node.MakeTx(10+j%4, uint64(i*1000+j), 1000, node.TxOK, 1, pad))
					}
					fl["many-transactions"] = true
				}
				fl["big-batch"] = true
				fl["txs"] = true
			}
			b, err := n0.Build(sp)
			if err != nil {
				t.Fatalf("build: %v", err)
			}
			s = step{Kind: "apply", Block: b, Desc: fmt.Sprintf("apply h=%d txs=%d assets=%d next=%v agg=%v", b.Header.Height, len(b.Transactions), len(b.Assets), sp.Script.Next != nil && !sp.NoScript, !b.Header.AggregateCommit.Empty())}
		case "delete":
			s = step{Kind: "delete", SaveTemp: rapid.Bool().Draw(t, "saveTemp"), Desc: fmt.Sprintf("delete h=%d", tip.Header.Height)}
			s.Desc += fmt.Sprintf(" saveTemp=%v", s.SaveTemp)
			if s.SaveTemp {
				parked[tip.Header.Height] = tip
			}
		case "restore":
			pb := parked[tip.Header.Height+1]
			delete(parked, tip.Header.Height+1)
			s = step{Kind: "restore", Block: pb, Desc: fmt.Sprintf("restore parked h=%d txs=%d (removeTemp)", pb.Header.Height, len(pb.Transactions))}
		case "tiebreak":
			sib, ok := buildTieBreak(t, n0)
			if !ok {
				sp := n0.DrawSpec(t, opts, fl)
				b, err := n0.Build(sp)
				if err != nil {
					t.Fatalf("build: %v", err)
				}
				s = step{Kind: "apply", Block: b, Desc: fmt.Sprintf("apply h=%d", b.Header.Height)}
			} else {
				s = step{Kind: "tiebreak", Block: sib, Desc: fmt.Sprintf("tie break replaces h=%d", tip.Header.Height)}
			}
		}
		fs0.begin(-1)
		err := runStep(n0, s)
		c, log := fs0.end()
		if err != nil {
			t.Fatalf("reference run: step %d (%s) failed: %v", i, s.Desc, err)
		}
		steps = append(steps, s)
		counts = append(counts, c)
		kinds = append(kinds, log)
		flagsPer = append(flagsPer, fl)
	}
	dumps = append(dumps, node.NormDump(n0.Dump()))
	n0.Close()
	if len(steps) == 0 {
		return
	}
	var hist []string
	for i, s := range steps {
		hist = append(hist, fmt.Sprintf("%d:%s [fs ops %v]", i, s.Desc, kinds[i]))
	}
	// ---- crash runs: every crash point of one target step
	j := rapid.IntRange(0, len(steps)-1).Draw(t, "target")
	if rapid.Bool().Draw(t, "preferRemoval") { // half of the cases target a delete / tie-break step when the history has one
		var cand []int
		for i, s := range steps {
			if s.Kind != "apply" {
				cand = append(cand, i)
			}
		}
		if len(cand) > 0 {
			j = rapid.SampledFrom(cand).Draw(t, "targetRemoval")
		}
	}
	K := counts[j]
	torn := rapid.Bool().Draw(t, "tornTail")
	_ = torn
	// A tie break is remove + add: the state between them (old tip removed, sibling not yet added) is a legitimate landing point.
	// It is computed on a third node WITHOUT the tie-break code: replay the history up to the step and delete the tip the way a delete
	// step does. (Until round 8 any database that was neither "before" nor "after" was accepted as "between" after a structural check
	// that reads through the engine's own getters: orphan records left by a torn removal would have passed - found by the oracle audit.)
	var between map[string]string
	if steps[j].Kind == "tiebreak" {
		fsb := prepareFS()
		nb, err := newNodeOn(fsb, cfg)
		if err != nil {
			t.Fatalf("node: %v", err)
		}
		for i := 0; i < j; i++ {
			if err := runStep(nb, steps[i]); err != nil {
				t.Fatalf("replay step %d for the between-state: %v\n%s", i, err, strings.Join(hist, "\n"))
			}
		}
		if err := nb.Exec.VerifDeleteBlock(nb.Tip(), false); err != nil {
			t.Fatalf("between-state: delete of the tip failed: %v\n%s", err, strings.Join(hist, "\n"))
		}
		between = node.NormDump(nb.Dump())
		nb.Close()
	}
	for k := 0; k <= K; k++ {
		fs := prepareFS()
		n, err := newNodeOn(fs, cfg)
		if err != nil {
			t.Fatalf("node: %v", err)
		}
		for i := 0; i < j; i++ {
			if err := runStep(n, steps[i]); err != nil {
				t.Fatalf("replay step %d: %v\n%s", i, err, strings.Join(hist, "\n"))
			}
		}
		fs.begin(k)
		stepErr := runStep(n, steps[j])
		fs.end()
		// the process dies: nothing after the crash point is durable
		func() {
			defer func() { recover() }()
			n.Close()
		}()
		fs.MemFS.ResetToSyncedState()
		fs.MemFS.SetIgnoreSyncs(false)
		n2, err := newNodeOn(fs, cfg)
		if err != nil {
			t.Fatalf("crash at fs-op %d/%d of step %d (%s): node does not restart: %v\n%s", k, K, j, steps[j].Desc, err, strings.Join(hist, "\n"))
		}
		got := node.NormDump(n2.Dump())
		allowed := []map[string]string{dumps[j], dumps[j+1]}
		names := []string{"before", "after"}
		if steps[j].Kind == "tiebreak" {
			allowed = append(allowed, between)
			names = append(names, "between")
		}
		landed := ""
		for i, a := range allowed {
			if a != nil && dumpEqual(a, got) {
				landed = names[i]
			}
		}
		if landed == "" {
			extra := ""
			if between != nil {
				extra = "\nvs between (tip removed): " + dumpDiff(between, got)
			}
			t.Fatalf("crash at fs-op %d/%d of step %d (%s; step err=%v): database is neither the state before nor after the step\nvs before: %s\nvs after: %s%s\n%s",
				k, K, j, steps[j].Desc, stepErr, dumpDiff(dumps[j], got), dumpDiff(dumps[j+1], got), extra, strings.Join(hist, "\n"))
		}
		if err := checkStructure(n2); err != nil {
			t.Fatalf("crash at fs-op %d/%d of step %d (%s): landed %s but %v\n%s", k, K, j, steps[j].Desc, landed, err, strings.Join(hist, "\n"))
		}
		// the node continues from where it landed
		if err := n2.RebuildApp(); err != nil {
			t.Fatalf("rebuild app: %v", err)
		}
		if n2.SlotOf(n2.Tip().Header.Timestamp) < n2.Cfg.SlotsBehind {
			if _, err := n2.Apply(node.Spec{Script: node.Script{EvBefore: 1}}); err != nil {
				t.Fatalf("crash at fs-op %d/%d of step %d (%s): landed %s, but the next valid block is rejected: %v\n%s", k, K, j, steps[j].Desc, landed, err, strings.Join(hist, "\n"))
			}
		}
		n2.Close()
		inside := k > 0 && k < K
		records := len(flagsPer[j])
		if flagsPer[j]["big-batch"] {
			evid.R.Label("target-step-big-batch", 1)
		}
		if flagsPer[j]["many-transactions"] {
			evid.R.Label("target-step-more-than-64-transactions", 1)
		}
		evid.R.Case(fmt.Sprintf("%s|target=%d|k=%d", strings.Join(hist, "|"), j, k), inside && (records >= 2 || steps[j].Kind != "apply"), func() any {
			return map[string]any{"kind": "crash", "history": hist, "targetStep": j, "crashPoint": k, "fsOpsInStep": K, "landed": landed}
		}, "crash", "step-"+steps[j].Kind, "landed-"+landed)
	}
	evid.R.Label("histories", 1)
	if cfg.MaxBlockCache < 10 && steps[j].Kind == "delete" {
		run := 0
		for i := j; i >= 0 && steps[i].Kind == "delete"; i-- {
			run++
		}
		if run >= cfg.MaxBlockCache {
			evid.R.Label("target-removal-drains-the-block-cache", 1)
		}
	}
}

func TestCrashPoints(t *testing.T) { rapid.Check(t, runCase) }

func ptrTime() *time.Time {
	now := time.Now()
	return &now
}

func buildTieBreak(t *rapid.T, n *node.Node) (*blockchain.Block, bool) {
	return n.BuildTieBreakSibling(rapid.Uint32Range(100, 1000).Draw(t, "salt"))
}
