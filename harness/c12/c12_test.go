// Package c12 checks property C12: reads through the staged store (diffdb) equal the database with the staged writes applied,
// snapshots restore the staged state, Commit writes exactly the final state and its diff reverts byte for byte, and the
// database's own range / prefix scans return exactly the keys inside the bounds, in order.
//
// Oracle: verifharness/model/kv (a plain map sorted on every query). Two rapid state machines:
//   - TestStagedStoreMachine: diffdb root view + WithPrefix children/grandchildren over a real in-memory pebble DB;
//   - TestDBMachine: db.DB / db.Reader / db.Batch / batchdb directly.
//
// In 70% of the histories the slices handed to the store follow an argument / result aliasing discipline (alias_test.go): shared
// value slices, windows of shared buffers, read results fed into later writes, caller re-use of key buffers and Get results.
//
// Known defects (S7, S8, S9 of DESIGN §6) are probed once per process with their minimal inputs (defects.go); while a defect
// is present AND listed as known, the generators avoid its trigger by construction so that the search continues behind it.
package c12

import (
	"bytes"
	"fmt"
	"sort"
	"strings"
	"testing"

	"github.com/LiskHQ/lisk-engine/pkg/db"
	"github.com/LiskHQ/lisk-engine/pkg/db/batchdb"
	"github.com/LiskHQ/lisk-engine/pkg/db/diffdb"
	"pgregory.net/rapid"

	"verifharness/evid"
	"verifharness/model/kv"
)

func TestMain(m *testing.M) { evid.Main(m, "C12") }

// ---------------------------------------------------------------------------------------------------------------- generators

// Four symbols: lowest byte, its neighbour, a middle byte and 0xFF (so that 0xFF-terminated keys/prefixes and keys that are
// prefixes of each other are frequent); lengths 0..4.
var alpha = []byte{0x00, 0x01, 0x61, 0xff}

var lenWeights = []int{0, 1, 1, 1, 2, 2, 2, 2, 3, 3, 4}

func genKey(t *rapid.T, label string) []byte {
	n := rapid.SampledFrom(lenWeights).Draw(t, label+"-len")
	k := make([]byte, n)
	for i := range k {
		k[i] = rapid.SampledFrom(alpha).Draw(t, label+"-b")
	}
	return k
}

func genValue(t *rapid.T, label string) []byte {
	n := rapid.IntRange(0, 3).Draw(t, label+"-len")
	v := make([]byte, n)
	for i := range v {
		v[i] = rapid.SampledFrom([]byte{0x00, 0x2a, 0xff}).Draw(t, label+"-b")
	}
	return v
}

// pickKey draws a key for an operation: mostly related to keys that exist (exact, proper prefix, extension), else fresh.
func pickKey(t *rapid.T, existing []string, label string) []byte { return pickKeyB(t, existing, label, 3, 9) }

// pickKeyB: fresh with probability fresh/10; otherwise an existing key, varied when the second draw (0..vmax) is <= 3.
func pickKeyB(t *rapid.T, existing []string, label string, fresh, vmax int) []byte {
	if len(existing) == 0 || rapid.IntRange(0, 9).Draw(t, label+"-fresh") < fresh {
		return genKey(t, label)
	}
	k := []byte(rapid.SampledFrom(existing).Draw(t, label+"-of"))
	switch rapid.IntRange(0, vmax).Draw(t, label+"-var") {
	case 0, 1: // proper prefix
		if len(k) > 0 {
			k = k[:rapid.IntRange(0, len(k)-1).Draw(t, label+"-cut")]
		}
	case 2: // extension
		if len(k) < 4 {
			k = append(append([]byte{}, k...), rapid.SampledFrom(alpha).Draw(t, label+"-ext"))
		}
	case 3: // neighbour: last byte changed
		if len(k) > 0 {
			k = append([]byte{}, k...)
			k[len(k)-1] = rapid.SampledFrom(alpha).Draw(t, label+"-nb")
		}
	}
	return k
}

var limits = []int{-1, -1, -1, 1, 1, 2, 5}

func hx(b []byte) string { return fmt.Sprintf("%x", b) }

func showKVs(kvs []db.KeyValue) string {
	var sb strings.Builder
	sb.WriteString("[")
	for i, e := range kvs {
		if i > 0 {
			sb.WriteString(" ")
		}
		fmt.Fprintf(&sb, "%x=%x", e.Key(), e.Value())
	}
	sb.WriteString("]")
	return sb.String()
}

func showModel(kvs []kv.KV) string {
	var sb strings.Builder
	sb.WriteString("[")
	for i, e := range kvs {
		if i > 0 {
			sb.WriteString(" ")
		}
		fmt.Fprintf(&sb, "%x=%x", e.K, e.V)
	}
	sb.WriteString("]")
	return sb.String()
}

func sameKVs(got []db.KeyValue, want []kv.KV) bool {
	if len(got) != len(want) {
		return false
	}
	for i := range got {
		if string(got[i].Key()) != want[i].K || string(got[i].Value()) != want[i].V {
			return false
		}
	}
	return true
}

func sameKeys(got [][]byte, want []kv.KV) bool {
	if len(got) != len(want) {
		return false
	}
	for i := range got {
		if string(got[i]) != want[i].K {
			return false
		}
	}
	return true
}

func cp(b []byte) []byte { return append([]byte{}, b...) }

func allFF(b []byte) bool {
	for _, x := range b {
		if x != 0xff {
			return false
		}
	}
	return true
}

// dump reads the whole database (forward full iteration, cross-checked by point reads).
func dump(d *db.DB) kv.Map {
	m := kv.Map{}
	for _, e := range d.Iterate(nil, -1, false) {
		m[string(e.Key())] = string(e.Value())
	}
	return m
}

func newDBFrom(m kv.Map) *db.DB {
	d, err := db.NewInMemoryDB()
	if err != nil {
		panic(err)
	}
	if len(m) > 0 {
		b := d.NewBatch()
		for k, v := range m {
			b.Set([]byte(k), []byte(v))
		}
		d.Write(b)
	}
	return d
}

func showMap(m kv.Map) string { return showModel(m.Sorted()) }

// Database instances are recycled: opening a pebble instance costs more than everything else in a case, and — on the tree as
// given — db.iterateRange never closes its iterator, which pins the memtable arena (C memory) of every instance it was used on
// (~90 KB per case if each case had its own instance). An instance serves up to `recycleAfter` refills (more would let superseded
// versions and tombstones pile up in the memtable and slow every scan), then it is closed and replaced.
const recycleAfter = 32

type pooledDB struct {
	d    *db.DB
	uses int
}

// scratch twins (only read through full forward iteration, written through batches) and the databases under test
var scratch [2]pooledDB
var mainStaged, mainDB pooledDB

func (p *pooledDB) with(m kv.Map) *db.DB {
	if p.d != nil && p.uses >= recycleAfter {
		p.d.Close() // "leaked iterators" error expected on the unrepaired tree
		p.d = nil
	}
	if p.d == nil {
		p.d = newDBFrom(kv.Map{})
		p.uses = 0
	}
	p.uses++
	d := p.d
	b := d.NewBatch()
	for _, e := range d.Iterate(nil, -1, false) {
		if _, keep := m[string(e.Key())]; !keep {
			b.Del(e.Key())
		}
	}
	for k, v := range m {
		b.Set([]byte(k), []byte(v))
	}
	d.Write(b)
	if got := dump(d); !got.Equal(m) {
		panic(fmt.Sprintf("harness: database refill failed: %s, wanted %s", showMap(got), showMap(m)))
	}
	return d
}

func scratchFrom(i int, m kv.Map) *db.DB { return scratch[i].with(m) }

// ------------------------------------------------------------------------------------------------- staged store state machine

var rootPrefixes = [][]byte{{}, {0x00}, {0x00}, {0x01}, {0x61}, {0x61}, {0xff}, {0x61, 0xff}, {0x00, 0xff}, {0xff, 0xff}}

type view struct {
	chain [][]byte // prefixes applied by successive WithPrefix calls starting from the root
	full  string   // root prefix + chain
	db    *diffdb.Database
	id    int // logical view (stable when the handle is re-derived)
	h     int // handle number (a new one for every diffdb.Database object)
}

type machine struct {
	t      *rapid.T
	d      *db.DB
	rootP  []byte
	model  *kv.Store
	views  []*view
	nextID int
	nextH  int
	ops    []string // canonical op list (case identity)
	hist   []string // ops with results (failure message)
	diffs  []*diffdb.Diff
	dumps  []kv.Map // database contents before commit i
	// classification
	lastWriter      map[string]int // full key -> id of the view that last wrote/deleted it in the current overlay
	ntDeleteLimited bool
	ntSibling       bool
	ntRestoreRead   bool
	restored        bool
	nOps            map[string]int
	endedOnKnown    bool
	al              aliasing // argument / result aliasing discipline (alias_test.go)
}

func (m *machine) history() string {
	return fmt.Sprintf("root prefix %x, initial db %s\n  %s", m.rootP, showMap(m.dumps0()), strings.Join(m.hist, "\n  "))
}

func (m *machine) dumps0() kv.Map {
	if len(m.dumps) > 0 {
		return m.dumps[0]
	}
	return m.model.Committed
}

func (m *machine) log(op, res string) {
	m.ops = append(m.ops, op)
	m.hist = append(m.hist, op+" -> "+res)
}

// fail reports a mismatch unless it carries the signature of a listed known finding (then the case ends quietly).
func (m *machine) fail(sig string, format string, a ...any) {
	if sig != "" && evid.R.KnownFinding(sig) {
		m.endedOnKnown = true
		evid.R.Label("case-ended-on-known-finding", 1)
		m.t.Skip("known finding " + sig)
	}
	m.t.Fatalf("%s\n%s", fmt.Sprintf(format, a...), m.history())
}

func (m *machine) derive(chain [][]byte) *view {
	v := &view{chain: chain, id: m.nextID, h: m.nextH}
	m.nextID++
	m.nextH++
	dbv := m.views[0].db
	full := string(m.rootP)
	for _, p := range chain {
		dbv = dbv.WithPrefix(cp(p))
		full += string(p)
	}
	v.db, v.full = dbv, full
	return v
}

// freshRoot starts a new staged store over the current database contents (as the node does for every block) and re-derives
// the prefix views from it (as statemachine contexts do with GetStore on every call).
func (m *machine) freshRoot(newStore bool) {
	old := append([]*view{}, m.views...)
	if newStore {
		m.views = []*view{{db: diffdb.New(m.d, cp(m.rootP)), full: string(m.rootP), id: m.nextID, h: m.nextH}}
		m.nextID++
		m.nextH++
		m.lastWriter = map[string]int{}
	} else {
		m.views = m.views[:1]
	}
	for _, v := range old[1:] {
		m.model.DropHandle(v.h)
		nv := m.derive(v.chain)
		nv.id = v.id // same logical view (same prefix), new handle
		m.views = append(m.views, nv)
	}
}

func (m *machine) existingIn(v *view) []string {
	seen := map[string]bool{}
	var out []string
	for _, mm := range []kv.Map{m.model.Staged, m.model.Committed} {
		for _, e := range mm.Sorted() {
			if strings.HasPrefix(e.K, v.full) && !seen[e.K] {
				seen[e.K] = true
				out = append(out, e.K[len(v.full):])
			}
		}
	}
	return out
}

func (m *machine) pickView() *view {
	// bias towards non-root views when they exist
	i := rapid.IntRange(0, len(m.views)-1).Draw(m.t, "view")
	return m.views[i]
}

func (v *view) name() string { return fmt.Sprintf("v%d<%x>", v.id, v.full) }

// classifyScan updates the non-trivial flags for a scan over the full keys selected by in.
func (m *machine) classifyScan(v *view, in func(full string) bool, limit int) {
	if limit >= 0 {
		for _, k := range m.model.StagedDeleted() {
			if in(k) {
				m.ntDeleteLimited = true
				break
			}
		}
	}
	if len(v.chain) > 0 {
		for k, w := range m.lastWriter {
			if w != v.id && in(k) {
				m.ntSibling = true
				break
			}
		}
	}
	if m.restored {
		m.ntRestoreRead = true
	}
}

// s8Trigger: one of the first `limit` committed keys inside the bounds (scan order) is deleted in the staged state.
func (m *machine) s8Trigger(in func(full string) bool, limit int, reverse bool) bool {
	if limit < 0 {
		return false
	}
	for _, e := range m.model.Committed.Select(in, limit, reverse) {
		if _, ok := m.model.Staged[e.K]; !ok {
			return true
		}
	}
	return false
}

// s9Trigger (for a scan of stored keys in [pstart,pend], reverse): upperBound(pend) does not exist, or a stored key at or
// above pstart extends pend.
func s9Trigger(stored kv.Map, pstart, pend string, reverse bool) bool {
	if !reverse {
		return false
	}
	if allFF([]byte(pend)) {
		return true
	}
	for k := range stored {
		if len(k) > len(pend) && strings.HasPrefix(k, pend) && k >= pstart {
			return true
		}
	}
	return false
}

func (m *machine) opNewView() {
	if len(m.views) >= 6 {
		m.t.Skip("enough views")
	}
	parent := m.pickView()
	p := genKey(m.t, "vp")
	if len(p) > 2 {
		p = p[:2]
	}
	chain := append(append([][]byte{}, parent.chain...), p)
	v := m.derive(chain)
	// derive exactly as the caller would: from the parent handle
	pa, psrc := m.al.key(m.t, p, "vp")
	v.db = parent.db.WithPrefix(pa)
	m.views = append(m.views, v)
	m.log(fmt.Sprintf("%s = %s.WithPrefix(%x)%s", v.name(), parent.name(), p, note(psrc)), "ok")
	m.afterCall("WithPrefix")
	m.nOps["withprefix"]++
	evid.R.Label(fmt.Sprintf("view-depth-%d", len(chain)), 1)
}

func (m *machine) opSet() {
	v := m.pickView()
	k, ka, kdesc := m.pickKeyArg(v, "k", 3, 9)
	va, vdesc := m.valueArg(v.full + string(k))
	val := cp(va) // the value is what the slice holds at the time of the call
	_, inStaged := m.model.Staged[v.full+string(k)]
	_, inDB := m.model.Committed[v.full+string(k)]
	v.db.Set(ka, va)
	m.model.Set(v.full, string(k), string(val))
	m.lastWriter[v.full+string(k)] = v.id
	op := fmt.Sprintf("%s.Set(%x,%x)%s", v.name(), k, val, note(kdesc, vdesc))
	m.log(op, "ok")
	m.afterCall(op)
	m.nOps["set"]++
	evid.R.Label(fmt.Sprintf("set-staged=%v-indb=%v", inStaged, inDB), 1)
}

func (m *machine) opDel() {
	v := m.pickView()
	k, ka, kdesc := m.pickKeyArg(v, "k", 1, 19)
	_, inStaged := m.model.Staged[v.full+string(k)]
	_, inDB := m.model.Committed[v.full+string(k)]
	v.db.Del(ka)
	m.model.Del(v.full, string(k))
	m.al.onDel(v.full + string(k))
	m.lastWriter[v.full+string(k)] = v.id
	op := fmt.Sprintf("%s.Del(%x)%s", v.name(), k, note(kdesc))
	m.log(op, "ok")
	m.afterCall(op)
	m.nOps["del"]++
	evid.R.Label(fmt.Sprintf("del-staged=%v-indb=%v", inStaged, inDB), 1)
}

func (m *machine) opGet() {
	v := m.pickView()
	k, ka, kdesc := m.pickKeyArg(v, "k", 2, 12)
	has := rapid.Bool().Draw(m.t, "has")
	want, wok := m.model.Get(v.full, string(k))
	if m.restored {
		m.ntRestoreRead = true
	}
	if has {
		got := v.db.Has(ka)
		op := fmt.Sprintf("%s.Has(%x)%s", v.name(), k, note(kdesc))
		m.log(op, fmt.Sprint(got))
		m.afterCall(op)
		if got != wok {
			m.fail("", "Has(%x) through %s = %v, model %v", k, v.name(), got, wok)
		}
		m.nOps["has"]++
		return
	}
	got, ok := v.db.Get(ka)
	op := fmt.Sprintf("%s.Get(%x)%s", v.name(), k, note(kdesc))
	m.log(op, fmt.Sprintf("%x,%v", got, ok))
	if ok != wok || (ok && string(got) != want) {
		m.fail("", "Get(%x) through %s = (%x,%v), model (%x,%v)", k, v.name(), got, ok, want, wok)
	}
	if ok {
		m.holdGet(v, k, got, op)
	}
	m.afterCall(op)
	m.nOps["get"]++
	evid.R.Label(fmt.Sprintf("get-found=%v", ok), 1)
}

func (m *machine) opRange() {
	v := m.pickView()
	ex := m.existingIn(v)
	start := pickKey(m.t, ex, "start")
	end := pickKey(m.t, ex, "end")
	if rapid.IntRange(0, 9).Draw(m.t, "order") < 8 && bytes.Compare(start, end) > 0 {
		start, end = end, start
	}
	limit := rapid.SampledFrom(limits).Draw(m.t, "limit")
	reverse := rapid.Bool().Draw(m.t, "reverse")
	in := func(full string) bool {
		if !strings.HasPrefix(full, v.full) {
			return false
		}
		r := full[len(v.full):]
		return string(start) <= r && r <= string(end)
	}
	s8 := m.s8Trigger(in, limit, reverse)
	if s8 && avoid(sigS8) {
		evid.R.Excluded(1)
		limit = -1
		s8 = false
	}
	s9 := s9Trigger(m.model.Committed, v.full+string(start), v.full+string(end), reverse)
	if s9 && avoid(sigS9) {
		evid.R.Excluded(1)
		reverse = false
		s9 = false
		if s8 = m.s8Trigger(in, limit, reverse); s8 && avoid(sigS8) {
			limit = -1
			s8 = false
		}
	}
	m.classifyScan(v, in, limit)
	// bound arguments: in the shared key buffer they lie next to each other, half of the time end before start
	var sa, ea []byte
	var ssrc, esrc string
	if m.al.on && rapid.Bool().Draw(m.t, "end-first") {
		ea, esrc = m.al.key(m.t, end, "end")
		sa, ssrc = m.al.key(m.t, start, "start")
		esrc += "<start"
	} else {
		sa, ssrc = m.al.key(m.t, start, "start")
		ea, esrc = m.al.key(m.t, end, "end")
	}
	got := v.db.Range(sa, ea, limit, reverse)
	want := m.model.Range(v.full, string(start), string(end), limit, reverse)
	op := fmt.Sprintf("%s.Range(%x,%x,%d,rev=%v)%s", v.name(), start, end, limit, reverse, note(kd("start", ssrc), kd("end", esrc)))
	m.log(op, showKVs(got))
	m.afterCall(op)
	m.nOps["range"]++
	evid.R.Label(fmt.Sprintf("range-limit=%v-rev=%v-results=%s", limit >= 0, reverse, sizeClass(len(want))), 1)
	if bytes.Compare(start, end) > 0 {
		evid.R.Label("range-start>end", 1)
	}
	if !sameKVs(got, want) {
		sig := ""
		switch {
		case s9:
			sig = sigS9
		case s8:
			sig = sigS8
		}
		m.fail(sig, "%s = %s, model %s", op, showKVs(got), showModel(want))
	}
	m.holdScan(v, pairs(got), op)
}

func kd(name, src string) string {
	if src == "" {
		return ""
	}
	return name + "=" + src
}

func pairs(kvs []db.KeyValue) []kvPair {
	out := make([]kvPair, len(kvs))
	for i, e := range kvs {
		out[i] = kvPair{e.Key(), e.Value()}
	}
	return out
}

func sizeClass(n int) string {
	switch {
	case n == 0:
		return "0"
	case n == 1:
		return "1"
	case n <= 4:
		return "2-4"
	}
	return "5+"
}

func (m *machine) opIterate() {
	v := m.pickView()
	if len(v.full) > 0 && avoid(sigS7) {
		evid.R.Excluded(1)
		m.t.Skip("S7 known: Iterate through a prefixed view")
	}
	ex := m.existingIn(v)
	var prefix []byte
	switch rapid.IntRange(0, 4).Draw(m.t, "pk") {
	case 0:
		prefix = []byte{}
	default:
		prefix = pickKey(m.t, ex, "prefix")
		if len(prefix) > 2 && rapid.Bool().Draw(m.t, "short") {
			prefix = prefix[:rapid.IntRange(0, 2).Draw(m.t, "plen")]
		}
	}
	limit := rapid.SampledFrom(limits).Draw(m.t, "limit")
	reverse := rapid.Bool().Draw(m.t, "reverse")
	in := func(full string) bool {
		return strings.HasPrefix(full, v.full) && strings.HasPrefix(full[len(v.full):], string(prefix))
	}
	s8 := m.s8Trigger(in, limit, reverse)
	if s8 && avoid(sigS8) {
		evid.R.Excluded(1)
		limit = -1
		s8 = false
	}
	m.classifyScan(v, in, limit)
	pa, psrc := m.al.key(m.t, prefix, "prefix")
	got := v.db.Iterate(pa, limit, reverse)
	want := m.model.Iterate(v.full, string(prefix), limit, reverse)
	op := fmt.Sprintf("%s.Iterate(%x,%d,rev=%v)%s", v.name(), prefix, limit, reverse, note(kd("prefix", psrc)))
	m.log(op, showKVs(got))
	m.afterCall(op)
	m.nOps["iterate"]++
	evid.R.Label(fmt.Sprintf("iterate-limit=%v-rev=%v-results=%s", limit >= 0, reverse, sizeClass(len(want))), 1)
	if !sameKVs(got, want) {
		sig := ""
		switch {
		case len(v.full) > 0 && present.S7:
			sig = sigS7
		case s8:
			sig = sigS8
		}
		m.fail(sig, "%s = %s, model %s", op, showKVs(got), showModel(want))
	}
	m.holdScan(v, pairs(got), op)
}

func (m *machine) root() *diffdb.Database { return m.views[0].db }

// snapView: snapshots are taken/restored through the root view (the only use in the engine: statemachine.ExecuteTransaction);
// on a tree where a restore is seen by every handle (S10 repaired) any view may be used.
func (m *machine) snapView(label string, needLive bool) *view {
	var cands []*view
	for _, v := range m.views {
		if (v == m.views[0] || !present.S10) && (!needLive || len(m.model.Live(v.h)) > 0) {
			cands = append(cands, v)
		}
	}
	if len(cands) == 0 {
		return nil
	}
	if cands[0] == m.views[0] && rapid.Bool().Draw(m.t, label+"-root") {
		return cands[0]
	}
	return cands[rapid.IntRange(0, len(cands)-1).Draw(m.t, label)]
}

func (m *machine) opSnapshot() {
	if m.model.LiveTotal() >= 4 {
		m.t.Skip("enough snapshots")
	}
	v := m.snapView("snapview", false)
	id := v.db.Snapshot()
	want := m.model.Snapshot(v.h)
	m.log(fmt.Sprintf("%s.Snapshot()", v.name()), fmt.Sprint(id))
	m.al.onSnapshot()
	m.afterCall("Snapshot")
	m.nOps["snapshot"]++
	if v != m.views[0] {
		evid.R.Label("snapshot-through-child-view", 1)
	}
	if id != want {
		m.fail("", "Snapshot id %d, model %d", id, want)
	}
}

// snapTarget picks (view, id): mostly a restorable snapshot, sometimes an unknown id.
func (m *machine) snapTarget() (*view, int) {
	bogus := rapid.IntRange(0, 11).Draw(m.t, "snap-bogus") == 0
	if m.model.LiveTotal() == 0 && rapid.IntRange(0, 9).Draw(m.t, "snap-none") > 0 {
		m.t.Skip("no live snapshot")
	}
	v := m.snapView("snapview", !bogus)
	if v == nil {
		m.t.Skip("no live snapshot")
	}
	if bogus {
		return v, rapid.IntRange(0, m.model.Next[v.h]+1).Draw(m.t, "snap-any")
	}
	return v, rapid.SampledFrom(m.model.Live(v.h)).Draw(m.t, "snap")
}

func (m *machine) opRestore() {
	v, id := m.snapTarget()
	err := v.db.RestoreSnapshot(id)
	ok := m.model.Restore(v.h, id)
	m.log(fmt.Sprintf("%s.RestoreSnapshot(%d)", v.name(), id), fmt.Sprint(err))
	m.afterCall("RestoreSnapshot")
	m.nOps["restore"]++
	if (err == nil) != ok {
		m.fail("", "RestoreSnapshot(%d) err=%v, model exists=%v", id, err, ok)
	}
	if ok {
		m.restored = true
		m.al.onRestore()
		m.lastWriter = map[string]int{}
		// Engine callers obtain prefix views anew from the restored root (statemachine GetStore); handles derived before
		// the restore keep the discarded overlay on the tree as given (S10, see notes/C12.md) and are not used any more.
		// Where the restore is seen by every handle, old handles stay in use half of the time.
		if present.S10 || rapid.Bool().Draw(m.t, "rederive") {
			m.freshRoot(false)
		} else {
			evid.R.Label("restore-handles-retained", 1)
		}
		evid.R.Label("restore-ok", 1)
	} else {
		evid.R.Label("restore-unknown-id", 1)
	}
}

func (m *machine) opDeleteSnapshot() {
	v, id := m.snapTarget()
	v.db.DeleteSnapshot(id)
	m.model.DeleteSnapshot(v.h, id)
	m.log(fmt.Sprintf("%s.DeleteSnapshot(%d)", v.name(), id), "ok")
	m.afterCall("DeleteSnapshot")
	m.nOps["deletesnapshot"]++
}

type teeWriter struct{ a, b diffdb.DatabaseWriter }

func (w teeWriter) Set(k, v []byte) { w.a.Set(k, v); w.b.Set(k, v) }
func (w teeWriter) Del(k []byte)    { w.a.Del(k); w.b.Del(k) }

// revertOn applies the reversal of diff to a twin holding `post` and compares with `pre`.
func (m *machine) revertOn(post, pre kv.Map, diff *diffdb.Diff, what string) {
	twin := scratchFrom(1, post)
	b := twin.NewBatch()
	diffdb.New(twin, cp(m.rootP)).RevertDiff(b, diff)
	twin.Write(b)
	if got := dump(twin); !got.Equal(pre) {
		m.fail("", "RevertDiff (%s) does not restore the previous contents: got %s, previous %s, diff %s", what, showMap(got), showMap(pre), showDiff(diff))
	}
}

func showDiff(d *diffdb.Diff) string {
	var sb strings.Builder
	sb.WriteString("added[")
	for _, k := range d.Added {
		fmt.Fprintf(&sb, "%x ", k)
	}
	sb.WriteString("] updated[")
	for _, e := range d.Updated {
		fmt.Fprintf(&sb, "%x=%x ", e.Key, e.Value)
	}
	sb.WriteString("] deleted[")
	for _, e := range d.Deleted {
		fmt.Fprintf(&sb, "%x=%x ", e.Key, e.Value)
	}
	return sb.String() + "]"
}

// opDryCommit: Commit into a batch that is applied to a copy of the database only (generator / DryRun use); the staged
// store stays in use afterwards.
func (m *machine) opDryCommit() {
	pre := dump(m.d)
	twin := scratchFrom(0, pre)
	b := twin.NewBatch()
	diff := m.root().Commit(b)
	twin.Write(b)
	post := dump(twin)
	m.log("root.Commit(dry)", showDiff(diff))
	m.afterCall("Commit(dry)")
	if len(m.al.resetGrp) > 0 {
		m.al.otherRead = true // every staged value is written and compared below
	}
	m.nOps["drycommit"]++
	if !post.Equal(m.model.Staged) {
		m.fail("", "dry Commit wrote %s, staged state is %s", showMap(post), showMap(m.model.Staged))
	}
	m.revertOn(post, pre, diff, "dry")
}

func (m *machine) opCommit() {
	pre := dump(m.d)
	if !pre.Equal(m.model.Committed) {
		m.fail("", "database changed before Commit: %s, model %s", showMap(pre), showMap(m.model.Committed))
	}
	batch := m.d.NewBatch()
	diff := m.root().Commit(batch)
	m.d.Write(batch)
	post := dump(m.d)
	m.log("root.Commit + db.Write", showDiff(diff))
	m.afterCall("Commit")
	m.nOps["commit"]++
	if !post.Equal(m.model.Staged) {
		m.fail("", "Commit wrote %s, staged state is %s", showMap(post), showMap(m.model.Staged))
	}
	for k, v := range m.model.Staged {
		if got, ok := m.d.Get([]byte(k)); !ok || string(got) != v {
			m.fail("", "after Commit db.Get(%x) = (%x,%v), staged %x", k, got, ok, v)
		}
	}
	m.revertOn(post, pre, diff, "same object")
	dec := &diffdb.Diff{}
	if err := dec.Decode(diff.Encode()); err != nil {
		m.fail("", "Diff.Decode(Encode()): %v", err)
	}
	m.revertOn(post, pre, dec, "after Encode/Decode")
	if len(diff.Added) > 0 {
		evid.R.Label("commit-with-added", 1)
	}
	if len(diff.Updated) > 0 {
		evid.R.Label("commit-with-updated", 1)
	}
	if len(diff.Deleted) > 0 {
		evid.R.Label("commit-with-deleted", 1)
	}
	if len(diff.Added)+len(diff.Updated)+len(diff.Deleted) == 0 {
		evid.R.Label("commit-empty-diff", 1)
	}
	m.diffs = append(m.diffs, dec)
	m.dumps = append(m.dumps, pre)
	m.model.Commit()
	m.al.onCommit()
	m.restored = false
	m.freshRoot(true)
}

// finish: final commit, then revert all diffs newest first on a twin (as deleting blocks does), comparing every level.
func (m *machine) finish() {
	m.opCommit()
	twin := scratchFrom(0, dump(m.d))
	for i := len(m.diffs) - 1; i >= 0; i-- {
		b := twin.NewBatch()
		diffdb.New(twin, cp(m.rootP)).RevertDiff(b, m.diffs[i])
		twin.Write(b)
		if got := dump(twin); !got.Equal(m.dumps[i]) {
			m.fail("", "reverting diff %d of %d in sequence: got %s, contents before that commit %s", i, len(m.diffs), showMap(got), showMap(m.dumps[i]))
		}
	}
	if len(m.diffs) >= 3 {
		evid.R.Label("revert-chain>=3", 1)
	}
}

func genInitial(t *rapid.T, rootP []byte) kv.Map {
	m := kv.Map{}
	n := rapid.IntRange(0, 30).Draw(t, "n-initial")
	for i := 0; i < n; i++ {
		ns := rootP
		if rapid.IntRange(0, 9).Draw(t, "ns") < 2 {
			ns = rapid.SampledFrom(rootPrefixes).Draw(t, "other-ns")
		}
		k := string(ns) + string(genKey(t, "ik"))
		m[k] = string(genValue(t, "iv"))
	}
	return m
}

func TestStagedStoreMachine(t *testing.T) {
	probeDefects()
	rapid.Check(t, func(t *rapid.T) {
		rootP := rapid.SampledFrom(rootPrefixes).Draw(t, "root-prefix")
		initial := genInitial(t, rootP)
		d := mainStaged.with(initial)
		m := &machine{t: t, d: d, rootP: rootP, model: kv.NewStore(initial), nOps: map[string]int{}, lastWriter: map[string]int{}}
		m.views = []*view{{db: diffdb.New(d, cp(rootP)), full: string(rootP), id: 0, h: 0}}
		m.nextID, m.nextH = 1, 1
		m.initAliasing(rapid.IntRange(0, 9).Draw(t, "alias-discipline") < 7)
		kinds := []string{"set", "set", "set", "del", "del", "del", "get", "get", "range", "range", "range", "range", "iterate", "iterate", "iterate",
			"view", "view", "snapshot", "restore", "restore", "delsnap", "commit", "dry"}
		t.Repeat(map[string]func(*rapid.T){
			"op": func(t *rapid.T) {
				m.t = t
				m.al.begin()
				switch rapid.SampledFrom(kinds).Draw(t, "kind") {
				case "set":
					m.opSet()
				case "del":
					m.opDel()
				case "get":
					m.opGet()
				case "range":
					m.opRange()
				case "iterate":
					m.opIterate()
				case "view":
					m.opNewView()
				case "snapshot":
					m.opSnapshot()
				case "restore":
					m.opRestore()
				case "delsnap":
					m.opDeleteSnapshot()
				case "commit":
					m.opCommit()
				case "dry":
					m.opDryCommit()
				}
			},
		})
		m.t = t
		m.al.begin()
		m.finish()
		labels := append([]string{"staged-history"}, m.al.histLabels()...)
		if m.ntDeleteLimited {
			labels = append(labels, "nt-delete-then-limited-scan")
		}
		if m.ntSibling {
			labels = append(labels, "nt-child-scan-after-other-view-write")
		}
		if m.ntRestoreRead {
			labels = append(labels, "nt-restore-then-read")
		}
		if len(rootP) == 0 {
			labels = append(labels, "root-prefix-empty")
		}
		for k, n := range m.nOps {
			evid.R.Label("op-"+k, int64(n))
		}
		nt := m.ntDeleteLimited || m.ntSibling || m.ntRestoreRead
		key := fmt.Sprintf("staged|%x|%s|%s", rootP, showMap(m.dumps0()), strings.Join(m.ops, ";"))
		evid.R.Case(key, nt, func() any {
			h := m.hist
			if len(h) > 40 {
				h = h[:40]
			}
			return map[string]any{"kind": "staged-history", "rootPrefix": hx(rootP), "initial": showMap(m.dumps0()), "ops": h}
		}, labels...)
	})
}

// --------------------------------------------------------------------------------------------------- db / reader / batchdb

type dbMachine struct {
	t       *rapid.T
	d       *db.DB
	model   kv.Map
	readers []*db.Reader
	rmodels []kv.Map
	ops     []string
	hist    []string
	initial kv.Map
	ntBound bool
	ab      argBufs // layout / re-use of key, bound and prefix arguments (alias_test.go)
}

func (m *dbMachine) history() string {
	return fmt.Sprintf("initial db %s\n  %s", showMap(m.initial), strings.Join(m.hist, "\n  "))
}

func (m *dbMachine) log(op, res string) {
	m.ops = append(m.ops, op)
	m.hist = append(m.hist, op+" -> "+res)
}

func (m *dbMachine) fail(sig string, format string, a ...any) {
	if sig != "" && evid.R.KnownFinding(sig) {
		evid.R.Label("case-ended-on-known-finding", 1)
		m.t.Skip("known finding " + sig)
	}
	m.t.Fatalf("%s\n%s", fmt.Sprintf(format, a...), m.history())
}

// argsIntact: no call changes its key / bound / prefix arguments (checked through their full capacity).
func (m *dbMachine) argsIntact(op string) {
	if !m.ab.on || !bufCheck {
		return
	}
	evid.R.Label("alias-db-args-compared-after-call", int64(len(m.ab.tmp)))
	if bad := m.ab.firstChanged(); bad != nil {
		m.fail("", "%s wrote into an argument buffer of the caller: %s", op, bad.describe())
	}
}

func (m *dbMachine) keys() []string {
	var out []string
	for _, e := range m.model.Sorted() {
		out = append(out, e.K)
	}
	return out
}

// properPrefixOfStored: b is a proper prefix of some stored key.
func properPrefixOfStored(mm kv.Map, b string) bool {
	for k := range mm {
		if len(k) > len(b) && strings.HasPrefix(k, b) {
			return true
		}
	}
	return false
}

type scanner interface {
	Get(key []byte) ([]byte, bool)
	Exist(key []byte) bool
	IterateKey(prefix []byte, limit int, reverse bool) [][]byte
	Iterate(prefix []byte, limit int, reverse bool) []db.KeyValue
	IterateRange(start, end []byte, limit int, reverse bool) []db.KeyValue
}

// read performs one read through s (the DB or a Reader) and compares with mm (the contents s must see).
func (m *dbMachine) read(s scanner, mm kv.Map, who string) {
	t := m.t
	var ex []string
	for _, e := range mm.Sorted() {
		ex = append(ex, e.K)
	}
	switch rapid.SampledFrom([]string{"get", "iterate", "iterate", "iteratekey", "range", "range", "range"}).Draw(t, "read") {
	case "get":
		k := pickKey(t, ex, "k")
		ka, ksrc := m.ab.key(t, k, "k")
		got, ok := s.Get(ka)
		m.log(fmt.Sprintf("%s.Get(%x)%s", who, k, note(kd("key", ksrc))), fmt.Sprintf("%x,%v", got, ok))
		m.argsIntact("Get")
		want, wok := mm[string(k)]
		if ok != wok || (ok && string(got) != want) {
			m.fail("", "%s.Get(%x) = (%x,%v), model (%x,%v)", who, k, got, ok, want, wok)
		}
		// the same argument object again
		if e := s.Exist(ka); e != wok {
			m.fail("", "%s.Exist(%x) = %v, model %v", who, k, e, wok)
		}
		m.argsIntact("Exist")
		evid.R.Label("db-get", 1)
	case "iterate", "iteratekey":
		prefix := pickKey(t, ex, "prefix")
		limit := rapid.SampledFrom(limits).Draw(t, "limit")
		reverse := rapid.Bool().Draw(t, "reverse")
		want := mm.Select(kv.Prefixed(string(prefix)), limit, reverse)
		if properPrefixOfStored(mm, string(prefix)) {
			m.ntBound = true
		}
		pa, psrc := m.ab.key(t, prefix, "prefix")
		got := s.Iterate(pa, limit, reverse)
		op := fmt.Sprintf("%s.Iterate(%x,%d,rev=%v)%s", who, prefix, limit, reverse, note(kd("prefix", psrc)))
		m.log(op, showKVs(got))
		m.argsIntact(op)
		if !sameKVs(got, want) {
			m.fail("", "%s = %s, model %s", op, showKVs(got), showModel(want))
		}
		gk := s.IterateKey(pa, limit, reverse) // the same argument object again
		m.argsIntact("IterateKey")
		if !sameKeys(gk, want) {
			m.fail("", "%s.IterateKey(%x,%d,rev=%v) = %x, model %s", who, prefix, limit, reverse, gk, showModel(want))
		}
		evid.R.Label(fmt.Sprintf("db-iterate-limit=%v-rev=%v-results=%s", limit >= 0, reverse, sizeClass(len(want))), 1)
		if len(prefix) > 0 && prefix[len(prefix)-1] == 0xff {
			evid.R.Label("db-iterate-prefix-ends-ff", 1)
		}
	case "range":
		start := pickKey(t, ex, "start")
		end := pickKey(t, ex, "end")
		if rapid.IntRange(0, 9).Draw(t, "order") < 8 && bytes.Compare(start, end) > 0 {
			start, end = end, start
		}
		limit := rapid.SampledFrom(limits).Draw(t, "limit")
		reverse := rapid.Bool().Draw(t, "reverse")
		s9 := s9Trigger(mm, string(start), string(end), reverse)
		if s9 && avoid(sigS9) {
			evid.R.Excluded(1)
			reverse = false
			s9 = false
		}
		if properPrefixOfStored(mm, string(start)) || properPrefixOfStored(mm, string(end)) {
			m.ntBound = true
		}
		want := mm.Select(kv.Between(string(start), string(end)), limit, reverse)
		var sa, ea []byte
		var ssrc, esrc string
		if m.ab.on && rapid.Bool().Draw(t, "end-first") { // in the shared key buffer: end lies before start
			ea, esrc = m.ab.key(t, end, "end")
			sa, ssrc = m.ab.key(t, start, "start")
			esrc += "<start"
		} else {
			sa, ssrc = m.ab.key(t, start, "start")
			ea, esrc = m.ab.key(t, end, "end")
		}
		got := s.IterateRange(sa, ea, limit, reverse)
		op := fmt.Sprintf("%s.IterateRange(%x,%x,%d,rev=%v)%s", who, start, end, limit, reverse, note(kd("start", ssrc), kd("end", esrc)))
		m.log(op, showKVs(got))
		m.argsIntact(op)
		evid.R.Label(fmt.Sprintf("db-range-limit=%v-rev=%v-results=%s", limit >= 0, reverse, sizeClass(len(want))), 1)
		if !sameKVs(got, want) {
			sig := ""
			if s9 {
				sig = sigS9
			}
			m.fail(sig, "%s = %s, model %s", op, showKVs(got), showModel(want))
		}
	}
}

func TestDBMachine(t *testing.T) {
	probeDefects()
	rapid.Check(t, func(t *rapid.T) {
		initial := kv.Map{}
		n := rapid.IntRange(0, 25).Draw(t, "n-initial")
		for i := 0; i < n; i++ {
			initial[string(genKey(t, "ik"))] = string(genValue(t, "iv"))
		}
		d := mainDB.with(initial)
		m := &dbMachine{t: t, d: d, model: initial.Clone(), initial: initial}
		m.ab.on = rapid.IntRange(0, 9).Draw(t, "alias-discipline") < 7
		defer func() {
			for _, r := range m.readers {
				r.Close()
			}
		}()
		kinds := []string{"set", "set", "del", "del", "batch", "batch", "batchdb", "read", "read", "read", "read", "read", "reader", "reader-read", "reader-read", "reader-close"}
		t.Repeat(map[string]func(*rapid.T){
			"op": func(t *rapid.T) {
				m.t = t
				m.ab.begin()
				switch rapid.SampledFrom(kinds).Draw(t, "kind") {
				case "set":
					k, v := pickKey(t, m.keys(), "k"), genValue(t, "v")
					ka, ksrc := m.ab.key(t, k, "k")
					d.Set(ka, cp(v))
					m.model[string(k)] = string(v)
					m.log(fmt.Sprintf("db.Set(%x,%x)%s", k, v, note(kd("key", ksrc))), "ok")
					m.argsIntact("db.Set")
				case "del":
					k := pickKey(t, m.keys(), "k")
					ka, ksrc := m.ab.key(t, k, "k")
					d.Del(ka)
					delete(m.model, string(k))
					m.log(fmt.Sprintf("db.Del(%x)%s", k, note(kd("key", ksrc))), "ok")
					m.argsIntact("db.Del")
				case "batch":
					b := d.NewBatch()
					nops := rapid.IntRange(0, 6).Draw(t, "nops")
					next := m.model.Clone()
					var desc []string
					for i := 0; i < nops; i++ {
						k := pickKey(t, m.keys(), "k")
						if rapid.Bool().Draw(t, "isset") {
							v := genValue(t, "v")
							b.Set(cp(k), cp(v))
							next[string(k)] = string(v)
							desc = append(desc, fmt.Sprintf("set %x=%x", k, v))
						} else {
							b.Del(cp(k))
							delete(next, string(k))
							desc = append(desc, fmt.Sprintf("del %x", k))
						}
					}
					// nothing is visible before Write
					if got := dump(d); !got.Equal(m.model) {
						m.fail("", "batch operations visible before Write: db %s, model %s", showMap(got), showMap(m.model))
					}
					d.Write(b)
					m.model = next
					m.log("batch{"+strings.Join(desc, ", ")+"} Write", "ok")
					evid.R.Label("db-batch-write", 1)
				case "batchdb":
					b := d.NewBatch()
					prefix := genKey(t, "bp")
					if len(prefix) > 2 {
						prefix = prefix[:2]
					}
					var bd *batchdb.Database
					if len(prefix) == 0 && rapid.Bool().Draw(t, "plain") {
						bd = batchdb.New(d, b)
					} else {
						bd = batchdb.NewWithPrefix(d, b, cp(prefix))
					}
					nops := rapid.IntRange(1, 5).Draw(t, "nops")
					next := m.model.Clone()
					var desc []string
					var inView []string
					for k := range m.model {
						if strings.HasPrefix(k, string(prefix)) {
							inView = append(inView, k[len(prefix):])
						}
					}
					sort.Strings(inView)
					for i := 0; i < nops; i++ {
						k := pickKey(t, inView, "k")
						if len(prefix)+len(k) > 4 {
							k = k[:4-len(prefix)]
						}
						full := string(prefix) + string(k)
						switch rapid.IntRange(0, 2).Draw(t, "bop") {
						case 0:
							v := genValue(t, "v")
							bd.Set(cp(k), cp(v))
							next[full] = string(v)
							desc = append(desc, fmt.Sprintf("set %x=%x", k, v))
						case 1:
							bd.Del(cp(k))
							delete(next, full)
							desc = append(desc, fmt.Sprintf("del %x", k))
						case 2:
							// batchdb reads come from the database, not from the pending batch
							got, ok := bd.Get(cp(k))
							want, wok := m.model[full]
							desc = append(desc, fmt.Sprintf("get %x", k))
							if ok != wok || (ok && string(got) != want) {
								m.log("batchdb<"+hx(prefix)+">{"+strings.Join(desc, ", ")+"}", "mismatch")
								m.fail("", "batchdb<%x>.Get(%x) = (%x,%v), database has (%x,%v)", prefix, k, got, ok, want, wok)
							}
						}
					}
					d.Write(b)
					m.model = next
					m.log("batchdb<"+hx(prefix)+">{"+strings.Join(desc, ", ")+"} Write", "ok")
					evid.R.Label("db-batchdb-write", 1)
				case "read":
					m.read(d, m.model, "db")
				case "reader":
					if len(m.readers) >= 2 {
						t.Skip("enough readers")
					}
					m.readers = append(m.readers, d.NewReader())
					m.rmodels = append(m.rmodels, m.model.Clone())
					m.log("db.NewReader()", fmt.Sprintf("r%d", len(m.readers)-1))
					evid.R.Label("db-newreader", 1)
				case "reader-read":
					if len(m.readers) == 0 {
						t.Skip("no reader")
					}
					i := rapid.IntRange(0, len(m.readers)-1).Draw(t, "reader")
					if !m.rmodels[i].Equal(m.model) {
						evid.R.Label("db-reader-read-stale-view", 1)
					}
					m.read(m.readers[i], m.rmodels[i], fmt.Sprintf("reader%d", i))
				case "reader-close":
					if len(m.readers) == 0 {
						t.Skip("no reader")
					}
					i := rapid.IntRange(0, len(m.readers)-1).Draw(t, "reader")
					if err := m.readers[i].Close(); err != nil {
						m.fail("", "Reader.Close: %v", err)
					}
					m.readers = append(m.readers[:i], m.readers[i+1:]...)
					m.rmodels = append(m.rmodels[:i], m.rmodels[i+1:]...)
					m.log(fmt.Sprintf("reader%d.Close()", i), "ok")
				}
				m.ab.release(t) // the caller re-uses its key / bound / prefix buffers after the call
			},
		})
		m.t = t
		if got := dump(d); !got.Equal(m.model) {
			m.fail("", "final contents: db %s, model %s", showMap(got), showMap(m.model))
		}
		labels := []string{"db-history"}
		if m.ntBound {
			labels = append(labels, "nt-bound-is-proper-prefix-of-stored-key")
		}
		key := fmt.Sprintf("db|%s|%s", showMap(initial), strings.Join(m.ops, ";"))
		evid.R.Case(key, m.ntBound, func() any {
			h := m.hist
			if len(h) > 40 {
				h = h[:40]
			}
			return map[string]any{"kind": "db-history", "initial": showMap(initial), "ops": h}
		}, labels...)
	})
}
