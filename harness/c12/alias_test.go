package c12

// Argument / result ALIASING discipline for the generated histories (both machines).
//
// The oracle of C12 is unchanged (sorted-map model compared on every read / scan, database dump after Commit, diff reverts).
// This file only changes WHICH slice objects are handed to the store and what the harness does with its own memory:
//
//   - value of a Set: a fresh slice | the SAME slice object as an earlier Set of the history (same key, another key, another
//     view; whole, a shorter prefix of it, or - for the shared buffer - extended into its capacity) | a sub-slice of one
//     larger buffer shared by many values (with the following values and spare bytes inside its capacity, or with capacity =
//     length) | a slice obtained from an earlier Get | a value slice, or a key slice, taken from an earlier Range/Iterate
//     result. The era of the source is recorded (same overlay, before a Snapshot, before a RestoreSnapshot, before a Commit).
//   - key / bound / prefix arguments: a fresh slice, a fresh slice with spare capacity, windows of one shared key buffer (with
//     spare capacity running over the following argument and sentinel bytes, or capacity = length; for Range also laid out
//     end-before-start), or the key slice of an earlier scan result passed on as it is (what liskbft.deleteBFTParams does).
//   - after a call returned the harness sometimes overwrites its own key / bound / prefix buffers and slices it got from Get.
//
// What the harness may legitimately do was decided from the code and its callers (notes/C12.md, "Aliasing discipline"):
//
//	keys, bounds, prefixes   copied by every entry point (getKey -> bytes.JoinSize, WithPrefix -> bytes.Join, map key = string):
//	                         the caller may re-use them after the call                                        -> overwritten here
//	Get results              Get copies on both paths (bytes.Copy): the result is the caller's                -> overwritten here
//	value handed to Set      cacheDB.add/set KEEP the caller's slice (no copy; nothing documents one). Every engine caller
//	                         hands over a freshly encoded slice and drops it (diffdb.SetEncodable, statemachine.SetEncodable):
//	                         ownership passes to the store                          -> read-only for the harness, never overwritten
//	Range/Iterate results    dataBetween/withPrefix return the overlay's value slices uncopied. Engine callers only decode them
//	                         (codec readers copy) or pass Key() on to Del                -> read-only for the harness, never overwritten
//
// Read-only SHARING is legitimate for all of them (one slice staged under several keys, a scan result staged under another key,
// neighbouring windows of one buffer): nobody writes, so every key keeps the bytes it was given. TestObserveAliasing measures
// all patterns on the tree under test (evidence notes), the two that the tree as given does not tolerate are outside the domain.
//
// Additional oracle: NO store call changes a byte (through the full capacity) of any buffer the harness made itself or still
// holds from a read. On the tree as given the store never writes into a value buffer at all (entries are replaced, not
// overwritten), so this costs no false alarm; it reports the in-place write at the call that performs it, before a read
// through the model shows the damage. VERIF_C12_BUFCHECK=off disables it (used to measure what the model alone catches).

import (
	"bytes"
	"fmt"
	"os"
	"sort"
	"strings"

	"pgregory.net/rapid"

	"verifharness/evid"
)

var bufCheck = os.Getenv("VERIF_C12_BUFCHECK") != "off"

const (
	sentinel  = 0xEE
	kbufSize  = 40
	vbufSize  = 96
	poolLimit = 40
)

// group: slices that share one backing array.
type group struct{ id int }

// held is a slice the harness keeps: a possible source for later arguments and a buffer no store call may change.
type held struct {
	id      int
	b       []byte
	snap    []byte // bytes of b[:cap(b)] as the harness last left them
	origin  string // own | vbuf | get | scan-value | scan-key | arg
	what    string // the call that produced it
	grp     *group
	view    string // full prefix of the view it was read through (scan keys)
	inStore bool   // handed to Set as a value: the store may keep it, the harness never writes to it again
	nSnap   int    // era counters at creation
	nRest   int
	nCommit int
}

func (h *held) full() []byte { return h.b[:cap(h.b)] }
func (h *held) resnap()      { h.snap = append(h.snap[:0], h.full()...) }
func (h *held) changed() bool {
	return !bytes.Equal(h.full(), h.snap)
}
func (h *held) describe() string {
	f := h.full()
	i := 0
	for i < len(f) && i < len(h.snap) && f[i] == h.snap[i] {
		i++
	}
	where := "within its length"
	if i >= len(h.b) {
		where = "in its spare capacity"
	}
	return fmt.Sprintf("#%d %s from %q (len %d cap %d) changed %s at byte %d: before %x after %x", h.id, h.origin, h.what, len(h.b), cap(h.b), where, i, h.snap, f)
}

// argBufs lays out the key / bound / prefix arguments of ONE call.
type argBufs struct {
	on   bool
	kbuf []byte
	koff int
	tmp  []*held
	next int
}

// begin starts a new call: the buffers of the previous call are dead, the harness refills its key buffer.
func (a *argBufs) begin() {
	if !a.on {
		return
	}
	if a.kbuf == nil {
		a.kbuf = make([]byte, kbufSize)
	}
	for i := range a.kbuf {
		a.kbuf[i] = sentinel
	}
	a.koff = 0
	a.tmp = a.tmp[:0]
}

// key returns an argument slice with the content of k, laid out by a drawn source.
func (a *argBufs) key(t *rapid.T, k []byte, label string) ([]byte, string) {
	if !a.on {
		return cp(k), ""
	}
	var out []byte
	src := rapid.SampledFrom([]string{"fresh", "fresh", "fresh-spare", "kbuf-spare", "kbuf-spare", "kbuf-fullcap"}).Draw(t, label+"-ksrc")
	if strings.HasPrefix(src, "kbuf") && a.koff+len(k)+4 > len(a.kbuf) {
		src = "fresh"
	}
	switch src {
	case "fresh":
		out = cp(k)
	case "fresh-spare":
		out = make([]byte, len(k), len(k)+4)
		copy(out, k)
		for i := len(k); i < cap(out); i++ {
			out[:cap(out)][i] = sentinel
		}
	case "kbuf-spare":
		copy(a.kbuf[a.koff:], k)
		out = a.kbuf[a.koff : a.koff+len(k)]
		a.koff += len(k)
	case "kbuf-fullcap":
		copy(a.kbuf[a.koff:], k)
		out = a.kbuf[a.koff : a.koff+len(k) : a.koff+len(k)]
		a.koff += len(k)
	}
	a.next++
	h := &held{id: -a.next, b: out, origin: "arg", what: label + " (" + src + ")"}
	a.tmp = append(a.tmp, h)
	// windows laid out earlier in the same call see the bytes just written behind them
	for _, x := range a.tmp {
		x.resnap()
	}
	evid.R.Label("alias-ksrc="+src, 1)
	return out, src
}

// firstChanged: an argument buffer of the current call that no longer holds what the harness put there.
func (a *argBufs) firstChanged() *held {
	for _, h := range a.tmp {
		if h.changed() {
			return h
		}
	}
	return nil
}

// release: the call returned; the caller re-uses its argument buffers half of the time.
func (a *argBufs) release(t *rapid.T) {
	if !a.on || len(a.tmp) == 0 {
		return
	}
	if rapid.Bool().Draw(t, "scribble-args") {
		for _, h := range a.tmp {
			f := h.full()
			for i := range f {
				f[i] = 0xA5
			}
		}
		evid.R.Label("alias-mutate=own-key/bound/prefix-buffers-after-call", 1)
	}
	a.tmp = a.tmp[:0]
}

// aliasing is the per-history state of the discipline in the staged machine.
type aliasing struct {
	argBufs
	vbuf   []byte
	voff   int
	vwhole *held
	vgrp   *group
	pool   []*held
	nextID int
	nextG  int
	cur    map[string]*held // full key -> the held slice that (as far as the harness knows) is its staged value right now
	nSnap  int
	nRest  int
	nCom   int
	// classification of the history
	shared     bool // two staged keys were backed by one array at some time
	ownerReset bool // ... and one of them was Set again with a non-empty value not longer than the one it held
	otherRead  bool // ... and afterwards another key of that array was read (or the overlay committed)
	resetGrp   map[*group]bool
}

func (m *machine) initAliasing(on bool) {
	a := &m.al
	a.on = on
	a.cur = map[string]*held{}
	a.resetGrp = map[*group]bool{}
	if !on {
		evid.R.Label("alias-discipline=off", 1)
		return
	}
	evid.R.Label("alias-discipline=on", 1)
	a.vbuf = make([]byte, vbufSize)
	for i := range a.vbuf {
		a.vbuf[i] = sentinel
	}
	a.vgrp = a.newGroup()
	a.vwhole = &held{id: 0, b: a.vbuf, origin: "vbuf", what: "the buffer shared by the vbuf values (whole)", grp: a.vgrp}
	a.vwhole.resnap()
}

func (a *aliasing) newGroup() *group { a.nextG++; return &group{a.nextG} }

func (a *aliasing) hold(origin, what string, b []byte, g *group) *held {
	if g == nil {
		g = a.newGroup()
	}
	a.nextID++
	h := &held{id: a.nextID, b: b, origin: origin, what: what, grp: g, nSnap: a.nSnap, nRest: a.nRest, nCommit: a.nCom}
	h.resnap()
	a.pool = append(a.pool, h)
	if len(a.pool) > poolLimit {
		a.pool = a.pool[len(a.pool)-poolLimit:]
	}
	return h
}

func (a *aliasing) era(h *held) string {
	switch {
	case h.nCommit < a.nCom:
		return "before-commit"
	case h.nRest < a.nRest:
		return "before-restore"
	case h.nSnap < a.nSnap:
		return "before-snapshot"
	}
	return "same-overlay"
}

func (a *aliasing) cands(pred func(*held) bool) []*held {
	var out []*held
	for _, h := range a.pool {
		if pred(h) {
			out = append(out, h)
		}
	}
	return out
}

// hotKeys: full keys (sorted) whose staged value shares its backing array with the staged value of another key.
func (a *aliasing) hotKeys(prefix string) []string {
	n := map[*group]int{}
	for _, h := range a.cur {
		n[h.grp]++
	}
	var out []string
	for k, h := range a.cur {
		if n[h.grp] >= 2 && strings.HasPrefix(k, prefix) {
			out = append(out, k)
		}
	}
	sort.Strings(out)
	return out
}

func (a *aliasing) sharesWithOther(fk string) bool {
	h := a.cur[fk]
	if h == nil {
		return false
	}
	for k, x := range a.cur {
		if k != fk && x.grp == h.grp {
			return true
		}
	}
	return false
}

// pickKeyArg chooses the key of a point operation and the slice object that carries it.
func (m *machine) pickKeyArg(v *view, label string, fresh, vmax int) (k, ka []byte, desc string) {
	a := &m.al
	if a.on {
		switch rapid.IntRange(0, 7).Draw(m.t, label+"-kpick") {
		case 0, 1: // a key whose staged value shares memory with another key's
			if hot := a.hotKeys(v.full); len(hot) > 0 {
				k = []byte(rapid.SampledFrom(hot).Draw(m.t, label+"-hot")[len(v.full):])
				evid.R.Label("alias-key-choice=key-of-a-shared-array", 1)
			}
		case 2: // the key slice of an earlier scan result, passed on as it is
			c := a.cands(func(h *held) bool { return h.origin == "scan-key" && h.view == v.full })
			if len(c) == 0 {
				c = a.cands(func(h *held) bool { return h.origin == "scan-key" })
			}
			if len(c) > 0 {
				h := c[rapid.IntRange(0, len(c)-1).Draw(m.t, label+"-scankey")]
				evid.R.Label("alias-ksrc=scan-result-key-slice/"+a.era(h), 1)
				return cp(h.b), h.b, fmt.Sprintf("key=scan-key#%d", h.id)
			}
		}
	}
	if k == nil {
		k = pickKeyB(m.t, m.existingIn(v), label, fresh, vmax)
	}
	ka, src := a.key(m.t, k, label)
	if src != "" {
		desc = "key=" + src
	}
	return cp(k), ka, desc
}

var vsrcs = []string{"fresh", "fresh", "fresh", "fresh", "same-slice", "same-slice", "same-slice", "vbuf-spare", "vbuf-spare", "vbuf-fullcap",
	"get-result", "get-result", "scan-value", "scan-value", "scan-value", "scan-key"}

// valueArg chooses the slice handed to Set for the full key fk. The bytes it holds at the time of the call are the value.
func (m *machine) valueArg(fk string) (va []byte, desc string) {
	a := &m.al
	t := m.t
	if !a.on {
		return genValue(t, "v"), ""
	}
	src := rapid.SampledFrom(vsrcs).Draw(t, "vsrc")
	var c []*held
	switch src {
	case "same-slice":
		c = a.cands(func(h *held) bool { return h.inStore })
	case "get-result":
		c = a.cands(func(h *held) bool { return h.origin == "get" })
	case "scan-value":
		c = a.cands(func(h *held) bool { return h.origin == "scan-value" })
	case "scan-key":
		c = a.cands(func(h *held) bool { return h.origin == "scan-key" })
	}
	var h *held
	shape := "whole"
	switch {
	case len(c) > 0:
		h0 := c[rapid.IntRange(0, len(c)-1).Draw(t, "vsrc-of")]
		va = h0.b
		h = h0
		switch s := rapid.IntRange(0, 9).Draw(t, "vshape"); {
		case s >= 8 && len(h0.b) > 0:
			shape = "shorter-prefix-of-it"
			va = h0.b[:rapid.IntRange(0, len(h0.b)-1).Draw(t, "vcut")]
		case s >= 5 && s <= 7 && h0.origin == "vbuf" && cap(h0.b) > len(h0.b):
			shape = "extended-into-its-capacity"
			va = h0.b[:len(h0.b)+rapid.IntRange(1, min(2, cap(h0.b)-len(h0.b))).Draw(t, "vext")]
		}
		if shape != "whole" {
			h = a.hold(h0.origin, h0.what+" ["+shape+"]", va, h0.grp)
			h.view, h.nSnap, h.nRest, h.nCommit = h0.view, h0.nSnap, h0.nRest, h0.nCommit
			h0.inStore = true // part of its memory is staged now: the harness does not write to it any more
		}
		if shape == "extended-into-its-capacity" {
			// bytes of the shared buffer that are part of a staged value now are not handed out (= written) again
			if end := len(a.vbuf) - cap(va) + len(va); end > a.voff {
				a.voff = end
			}
		}
		desc = fmt.Sprintf("val=%s#%d(%s,%s)", src, h0.id, shape, a.era(h0))
		evid.R.Label("alias-vsrc-era="+a.era(h0), 1)
	case strings.HasPrefix(src, "vbuf") && a.voff+3 <= len(a.vbuf)-8:
		content := genValue(t, "v")
		o := a.voff
		copy(a.vbuf[o:], content) // the harness writes into its own buffer (behind everything handed out so far)
		a.voff += len(content)
		if src == "vbuf-spare" {
			va = a.vbuf[o:a.voff]
		} else {
			va = a.vbuf[o:a.voff:a.voff]
		}
		// every held slice was compared after the previous store call and no store call happened since: whatever differs
		// now is this write (seen through the spare capacity of the windows handed out earlier and of scan results over them)
		for _, x := range a.pool {
			x.resnap()
		}
		a.vwhole.resnap()
		h = a.hold("vbuf", "Set value "+src, va, a.vgrp)
		desc = fmt.Sprintf("val=%s#%d@%d", src, h.id, o)
	default:
		if src != "fresh" {
			evid.R.Label("alias-vsrc-wanted-but-none-held="+src, 1)
		}
		src = "fresh"
		va = genValue(t, "v")
		h = a.hold("own", "Set value fresh", va, nil)
		desc = fmt.Sprintf("val=fresh#%d", h.id)
	}
	evid.R.Label("alias-vsrc="+src, 1)
	evid.R.Label("alias-vshape="+shape, 1)
	// relation to what the entry holds now
	old, has := m.model.Staged[fk]
	rel := "no-entry"
	if has {
		switch {
		case len(va) == len(old):
			rel = "equal"
		case len(va) < len(old):
			rel = "shorter"
		default:
			rel = "longer"
		}
	}
	evid.R.Label("alias-vlen-vs-entry="+rel, 1)
	if prev := a.cur[fk]; h.inStore || prev != nil {
		switch {
		case prev == h:
			evid.R.Label("alias-reuse=same-slice-same-key-again", 1)
		case h.inStore:
			evid.R.Label("alias-reuse=slice-already-staged-elsewhere", 1)
		}
	}
	// classification: the seeded pattern is (shared array) -> (one of its keys Set again, 0 < len <= held len) -> (other key read)
	if a.sharesWithOther(fk) && len(va) > 0 && has && len(va) <= len(old) {
		a.ownerReset = true
		a.resetGrp[a.cur[fk].grp] = true
		evid.R.Label("alias-set-on-key-of-shared-array-len<=held", 1)
	}
	h.inStore = true
	a.cur[fk] = h
	if a.sharesWithOther(fk) {
		a.shared = true
		evid.R.Label("alias-two-staged-keys-share-one-array", 1)
	}
	return va, desc
}

// noteRead: a read (or Commit) looked at full key fk.
func (a *aliasing) noteRead(fk string) {
	if h := a.cur[fk]; h != nil && a.resetGrp[h.grp] {
		a.otherRead = true
	}
}

// holdGet keeps the slice returned by Get.
func (m *machine) holdGet(v *view, k []byte, got []byte, op string) {
	a := &m.al
	if !a.on || got == nil {
		return
	}
	a.noteRead(v.full + string(k))
	a.hold("get", op, got, nil)
}

// holdScan keeps key and value slices of (at most two entries of) a scan result.
func (m *machine) holdScan(v *view, got []kvPair, op string) {
	a := &m.al
	if !a.on {
		return
	}
	for _, e := range got {
		a.noteRead(v.full + string(e.k))
	}
	if len(got) == 0 {
		return
	}
	idx := []int{rapid.IntRange(0, len(got)-1).Draw(m.t, "hold-i")}
	if len(got) > 1 {
		idx = append(idx, (idx[0]+1)%len(got))
	}
	for _, i := range idx {
		fk := v.full + string(got[i].k)
		var g *group
		if c := a.cur[fk]; c != nil {
			g = c.grp // the scan hands out the overlay's slice: same array as what was staged
		}
		hv := a.hold("scan-value", op, got[i].v, g)
		hv.view = v.full
		if a.cur[fk] == nil {
			a.cur[fk] = hv
		}
		hk := a.hold("scan-key", op, got[i].k, nil)
		hk.view = v.full
	}
}

type kvPair struct{ k, v []byte }

// afterCall: the additional oracle and the caller's re-use of its own memory.
func (m *machine) afterCall(op string) {
	a := &m.al
	if !a.on {
		return
	}
	if bufCheck {
		n := int64(len(a.tmp) + len(a.pool) + 1)
		bad := a.firstChanged()
		if bad == nil && a.vwhole.changed() {
			bad = a.vwhole
		}
		if bad == nil {
			for _, h := range a.pool {
				if h.changed() {
					bad = h
					break
				}
			}
		}
		evid.R.Label("alias-buffers-compared-after-call", n)
		if bad != nil {
			m.fail("", "%s wrote into memory the caller made or still holds from a read (value slices are shared read-only between caller and store - cacheDB.add/set keep them, scans hand them out - so the store must replace an entry's slice, never overwrite it): %s", op, bad.describe())
		}
	}
	a.release(m.t)
	// the caller re-uses a slice it got from Get (Get returns a copy) unless it has handed it to Set meanwhile
	if rapid.IntRange(0, 3).Draw(m.t, "mutate-get") == 0 {
		c := a.cands(func(h *held) bool { return h.origin == "get" && !h.inStore && len(h.b) > 0 })
		if len(c) > 0 {
			h := c[rapid.IntRange(0, len(c)-1).Draw(m.t, "mutate-get-of")]
			for i, x := range h.b {
				switch x { // stay inside the value alphabet, always a different byte
				case 0x00:
					h.b[i] = 0x2a
				case 0x2a:
					h.b[i] = 0xff
				default:
					h.b[i] = 0x00
				}
			}
			h.resnap()
			m.hist = append(m.hist, fmt.Sprintf("   (caller overwrites the slice #%d it got from %s: now %x)", h.id, h.what, h.b))
			evid.R.Label("alias-mutate=get-result/"+a.era(h), 1)
			if bufCheck {
				for _, x := range a.pool {
					if x != h && x.changed() {
						m.fail("", "overwriting the slice returned by %s also changed another buffer (Get must return a copy): %s", h.what, x.describe())
					}
				}
			}
		}
	}
}

func (a *aliasing) onSnapshot() { a.nSnap++ }

// onRestore / onCommit: the overlay entries are copies (restore) or gone (fresh store): no two keys share an array any more.
func (a *aliasing) onRestore() {
	a.nRest++
	a.cur = map[string]*held{}
	a.resetGrp = map[*group]bool{}
}

func (a *aliasing) onCommit() {
	if len(a.resetGrp) > 0 {
		a.otherRead = true // Commit writes every staged value: compared with the model through the database dump
	}
	a.nCom++
	a.cur = map[string]*held{}
	a.resetGrp = map[*group]bool{}
}

func (a *aliasing) onDel(fk string) { delete(a.cur, fk) }

func (a *aliasing) histLabels() []string {
	if !a.on {
		return nil
	}
	var l []string
	if a.shared {
		l = append(l, "alias-hist-two-keys-shared-an-array")
	}
	if a.ownerReset {
		l = append(l, "alias-hist-shared+set-again-len<=held")
	}
	if a.ownerReset && a.otherRead {
		l = append(l, "alias-hist-shared+set-again+other-key-read-or-commit")
	}
	return l
}

func note(parts ...string) string {
	var p []string
	for _, s := range parts {
		if s != "" {
			p = append(p, s)
		}
	}
	if len(p) == 0 {
		return ""
	}
	return " [" + strings.Join(p, " ") + "]"
}
