package c12

import (
	"bytes"
	"fmt"
	"testing"

	"github.com/LiskHQ/lisk-engine/pkg/db"
	"github.com/LiskHQ/lisk-engine/pkg/db/diffdb"

	"verifharness/evid"
	"verifharness/model/kv"
)

// Fixed histories for value slices that are SHARED between staged keys without anybody writing to them (seeded change
// seed8b-C12/second: cacheDB.set overwrote the entry's buffer in place, "keep an own copy", although that buffer is the
// caller's slice / the slice handed out by Range, and so the staged value of other keys). Run in every tier.

type aliasHist struct {
	t     *testing.T
	name  string
	d     *db.DB
	rootP []byte
	root  *diffdb.Database
	model kv.Map // full key -> value: database contents with the staged writes applied
	steps []string
}

func newAliasHist(t *testing.T, name string, rootP []byte, initial kv.Map) *aliasHist {
	d := newDBFrom(initial)
	return &aliasHist{t: t, name: name, d: d, rootP: rootP, root: diffdb.New(d, cp(rootP)), model: initial.Clone()}
}

func (h *aliasHist) failf(format string, a ...any) {
	h.t.Helper()
	msg := fmt.Sprintf(format, a...)
	evid.R.FailCase("alias-"+h.name, map[string]any{"history": h.name, "steps": h.steps, "failure": msg})
	h.t.Fatalf("%s: %s\n  %s", h.name, msg, fmt.Sprint(h.steps))
}

// set stages value (the slice object as given) through view st (full prefix vp).
func (h *aliasHist) set(st *diffdb.Database, vp string, key string, value []byte, what string) {
	h.steps = append(h.steps, fmt.Sprintf("Set<%x>(%q,%q) %s", vp, key, value, what))
	h.model[vp+key] = string(value)
	st.Set([]byte(key), value)
}

// readAll compares Get of every model key below the root prefix, a full Range and a full Iterate through the root view.
func (h *aliasHist) readAll(when string) {
	h.t.Helper()
	p := string(h.rootP)
	var want []kv.KV
	for _, e := range h.model.Sorted() {
		if len(e.K) >= len(p) && e.K[:len(p)] == p {
			want = append(want, kv.KV{K: e.K[len(p):], V: e.V})
			got, ok := h.root.Get([]byte(e.K[len(p):]))
			if !ok || string(got) != e.V {
				h.failf("%s: Get(%q) = (%q,%v); the staged value is %q (this key was not written since)", when, e.K[len(p):], got, ok, e.V)
			}
		}
	}
	if got := h.root.Range([]byte{}, []byte{0xff, 0xff, 0xff, 0xff, 0xff, 0xff}, -1, false); !sameKVs(got, want) {
		h.failf("%s: Range(all) = %s, model %s", when, showKVs(got), showModel(want))
	}
	if got := h.root.Iterate([]byte{}, -1, false); !sameKVs(got, want) {
		h.failf("%s: Iterate(all) = %s, model %s", when, showKVs(got), showModel(want))
	}
}

// commit writes the overlay and compares the whole database with the model, then reverts and compares with `pre`.
func (h *aliasHist) commit() {
	h.t.Helper()
	pre := dump(h.d)
	b := h.d.NewBatch()
	diff := h.root.Commit(b)
	h.d.Write(b)
	if got := dump(h.d); !got.Equal(h.model) {
		h.failf("Commit wrote %s, the staged state is %s", showMap(got), showMap(h.model))
	}
	b = h.d.NewBatch()
	h.root.RevertDiff(b, diff)
	h.d.Write(b)
	if got := dump(h.d); !got.Equal(pre) {
		h.failf("RevertDiff left %s, contents before the commit %s", showMap(got), showMap(pre))
	}
}

func (h *aliasHist) intact(name string, buf, before []byte) {
	h.t.Helper()
	if bufCheck && !bytes.Equal(buf[:cap(buf)], before) {
		h.failf("the store wrote into the caller's buffer %s: before %q now %q", name, before, buf[:cap(buf)])
	}
}

func TestRegressAliasedValueSlices(t *testing.T) {
	t.Run("same-slice-under-two-new-keys", func(t *testing.T) {
		h := newAliasHist(t, "same-slice-under-two-new-keys", []byte{0x07}, kv.Map{"\x07zz": "keep", "\x08other": "x"})
		defer h.d.Close()
		st := h.root.WithPrefix([]byte{0x00, 0x01})
		vp := "\x07\x00\x01"
		shared := []byte("aaaa")
		before := cp(shared)
		h.set(st, vp, "k1", shared, "(slice S)")
		h.set(st, vp, "k2", shared, "(slice S again)")
		h.readAll("after staging S under k1 and k2")
		h.set(st, vp, "k1", []byte("bbbb"), "(fresh, same length)")
		h.intact("S", shared, before)
		h.readAll("after k1 := bbbb")
		h.set(st, vp, "k2", []byte("cc"), "(fresh, shorter)")
		h.set(st, vp, "k1", shared[:2], "(prefix of S)")
		h.readAll("after k2 := cc, k1 := S[:2]")
		h.intact("S", shared, before)
		h.commit()
		evid.R.Case("regress|alias|same-slice-under-two-new-keys", true, nil, "regress-alias")
	})
	t.Run("copy-range-then-update-originals", func(t *testing.T) {
		initial := kv.Map{"\x08other": "x"}
		for i := byte(0); i < 3; i++ {
			initial[string([]byte{0x07, 'o', i})] = string([]byte{'v', 'a', 'l', '0' + i})
		}
		h := newAliasHist(t, "copy-range-then-update-originals", []byte{0x07}, initial)
		defer h.d.Close()
		res := h.root.Range([]byte{'o', 0}, []byte{'o', 9}, -1, false)
		if len(res) != 3 {
			h.failf("Range returned %s", showKVs(res))
		}
		var held, snaps [][]byte
		for _, e := range res {
			h.set(h.root, "\x07", "b"+string(e.Key()[1:]), e.Value(), "(value slice of the Range result)")
			held = append(held, e.Value(), e.Key())
			snaps = append(snaps, cp(e.Value()[:cap(e.Value())]), cp(e.Key()[:cap(e.Key())]))
		}
		h.readAll("after copying o* to b*")
		for i := byte(0); i < 3; i++ {
			h.set(h.root, "\x07", string([]byte{'o', i}), []byte{'n', 'e', 'w', '0' + i}, "(fresh, same length)")
		}
		h.readAll("after updating the originals")
		for i := range held {
			h.intact(fmt.Sprintf("slice %d of the Range result", i), held[i], snaps[i])
		}
		// the same through Iterate, with shorter new values and one delete in between
		it := h.root.Iterate([]byte{'b'}, -1, true)
		for _, e := range it {
			h.set(h.root, "\x07", "c"+string(e.Key()[1:]), e.Value(), "(value slice of the Iterate result)")
		}
		h.steps = append(h.steps, "Del(b\\x01)")
		h.root.Del([]byte{'b', 1})
		delete(h.model, "\x07b\x01")
		for i := byte(0); i < 3; i++ {
			h.set(h.root, "\x07", string([]byte{'b', i}), []byte{'X', '0' + i}, "(fresh, shorter)")
		}
		h.readAll("after updating the first copies")
		h.commit()
		evid.R.Case("regress|alias|copy-range-then-update-originals", true, nil, "regress-alias")
	})
	t.Run("windows-of-one-buffer-with-spare-capacity", func(t *testing.T) {
		h := newAliasHist(t, "windows-of-one-buffer-with-spare-capacity", []byte{0x07}, kv.Map{"\x07d": "1234"})
		defer h.d.Close()
		buf := []byte("aabbccdd........")
		before := cp(buf)
		h.set(h.root, "\x07", "k1", buf[0:2], "(buf[0:2], capacity runs over the rest)")
		h.set(h.root, "\x07", "k2", buf[2:4], "(buf[2:4])")
		h.set(h.root, "\x07", "d", buf[4:8], "(buf[4:8]; d is in the database)")
		h.set(h.root, "\x07", "k3", buf[0:8], "(buf[0:8], overlaps the three others)")
		h.readAll("after staging four windows of one buffer")
		h.set(h.root, "\x07", "k1", []byte("XYZ"), "(fresh, longer, fits into the window's capacity)")
		h.set(h.root, "\x07", "d", []byte("Q"), "(fresh, shorter)")
		h.readAll("after k1 := XYZ, d := Q")
		h.intact("buf", buf, before)
		// a Get result handed to Set under two keys, then one of them replaced by a shorter value
		g, ok := h.root.Get([]byte("k3"))
		if !ok {
			h.failf("Get(k3) not found")
		}
		gb := cp(g[:cap(g)])
		h.set(h.root, "\x07", "g1", g, "(slice returned by Get(k3))")
		h.set(h.root, "\x07", "g2", g, "(the same slice)")
		h.set(h.root, "\x07", "g1", []byte("zz"), "(fresh, shorter)")
		h.readAll("after g1, g2 := Get(k3); g1 := zz")
		h.intact("the slice returned by Get(k3)", g, gb)
		h.commit()
		evid.R.Case("regress|alias|windows-of-one-buffer-with-spare-capacity", true, nil, "regress-alias")
	})
}

// TestObserveAliasing MEASURES, on the tree under test, which uses of shared / re-used memory the staged store tolerates.
// It never fails: the in-domain patterns are asserted by TestRegressAliasedValueSlices and by the generated histories; the
// out-of-domain ones (the caller WRITES to a value slice it handed to Set, or to a value slice a scan handed out) are
// recorded here so that a change of the store's ownership convention shows up in the evidence notes.
func TestObserveAliasing(t *testing.T) {
	get := func(st *diffdb.Database, k string) string { v, _ := st.Get([]byte(k)); return string(v) }
	type obs struct {
		pattern, domain string
		safe            bool
	}
	var out []obs
	add := func(pattern, domain string, safe bool) { out = append(out, obs{pattern, domain, safe}) }

	{ // read-only sharing: one slice under two keys, owner replaced
		d := mk()
		st := diffdb.New(d, []byte("P"))
		s := []byte("aaaa")
		st.Set([]byte("k1"), s)
		st.Set([]byte("k2"), s)
		st.Set([]byte("k1"), []byte("bbbb"))
		add("one value slice staged under two keys, first key staged again (same length): second key keeps its value, slice untouched", "in", get(st, "k2") == "aaaa" && string(s) == "aaaa")
		d.Close()
	}
	{ // scan result staged under another key
		d := mk("Po", "val0")
		st := diffdb.New(d, []byte("P"))
		r := st.Range([]byte("o"), []byte("o"), -1, false)
		st.Set([]byte("b"), r[0].Value())
		st.Set([]byte("o"), []byte("new0"))
		add("value slice of a Range result staged under a new key, original key staged again: the copy keeps its value", "in", get(st, "b") == "val0" && string(r[0].Value()) == "val0")
		d.Close()
	}
	{ // key buffer re-used by the caller
		d := mk("Pk", "1")
		st := diffdb.New(d, []byte("P"))
		k := []byte("k")
		st.Set(k, []byte("2"))
		k[0] = 'x'
		k2 := []byte("n")
		st.Set(k2, []byte("3"))
		k2[0] = 'y'
		k3 := []byte("k")
		_, _ = st.Get(k3)
		k3[0] = 'z'
		add("caller overwrites its KEY buffer after Set/Get returned: staged keys unchanged", "in", get(st, "k") == "2" && get(st, "n") == "3" && !st.Has([]byte("x")) && !st.Has([]byte("y")))
		p := []byte("c")
		child := st.WithPrefix(p)
		p[0] = 'q'
		child.Set([]byte("1"), []byte("v"))
		add("caller overwrites the prefix buffer after WithPrefix returned: the view keeps its prefix", "in", get(st, "c1") == "v")
		d.Close()
	}
	{ // Get result overwritten by the caller
		d := mk("Pdb", "stored")
		st := diffdb.New(d, []byte("P"))
		st.Set([]byte("k"), []byte("staged"))
		g1, _ := st.Get([]byte("k"))
		g1[0] = 'X'
		g2, _ := st.Get([]byte("db")) // read through to the database (and cached)
		g2[0] = 'X'
		g3, _ := st.Get([]byte("db")) // now from the overlay
		g3[1] = 'Y'
		add("caller overwrites the slice returned by Get (overlay hit, database read-through, cached read): staged state unchanged", "in", get(st, "k") == "staged" && get(st, "db") == "stored")
		d.Close()
	}
	{ // OUTSIDE: caller writes to the value it handed to Set
		d := mk("Pdb", "stored")
		st := diffdb.New(d, []byte("P"))
		v1, v2 := []byte("new1"), []byte("new2")
		st.Set([]byte("k"), v1) // not in the database: cacheDB.add
		st.Set([]byte("db"), v2)
		v1[0], v2[0] = 'X', 'X'
		add("caller overwrites the VALUE buffer it handed to Set (key new to the database / key in the database): staged value unchanged", "outside: the store keeps the caller's slice (cacheDB.add/set, no copy, nothing documented); every engine caller hands over a freshly encoded slice and drops it (SetEncodable)", get(st, "k") == "new1" && get(st, "db") == "new2")
		d.Close()
	}
	{ // OUTSIDE: caller writes to a slice a scan handed out
		d := mk("Pa", "1111", "Pb", "2222")
		st := diffdb.New(d, []byte("P"))
		st.Set([]byte("b"), []byte("3333"))
		r := st.Range([]byte("a"), []byte("b"), -1, false)
		r[0].Value()[0], r[1].Value()[0] = 'X', 'X'
		r[0].Key()[0] = 'X'
		add("caller overwrites VALUE slices of a Range result (database entry / staged entry): staged state unchanged", "outside: dataBetween/withPrefix hand out the overlay's slices; engine callers only decode them (copy) or pass Key() on to Del", get(st, "a") == "1111" && get(st, "b") == "3333")
		it := st.Iterate([]byte{}, -1, false)
		it[0].Key()[0] = 'X'
		add("caller overwrites KEY slices of a Range/Iterate result: staged keys unchanged", "not exercised (no caller does it; harmless here: keys are converted from the map's string keys)", st.Has([]byte("a")) && st.Has([]byte("b")) && !st.Has([]byte("X")))
		d.Close()
	}
	{ // OUTSIDE: prefix handed to New
		d := mk("Pa", "1")
		p := []byte("P")
		st := diffdb.New(d, p)
		p[0] = 'Q'
		add("caller overwrites the prefix buffer it handed to diffdb.New: the store keeps its prefix", "outside: New keeps the caller's slice; every caller passes a fresh blockchain.DBPrefixToBytes(...)", get(st, "a") == "1")
		d.Close()
	}
	for _, o := range out {
		evid.R.Note("aliasing measured on this tree: %s -> %v [domain: %s]", o.pattern, o.safe, o.domain)
		evid.R.Label(fmt.Sprintf("alias-observed-safe=%v", o.safe), 1)
	}
	evid.R.Case("observe-aliasing", false, nil, "observe")
}
