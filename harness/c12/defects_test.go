package c12

import (
	"fmt"
	"sync"
	"testing"

	"github.com/LiskHQ/lisk-engine/pkg/db"
	"github.com/LiskHQ/lisk-engine/pkg/db/diffdb"

	"verifharness/evid"
	"verifharness/model/kv"
)

// Signatures of the listed findings: (operation, shape predicate of the call) — see known_findings/C12.json.
const (
	sigS7 = "diffdb.Iterate|view-prefix-nonempty|overlay-filtered-with-unprefixed-prefix"
	sigS8 = "diffdb.Range,Iterate|limit>=0|staged-delete-among-first-limit-store-keys"
	sigS9 = "db.iterateRange|reverse|stored-key-extends-end-or-end-has-no-upper-bound"
)

// present: does the minimal reproduction of the defect still fail on the tree under test? Probed once per process; the
// generators avoid a trigger only while the defect is present AND listed as known, so a repaired tree is searched in full
// and an unlisted defect is reported as a violation.
var present struct{ S7, S8, S9, S10 bool }
var probeOnce sync.Once

func probeDefects() {
	probeOnce.Do(func() {
		present.S7 = reproS7() != ""
		present.S8 = reproS8() != ""
		present.S9 = reproS9() != ""
		present.S10 = staleHandleAfterRestore()
		evid.R.Note("probes on this tree: S7 present=%v, S8 present=%v, S9 present=%v; handles derived before a RestoreSnapshot keep the discarded overlay (S10, domain restriction)=%v",
			present.S7, present.S8, present.S9, present.S10)
	})
}

func avoid(sig string) bool {
	probeDefects()
	var p bool
	switch sig {
	case sigS7:
		p = present.S7
	case sigS8:
		p = present.S8
	case sigS9:
		p = present.S9
	}
	return p && evid.R.IsKnown(sig)
}

func mk(pairs ...string) *db.DB {
	m := kv.Map{}
	for i := 0; i+1 < len(pairs); i += 2 {
		m[pairs[i]] = pairs[i+1]
	}
	return newDBFrom(m)
}

func expect(what string, got []db.KeyValue, want ...string) string {
	var w []kv.KV
	for i := 0; i+1 < len(want); i += 2 {
		w = append(w, kv.KV{K: want[i], V: want[i+1]})
	}
	if sameKVs(got, w) {
		return ""
	}
	return fmt.Sprintf("%s = %s, expected %s; ", what, showKVs(got), showModel(w))
}

// reproS7: prefix iteration through a view with a non-empty prefix. Returns "" if the code behaves.
func reproS7() string {
	out := ""
	// (a) database {P x = 1}; root view <P>; Iterate("x") must return x=1 (the store value, not an empty value)
	d := mk("Px", "1")
	root := diffdb.New(d, []byte("P"))
	out += expect(`{Px=1} New(P).Iterate("x",-1,fwd)`, root.Iterate([]byte("x"), -1, false), "x", "1")
	d.Close()
	// (b) a staged write through one child view must not show up in a sibling's iteration, and must show up in its own
	d = mk()
	root = diffdb.New(d, []byte("P"))
	cx, cy := root.WithPrefix([]byte("x")), root.WithPrefix([]byte("y"))
	cy.Set([]byte("q"), []byte("9"))
	out += expect(`{} x=New(P).WithPrefix("x"), y=...("y"); y.Set(q,9); x.Iterate("",-1,fwd)`, cx.Iterate([]byte{}, -1, false))
	out += expect(`... y.Iterate("q",-1,fwd)`, cy.Iterate([]byte("q"), -1, false), "q", "9")
	d.Close()
	return out
}

// reproS8: a limited scan over a staged delete.
func reproS8() string {
	out := ""
	d := mk("Pa", "1", "Pb", "2")
	root := diffdb.New(d, []byte("P"))
	root.Del([]byte("a"))
	out += expect(`{Pa=1,Pb=2} New(P).Del(a); Range(a,z,limit 1,fwd)`, root.Range([]byte("a"), []byte("z"), 1, false), "b", "2")
	d.Close()
	d = mk("a", "1", "b", "2")
	root = diffdb.New(d, []byte{})
	root.Del([]byte("b"))
	out += expect(`{a=1,b=2} New("").Del(b); Iterate("",limit 1,rev)`, root.Iterate([]byte{}, 1, true), "a", "1")
	d.Close()
	return out
}

// reproS9: reverse range scan with an end bound that is a proper prefix of a stored key / has no upper bound.
func reproS9() string {
	out := ""
	d := mk("a", "1", "ab", "2")
	out += expect(`{a=1,ab=2} db.IterateRange(a,a,-1,rev)`, d.IterateRange([]byte("a"), []byte("a"), -1, true), "a", "1")
	out += expect(`{a=1,ab=2} db.IterateRange(a,a,1,rev)`, d.IterateRange([]byte("a"), []byte("a"), 1, true), "a", "1")
	d.Close()
	d = mk("a", "1", "\xff", "2")
	out += expect(`{a=1,ff=2} db.IterateRange("",ff,-1,rev)`, d.IterateRange([]byte{}, []byte{0xff}, -1, true), "\xff", "2", "a", "1")
	d.Close()
	// the same through the staged store (liskbft uses Range(start,end,1,reverse))
	d = mk("Pa", "1", "Pab", "2")
	root := diffdb.New(d, []byte("P"))
	out += expect(`{Pa=1,Pab=2} New(P).Range(a,a,1,rev)`, root.Range([]byte("a"), []byte("a"), 1, true), "a", "1")
	d.Close()
	return out
}

// staleHandleAfterRestore: is a restore through one handle invisible to a handle derived earlier (or to the root when
// restoring through a child)? Not a finding of this check (see notes/C12.md): it only selects the snapshot domain.
func staleHandleAfterRestore() bool {
	d := mk("Pa", "1")
	defer d.Close()
	root := diffdb.New(d, []byte("P"))
	child := root.WithPrefix([]byte{})
	id := root.Snapshot()
	child.Set([]byte("a"), []byte("NEW"))
	_ = root.RestoreSnapshot(id)
	v, _ := child.Get([]byte("a"))
	id = child.Snapshot()
	child.Set([]byte("a"), []byte("NEW2"))
	_ = child.RestoreSnapshot(id)
	w, _ := root.Get([]byte("a"))
	return string(v) != "1" || string(w) != "1"
}

func regress(t *testing.T, sig string, repro func() string) {
	detail := repro()
	if detail == "" {
		return
	}
	if evid.R.KnownFinding(sig) {
		t.Logf("known finding still present: %s", detail)
		evid.R.Case("regress|"+sig, false, nil, "regress-known-still-present")
		return
	}
	t.Fatalf("regression / unlisted defect [%s]: %s", sig, detail)
}

func TestRegressS7IterateThroughPrefixedView(t *testing.T) { regress(t, sigS7, reproS7) }
func TestRegressS8LimitedScanOverStagedDelete(t *testing.T) { regress(t, sigS8, reproS8) }
func TestRegressS9ReverseRangeEndBound(t *testing.T)        { regress(t, sigS9, reproS9) }

// S10 is repaired in /repo (fix 80cd5f2, listed as C16-F4 "fixed"): a restore through one view must be seen by every view of the staged
// store. A fixed entry suppresses nothing - if the defect returns it is a violation of C12 as well ("reads through ANY view equal the
// database with the staged writes applied"), not a reason to narrow the domain again (the probe above still steers the generator, so
// that the search continues behind it). Added after seeded change C12-q, which re-introduced exactly this defect and passed.
func TestRegressS10StaleHandleAfterRestore(t *testing.T) {
	if staleHandleAfterRestore() {
		t.Fatalf("regression [diffdb.RestoreSnapshot|handle-derived-before-the-restore|keeps-the-discarded-overlay]: after root.Snapshot; child.Set(a,NEW); root.RestoreSnapshot the child view still reads NEW (or the root does after a restore through the child)")
	}
	evid.R.Case("regress|S10", true, nil, "regress")
}

// TestObserve records behaviour that is outside the asserted domain (never fails): limit 0, handles that outlive a
// RestoreSnapshot (S10), restoring through a child view.
func TestObserve(t *testing.T) {
	d := mk("Pa", "1", "Pb", "2")
	defer d.Close()
	root := diffdb.New(d, []byte("P"))
	evid.R.Note("observed (not asserted): limit 0 -> db.IterateRange returns %d pair(s), db.Iterate %d, diffdb.Range %d, diffdb.Iterate %d (db scans treat 0 as 1, the staged store as 'none'; no caller passes 0)",
		len(d.IterateRange([]byte("P"), []byte("Q"), 0, false)), len(d.Iterate([]byte("P"), 0, false)),
		len(root.Range([]byte("a"), []byte("z"), 0, false)), len(root.Iterate([]byte{}, 0, false)))

	// S10: handles derived before a restore keep the discarded overlay
	root = diffdb.New(d, []byte("P"))
	child := root.WithPrefix([]byte{})
	id := root.Snapshot()
	child.Set([]byte("a"), []byte("NEW"))
	_ = root.RestoreSnapshot(id)
	v1, _ := root.Get([]byte("a"))
	v2, _ := child.Get([]byte("a"))
	v3, _ := root.WithPrefix([]byte{}).Get([]byte("a"))
	evid.R.Note("observed (not asserted, S10): after root.Snapshot; child.Set(a,NEW); root.RestoreSnapshot -> root reads %q, the child handle derived BEFORE the restore reads %q, a child derived AFTER reads %q", v1, v2, v3)
	// restoring through a child view leaves the root (which commits) on the un-restored overlay
	root = diffdb.New(d, []byte("P"))
	child = root.WithPrefix([]byte{})
	id = child.Snapshot()
	child.Set([]byte("a"), []byte("NEW"))
	_ = child.RestoreSnapshot(id)
	v1, _ = root.Get([]byte("a"))
	v2, _ = child.Get([]byte("a"))
	evid.R.Note("observed (not asserted, S10): child.Snapshot; child.Set(a,NEW); child.RestoreSnapshot -> child reads %q, root reads %q (engine callers snapshot/restore through the root only)", v2, v1)
	// db.iterateRange never closes its pebble iterator (outside the statement; optional patch in fixes_proposed)
	d2 := mk("a", "1")
	d2.IterateRange([]byte("a"), []byte("b"), -1, false)
	evid.R.Note("observed (not asserted): db.Close() after one IterateRange returns: %v", d2.Close())
	evid.R.Case("observe", false, nil, "observe")
}

// Limited scans after a restore that brings a staged delete back (fixed history, every tier; added after the seed regression showed that
// seeded change C12-m - a counter of staged deletes that went stale across RestoreSnapshot - was met by the generated histories at some
// seeds only): Del of a stored key, Snapshot, Set of the same key, Restore -> the key is staged for deletion again and every limited scan
// must step over it, in both directions, through Range and Iterate, through the root and through a prefixed view.
func TestRegressLimitedScanAfterRestoredDelete(t *testing.T) {
	out := ""
	for _, pfx := range []string{"", "P"} {
		d := mk(pfx+"a", "1", pfx+"b", "2", pfx+"c", "3")
		root := diffdb.New(d, []byte(pfx))
		root.Del([]byte("a"))
		id := root.Snapshot()
		root.Set([]byte("a"), []byte("9"))
		if err := root.RestoreSnapshot(id); err != nil {
			t.Fatalf("RestoreSnapshot: %v", err)
		}
		what := fmt.Sprintf("{%sa=1,%sb=2,%sc=3} New(%q): Del(a); Snapshot; Set(a,9); Restore; ", pfx, pfx, pfx, pfx)
		out += expect(what+"Range(a,c,1,fwd)", root.Range([]byte("a"), []byte("c"), 1, false), "b", "2")
		out += expect(what+"Range(a,c,2,fwd)", root.Range([]byte("a"), []byte("c"), 2, false), "b", "2", "c", "3")
		out += expect(what+`Iterate("",1,fwd)`, root.Iterate([]byte{}, 1, false), "b", "2")
		out += expect(what+`Iterate("",2,fwd)`, root.Iterate([]byte{}, 2, false), "b", "2", "c", "3")
		d.Close()
		// the mirror image: the deleted key is the last one, scans in reverse
		d = mk(pfx+"a", "1", pfx+"b", "2", pfx+"c", "3")
		root = diffdb.New(d, []byte(pfx))
		root.Del([]byte("c"))
		id = root.Snapshot()
		root.Set([]byte("c"), []byte("9"))
		if err := root.RestoreSnapshot(id); err != nil {
			t.Fatalf("RestoreSnapshot: %v", err)
		}
		what = fmt.Sprintf("{%sa=1,%sb=2,%sc=3} New(%q): Del(c); Snapshot; Set(c,9); Restore; ", pfx, pfx, pfx, pfx)
		out += expect(what+"Range(a,c,1,rev)", root.Range([]byte("a"), []byte("c"), 1, true), "b", "2")
		out += expect(what+`Iterate("",2,rev)`, root.Iterate([]byte{}, 2, true), "b", "2", "a", "1")
		d.Close()
	}
	if out != "" {
		t.Fatalf("limited scan after a restored staged delete: %s", out)
	}
	evid.R.Case("regress|limited-scan-after-restored-delete", true, nil, "regress")
}
