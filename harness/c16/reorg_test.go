package c16

// Reorganisation histories (C16 extension, notes/C16.md "Reorganisations"): the block histories generated here are built
// around chain reorganisations of depth 1-4 - remove k blocks (Revert calls and/or the Init restart recovery), apply a
// different branch of length >= k, possibly remove that branch again and return to the blocks removed first - with
// state-NEUTRAL blocks (empty, every transaction failing, events/reads only, a key written back to its current value,
// writes that cancel out) at every position of a branch, restarts with the engine 0-4 blocks behind the application after
// such reorganisations, and descents Revert -> Revert -> ... through heights that have held several different blocks.
//
// The generator runs the map model alongside (modelApply) only to know which keys exist, so that it can build blocks that
// are state-neutral by construction; the oracle is the one of harness_test.go (sim), which recomputes everything itself.

import (
	"bytes"
	"fmt"
	"strings"
	"testing"

	"pgregory.net/rapid"

	"verifharness/evid"
)

// modelApply returns the state after a (committed) block on top of prev.
func modelApply(prev mstate, b *BlockSpec) mstate {
	m := &mrun{st: prev.clone()}
	hooks := [2]*BlockScript{&b.Hooks[0], &b.Hooks[1]}
	m.runBlockHook(hooks, false)
	for i := range b.Txs {
		if !b.Txs[i].Dry {
			m.runTx(b.Txs[i].Module, &b.Txs[i].Script)
		}
	}
	m.runBlockHook(hooks, true)
	return m.st
}

func modelGenesis(h *History) mstate {
	m := &mrun{st: mstate{}}
	for i := 0; i < 2; i++ {
		m.runOps(h.Genesis[i].Init, modNames[i], "genesis-init/"+modNames[i])
	}
	for i := 0; i < 2; i++ {
		m.runOps(h.Genesis[i].Fin, modNames[i], "genesis-fin/"+modNames[i])
	}
	return m.st
}

type slot struct{ s, key, val int } // val = index of the current value in valUniverse (-1: key absent)

// slots lists the key universe in a fixed order with what the state holds.
func slots(st mstate) (present, absent []slot) {
	for s := range storePrefixes {
		for k := range keyUniverse {
			v, ok := st[fullKey(s, k)]
			if !ok {
				absent = append(absent, slot{s, k, -1})
				continue
			}
			idx := -1
			for i, u := range valUniverse {
				if bytes.Equal(u, v) {
					idx = i
					break
				}
			}
			present = append(present, slot{s, k, idx})
		}
	}
	return
}

func genFlags(t *rapid.T, b *BlockSpec) {
	b.Verify = rapid.Bool().Draw(t, "verify")
	b.CommitDry = rapid.IntRange(0, 3).Draw(t, "commitdry") == 0
	b.Expected = rapid.Bool().Draw(t, "expected")
}

func genQuietOps(t *rapid.T, maxN int) []Op {
	n := rapid.IntRange(0, maxN).Draw(t, "nquiet")
	ops := []Op{}
	for i := 0; i < n; i++ {
		k := rapid.SampledFrom([]string{"get", "has", "ev", "uev"}).Draw(t, "quiet-kind")
		if k == "ev" || k == "uev" {
			ops = append(ops, genEvent(t, k))
		} else {
			ops = append(ops, genDataOp(t, k, -1))
		}
	}
	return ops
}

func genWrites(t *rapid.T, minN, maxN int) []Op {
	n := rapid.IntRange(minN, maxN).Draw(t, "nwrites")
	ops := []Op{}
	for i := 0; i < n; i++ {
		ops = append(ops, genDataOp(t, rapid.SampledFrom([]string{"set", "set", "set", "del"}).Draw(t, "write-kind"), -1))
	}
	return ops
}

// place puts a program that must take effect into one of the places a block can write from.
func place(t *rapid.T, b *BlockSpec, ops []Op) {
	mod := rapid.IntRange(0, 1).Draw(t, "place-module")
	switch rapid.SampledFrom([]string{"cmd", "cmd", "cmd", "before", "after", "pre", "post"}).Draw(t, "place") {
	case "cmd":
		b.Txs = append(b.Txs, TxSpec{Module: mod, Script: TxScript{Cmd: ops, Probe: rapid.Bool().Draw(t, "probe")}})
	case "before":
		b.Hooks[mod].Before = append(b.Hooks[mod].Before, ops...)
	case "after":
		b.Hooks[mod].After = append(b.Hooks[mod].After, ops...)
	case "pre":
		ts := TxScript{Cmd: genQuietOps(t, 2), Fail: rapid.Bool().Draw(t, "fail")}
		ts.Pre[mod] = ops
		b.Txs = append(b.Txs, TxSpec{Module: 1 - mod, Script: ts})
	case "post":
		ts := TxScript{Cmd: genQuietOps(t, 2), Fail: rapid.Bool().Draw(t, "fail")}
		ts.Post[mod] = ops
		b.Txs = append(b.Txs, TxSpec{Module: 1 - mod, Script: ts})
	}
}

var neutralKinds = []string{"empty", "quiet", "allfail", "allfail", "writeback", "cancel", "cancel"}

// genNeutralBlock builds a block which, on state cur, leaves the state as it is.
func genNeutralBlock(t *rapid.T, cur mstate) (*BlockSpec, string) {
	b := &BlockSpec{}
	kind := rapid.SampledFrom(neutralKinds).Draw(t, "neutral-kind")
	present, absent := slots(cur)
	if kind == "writeback" && len(present) == 0 {
		kind = "empty"
	}
	if kind == "cancel" && len(absent) == 0 && len(present) == 0 {
		kind = "empty"
	}
	switch kind {
	case "empty":
		// no transactions, no hook activity
	case "quiet":
		// reads and events only
		for i := 0; i < 2; i++ {
			b.Hooks[i].Before = genQuietOps(t, 2)
			b.Hooks[i].After = genQuietOps(t, 2)
		}
		n := rapid.IntRange(0, 2).Draw(t, "ntx")
		for i := 0; i < n; i++ {
			b.Txs = append(b.Txs, TxSpec{Module: rapid.IntRange(0, 1).Draw(t, "txmodule"), Script: TxScript{Cmd: genQuietOps(t, 3), Fail: rapid.Bool().Draw(t, "fail")}})
		}
	case "allfail":
		// every transaction writes and fails; hooks are quiet
		n := rapid.IntRange(1, 3).Draw(t, "ntx")
		for i := 0; i < n; i++ {
			var cmd []Op
			if rapid.Bool().Draw(t, "rich") {
				cmd = genOps(t, 6, true)
			}
			cmd = append(cmd, genWrites(t, 1, 3)...)
			ts := TxScript{Cmd: cmd, Fail: true, Probe: rapid.Bool().Draw(t, "probe")}
			if rapid.IntRange(0, 2).Draw(t, "quiet-hooks") == 0 {
				ts.Pre[rapid.IntRange(0, 1).Draw(t, "m")] = genQuietOps(t, 2)
				ts.Post[rapid.IntRange(0, 1).Draw(t, "m")] = genQuietOps(t, 2)
			}
			b.Txs = append(b.Txs, TxSpec{Module: rapid.IntRange(0, 1).Draw(t, "txmodule"), Script: ts})
		}
	case "writeback":
		// keys written back to the value they have
		n := rapid.IntRange(1, 2).Draw(t, "nback")
		for i := 0; i < n; i++ {
			sl := present[rapid.IntRange(0, len(present)-1).Draw(t, "slot")]
			place(t, b, []Op{{K: "set", S: sl.s, H: rapid.IntRange(0, 1).Draw(t, "handle"), Key: sl.key, Val: sl.val}})
		}
	case "cancel":
		// writes that cancel out
		variants := []string{}
		if len(absent) > 0 {
			variants = append(variants, "set-del", "set-del", "set-del-2tx", "set-del-hooks", "snap-set-rest")
		}
		if len(present) > 0 {
			variants = append(variants, "del-setback", "overwrite-setback", "overwrite-setback-2tx")
		}
		v := rapid.SampledFrom(variants).Draw(t, "cancel-variant")
		kind = "cancel:" + v
		pick := func(list []slot) slot { return list[rapid.IntRange(0, len(list)-1).Draw(t, "slot")] }
		other := func(val int) int {
			o := rapid.IntRange(0, len(valUniverse)-2).Draw(t, "otherval")
			if o >= val {
				o++
			}
			return o
		}
		mod := rapid.IntRange(0, 1).Draw(t, "txmodule")
		switch v {
		case "set-del":
			sl := pick(absent)
			place(t, b, []Op{{K: "set", S: sl.s, Key: sl.key, Val: rapid.IntRange(0, len(valUniverse)-1).Draw(t, "val")}, {K: "del", S: sl.s, Key: sl.key}})
		case "set-del-2tx":
			sl := pick(absent)
			b.Txs = append(b.Txs,
				TxSpec{Module: mod, Script: TxScript{Cmd: []Op{{K: "set", S: sl.s, Key: sl.key, Val: rapid.IntRange(0, len(valUniverse)-1).Draw(t, "val")}}}},
				TxSpec{Module: 1 - mod, Script: TxScript{Cmd: []Op{{K: "del", S: sl.s, Key: sl.key}}, Probe: true}})
		case "set-del-hooks":
			sl := pick(absent)
			b.Hooks[mod].Before = []Op{{K: "set", S: sl.s, Key: sl.key, Val: rapid.IntRange(0, len(valUniverse)-1).Draw(t, "val")}}
			b.Hooks[1-mod].After = []Op{{K: "del", S: sl.s, Key: sl.key}}
			if rapid.Bool().Draw(t, "reader") {
				b.Txs = append(b.Txs, TxSpec{Module: mod, Script: TxScript{Cmd: []Op{{K: "get", S: sl.s, Key: sl.key}}, Fail: rapid.Bool().Draw(t, "fail")}})
			}
		case "snap-set-rest":
			sl := pick(absent)
			b.Txs = append(b.Txs, TxSpec{Module: mod, Script: TxScript{Cmd: []Op{{K: "snap"}, {K: "set", S: sl.s, Key: sl.key, Val: rapid.IntRange(0, len(valUniverse)-1).Draw(t, "val")}, {K: "rest", N: 0}, {K: "get", S: sl.s, Key: sl.key}}}})
		case "del-setback":
			sl := pick(present)
			place(t, b, []Op{{K: "del", S: sl.s, Key: sl.key}, {K: "set", S: sl.s, Key: sl.key, Val: sl.val}})
		case "overwrite-setback":
			sl := pick(present)
			place(t, b, []Op{{K: "set", S: sl.s, Key: sl.key, Val: other(sl.val)}, {K: "set", S: sl.s, Key: sl.key, Val: sl.val}})
		case "overwrite-setback-2tx":
			sl := pick(present)
			b.Txs = append(b.Txs,
				TxSpec{Module: mod, Script: TxScript{Cmd: []Op{{K: "set", S: sl.s, Key: sl.key, Val: other(sl.val)}}}},
				TxSpec{Module: 1 - mod, Script: TxScript{Cmd: []Op{{K: "set", S: sl.s, Key: sl.key, Val: sl.val}}, Probe: true}})
		}
	}
	genFlags(t, b)
	return b, "neutral:" + kind
}

// genLightBlock builds a small block that (usually) changes the state: 1-3 writes from one or two places, sometimes next
// to a failing transaction.
func genLightBlock(t *rapid.T) (*BlockSpec, string) {
	b := &BlockSpec{}
	n := rapid.IntRange(1, 2).Draw(t, "nplaces")
	for i := 0; i < n; i++ {
		if rapid.IntRange(0, 3).Draw(t, "failing?") == 0 {
			b.Txs = append(b.Txs, TxSpec{Module: rapid.IntRange(0, 1).Draw(t, "txmodule"), Script: TxScript{Cmd: genWrites(t, 1, 2), Fail: true}})
		}
		place(t, b, genWrites(t, 1, 3))
	}
	genFlags(t, b)
	return b, "light"
}

type gtip struct {
	state mstate
	spec  *BlockSpec
	note  string
}

type reorgGen struct {
	t     *rapid.T
	h     *History
	chain []gtip // [0] = genesis
}

func (g *reorgGen) top() mstate { return g.chain[len(g.chain)-1].state }

func (g *reorgGen) apply(b *BlockSpec, note string) {
	next := g.top()
	if b.Abandon == "" {
		next = modelApply(g.top(), b)
		if strings.HasPrefix(note, "neutral") && !next.equal(g.top()) {
			panic(fmt.Sprintf("generator error: block meant to be state-neutral (%s) changes the model state", note))
		}
	} else {
		note += "/abandoned"
	}
	g.h.Steps = append(g.h.Steps, Step{Kind: "block", Block: b, Note: note})
	if b.Abandon == "" {
		g.chain = append(g.chain, gtip{state: next, spec: b, note: note})
	}
}

// fresh draws a new block for the current tip: state-neutral with probability pNeutral/10.
func (g *reorgGen) fresh(pNeutral int) {
	t := g.t
	if rapid.IntRange(0, 9).Draw(t, "neutral?") < pNeutral {
		b, note := genNeutralBlock(t, g.top())
		g.apply(b, note)
		return
	}
	if rapid.IntRange(0, 3).Draw(t, "full?") == 0 {
		g.apply(genBlock(t), "full") // the general block generator (may be abandoned / crash)
		return
	}
	b, note := genLightBlock(t)
	g.apply(b, note)
}

// remove takes k blocks off the chain by Revert calls and/or restart recoveries; returns them bottom-up.
func (g *reorgGen) remove(k int) []gtip {
	t := g.t
	removed := append([]gtip{}, g.chain[len(g.chain)-k:]...)
	for k > 0 {
		switch rapid.SampledFrom([]string{"revert", "revert", "revert", "revert", "revert", "revert", "restart", "restart", "restart0"}).Draw(t, "removal") {
		case "revert":
			g.h.Steps = append(g.h.Steps, Step{Kind: "revert", Expected: rapid.Bool().Draw(t, "expected")})
			g.chain = g.chain[:len(g.chain)-1]
			k--
		case "restart":
			d := rapid.IntRange(1, k).Draw(t, "d")
			g.h.Steps = append(g.h.Steps, Step{Kind: "restart", D: d})
			g.chain = g.chain[:len(g.chain)-d]
			k -= d
		case "restart0":
			g.h.Steps = append(g.h.Steps, Step{Kind: "restart", D: 0})
		}
	}
	return removed
}

func (g *reorgGen) reapply(old []gtip) {
	for _, o := range old {
		g.apply(o.spec, "return:"+o.note)
	}
}

func genReorgHistory(t *rapid.T) *History {
	h := &History{GenesisHeight: rapid.SampledFrom([]uint32{0, 0, 7, 1000}).Draw(t, "genesisHeight")}
	for i := 0; i < 2; i++ {
		h.Genesis[i].Init = genOps(t, 5, false)
		h.Genesis[i].Fin = genOps(t, 2, false)
	}
	g := &reorgGen{t: t, h: h, chain: []gtip{{state: modelGenesis(h)}}}
	nPrefix := rapid.IntRange(0, 2).Draw(t, "prefix")
	for i := 0; i < nPrefix; i++ {
		g.fresh(3)
	}
	episodes := rapid.SampledFrom([]int{1, 1, 2, 2, 3}).Draw(t, "episodes")
	for e := 0; e < episodes; e++ {
		k := rapid.SampledFrom([]int{1, 2, 2, 2, 3, 3, 4}).Draw(t, "depth")
		// the branch that is going to be abandoned
		for guard := 0; len(g.chain)-1 < k && guard < 8; guard++ {
			g.fresh(3)
		}
		if len(g.chain)-1 < k {
			k = len(g.chain) - 1 // (abandoned blocks did not grow the chain)
		}
		if k == 0 {
			continue
		}
		old := g.remove(k)
		// the new branch: length >= k, state-neutral blocks at any position
		l := k + rapid.SampledFrom([]int{0, 0, 1}).Draw(t, "extra")
		pNeutral := rapid.SampledFrom([]int{3, 5, 5, 7}).Draw(t, "pNeutral")
		before := len(g.chain)
		for i := 0; i < l; i++ {
			g.fresh(pNeutral)
		}
		switch rapid.SampledFrom([]string{"", "", "", "revert-tip", "restart", "restart", "return", "return"}).Draw(t, "after-branch") {
		case "revert-tip":
			if len(g.chain) > 1 {
				g.remove(1)
			}
		case "restart":
			max := len(g.chain) - 1
			if max > 4 {
				max = 4
			}
			d := rapid.IntRange(0, max).Draw(t, "d")
			h.Steps = append(h.Steps, Step{Kind: "restart", D: d})
			g.chain = g.chain[:len(g.chain)-d]
		case "return":
			// remove the new branch again and return to the blocks removed first
			if n := len(g.chain) - before; n > 0 {
				g.remove(n)
			}
			if len(g.chain) == before {
				g.reapply(old)
			}
		}
	}
	// descent through the heights that have held several blocks
	if len(g.chain) > 1 && rapid.IntRange(0, 2).Draw(t, "descend?") > 0 {
		g.remove(rapid.IntRange(1, len(g.chain)-1).Draw(t, "descend"))
		if rapid.Bool().Draw(t, "rebuild") {
			g.fresh(5)
		}
	}
	return h
}

// TestC16Reorgs: same oracle as TestC16Histories (sim.run), histories built around reorganisations.
func TestC16Reorgs(t *testing.T) {
	rapid.Check(t, func(t *rapid.T) {
		h := genReorgHistory(t)
		if n := avoidKnown(h); n > 0 {
			evid.R.Excluded(int64(n))
		}
		s := newSim()
		defer s.close()
		s.followEvents = isKnown(sigEvents)
		s.followTomb = isKnown(sigTomb)
		s.initWorkaround = isKnown(sigInitPanic)
		step, v := s.run(h)
		if v != nil {
			if v.sig != "" && knownFinding(v.sig) {
				evid.R.Label("history-cut-at-known-finding", 1)
				return
			}
			t.Fatalf("C16 violated (reorganisation history, step %d, candidate signature %q)\n%s\nhistory: %s", step, v.sig, v.msg, h.JSON())
		}
		st := s.stats
		labels := historyLabels("reorg-history", &st)
		kinds := map[string]bool{}
		for i := range h.Steps {
			if n := h.Steps[i].Note; strings.HasPrefix(n, "neutral:") && !strings.HasSuffix(n, "/abandoned") {
				kinds[strings.SplitN(n, ":", 3)[1]] = true
			} else if strings.HasPrefix(n, "return:") {
				kinds["return-to-removed-branch"] = true
			}
		}
		for _, k := range []string{"empty", "quiet", "allfail", "writeback", "cancel", "return-to-removed-branch"} {
			if kinds[k] {
				labels = append(labels, "branch-has-"+k+"-block")
			}
		}
		nontrivial := st.richFail > 0 || st.delPreexisting > 0 || (st.removedNeutral > 0 && st.reorgDepth[2]+st.reorgDepth[3]+st.reorgDepth[4] > 0)
		evid.R.Case(h.JSON(), nontrivial, func() any { return h }, labels...)
		evid.R.Label("blocks", int64(st.blocks))
		evid.R.Label("transactions", int64(st.txs))
		evid.R.Label("failing-transactions", int64(st.failTxs))
		evid.R.Label("removals-of-state-neutral-block-at-height-of-abandoned-state-changing-block", int64(st.revertNeutralOverStale+st.recoverNeutralOverStale))
		evid.R.Label("removals-at-height-that-saw-2+-blocks", int64(st.removedAtMultiHeight))
		evid.R.Label("state-neutral-blocks-committed", int64(st.neutralCommitted))
		countScanLabels(&st)
	})
}

// A block that leaves the state untouched, committed at a height that held a state-changing block of an abandoned branch,
// must be removed without the abandoned block's per-height diff record having any say (two-deep reorganisation; removal by
// Revert with the expected root, by Revert without, and by the restart recovery).
func TestRegressNeutralBlockOverAbandonedHeight(t *testing.T) {
	set := func(val int) *BlockSpec { return oneTxBlock(TxScript{Cmd: []Op{{K: "set", S: 0, Key: 1, Val: val}}}) }
	neutral := map[string]*BlockSpec{
		"allfail": oneTxBlock(TxScript{Cmd: []Op{{K: "set", S: 0, Key: 1, Val: 4}, {K: "set", S: 1, Key: 2, Val: 1}}, Fail: true}),
		"empty":   {},
		"cancel":  oneTxBlock(TxScript{Cmd: []Op{{K: "set", S: 1, Key: 3, Val: 1}, {K: "del", S: 1, Key: 3}}}),
	}
	for _, name := range []string{"allfail", "empty", "cancel"} {
		for _, last := range []Step{{Kind: "revert", Expected: true}, {Kind: "revert"}, {Kind: "restart", D: 1}, {Kind: "restart", D: 2}} {
			h := &History{Steps: []Step{
				{Kind: "block", Block: set(1)}, // G   h1: k=x
				{Kind: "block", Block: set(2)}, // A   h2: k=y
				{Kind: "revert", Expected: true},
				{Kind: "revert", Expected: true},
				{Kind: "block", Block: set(3)},                               // G'  h1: k=zz
				{Kind: "block", Block: neutral[name], Note: "neutral:" + name}, // B   h2: nothing changes
				last,
				{Kind: "block", Block: set(5)},
				{Kind: "revert", Expected: true},
			}}
			runRegress(t, fmt.Sprintf("neutral-over-abandoned-%s-%s-d%d", name, last.Kind, last.D), "", h, nil)
		}
	}
}
