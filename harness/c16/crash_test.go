package c16

// Crash points inside the application's commit path (extension, notes/C16.md "Extension: crash points inside Commit /
// Revert / Init recovery").
//
// The other history families lose the process only at ABI-call boundaries. Here the framework's state database lives on
// pebble's strict in-memory file system behind a counting wrapper (crashfs_test.go). A generated short history is
// replayed, then ONE target ABI call - Commit(H), Revert(H) or Init with the application 1-2 blocks ahead of the engine -
// is run with the process dying right before its k-th file-system operation, for every k = 0..K (K from a crash-free
// reference run; k = K: right after the last operation). Unsynced data is lost. The database is reopened and Init is
// called the way engine.Start does, with every engine tip that is possible at that crash point:
//
//	consensus.processValidated:  abi.Commit(...)  THEN chain.AddBlock(batch, ...)     (application first, engine DB second)
//	consensus.deleteBlock:       abi.Revert(...)  THEN chain.RemoveBlock(batch, ...)  (application first, engine DB second)
//	engine.Start:                consensusExec.Init ... THEN abi.Init(chain.LastBlock()) (engine DB only read)
//
// so while Commit(H) runs the engine's tip is H-1, while Revert(H) runs it is H, and only once the call has issued its
// last file-system operation may the engine have gone on to record H (resp. remove H); during Init the engine's tip does
// not move.
//
// Oracle (last clause of the statement): when Init returns success, state dump, tree-state record and root are the model's
// at the ENGINE's tip and the chain continues from there (the target block again / a new block, a block writing every
// key, a block deleting every key, a Revert - all through the ordinary oracle of sim.block / sim.revert, roots from the
// reference sparse-Merkle tree). An error from Init is accepted only where the application is, consistently, BELOW the
// engine's tip (nothing to roll back; handler.go returns "invalid application state. current height is .. but engine
// state is .."): that is possible for exactly one enumerated combination - Revert(H) durable, engine tip still H - and
// then nothing may have changed.

import (
	"bytes"
	"encoding/json"
	"fmt"
	"strings"
	"testing"

	"github.com/LiskHQ/lisk-engine/pkg/db"
	"github.com/LiskHQ/lisk-engine/pkg/labi"
	"pgregory.net/rapid"

	"verifharness/evid"
)

type crashCase struct {
	H      *History   `json:"history"` // genesis + prefix steps
	Target Step       `json:"target"`  // block (Commit) | revert | restart with d >= 1 (Init recovery)
	Cont   *BlockSpec `json:"cont"`    // block executed after the recovery (when the target block itself is not executed again)
	Sweep  []int      `json:"sweep"`   // value indexes written to every key of the universe afterwards
}

func (c *crashCase) targetKind() string {
	switch c.Target.Kind {
	case "block":
		return "commit"
	case "revert":
		return "revert"
	}
	return fmt.Sprintf("init-d%d", c.Target.D)
}

func cloneChain(c []tipRec) []tipRec { return append([]tipRec{}, c...) }

func newSimOn(stateDB *db.DB) *sim {
	s := &sim{rec: &recorder{}, tomb: map[string]bool{}, chainID: []byte{4, 0, 0, 0}, seenAt: map[uint32]int{}, staleChanging: map[uint32]bool{}, stateDB: stateDB}
	var err error
	if s.moduleDB, err = db.NewInMemoryDB(); err != nil {
		panic(err)
	}
	return s
}

// fork = the next process: new handler, state machine and modules over the reopened state database.
func (s *sim) fork(stateDB *db.DB, seenAt map[uint32]int) *sim {
	n := newSimOn(stateDB)
	n.chainID, n.genesisBlock, n.nonce, n.finalized = s.chainID, s.genesisBlock, s.nonce, s.finalized
	for h, c := range seenAt {
		n.seenAt[h] = c
	}
	return n
}

func (s *sim) stepOne(i int, st *Step) *violation {
	where := fmt.Sprintf("step %d (%s, tip height %d)", i, st.Kind, s.tip().height)
	switch st.Kind {
	case "block":
		return s.block(where, st.Block)
	case "revert":
		if len(s.chain) < 2 {
			return nil
		}
		return s.revert(where, st.Expected)
	case "restart":
		d := st.D
		if d > len(s.chain)-1 {
			d = len(s.chain) - 1
		}
		return s.restart(where, s.clampRecovery(d))
	}
	return nil
}

type crashOutcome struct {
	K         int      // file-system operations of the target call
	Ops       []string // their kinds
	Inside    bool     // the crash fell before one of the call's operations (false: after the last one)
	Skipped   bool     // the requested engine tip is not possible at this crash point
	Landed    string   // what was on disk after the crash: before | after | between | mixed(...)
	Init      string   // no-op | recovered-N | refused-app-behind-engine
	EngineTip string   // before-effect | after-effect | fixed
	Changes   bool     // the target call changes the application state
}

func allKeysBlock(del bool, vals []int) *BlockSpec {
	ops := []Op{}
	i := 0
	for s := 0; s < 2; s++ {
		for k := range keyUniverse {
			if del {
				ops = append(ops, Op{K: "del", S: s, Key: k})
			} else {
				ops = append(ops, Op{K: "set", S: s, Key: k, Val: vals[i%len(vals)]})
			}
			i++
		}
	}
	return &BlockSpec{Txs: []TxSpec{{Module: 0, Script: TxScript{Cmd: ops, Probe: true}}}, Expected: true}
}

// runCrash replays the case with the process dying before the k-th file-system operation of the target call (k < 0:
// crash-free reference run, returns K) and restarts it with the engine's tip before (tipAfter = false) or after the
// effect of the target call.
func runCrash(cc *crashCase, k int, tipAfter bool) (out crashOutcome, v *violation) {
	fs := prepareFS()
	s := newSimOn(fs.open())
	open := []*sim{s}
	defer func() {
		for _, x := range open {
			func() {
				defer func() { _ = recover() }()
				x.stateDB.Close()
			}()
			x.moduleDB.Close()
		}
	}()
	if v := s.genesis(cc.H); v != nil {
		return out, viol(v.sig, "genesis: %s", v.msg)
	}
	for i := range cc.H.Steps {
		if v := s.stepOne(i, &cc.H.Steps[i]); v != nil {
			return out, viol(v.sig, "prefix: %s", v.msg)
		}
	}
	kind := cc.targetKind()
	if cc.Target.Kind == "restart" {
		// the process that left the application ahead of the engine is gone (everything it committed is synced)
		fs.kill(s.stateDB)
		s.stateDB = fs.open()
	}
	before := cloneChain(s.chain)
	seenBefore := map[uint32]int{}
	for h, c := range s.seenAt {
		seenBefore[h] = c
	}
	fs.begin(k)
	tv := s.stepOne(len(cc.H.Steps), &cc.Target)
	out.K, out.Inside, out.Ops = fs.end()
	if tv != nil {
		return out, viol(tv.sig, "target call (%s): %s", kind, tv.msg)
	}
	after := cloneChain(s.chain)
	if k < 0 {
		return out, nil
	}
	long, bi, ai := before, len(before)-1, len(after)-1
	if ai > bi {
		long = after
	}
	if bi == ai {
		return out, viol("", "harness: the target call (%s) did not move the application's tip", kind)
	}
	out.Changes = !long[bi].state.equal(long[ai].state)
	// the engine's tip
	ei := bi
	out.EngineTip = "before-effect"
	seen := seenBefore
	if cc.Target.Kind == "restart" {
		ei, out.EngineTip = ai, "fixed"
		if tipAfter {
			out.Skipped = true
			return out, nil
		}
	} else if tipAfter {
		if out.Inside {
			out.Skipped = true // the call had not finished: the engine cannot have gone on
			return out, nil
		}
		ei, out.EngineTip, seen = ai, "after-effect", s.seenAt
	}
	eng := long[ei]

	// the process dies; the next one opens the database
	fs.kill(s.stateDB)
	s2 := s.fork(fs.open(), seen)
	open = append(open, s2)
	s2.boot()
	disk := s2.dump()
	rh, rr, rok := s2.record()
	pos := -1
	for j := range long {
		if rok && rh == long[j].height && bytes.Equal(rr, long[j].root) && disk.equal(long[j].state) {
			pos = j
		}
	}
	lo, hi := bi, ai
	if lo > hi {
		lo, hi = hi, lo
	}
	switch {
	case pos == bi:
		out.Landed = "before"
	case pos == ai:
		out.Landed = "after"
	case pos > lo && pos < hi:
		out.Landed = "between"
	default:
		var st []string
		for j := range long {
			if disk.equal(long[j].state) {
				st = append(st, fmt.Sprint(long[j].height))
			}
		}
		out.Landed = fmt.Sprintf("mixed(state dump = model state of height(s) [%s], tree-state record = (height %d, root %x, present %v))", strings.Join(st, ","), rh, rr, rok)
	}
	desc := fmt.Sprintf("crash before file-system operation %d of %d %v of %s (application tip before the call: height %d, after: height %d); on disk after the crash: %s; engine tip: height %d (%s)",
		k, out.K, out.Ops, kind, long[bi].height, long[ai].height, out.Landed, eng.height, out.EngineTip)

	var err error
	if pv := catch(func() {
		_, err = s2.abi.Init(&labi.InitRequest{ChainID: s2.chainID, LastBlockHeight: eng.height, LastStateRoot: eng.root})
	}); pv != nil {
		return out, viol("", "%s\nInit panicked: %s\n%s", desc, pv.val, pv.stack)
	}
	if err != nil {
		if cc.Target.Kind == "revert" && ei == bi && pos == ai && long[pos].height < eng.height {
			// The only enumerated combination in which the application can be below the engine's tip: the Revert became durable and
			// the engine had not removed the block yet. The application is consistently (dump, record) at H-1: nothing to roll
			// back, Init refuses; nothing may change. (After a Commit that issued all its operations the application must be at H.)
			if v := s2.checkCommitted("after the refused Init", long[pos].state, long[pos].height, long[pos].root); v != nil {
				return out, viol("", "%s\nInit refused (%v) but changed the application: %s", desc, err, v.msg)
			}
			out.Init = "refused-app-behind-engine"
			return out, nil
		}
		return out, viol("", "%s\nrestart recovery failed: Init(lastHeight=%d, root %x) returned: %v", desc, eng.height, eng.root, err)
	}
	if v := s2.checkCommitted("after Init", eng.state, eng.height, eng.root); v != nil {
		return out, viol("", "%s\nInit(lastHeight=%d, root %x) returned success but the application is not at the engine's tip: %s", desc, eng.height, eng.root, v.msg)
	}
	switch {
	case pos > ei:
		out.Init = fmt.Sprintf("recovered-%d", pos-ei)
	default:
		out.Init = "no-op"
	}

	// the chain continues from the engine's tip
	s2.chain = cloneChain(long[:ei+1])
	next := cc.Cont
	what := "a new block after the recovery"
	if cc.Target.Kind == "block" && ei == bi {
		next, what = cc.Target.Block, "the target block executed again after the recovery"
	}
	if v := s2.block(what, next); v != nil {
		return out, viol(v.sig, "%s\n%s", desc, v.msg)
	}
	if v := s2.block("block writing every key after the recovery", allKeysBlock(false, cc.Sweep)); v != nil {
		return out, viol(v.sig, "%s\n%s", desc, v.msg)
	}
	if v := s2.block("block deleting every key after the recovery", allKeysBlock(true, nil)); v != nil {
		return out, viol(v.sig, "%s\n%s", desc, v.msg)
	}
	if !bytes.Equal(s2.tip().root, refEmpty) {
		return out, viol("", "%s\nroot after deleting every key is %x, not the empty-tree root", desc, s2.tip().root)
	}
	if v := s2.revert("Revert after the recovery", true); v != nil {
		return out, viol(v.sig, "%s\n%s", desc, v.msg)
	}
	return out, nil
}

// enumerate runs every crash point of the target call with every engine tip possible there.
func enumerateCrashPoints(cc *crashCase, fail func(format string, a ...any)) {
	ref, v := runCrash(cc, -1, false)
	if v != nil {
		fail("C16 violated in the crash-free reference run (candidate signature %q)\n%s\ncase: %s", v.sig, v.msg, jsonOf(cc))
		return
	}
	kind := cc.targetKind()
	K := ref.K
	if K > 40 {
		evid.R.Note("crash enumeration: target call with %d file-system operations cut to 40 crash points", K)
		K = 40
	}
	hkey := jsonOf(cc)
	landed := map[string]bool{}
	for k := 0; k <= K; k++ {
		for _, tipAfter := range []bool{false, true} {
			out, v := runCrash(cc, k, tipAfter)
			if v != nil {
				fail("C16 violated (crash inside %s; candidate signature %q)\n%s\nfile-system operations of the call in the reference run: %d %v\ncase: %s", kind, v.sig, v.msg, ref.K, ref.Ops, hkey)
				return
			}
			if out.Skipped {
				continue
			}
			where := "crash-inside-call"
			if k == 0 {
				where = "crash-before-first-fs-op"
			} else if !out.Inside {
				where = "crash-after-last-fs-op"
			}
			l := out.Landed
			if strings.HasPrefix(l, "mixed") {
				l = "mixed"
			}
			landed[l] = true
			labels := []string{"crash", "crash-target-" + kind, fmt.Sprintf("crash-K=%d", ref.K), "crash-landed-" + l, "crash-engine-tip-" + out.EngineTip, where}
			nontrivial := false
			switch {
			case out.Init == "refused-app-behind-engine":
				labels = append(labels, "crash-init-refused-application-below-engine-tip")
			case strings.HasPrefix(out.Init, "recovered"):
				labels = append(labels, "crash-recovered-by-Init", "crash-"+out.Init)
				nontrivial = out.Changes
			default:
				labels = append(labels, "crash-init-nothing-to-roll-back")
				nontrivial = out.Changes && out.Inside && k > 0
			}
			if out.Changes {
				labels = append(labels, "crash-target-changes-state")
			}
			kk, o := k, out
			evid.R.Case(fmt.Sprintf("%s|k=%d|tipAfter=%v", hkey, k, tipAfter), nontrivial, func() any {
				return map[string]any{"kind": "crash", "case": cc, "target": kind, "crashPoint": kk, "fsOpsOfCall": o.K, "fsOps": o.Ops,
					"landed": o.Landed, "engineTip": o.EngineTip, "init": o.Init}
			}, labels...)
		}
	}
	evid.R.Label("crash-histories", 1)
	evid.R.Label("crash-histories-target-"+kind, 1)
	if landed["before"] && landed["after"] {
		evid.R.Label("crash-histories-with-both-landed-before-and-landed-after", 1)
	}
}

func jsonOf(cc *crashCase) string {
	b, _ := json.Marshal(cc)
	return string(b)
}

// ---------------------------------------------------------------------------------------------------------------------
// Generator

func genCrashCase(t *rapid.T) *crashCase {
	h := &History{GenesisHeight: rapid.SampledFrom([]uint32{0, 0, 7, 1000}).Draw(t, "genesisHeight")}
	for i := 0; i < 2; i++ {
		h.Genesis[i].Init = genOps(t, 5, false)
		h.Genesis[i].Fin = genOps(t, 2, false)
	}
	blocks := 0 // committed blocks above genesis
	addBlock := func(forceCommit bool) {
		var b *BlockSpec
		note := "full"
		if rapid.IntRange(0, 9).Draw(t, "light?") < 6 {
			b, note = genLightBlock(t)
		} else {
			b = genBlock(t)
		}
		if forceCommit {
			b.Abandon = ""
		}
		if b.Abandon == "" {
			blocks++
		}
		h.Steps = append(h.Steps, Step{Kind: "block", Block: b, Note: note})
	}
	n := rapid.IntRange(0, 4).Draw(t, "prefix")
	for i := 0; i < n; i++ {
		switch rapid.SampledFrom([]string{"block", "block", "block", "block", "block", "revert", "restart"}).Draw(t, "step") {
		case "block":
			addBlock(false)
		case "revert":
			if blocks > 0 {
				h.Steps = append(h.Steps, Step{Kind: "revert", Expected: rapid.Bool().Draw(t, "expected")})
				blocks--
			}
		case "restart":
			d := rapid.IntRange(0, 2).Draw(t, "d")
			if d > blocks {
				d = blocks
			}
			h.Steps = append(h.Steps, Step{Kind: "restart", D: d})
			blocks -= d
		}
	}
	cc := &crashCase{H: h}
	switch rapid.SampledFrom([]string{"commit", "commit", "commit", "revert", "revert", "init1", "init2", "init2"}).Draw(t, "target") {
	case "commit":
		var b *BlockSpec
		if rapid.IntRange(0, 9).Draw(t, "light?") < 6 {
			b, _ = genLightBlock(t)
		} else {
			b = genBlock(t)
			b.Abandon = ""
		}
		cc.Target = Step{Kind: "block", Block: b}
	case "revert":
		if blocks < 1 || rapid.IntRange(0, 9).Draw(t, "fresh-top?") < 6 {
			addBlock(true)
		}
		cc.Target = Step{Kind: "revert", Expected: rapid.IntRange(0, 3).Draw(t, "expected") != 0} // consensus always passes it
	case "init1":
		if blocks < 1 || rapid.IntRange(0, 9).Draw(t, "fresh-top?") < 6 {
			addBlock(true)
		}
		cc.Target = Step{Kind: "restart", D: 1}
	case "init2":
		for blocks < 2 {
			addBlock(true)
		}
		if rapid.IntRange(0, 9).Draw(t, "fresh-top?") < 4 {
			addBlock(true)
		}
		cc.Target = Step{Kind: "restart", D: 2}
	}
	cc.Cont, _ = genLightBlock(t)
	for i := 0; i < 10; i++ {
		cc.Sweep = append(cc.Sweep, rapid.IntRange(1, len(valUniverse)-1).Draw(t, "sweep"))
	}
	return cc
}

// TestC16CrashPoints: fault enumeration over the file-system operations of Commit / Revert / Init recovery.
func TestC16CrashPoints(t *testing.T) {
	rapid.Check(t, func(t *rapid.T) {
		cc := genCrashCase(t)
		if n := avoidKnown(cc.H); n > 0 {
			evid.R.Excluded(int64(n))
		}
		enumerateCrashPoints(cc, t.Fatalf)
	})
}

// Minimal inline cases (every tier): genesis {a, ab}; block 1 overwrites a and creates b; block 2 overwrites a, deletes
// ab, creates a key in the other store; then the process dies at every file-system operation of Commit(3) / Revert(2) /
// Init with the engine one and two blocks behind. (Shape of the seeded change "tree-state record written after the
// batch in a second synced write": a crash between the two writes must not leave an application that Init accepts as
// being at the engine's tip while it holds the other block's state.)
func TestRegressCrashInsideCommitRevertInit(t *testing.T) {
	mk := func() *History {
		return &History{Genesis: [2]genesisScript{{Init: []Op{{K: "set", S: 0, Key: 1, Val: 1}, {K: "set", S: 0, Key: 2, Val: 2}}}, {}}, Steps: []Step{
			{Kind: "block", Block: oneTxBlock(TxScript{Cmd: []Op{{K: "set", S: 0, Key: 1, Val: 3}, {K: "set", S: 0, Key: 3, Val: 1}}})},
			{Kind: "block", Block: oneTxBlock(TxScript{Cmd: []Op{{K: "set", S: 0, Key: 1, Val: 4}, {K: "del", S: 0, Key: 2}, {K: "set", S: 1, Key: 4, Val: 5}}})},
		}}
	}
	third := oneTxBlock(TxScript{Cmd: []Op{{K: "set", S: 0, Key: 1, Val: 2}, {K: "del", S: 0, Key: 3}, {K: "set", S: 1, Key: 0, Val: 1}}})
	third.Expected = true
	targets := []Step{
		{Kind: "block", Block: third},
		{Kind: "revert", Expected: true},
		{Kind: "revert"},
		{Kind: "restart", D: 1},
		{Kind: "restart", D: 2},
	}
	for _, tg := range targets {
		cc := &crashCase{H: mk(), Target: tg, Cont: oneTxBlock(TxScript{Cmd: []Op{{K: "set", S: 1, Key: 1, Val: 1}}}), Sweep: []int{1, 2, 3, 4, 5}}
		enumerateCrashPoints(cc, t.Errorf)
	}
}
