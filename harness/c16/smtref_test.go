package c16

import (
	"bytes"
	"crypto/sha256"
	"sort"
	"testing"

	"github.com/LiskHQ/lisk-engine/pkg/db"
	"github.com/LiskHQ/lisk-engine/pkg/trie/smt"
	"pgregory.net/rapid"

	"verifharness/evid"
)

// Naive LIP-0039 sparse Merkle root of a map (all keys the same length): empty tree = SHA256(""), leaf = H(0x00‖key‖value),
// branch = H(0x01‖left‖right); a subtree holding exactly one key is that key's leaf (single-leaf lifting), a subtree with
// two or more keys is a branch of its two halves split on the next key bit. Prefixes as in /repo/pkg/trie/smt/node.go.

func sha(parts ...[]byte) []byte {
	h := sha256.New()
	for _, p := range parts {
		h.Write(p)
	}
	return h.Sum(nil)
}

var refEmpty = sha()

func refRoot(kv map[string][]byte) []byte {
	keys := make([]string, 0, len(kv))
	for k := range kv {
		keys = append(keys, k)
	}
	sort.Strings(keys)
	return refSub(keys, kv, 0)
}

func refSub(keys []string, kv map[string][]byte, depth int) []byte {
	switch len(keys) {
	case 0:
		return refEmpty
	case 1:
		return sha([]byte{0}, []byte(keys[0]), kv[keys[0]])
	}
	// keys are sorted, so the keys with bit `depth` = 0 come first
	split := sort.Search(len(keys), func(i int) bool { return keys[i][depth/8]>>(7-uint(depth%8))&1 == 1 })
	return sha([]byte{1}, refSub(keys[:split], kv, depth+1), refSub(keys[split:], kv, depth+1))
}

// TestRefSMTAgainstTrie cross-checks the reference against the real trie on random maps built by several update batches
// with overwrites and removals (empty value = remove, LIP-0039), so that the state-root oracle of C16 does not rest on the
// reference alone. (The trie itself is the subject of C10; a disagreement here is reported as a harness sanity failure.)
func TestRefSMTAgainstTrie(t *testing.T) {
	rapid.Check(t, func(t *rapid.T) {
		keyLen := rapid.SampledFrom([]int{38, 38, 32, 2}).Draw(t, "keyLen")
		common := rapid.SliceOfN(rapid.Byte(), keyLen, keyLen).Draw(t, "common")
		genKey := rapid.Custom(func(t *rapid.T) []byte {
			k := rapid.SliceOfN(rapid.Byte(), keyLen, keyLen).Draw(t, "k")
			// share a prefix with `common` so that deep subtrees and 6-byte store prefixes occur
			n := rapid.SampledFrom([]int{0, 0, 1, 6, 6, 7, keyLen - 1}).Draw(t, "share")
			if n > keyLen {
				n = keyLen
			}
			copy(k[:n], common[:n])
			return k
		})
		mem, err := db.NewInMemoryDB()
		if err != nil {
			t.Fatalf("db: %v", err)
		}
		defer mem.Close()
		model := map[string][]byte{}
		root := []byte{}
		batches := rapid.IntRange(1, 4).Draw(t, "batches")
		removed := 0
		for b := 0; b < batches; b++ {
			n := rapid.IntRange(0, 12).Draw(t, "n")
			seen := map[string]bool{}
			var keys, vals [][]byte
			for i := 0; i < n; i++ {
				var k []byte
				if len(model) > 0 && rapid.IntRange(0, 2).Draw(t, "existing") == 0 {
					ks := make([]string, 0, len(model))
					for mk := range model {
						ks = append(ks, mk)
					}
					sort.Strings(ks)
					k = []byte(rapid.SampledFrom(ks).Draw(t, "ek"))
				} else {
					k = genKey.Draw(t, "nk")
				}
				if seen[string(k)] {
					continue
				}
				seen[string(k)] = true
				var v []byte
				if rapid.IntRange(0, 3).Draw(t, "rm") == 0 {
					v = []byte{}
					if _, ok := model[string(k)]; ok {
						removed++
					}
					delete(model, string(k))
				} else {
					v = rapid.SliceOfN(rapid.Byte(), 32, 32).Draw(t, "v")
					model[string(k)] = v
				}
				keys, vals = append(keys, k), append(vals, v)
			}
			tr := smt.NewTrie(root, keyLen)
			root, err = tr.Update(mem, keys, vals)
			if err != nil {
				t.Fatalf("trie update: %v", err)
			}
			want := refRoot(model)
			if !bytes.Equal(root, want) {
				t.Fatalf("reference SMT root %x != trie root %x after batch %d (model %d keys)", want, root, b, len(model))
			}
		}
		evid.R.Case("", false, nil, "smtref-crosscheck")
		if removed > 0 {
			evid.R.Label("smtref-with-removals", 1)
		}
	})
}
