package c16

import (
	"os"
	"sync"

	"github.com/cockroachdb/pebble/vfs"

	"github.com/LiskHQ/lisk-engine/pkg/db"
)

// countFS wraps pebble's strict in-memory file system and counts every operation that changes durable state (create,
// write, sync, rename, remove, link, mkdir, directory sync). While a window is open (begin ... end) the trigger fires
// when the counter reaches the crash point: from then on nothing becomes durable any more (SetIgnoreSyncs), which
// models the process dying right before that operation; data written but not synced before the crash point is lost
// when the file system is reset to its synced state. (Same construction as harness/c13/fs.go, copied because a test
// package cannot be imported; this copy also reports whether the crash fell inside the window or after its last
// operation.)
type countFS struct {
	*vfs.MemFS
	mu      sync.Mutex
	active  bool // counting window (inside the target ABI call)
	count   int
	crashAt int // -1 = never
	crashed bool
	inside  bool // the crash fired before an operation of the window (not at its end)
	log     []string
}

func newCountFS() *countFS {
	return &countFS{MemFS: vfs.NewStrictMem(), crashAt: -1}
}

// prepareFS returns a strict in-memory file system with a durable (synced) directory "statedb".
func prepareFS() *countFS {
	fs := newCountFS()
	if err := fs.MemFS.MkdirAll(crashDBPath, 0o755); err != nil {
		panic(err)
	}
	for _, dir := range []string{"", crashDBPath} {
		d, err := fs.MemFS.OpenDir(dir)
		if err != nil {
			panic(err)
		}
		if err := d.Sync(); err != nil {
			panic(err)
		}
		d.Close()
	}
	return fs
}

const crashDBPath = "statedb"

func (c *countFS) open() *db.DB {
	d, err := db.NewDBWithFS(crashDBPath, c)
	if err != nil {
		panic("open state DB on the strict in-memory FS: " + err.Error())
	}
	return d
}

func (c *countFS) op(name string) {
	c.mu.Lock()
	defer c.mu.Unlock()
	if !c.active {
		return
	}
	if c.crashAt >= 0 && c.count == c.crashAt && !c.crashed {
		c.crashed, c.inside = true, true
		c.MemFS.SetIgnoreSyncs(true)
	}
	c.count++
	if len(c.log) < 48 {
		c.log = append(c.log, name)
	}
}

func (c *countFS) begin(crashAt int) {
	c.mu.Lock()
	c.active, c.count, c.crashAt, c.crashed, c.inside, c.log = true, 0, crashAt, false, false, nil
	c.mu.Unlock()
}

// end closes the window. A crash point at or beyond the number of operations means "the process dies right after the
// last file-system operation of the call" (inside = false).
func (c *countFS) end() (count int, inside bool, log []string) {
	c.mu.Lock()
	defer c.mu.Unlock()
	if c.crashAt >= 0 && !c.crashed {
		c.crashed = true
		c.MemFS.SetIgnoreSyncs(true)
	}
	c.active = false
	return c.count, c.inside, c.log
}

// kill models the loss of the process: nothing becomes durable any more, the handles go away, the file system falls
// back to what had been synced.
func (c *countFS) kill(d *db.DB) {
	c.mu.Lock()
	c.active = false
	c.mu.Unlock()
	c.MemFS.SetIgnoreSyncs(true)
	func() {
		defer func() { _ = recover() }()
		_ = d.Close()
	}()
	c.MemFS.ResetToSyncedState()
	c.MemFS.SetIgnoreSyncs(false)
}

func (c *countFS) Create(name string) (vfs.File, error) {
	c.op("create")
	f, err := c.MemFS.Create(name)
	if err != nil {
		return nil, err
	}
	return &countFile{File: f, fs: c}, nil
}
func (c *countFS) Link(o, n string) error   { c.op("link"); return c.MemFS.Link(o, n) }
func (c *countFS) Remove(n string) error    { c.op("remove"); return c.MemFS.Remove(n) }
func (c *countFS) RemoveAll(n string) error { c.op("removeAll"); return c.MemFS.RemoveAll(n) }
func (c *countFS) Rename(o, n string) error { c.op("rename"); return c.MemFS.Rename(o, n) }
func (c *countFS) ReuseForWrite(o, n string) (vfs.File, error) {
	c.op("reuse")
	f, err := c.MemFS.ReuseForWrite(o, n)
	if err != nil {
		return nil, err
	}
	return &countFile{File: f, fs: c}, nil
}
func (c *countFS) MkdirAll(d string, p os.FileMode) error { c.op("mkdir"); return c.MemFS.MkdirAll(d, p) }
func (c *countFS) Open(name string, opts ...vfs.OpenOption) (vfs.File, error) {
	f, err := c.MemFS.Open(name, opts...)
	if err != nil {
		return nil, err
	}
	return &countFile{File: f, fs: c}, nil
}
func (c *countFS) OpenDir(name string) (vfs.File, error) {
	f, err := c.MemFS.OpenDir(name)
	if err != nil {
		return nil, err
	}
	return &countFile{File: f, fs: c, dir: true}, nil
}

type countFile struct {
	vfs.File
	fs  *countFS
	dir bool
}

func (f *countFile) Write(p []byte) (int, error) { f.fs.op("write"); return f.File.Write(p) }
func (f *countFile) Sync() error {
	if f.dir {
		f.fs.op("dirsync")
	} else {
		f.fs.op("sync")
	}
	return f.File.Sync()
}
