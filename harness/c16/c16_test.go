// Package c16 checks property C16 of lisk-engine: transaction execution is atomic and the committed state root is a
// function of the state (see /verif/DESIGN.md §4 C16, /verif/notes/C16.md).
//
// The real framework.ABIHandler + statemachine.Executer run over in-memory databases with two instances of a scripted
// module (module_test.go); generated histories of blocks / reverts / restarts are replayed through the ABI the way
// pkg/consensus, pkg/generator and pkg/engine call it and compared with a map model (model_test.go) and a naive
// LIP-0039 sparse-Merkle reference (smtref_test.go) after every call (harness_test.go).
package c16

import (
	"fmt"
	"testing"

	"pgregory.net/rapid"

	"verifharness/evid"
)

func TestMain(m *testing.M) { evid.Main(m, "C16") }

// ---------------------------------------------------------------------------------------------------------------------
// Generators

var cmdKinds = []string{"set", "set", "set", "set", "set", "del", "del", "del", "get", "has", "ev", "ev", "uev", "uev", "snap", "snap", "rest", "rest", "sbr", "iter", "iter", "range"}
var hookKinds = []string{"set", "set", "set", "del", "get", "ev", "uev", "iter", "range"}

func genDataOp(t *rapid.T, kind string, store int) Op {
	op := Op{K: kind}
	if store >= 0 {
		op.S = store
	} else {
		op.S = rapid.IntRange(0, 1).Draw(t, "store")
	}
	op.H = rapid.IntRange(0, 1).Draw(t, "handle")
	op.Key = rapid.IntRange(0, len(keyUniverse)-1).Draw(t, "key")
	if kind == "set" {
		op.Val = rapid.IntRange(0, len(valUniverse)-1).Draw(t, "val")
	}
	return op
}

func genEvent(t *rapid.T, kind string) Op {
	return Op{K: kind, Tag: rapid.IntRange(0, 9).Draw(t, "tag"), Top: rapid.IntRange(0, 2).Draw(t, "topics")}
}

// genOps draws a program of about n steps. With snaps the program may take nested context-level snapshots, restore any
// live one, and run store-level snapshot/restore brackets. Between a store-level snapshot and its restore only that
// store is written and no context-level snapshot is taken or restored, so the expected outcome does not depend on
// whether a store-level restore is meant to cover the whole overlay or the store only (soundness guard, notes/C16.md).
func genOps(t *rapid.T, maxN int, snaps bool) []Op {
	n := rapid.IntRange(0, maxN).Draw(t, "nops")
	ops := []Op{}
	depth := 0
	for i := 0; i < n; i++ {
		var kind string
		if snaps {
			kind = rapid.SampledFrom(cmdKinds).Draw(t, "kind")
		} else {
			kind = rapid.SampledFrom(hookKinds).Draw(t, "kind")
		}
		switch kind {
		case "set", "del", "get", "has":
			ops = append(ops, genDataOp(t, kind, -1))
		case "iter", "range":
			ops = append(ops, genScanOp(t, kind, -1)) // scan_test.go
		case "ev", "uev":
			ops = append(ops, genEvent(t, kind))
		case "snap":
			if depth < 3 {
				ops = append(ops, Op{K: "snap"})
				depth++
			}
		case "rest":
			if depth > 0 {
				slot := rapid.IntRange(0, depth-1).Draw(t, "slot")
				ops = append(ops, Op{K: "rest", N: slot})
				depth = slot
			}
		case "sbr":
			s := rapid.IntRange(0, 1).Draw(t, "sbr-store")
			ops = append(ops, Op{K: "ssnap", S: s})
			inner := rapid.IntRange(1, 3).Draw(t, "sbr-n")
			for j := 0; j < inner; j++ {
				k := rapid.SampledFrom([]string{"set", "set", "del", "get", "ev"}).Draw(t, "sbr-kind")
				if k == "ev" {
					ops = append(ops, genEvent(t, k))
				} else {
					ops = append(ops, genDataOp(t, k, s))
				}
			}
			ops = append(ops, Op{K: "srest", S: s, N: 0})
			// follow-up read/write through a handle of the drawer's choice
			ops = append(ops, genDataOp(t, rapid.SampledFrom([]string{"set", "get", "del"}).Draw(t, "sbr-after"), s))
		}
	}
	return ops
}

// sanitize removes the S10 trigger from a program (used only while that finding is listed as known): retained handles
// that existed before a restore are not used after it, store-level snapshot/restore is not used.
func sanitize(ops []Op) ([]Op, int) {
	out := []Op{}
	seen := map[int]bool{}
	stale := map[int]bool{}
	changed := 0
	for _, op := range ops {
		switch op.K {
		case "ssnap", "srest":
			changed++
			continue
		case "rest":
			for s := range seen {
				stale[s] = true
			}
		case "set", "del", "get", "has", "iter", "range":
			if op.H == 1 {
				if stale[op.S] {
					op.H = 0
					changed++
				} else {
					seen[op.S] = true
				}
			}
		}
		out = append(out, op)
	}
	return out, changed
}

func genTxScript(t *rapid.T) TxScript {
	ts := TxScript{}
	ts.Cmd = genOps(t, 10, true)
	ts.Fail = rapid.IntRange(0, 9).Draw(t, "fail") < 4
	for i := 0; i < 2; i++ {
		if rapid.IntRange(0, 3).Draw(t, "pre?") == 0 {
			ts.Pre[i] = genOps(t, 2, false)
		}
		if rapid.IntRange(0, 3).Draw(t, "post?") == 0 {
			ts.Post[i] = genOps(t, 2, false)
		}
	}
	ts.Probe = rapid.Bool().Draw(t, "probe")
	return ts
}

func genBlock(t *rapid.T) *BlockSpec {
	b := &BlockSpec{}
	for i := 0; i < 2; i++ {
		if rapid.IntRange(0, 2).Draw(t, "before?") == 0 {
			b.Hooks[i].Before = genOps(t, 2, false)
		}
		if rapid.IntRange(0, 2).Draw(t, "after?") == 0 {
			b.Hooks[i].After = genOps(t, 2, false)
		}
	}
	b.Hooks[1].Probe = rapid.IntRange(0, 2).Draw(t, "blockprobe") == 0
	n := rapid.IntRange(0, 6).Draw(t, "ntx")
	for i := 0; i < n; i++ {
		b.Txs = append(b.Txs, TxSpec{
			Module: rapid.IntRange(0, 1).Draw(t, "txmodule"),
			Dry:    rapid.IntRange(0, 7).Draw(t, "dry") == 0,
			Script: genTxScript(t),
		})
	}
	b.Verify = rapid.Bool().Draw(t, "verify")
	b.CommitDry = rapid.IntRange(0, 3).Draw(t, "commitdry") == 0
	b.Expected = rapid.Bool().Draw(t, "expected")
	b.Abandon = rapid.SampledFrom([]string{"", "", "", "", "", "", "", "", "clear", "crash"}).Draw(t, "abandon")
	return b
}

func genHistory(t *rapid.T) *History {
	h := &History{GenesisHeight: rapid.SampledFrom([]uint32{0, 0, 7, 1000}).Draw(t, "genesisHeight")}
	for i := 0; i < 2; i++ {
		h.Genesis[i].Init = genOps(t, 5, false)
		h.Genesis[i].Fin = genOps(t, 2, false)
	}
	n := rapid.IntRange(1, 7).Draw(t, "steps")
	for i := 0; i < n; i++ {
		kind := rapid.SampledFrom([]string{"block", "block", "block", "block", "block", "block", "revert", "revert", "restart", "restart", "finalize"}).Draw(t, "step")
		st := Step{Kind: kind}
		switch kind {
		case "block":
			st.Block = genBlock(t)
		case "revert":
			st.Expected = rapid.Bool().Draw(t, "expected")
		case "restart":
			st.D = rapid.SampledFrom([]int{0, 1, 1, 2, 2}).Draw(t, "d")
		case "finalize":
			st.Back = rapid.SampledFrom([]int{0, 1, 1, 2, 3}).Draw(t, "back") // finalize_test.go
		}
		h.Steps = append(h.Steps, st)
	}
	return h
}

// avoidKnown rewrites a history so that it does not contain the triggers of findings listed as known which the check
// cannot follow with an exact secondary model (S10: stale overlays; S14: recovery more than one block deep).
func avoidKnown(h *History) int {
	excluded := 0
	fix := func(ops *[]Op) {
		out, n := sanitize(*ops)
		*ops = out
		excluded += n
	}
	if isKnown(sigRestore) {
		for i := range h.Genesis {
			fix(&h.Genesis[i].Init)
			fix(&h.Genesis[i].Fin)
		}
		for i := range h.Steps {
			b := h.Steps[i].Block
			if b == nil {
				continue
			}
			for j := range b.Hooks {
				fix(&b.Hooks[j].Before)
				fix(&b.Hooks[j].After)
			}
			for j := range b.Txs {
				ts := &b.Txs[j].Script
				fix(&ts.Cmd)
				for k := 0; k < 2; k++ {
					fix(&ts.Pre[k])
					fix(&ts.Post[k])
				}
			}
		}
	}
	if isKnown(sigInitPanic) {
		for i := range h.Steps {
			if h.Steps[i].Kind == "restart" && h.Steps[i].D > 1 {
				h.Steps[i].D = 1
				excluded++
			}
		}
	}
	return excluded
}

// ---------------------------------------------------------------------------------------------------------------------
// The property

func TestC16Histories(t *testing.T) {
	rapid.Check(t, func(t *rapid.T) {
		h := genHistory(t)
		if n := avoidKnown(h); n > 0 {
			evid.R.Excluded(int64(n))
		}
		s := newSim()
		defer s.close()
		s.followEvents = isKnown(sigEvents)
		s.followTomb = isKnown(sigTomb)
		s.initWorkaround = isKnown(sigInitPanic)
		step, v := s.run(h)
		if v != nil {
			if v.sig != "" && knownFinding(v.sig) {
				evid.R.Label("history-cut-at-known-finding", 1)
				return
			}
			t.Fatalf("C16 violated (history step %d, candidate signature %q)\n%s\nhistory: %s", step, v.sig, v.msg, h.JSON())
		}
		st := s.stats
		labels := historyLabels("history", &st)
		nontrivial := st.richFail > 0 || st.delPreexisting > 0
		evid.R.Case(h.JSON(), nontrivial, func() any { return h }, labels...)
		evid.R.Label("blocks", int64(st.blocks))
		evid.R.Label("transactions", int64(st.txs))
		evid.R.Label("failing-transactions", int64(st.failTxs))
		countScanLabels(&st)
	})
}

// historyLabels classifies an executed history (first label = kind of case).
func historyLabels(kind string, st *simStats) []string {
	labels := []string{kind}
	add := func(c bool, l string) {
		if c {
			labels = append(labels, l)
		}
	}
	add(st.failTxs > 0, "has-failing-command")
	add(st.richFail > 0, "failing-command-set+overwrite+delete+both-event-kinds")
	add(st.delPreexisting > 0, "block-deletes-preexisting-key")
	add(st.reverts > 0, "revert")
	add(st.recoveries > 0, "recovery-app-ahead")
	add(st.recoveries2 > 0, "recovery-app-2-blocks-ahead")
	add(st.retainedAfterRestore > 0, "command-uses-retained-handle-after-restore")
	add(st.storeRestores > 0, "command-uses-store-level-restore")
	add(st.abandoned > 0, "block-abandoned-or-crash")
	add(st.expectedRoots > 0, "commit-with-expected-root")
	add(st.restarts > 0, "restart")
	add(st.dryTxs > 0, "dry-run-execute")
	add(st.failWithSnap > 0, "failing-command-with-nested-restore")
	add(st.okAfterRestore > 0, "succeeding-command-with-nested-restore")
	add(st.followedEvents > 0, "followed-known-S12")
	add(st.followedTomb > 0, "followed-known-S13")
	add(st.committed == 0, "no-block-committed")
	// reorganisations
	add(st.neutralCommitted > 0, "state-neutral-block-committed")
	add(st.removedNeutral > 0, "state-neutral-block-removed")
	add(st.revertNeutralOverStale > 0, "revert-of-state-neutral-block-at-height-of-abandoned-state-changing-block")
	add(st.recoverNeutralOverStale > 0, "recovery-over-state-neutral-block-at-height-of-abandoned-state-changing-block")
	add(st.reorgDepth[1] > 0, "reorg-depth-1")
	add(st.reorgDepth[2] > 0, "reorg-depth-2")
	add(st.reorgDepth[3] > 0, "reorg-depth-3")
	add(st.reorgDepth[4] > 0, "reorg-depth-4+")
	add(st.reorgs >= 2, "two-or-more-reorgs")
	add(st.removedAtMultiHeight > 0, "removal-at-height-that-saw-2+-blocks")
	add(st.removedAtMulti3 > 0, "removal-at-height-that-saw-3+-blocks")
	add(st.descents > 0, "descent-through-2+-heights-that-saw-2+-blocks")
	add(st.recoveryDepthMax >= 3, "recovery-app-3+-blocks-ahead")
	scanLabels(st, add)
	finLabels(st, add)
	return labels
}

// ---------------------------------------------------------------------------------------------------------------------
// Minimal reproductions of the defects found (run in every tier). Each asserts the correct behaviour; while the defect
// is listed as known in /verif/known_findings/C16.json the failure is reported as KNOWN-FINDING instead.

func runRegress(t *testing.T, name, sig string, h *History, prep func(*sim)) {
	t.Helper()
	s := newSim()
	defer s.close()
	if prep != nil {
		prep(s)
	}
	step, v := s.run(h)
	evid.R.Case("regress:"+name, true, func() any { return h }, "regress")
	if v == nil {
		return
	}
	if v.sig == sig && knownFinding(sig) {
		t.Logf("known finding reproduced (%s) at step %d: %s", sig, step, v.msg)
		return
	}
	if v.sig != "" && knownFinding(v.sig) {
		t.Logf("reproduction of %s stopped at another known finding (%s) at step %d: %s", sig, v.sig, step, v.msg)
		return
	}
	t.Fatalf("%s: step %d, signature %q\n%s\nhistory: %s", name, step, v.sig, v.msg, h.JSON())
}

func oneTxBlock(ts TxScript) *BlockSpec {
	ts.Probe = true
	return &BlockSpec{Txs: []TxSpec{{Module: 0, Script: ts}}}
}

// S12: EventLogger.Add marks events noRevert, so a failing command's revertible event survives.
func TestRegressFailingCommandDropsRevertibleEvents(t *testing.T) {
	h := &History{Steps: []Step{{Kind: "block", Block: oneTxBlock(TxScript{
		Cmd: []Op{{K: "ev", Tag: 1}, {K: "uev", Tag: 2}, {K: "set", S: 0, Key: 1, Val: 1}}, Fail: true})}}}
	runRegress(t, "failing-command-events", sigEvents, h, nil)
}

// S13: stateSMTBatch.Del feeds SHA256("") to the trie, so a deleted key stays in the tree.
func TestRegressCommittedDeleteLeavesTree(t *testing.T) {
	h := &History{
		Genesis: [2]genesisScript{{Init: []Op{{K: "set", S: 0, Key: 1, Val: 1}}}, {}},
		Steps:   []Step{{Kind: "block", Block: oneTxBlock(TxScript{Cmd: []Op{{K: "del", S: 0, Key: 1}}})}},
	}
	runRegress(t, "commit-delete", sigTomb, h, nil)
}

// S13 (revert side): reverting a block that added a key must give back the previous root (the consensus caller passes
// it as ExpectedStateRoot, so deleteBlock fails otherwise).
func TestRegressRevertOfAddedKeyRestoresRoot(t *testing.T) {
	h := &History{Steps: []Step{
		{Kind: "block", Block: oneTxBlock(TxScript{Cmd: []Op{{K: "set", S: 1, Key: 2, Val: 3}}})},
		{Kind: "revert", Expected: true},
	}}
	runRegress(t, "revert-added-key", sigTomb, h, nil)
}

// S14: Init recovery (application one block ahead of the engine) dereferences the nil execution context.
func TestRegressInitRecoveryAppAhead(t *testing.T) {
	for d := 1; d <= 2; d++ {
		// the blocks only overwrite a key that exists since genesis, so the reverted diffs contain no added key (keeps S13 out)
		h := &History{Genesis: [2]genesisScript{{Init: []Op{{K: "set", S: 0, Key: 1, Val: 3}}}, {}}, Steps: []Step{
			{Kind: "block", Block: oneTxBlock(TxScript{Cmd: []Op{{K: "set", S: 0, Key: 1, Val: 1}}})},
			{Kind: "block", Block: oneTxBlock(TxScript{Cmd: []Op{{K: "set", S: 0, Key: 1, Val: 2}}})},
			{Kind: "restart", D: d},
			{Kind: "block", Block: oneTxBlock(TxScript{Cmd: []Op{{K: "set", S: 1, Key: 3, Val: 4}}})},
		}}
		runRegress(t, fmt.Sprintf("init-recovery-d%d", d), sigInitPanic, h, nil)
	}
}

// S10: RestoreSnapshot replaces only the calling handle's overlay pointer.
func TestRegressRestoreSnapshotSeenThroughRetainedHandle(t *testing.T) {
	// the command keeps its store handle across its own ctx.RestoreSnapshot and succeeds: the write after the restore must stay
	h := &History{Steps: []Step{{Kind: "block", Block: oneTxBlock(TxScript{Cmd: []Op{
		{K: "set", S: 0, H: 1, Key: 1, Val: 1}, {K: "snap"}, {K: "set", S: 0, H: 1, Key: 2, Val: 2}, {K: "rest", N: 0},
		{K: "set", S: 0, H: 1, Key: 3, Val: 3}, {K: "get", S: 0, H: 1, Key: 2}}})}}}
	runRegress(t, "retained-handle-after-restore", sigRestore, h, nil)
	// store-level snapshot/restore: what the command undid must not be committed
	h2 := &History{Steps: []Step{{Kind: "block", Block: oneTxBlock(TxScript{Cmd: []Op{
		{K: "ssnap", S: 0}, {K: "set", S: 0, H: 1, Key: 1, Val: 1}, {K: "srest", S: 0, N: 0}}})}}}
	runRegress(t, "store-level-restore", sigRestore, h2, nil)
}

// ExecuteTransaction as the in-process callers (pkg/consensus, pkg/generator abi_caller.go) send it: no Consensus.
func TestRegressExecuteTransactionWithoutConsensus(t *testing.T) {
	h := &History{Steps: []Step{{Kind: "block", Block: oneTxBlock(TxScript{Cmd: []Op{{K: "set", S: 0, Key: 1, Val: 1}}})}}}
	runRegress(t, "execute-without-consensus", sigNilCons, h, func(s *sim) { s.nilConsensus = true })
}
