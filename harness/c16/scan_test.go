package c16

// Scans inside commands and hooks (C16 extension, notes/C16.md "Extension: scans inside commands; Finalize").
//
// The program language of the scripted module gets two more steps, Store.Iterate(prefix, limit, reverse) and
// Store.Range(start, end, limit, reverse). A scan is a pure read for the model: its expected result is computed from the
// one map the model keeps for the staged state (keys of the store, sorted, filtered by prefix / closed interval, reversed,
// cut at the limit); what the module saw is compared with it after every ABI call (sim.checkObs), and - the point of the
// extension - the existing oracles (state after Commit = model, root = reference sparse-Merkle root, Revert restores,
// failing command leaves nothing) now also run over blocks whose commands and hooks scanned their stores after writing.
//
// TestC16Scans generates histories aimed at that: a write (delete / overwrite of a persisted key, creation of a new one)
// from one place of a block, then a scan that covers (or just misses) the key from the same program, a later
// transaction (succeeding or failing), a command hook or a block hook, around snapshots/rollbacks, followed by reverts,
// restarts and Finalize calls. The generator runs the map model alongside only to know which keys are persisted.

import (
	"fmt"
	"sort"
	"strings"
	"testing"

	"pgregory.net/rapid"

	"github.com/LiskHQ/lisk-engine/pkg/db"

	"verifharness/evid"
)

// scanBounds is the universe of prefixes (iter) and interval bounds (range), as keys inside a module store.
var scanBounds = [][]byte{
	{},
	[]byte("0"),
	[]byte("a"),
	[]byte("ab"),
	[]byte("b"),
	[]byte("c"),
	[]byte("0123456789abcdef0123456789abcdef"),
	{0xff},
}

func isStoreOp(k string) bool {
	switch k {
	case "set", "del", "get", "has", "iter", "range":
		return true
	}
	return false
}

func scanLimit(op Op) int {
	if op.Lim <= 0 {
		return -1
	}
	return op.Lim
}

// scanObs is one Iterate/Range call as the module saw it / as the model expects it.
type scanObs struct {
	Where  string   `json:"where"`
	Call   string   `json:"call"`
	Result []string `json:"result"` // hex(key)=hex(value) in the order returned
}

func scanCall(op Op) string {
	if op.K == "iter" {
		return fmt.Sprintf("store%d.Iterate(%x, %d, %v)", op.S, scanBounds[op.P], scanLimit(op), op.Rev)
	}
	return fmt.Sprintf("store%d.Range(%x, %x, %d, %v)", op.S, scanBounds[op.A], scanBounds[op.B], scanLimit(op), op.Rev)
}

// ---------------------------------------------------------------------------------------------------------------------
// module side

func (e *env) scanOp(op Op) {
	st := e.store(op.S, op.H)
	var kvs []db.KeyValue
	if op.K == "iter" {
		kvs = st.Iterate(append([]byte{}, scanBounds[op.P]...), scanLimit(op), op.Rev)
	} else {
		kvs = st.Range(append([]byte{}, scanBounds[op.A]...), append([]byte{}, scanBounds[op.B]...), scanLimit(op), op.Rev)
	}
	res := make([]string, 0, len(kvs))
	for _, kv := range kvs {
		res = append(res, fmt.Sprintf("%x=%x", kv.Key(), kv.Value()))
	}
	e.mod.rec.scans = append(e.mod.rec.scans, scanObs{Where: e.where, Call: scanCall(op), Result: res})
}

// ---------------------------------------------------------------------------------------------------------------------
// model side

func storePfx(s int) string { return string(storePrefixes[s][0]) + string(storePrefixes[s][1]) }

// scanCovers tells whether key (inside the store) lies in the prefix / closed interval of the scan.
func scanCovers(op Op, key string) bool {
	if op.K == "iter" {
		return strings.HasPrefix(key, string(scanBounds[op.P]))
	}
	return string(scanBounds[op.A]) <= key && key <= string(scanBounds[op.B])
}

const (
	scTotal = iota
	scIter
	scRange
	scInHook
	scInCmdOK
	scInCmdFail
	scReverse
	scLimited
	scLimitCut
	scEmpty
	scMulti
	scInverted
	scAfterRestore
	scRetained
	scOverDelPersisted
	scOverDelPersistedSameProgram
	scOverDelPersistedEarlier
	scOverDelPersistedKept
	scOverDelPersistedInFailingCmd
	scMissesDelPersisted
	scOverCreated
	scOverOverwritten
	scN
)

var scNames = [scN]string{
	"scans", "iterate", "range", "in-hook", "in-succeeding-command", "in-failing-command", "reverse", "with-limit", "cut-by-limit",
	"empty-result", "2+-results", "range-start-after-end", "after-restore-in-same-program", "through-retained-handle",
	"over-staged-delete-of-persisted-key", "over-staged-delete-of-persisted-key-by-same-program",
	"over-staged-delete-of-persisted-key-by-earlier-program", "over-staged-delete-of-persisted-key-from-hook-or-succeeding-command",
	"over-staged-delete-of-persisted-key-from-failing-command", "beside-staged-delete-of-persisted-key-not-covering-it",
	"over-key-created-in-block", "over-key-overwritten-in-block",
}

type scanCounters [scN]int

func (c *scanCounters) add(o *scanCounters) {
	for i := range c {
		c[i] += o[i]
	}
}

// scanOp appends the expected result of the scan and classifies it (labels only).
func (r *mrun) scanOp(op Op, where string, restored bool) {
	pfx := storePfx(op.S)
	keys := []string{}
	for fk := range r.st {
		if strings.HasPrefix(fk, pfx) && scanCovers(op, fk[len(pfx):]) {
			keys = append(keys, fk[len(pfx):])
		}
	}
	sort.Strings(keys) // byte order
	if op.Rev {
		for i, j := 0, len(keys)-1; i < j; i, j = i+1, j-1 {
			keys[i], keys[j] = keys[j], keys[i]
		}
	}
	all := len(keys)
	if lim := scanLimit(op); lim >= 0 && len(keys) > lim {
		keys = keys[:lim]
	}
	res := make([]string, 0, len(keys))
	for _, k := range keys {
		res = append(res, fmt.Sprintf("%x=%x", k, r.st[pfx+k]))
	}
	r.scans = append(r.scans, scanObs{Where: where, Call: scanCall(op), Result: res})

	// classification
	c := &r.sc
	inc := func(cond bool, i int) {
		if cond {
			c[i]++
		}
	}
	isCmd := strings.HasPrefix(where, "cmd/")
	c[scTotal]++
	inc(op.K == "iter", scIter)
	inc(op.K == "range", scRange)
	inc(!isCmd, scInHook)
	inc(isCmd && !r.cmdFail, scInCmdOK)
	inc(isCmd && r.cmdFail, scInCmdFail)
	inc(op.Rev, scReverse)
	inc(op.Lim > 0, scLimited)
	inc(len(keys) < all, scLimitCut)
	inc(len(keys) == 0, scEmpty)
	inc(len(keys) >= 2, scMulti)
	inc(op.K == "range" && string(scanBounds[op.A]) > string(scanBounds[op.B]), scInverted)
	inc(restored, scAfterRestore)
	inc(op.H == 1, scRetained)
	if r.base == nil {
		return
	}
	var del, delSame, delEarlier, beside, created, overwritten bool
	for fk, bv := range r.base {
		if !strings.HasPrefix(fk, pfx) {
			continue
		}
		cov := scanCovers(op, fk[len(pfx):])
		cur, live := r.st[fk]
		switch {
		case !live && cov:
			del = true
			if _, ok := r.inv[fk]; ok {
				delSame = true
			} else {
				delEarlier = true
			}
			if !(isCmd && r.cmdFail) {
				if r.scannedDeleted == nil {
					r.scannedDeleted = map[string]bool{}
				}
				r.scannedDeleted[fk] = true
			}
		case !live:
			beside = true
		case cov && string(cur) != string(bv):
			overwritten = true
		}
	}
	for fk := range r.st {
		if _, ok := r.base[fk]; !ok && strings.HasPrefix(fk, pfx) && scanCovers(op, fk[len(pfx):]) {
			created = true
		}
	}
	inc(del, scOverDelPersisted)
	inc(delSame, scOverDelPersistedSameProgram)
	inc(delEarlier, scOverDelPersistedEarlier)
	inc(del && !(isCmd && r.cmdFail), scOverDelPersistedKept)
	inc(del && isCmd && r.cmdFail, scOverDelPersistedInFailingCmd)
	inc(beside && !del, scMissesDelPersisted)
	inc(created, scOverCreated)
	inc(overwritten, scOverOverwritten)
}

// scanLabels adds one label per class of scan that occurred in the history.
func scanLabels(st *simStats, add func(bool, string)) {
	for i := 1; i < scN; i++ {
		add(st.sc[i] > 0, "scan-"+scNames[i])
	}
	add(st.sc[scTotal] > 0, "has-scan")
	add(st.commitDelAfterScan > 0, "committed-delete-of-persisted-key-scanned-after-the-delete")
}

// ---------------------------------------------------------------------------------------------------------------------
// generators

// genScanOp draws any scan of store s (s < 0: any store).
func genScanOp(t *rapid.T, kind string, store int) Op {
	op := Op{K: kind}
	if store >= 0 {
		op.S = store
	} else {
		op.S = rapid.IntRange(0, 1).Draw(t, "store")
	}
	op.H = rapid.IntRange(0, 1).Draw(t, "handle")
	if kind == "iter" {
		// half of the prefix scans read the whole store, as an end-of-block hook of a real module does
		op.P = rapid.SampledFrom([]int{0, 0, 0, 0, 0, 0, 0, 1, 2, 2, 3, 4, 5, 6, 7}).Draw(t, "prefix")
	} else {
		op.A = rapid.SampledFrom([]int{0, 0, 0, 0, 1, 2, 2, 3, 4, 5, 6}).Draw(t, "start")
		op.B = rapid.SampledFrom([]int{7, 7, 7, 7, 0, 2, 3, 4, 4, 5, 6}).Draw(t, "end")
	}
	op.Lim = rapid.SampledFrom([]int{0, 0, 0, 0, 1, 2, 3}).Draw(t, "limit")
	op.Rev = rapid.Bool().Draw(t, "reverse")
	return op
}

// scanCandidates lists every (kind, bounds) combination of the universe, in a fixed order.
var scanCandidates = func() []Op {
	out := []Op{}
	for p := range scanBounds {
		out = append(out, Op{K: "iter", P: p})
	}
	for a := range scanBounds {
		for b := range scanBounds {
			out = append(out, Op{K: "range", A: a, B: b})
		}
	}
	return out
}()

// genScanAt draws a scan of store s that covers (cover) or does not cover the key with index key.
func genScanAt(t *rapid.T, s, key int, cover bool) Op {
	kind := rapid.SampledFrom([]string{"iter", "range"}).Draw(t, "scan-kind")
	fit := []Op{}
	for _, c := range scanCandidates {
		if c.K == kind && scanCovers(c, string(keyUniverse[key])) == cover {
			fit = append(fit, c)
		}
	}
	if len(fit) == 0 {
		return genScanOp(t, kind, s)
	}
	op := fit[rapid.IntRange(0, len(fit)-1).Draw(t, "scan-bounds")]
	if cover && rapid.IntRange(0, 2).Draw(t, "whole?") == 0 {
		// the whole store
		if kind == "iter" {
			op.P = 0
		} else {
			op.A, op.B = 0, 7
		}
	}
	op.S = s
	op.H = rapid.IntRange(0, 1).Draw(t, "handle")
	op.Lim = rapid.SampledFrom([]int{0, 0, 0, 0, 0, 1, 2, 3}).Draw(t, "limit")
	op.Rev = rapid.Bool().Draw(t, "reverse")
	return op
}

var scanArrangements = []string{
	"same-program", "same-program", "snap-write-scan-rest-scan", "write-snap-scan-rest-scan", "next-tx", "next-tx", "next-tx",
	"failed-writer", "failing-scanner-then-succeeding", "after-hook", "after-hook", "before-hook-writer", "post-hook-scanner",
	"pre-hook-writer", "two-scans-next-tx",
}

// genScanScenario appends to b: a write to a chosen slot from one place, and scans of the slot's store from a later place.
func genScanScenario(t *rapid.T, b *BlockSpec, cur mstate) string {
	present, absent := slots(cur)
	var sl slot
	var w Op
	var what string
	pickPresent := len(present) > 0 && (len(absent) == 0 || rapid.IntRange(0, 9).Draw(t, "persisted?") < 8)
	if pickPresent {
		sl = present[rapid.IntRange(0, len(present)-1).Draw(t, "slot")]
		if rapid.IntRange(0, 9).Draw(t, "delete?") < 7 {
			w, what = Op{K: "del", S: sl.s, Key: sl.key}, "del-persisted"
		} else {
			v := rapid.IntRange(0, len(valUniverse)-2).Draw(t, "otherval")
			if v >= sl.val {
				v++
			}
			w, what = Op{K: "set", S: sl.s, Key: sl.key, Val: v}, "overwrite-persisted"
		}
	} else {
		sl = absent[rapid.IntRange(0, len(absent)-1).Draw(t, "slot")]
		w, what = Op{K: "set", S: sl.s, Key: sl.key, Val: rapid.IntRange(0, len(valUniverse)-1).Draw(t, "val")}, "create"
	}
	w.H = rapid.IntRange(0, 1).Draw(t, "handle")
	scanOf := func() Op { return genScanAt(t, sl.s, sl.key, rapid.IntRange(0, 9).Draw(t, "cover?") < 8) }
	reader := func() []Op {
		// what a module does with a scan result: look at the key again
		switch rapid.IntRange(0, 3).Draw(t, "reader") {
		case 0:
			return []Op{{K: "get", S: sl.s, Key: sl.key, H: rapid.IntRange(0, 1).Draw(t, "handle")}}
		case 1:
			return []Op{{K: "has", S: sl.s, Key: sl.key}}
		}
		return nil
	}
	mod := rapid.IntRange(0, 1).Draw(t, "txmodule")
	mod2 := rapid.IntRange(0, 1).Draw(t, "txmodule2")
	probe := func() bool { return rapid.IntRange(0, 3).Draw(t, "probe") == 0 }
	tx := func(m int, cmd []Op, fail bool) TxSpec {
		return TxSpec{Module: m, Script: TxScript{Cmd: cmd, Fail: fail, Probe: probe()}}
	}
	maybeFail := func(p int) bool { return rapid.IntRange(0, 9).Draw(t, "fail") < p }
	arr := rapid.SampledFrom(scanArrangements).Draw(t, "arrangement")
	switch arr {
	case "same-program":
		cmd := append([]Op{w, scanOf()}, reader()...)
		b.Txs = append(b.Txs, tx(mod, cmd, maybeFail(2)))
	case "snap-write-scan-rest-scan":
		cmd := append([]Op{{K: "snap"}, w, scanOf(), {K: "rest", N: 0}, scanOf()}, reader()...)
		b.Txs = append(b.Txs, tx(mod, cmd, maybeFail(2)))
	case "write-snap-scan-rest-scan":
		cmd := append([]Op{w, {K: "snap"}, scanOf(), {K: "rest", N: 0}, scanOf()}, reader()...)
		b.Txs = append(b.Txs, tx(mod, cmd, maybeFail(2)))
	case "next-tx":
		b.Txs = append(b.Txs, tx(mod, []Op{w}, false), tx(mod2, append([]Op{scanOf()}, reader()...), maybeFail(2)))
	case "two-scans-next-tx":
		b.Txs = append(b.Txs, tx(mod, []Op{w}, false), tx(mod2, []Op{scanOf(), scanOf()}, false), tx(mod, append([]Op{scanOf()}, reader()...), maybeFail(3)))
	case "failed-writer":
		b.Txs = append(b.Txs, tx(mod, []Op{w, scanOf()}, true), tx(mod2, append([]Op{scanOf()}, reader()...), maybeFail(2)))
	case "failing-scanner-then-succeeding":
		b.Txs = append(b.Txs, tx(mod, []Op{w}, false), tx(mod2, []Op{scanOf()}, true), tx(mod, append([]Op{scanOf()}, reader()...), false))
	case "after-hook":
		b.Txs = append(b.Txs, tx(mod, []Op{w}, false))
		b.Hooks[mod2].After = append(b.Hooks[mod2].After, scanOf())
		b.Hooks[mod2].After = append(b.Hooks[mod2].After, reader()...)
	case "before-hook-writer":
		b.Hooks[mod].Before = append(b.Hooks[mod].Before, w)
		if rapid.Bool().Draw(t, "scan-in-hook") {
			b.Hooks[mod2].Before = append(b.Hooks[mod2].Before, scanOf())
		}
		b.Txs = append(b.Txs, tx(mod2, append([]Op{scanOf()}, reader()...), maybeFail(3)))
	case "post-hook-scanner":
		ts := TxScript{Cmd: []Op{w}, Probe: probe()}
		ts.Post[mod2] = append([]Op{scanOf()}, reader()...)
		b.Txs = append(b.Txs, TxSpec{Module: mod, Script: ts})
	case "pre-hook-writer":
		ts := TxScript{Cmd: append([]Op{scanOf()}, reader()...), Fail: maybeFail(3), Probe: probe()}
		ts.Pre[mod2] = []Op{w}
		b.Txs = append(b.Txs, TxSpec{Module: mod, Script: ts})
	}
	return what + "/" + arr
}

// genScanBlock builds a block of 1-2 scenarios, sometimes between transactions of the general generator.
func genScanBlock(t *rapid.T, cur mstate) (*BlockSpec, string) {
	b := &BlockSpec{}
	notes := []string{}
	if rapid.IntRange(0, 4).Draw(t, "lead-tx") == 0 {
		b.Txs = append(b.Txs, TxSpec{Module: rapid.IntRange(0, 1).Draw(t, "txmodule"), Script: genTxScript(t)})
	}
	n := rapid.SampledFrom([]int{1, 1, 2}).Draw(t, "scenarios")
	for i := 0; i < n; i++ {
		notes = append(notes, genScanScenario(t, b, cur))
	}
	if rapid.IntRange(0, 4).Draw(t, "trail-tx") == 0 {
		b.Txs = append(b.Txs, TxSpec{Module: rapid.IntRange(0, 1).Draw(t, "txmodule"), Script: genTxScript(t)})
	}
	b.Hooks[1].Probe = rapid.IntRange(0, 3).Draw(t, "blockprobe") == 0
	genFlags(t, b)
	return b, "scan:" + strings.Join(notes, "+")
}

// scanGen mirrors what the sim will do with the chain (which blocks stay, which removals are refused after Finalize), only
// to know the persisted state when the next block is drawn.
type scanGen struct {
	t         *rapid.T
	h         *History
	chain     []mstate // [0] = genesis
	finalized uint32
}

func (g *scanGen) tipHeight() uint32 { return g.h.GenesisHeight + uint32(len(g.chain)-1) }

func (g *scanGen) block(b *BlockSpec, note string) {
	g.h.Steps = append(g.h.Steps, Step{Kind: "block", Block: b, Note: note})
	if b.Abandon == "" {
		g.chain = append(g.chain, modelApply(g.chain[len(g.chain)-1], b))
	}
}

func (g *scanGen) revert() {
	g.h.Steps = append(g.h.Steps, Step{Kind: "revert", Expected: rapid.Bool().Draw(g.t, "expected")})
	if len(g.chain) >= 2 && g.tipHeight() >= g.finalized {
		g.chain = g.chain[:len(g.chain)-1]
	}
}

func (g *scanGen) restart(d int) {
	g.h.Steps = append(g.h.Steps, Step{Kind: "restart", D: d})
	if d > len(g.chain)-1 {
		d = len(g.chain) - 1
	}
	if g.finalized > 0 {
		if max := int(g.tipHeight()) - int(g.finalized); max < 0 {
			d = 0
		} else if d > max {
			d = max
		}
	}
	g.chain = g.chain[:len(g.chain)-d]
}

func (g *scanGen) finalize(back int) {
	g.h.Steps = append(g.h.Steps, Step{Kind: "finalize", Back: back})
	if uint32(back) <= g.tipHeight() {
		if f := g.tipHeight() - uint32(back); f > g.finalized {
			g.finalized = f
		}
	}
}

func genScanHistory(t *rapid.T) *History {
	h := &History{GenesisHeight: rapid.SampledFrom([]uint32{0, 0, 7, 1000}).Draw(t, "genesisHeight")}
	// a populated genesis state, so that later blocks find persisted keys
	for i := 0; i < 2; i++ {
		n := rapid.IntRange(1, 4).Draw(t, "genesis-sets")
		for j := 0; j < n; j++ {
			h.Genesis[i].Init = append(h.Genesis[i].Init, genDataOp(t, "set", -1))
		}
		if rapid.IntRange(0, 2).Draw(t, "genesis-scan") == 0 {
			h.Genesis[i].Fin = append(h.Genesis[i].Fin, genScanOp(t, rapid.SampledFrom([]string{"iter", "range"}).Draw(t, "scan-kind"), -1))
		}
	}
	g := &scanGen{t: t, h: h, chain: []mstate{modelGenesis(h)}}
	n := rapid.IntRange(2, 6).Draw(t, "steps")
	for i := 0; i < n; i++ {
		switch rapid.SampledFrom([]string{"scan", "scan", "scan", "scan", "scan", "scan", "general", "light", "revert", "revert", "restart", "finalize"}).Draw(t, "step") {
		case "scan":
			b, note := genScanBlock(t, g.chain[len(g.chain)-1])
			g.block(b, note)
		case "general":
			g.block(genBlock(t), "full")
		case "light":
			b, note := genLightBlock(t)
			g.block(b, note)
		case "revert":
			k := rapid.SampledFrom([]int{1, 1, 2, 3}).Draw(t, "reverts")
			for j := 0; j < k; j++ {
				g.revert()
			}
		case "restart":
			g.restart(rapid.SampledFrom([]int{0, 1, 1, 2, 3}).Draw(t, "d"))
		case "finalize":
			// an episode: enough blocks, Finalize some blocks below the tip, then removals down to / through the finalized height
			// (a Revert can only meet a pruned record if the finalized height lies 2+ blocks above genesis)
			back := rapid.SampledFrom([]int{0, 0, 1, 1, 1, 2, 2, 3}).Draw(t, "back")
			for guard := 0; len(g.chain)-1 < back+2 && guard < 5; guard++ {
				b, note := genScanBlock(t, g.chain[len(g.chain)-1])
				g.block(b, note)
			}
			g.finalize(back)
			if rapid.IntRange(0, 3).Draw(t, "restart0") == 0 {
				g.restart(0)
			}
			switch rapid.SampledFrom([]string{"descend", "descend", "descend", "restart", "none"}).Draw(t, "after-finalize") {
			case "descend":
				k := rapid.SampledFrom([]int{1, back + 1, back + 2, back + 2, back + 3}).Draw(t, "reverts")
				for j := 0; j < k; j++ {
					g.revert()
				}
			case "restart":
				g.restart(rapid.IntRange(0, back+1).Draw(t, "d"))
			}
			if rapid.Bool().Draw(t, "block-after") {
				b, note := genScanBlock(t, g.chain[len(g.chain)-1])
				g.block(b, note)
			}
		}
	}
	return h
}

// TestC16Scans: same oracle as TestC16Histories (sim.run), histories built around scans after writes, and Finalize.
func TestC16Scans(t *testing.T) {
	rapid.Check(t, func(t *rapid.T) {
		h := genScanHistory(t)
		if n := avoidKnown(h); n > 0 {
			evid.R.Excluded(int64(n))
		}
		s := newSim()
		defer s.close()
		s.followEvents = isKnown(sigEvents)
		s.followTomb = isKnown(sigTomb)
		s.initWorkaround = isKnown(sigInitPanic)
		step, v := s.run(h)
		if v != nil {
			if v.sig != "" && knownFinding(v.sig) {
				evid.R.Label("history-cut-at-known-finding", 1)
				return
			}
			t.Fatalf("C16 violated (scan history, step %d, candidate signature %q)\n%s\nhistory: %s", step, v.sig, v.msg, h.JSON())
		}
		st := s.stats
		labels := historyLabels("scan-history", &st)
		seen := map[string]bool{}
		for i := range h.Steps {
			n := h.Steps[i].Note
			if !strings.HasPrefix(n, "scan:") {
				continue
			}
			for _, sc := range strings.Split(n[len("scan:"):], "+") {
				if !seen[sc] {
					seen[sc] = true
					labels = append(labels, "scenario-"+sc)
				}
			}
		}
		nontrivial := st.richFail > 0 || st.delPreexisting > 0
		evid.R.Case(h.JSON(), nontrivial, func() any { return h }, labels...)
		countScanLabels(&st)
	})
}

// countScanLabels adds the totals (number of scans per class, not histories) to the evidence.
func countScanLabels(st *simStats) {
	evid.R.Label("scans-executed", int64(st.sc[scTotal]))
	evid.R.Label("scans-over-staged-delete-of-persisted-key", int64(st.sc[scOverDelPersisted]))
	evid.R.Label("scans-over-staged-delete-of-persisted-key-from-hook-or-succeeding-command", int64(st.sc[scOverDelPersistedKept]))
	evid.R.Label("blocks-committing-delete-of-persisted-key-scanned-after-the-delete", int64(st.commitDelAfterScan))
	evid.R.Label("finalize-calls", int64(st.fin.finalizes))
	evid.R.Label("reverts-refused-below-finalized-height", int64(st.fin.refused))
	evid.R.Label("reverts-above-finalized-height", int64(st.fin.revertAbove))
}

// ---------------------------------------------------------------------------------------------------------------------
// Regress: a scan that runs after a staged delete of a persisted key must be a pure read (the delete is committed, the
// key leaves the state and the tree, Revert brings it back). Minimal shapes inline, every tier.

func TestRegressScanAfterDeleteOfPersistedKey(t *testing.T) {
	genesis := [2]genesisScript{{Init: []Op{{K: "set", S: 0, Key: 1, Val: 1}, {K: "set", S: 0, Key: 2, Val: 2}, {K: "set", S: 0, Key: 3, Val: 3}, {K: "set", S: 1, Key: 1, Val: 4}}}, {}}
	del := Op{K: "del", S: 0, Key: 2}
	scans := map[string]Op{
		"iterate-all":   {K: "iter", S: 0, P: 0},
		"iterate-a":     {K: "iter", S: 0, P: 2, Rev: true},
		"range-all":     {K: "range", S: 0, A: 0, B: 7},
		"range-a-b-lim": {K: "range", S: 0, A: 2, B: 4, Lim: 2, H: 1},
	}
	for _, name := range []string{"iterate-all", "iterate-a", "range-all", "range-a-b-lim"} {
		sc := scans[name]
		blocks := map[string]*BlockSpec{
			"same-program": oneTxBlock(TxScript{Cmd: []Op{del, sc, {K: "get", S: 0, Key: 2}}}),
			"next-tx": {Txs: []TxSpec{
				{Module: 0, Script: TxScript{Cmd: []Op{del}}},
				{Module: 1, Script: TxScript{Cmd: []Op{sc}, Probe: true}}}},
			"failing-then-succeeding-scanner": {Txs: []TxSpec{
				{Module: 0, Script: TxScript{Cmd: []Op{del}}},
				{Module: 1, Script: TxScript{Cmd: []Op{sc}, Fail: true}},
				{Module: 1, Script: TxScript{Cmd: []Op{sc}}}}},
			"after-hook": {Hooks: [2]BlockScript{{}, {After: []Op{sc}}}, Txs: []TxSpec{{Module: 0, Script: TxScript{Cmd: []Op{del}}}}},
		}
		for _, place := range []string{"same-program", "next-tx", "failing-then-succeeding-scanner", "after-hook"} {
			h := &History{Genesis: genesis, Steps: []Step{
				{Kind: "block", Block: blocks[place]},
				{Kind: "block", Block: oneTxBlock(TxScript{Cmd: []Op{{K: "iter", S: 0, P: 0}, {K: "set", S: 0, Key: 4, Val: 1}, {K: "range", S: 0, A: 0, B: 7, Rev: true}}})},
				{Kind: "revert", Expected: true},
				{Kind: "revert", Expected: true},
			}}
			runRegress(t, "scan-after-delete-"+name+"-"+place, "", h, nil)
		}
	}
}
