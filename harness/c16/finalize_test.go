package c16

// Finalize inside block histories (C16 extension, notes/C16.md "Extension: scans inside commands; Finalize").
//
// ABIHandler.Finalize(FinalizedHeight = F) deletes the per-height diff records of the heights below F (F = 0: nothing).
// No code in the pinned tree calls it (the labi interface and the IPC client only carry it); the histories call it between
// blocks with F = tip height - 0..3, the shape an engine reporting its finalized height would produce. Checked:
//   - the committed state, the tree-state record (height, root) are the same after the call; the blocks that follow commit
//     on the same tree (their roots are recomputed by the reference), so the tree nodes are intact;
//   - Revert / restart recovery of blocks ABOVE the highest finalized height restore state, root and record exactly as
//     before (the ordinary oracle of sim.revert / sim.init; an error there is a violation);
//   - a Revert of a block at or below the finalized height may be refused (the unchanged tree refuses below F - "diff at
//     height h does not exist" - and still reverts the block at F itself): then nothing may have changed (state dump and
//     record = the tip's) and the history goes on from the same tip; if it is not refused, it has to restore exactly.
//     Nothing is asserted about which of the two happens. Restart recoveries are not sent below the finalized height
//     (the depth is clamped): an engine never asks for that, and a recovery that stops half-way has no specified outcome.

import (
	"testing"

	"github.com/LiskHQ/lisk-engine/pkg/labi"
)

type finStats struct {
	finalizes       int // Finalize calls
	effective       int // ... that raised the finalized height
	revertAbove     int // successful Reverts of a block above the finalized height (while one is set)
	revertAt        int // successful Reverts of the block at the finalized height
	revertBelow     int // successful Reverts below it (does not happen on the unchanged tree)
	refused         int // Reverts refused at/below the finalized height, nothing changed
	restartClamped  int // restart depths reduced so that the recovery stays above the finalized height
	recoveriesAbove int // recoveries (depth >= 1) run while a finalized height is set
	blocksAfter     int // blocks committed after a Finalize call
}

// finalize calls Finalize with FinalizedHeight = tip height - back (0 if that would be negative).
func (s *sim) finalize(where string, back int) *violation {
	tip := *s.tip()
	var f uint32
	if uint32(back) <= tip.height {
		f = tip.height - uint32(back)
	}
	var err error
	if pv := catch(func() { _, err = s.abi.Finalize(&labi.FinalizeRequest{FinalizedHeight: f}) }); pv != nil {
		return viol("", "%s: Finalize(%d) panicked: %s\n%s", where, f, pv.val, pv.stack)
	}
	if err != nil {
		return viol("", "%s: Finalize(%d): %v", where, f, err)
	}
	if v := s.checkCommitted(where+" after Finalize", tip.state, tip.height, tip.root); v != nil {
		return v
	}
	s.stats.fin.finalizes++
	if f > s.finalized {
		s.finalized = f
		s.stats.fin.effective++
	}
	return nil
}

// revertRefused: Revert of a block at or below the finalized height returned an error. Nothing may have changed.
func (s *sim) revertRefused(where string, cur *tipRec, err error) *violation {
	if v := s.checkCommitted(where+" after refused Revert ("+err.Error()+")", cur.state, cur.height, cur.root); v != nil {
		return v
	}
	s.stats.fin.refused++
	if _, err := s.abi.Clear(&labi.ClearRequest{}); err != nil {
		return viol("", "%s: Clear: %v", where, err)
	}
	return nil
}

func (s *sim) noteRevertVsFinalized(height uint32) {
	switch {
	case s.finalized == 0:
	case height > s.finalized:
		s.stats.fin.revertAbove++
	case height == s.finalized:
		s.stats.fin.revertAt++
	default:
		s.stats.fin.revertBelow++
	}
}

// clampRecovery reduces a restart depth so that only blocks above the finalized height are removed by the recovery.
func (s *sim) clampRecovery(d int) int {
	if s.finalized == 0 {
		return d
	}
	max := int(s.tip().height) - int(s.finalized)
	if max < 0 {
		max = 0
	}
	if d > max {
		s.stats.fin.restartClamped++
		d = max
	}
	if d > 0 {
		s.stats.fin.recoveriesAbove++
	}
	return d
}

func finLabels(st *simStats, add func(bool, string)) {
	f := &st.fin
	add(f.finalizes > 0, "finalize")
	add(f.effective > 0, "finalize-raising-the-finalized-height")
	add(f.effective >= 2, "finalize-raised-twice")
	add(f.revertAbove > 0, "revert-above-finalized-height")
	add(f.revertAbove >= 2, "2+-reverts-above-finalized-height")
	add(f.revertAt > 0, "revert-of-block-at-finalized-height-done")
	add(f.revertBelow > 0, "revert-below-finalized-height-done")
	add(f.refused > 0, "revert-at-or-below-finalized-height-refused-cleanly")
	add(f.restartClamped > 0, "restart-depth-clamped-at-finalized-height")
	add(f.recoveriesAbove > 0, "recovery-above-finalized-height")
	add(f.blocksAfter > 0, "block-committed-after-finalize")
	add(f.refused > 0 && f.blocksAfter > 0, "refused-revert-and-block-after-finalize")
}

// Four blocks, Finalize two below the tip, then reverts down through the finalized height, a block on top of where that
// stops, another Finalize and restart recoveries.
func TestRegressFinalizeThenReverts(t *testing.T) {
	set := func(key, val int) *BlockSpec {
		return oneTxBlock(TxScript{Cmd: []Op{{K: "set", S: 0, Key: key, Val: val}, {K: "iter", S: 0, P: 0}}})
	}
	delb := func(key int) *BlockSpec {
		return oneTxBlock(TxScript{Cmd: []Op{{K: "del", S: 0, Key: key}, {K: "range", S: 0, A: 0, B: 7}}})
	}
	for _, genesisHeight := range []uint32{0, 1000} {
		for _, expected := range []bool{true, false} {
			h := &History{GenesisHeight: genesisHeight, Genesis: [2]genesisScript{{Init: []Op{{K: "set", S: 0, Key: 1, Val: 1}}}, {}}, Steps: []Step{
				{Kind: "block", Block: set(2, 2)},
				{Kind: "block", Block: delb(1)},
				{Kind: "block", Block: set(3, 3)},
				{Kind: "block", Block: set(1, 4)},
				{Kind: "finalize", Back: 2},
				{Kind: "restart", D: 0},
				{Kind: "revert", Expected: expected}, // above
				{Kind: "revert", Expected: expected}, // above
				{Kind: "revert", Expected: expected}, // the finalized block itself
				{Kind: "revert", Expected: expected}, // below: refused on the unchanged tree
				{Kind: "block", Block: set(4, 5)},
				{Kind: "block", Block: delb(2)},
				{Kind: "finalize", Back: 1},
				{Kind: "finalize", Back: 3}, // a lower height afterwards changes nothing
				{Kind: "restart", D: 2},     // clamped to the one block above the finalized height
				{Kind: "block", Block: set(2, 1)},
				{Kind: "revert", Expected: expected},
				{Kind: "revert", Expected: expected},
			}}
			name := "finalize-then-reverts"
			if expected {
				name += "-expected-root"
			}
			if genesisHeight > 0 {
				name += "-genesis-1000"
			}
			runRegress(t, name, "", h, nil)
		}
	}
}
