package c16

import (
	"bytes"
	"context"
	"encoding/json"
	"fmt"
	"os"
	"reflect"
	"runtime/debug"
	"strings"

	"github.com/LiskHQ/lisk-engine/pkg/blockchain"
	"github.com/LiskHQ/lisk-engine/pkg/codec"
	"github.com/LiskHQ/lisk-engine/pkg/db"
	"github.com/LiskHQ/lisk-engine/pkg/framework"
	"github.com/LiskHQ/lisk-engine/pkg/framework/config"
	"github.com/LiskHQ/lisk-engine/pkg/labi"
	"github.com/LiskHQ/lisk-engine/pkg/log"
	"github.com/LiskHQ/lisk-engine/pkg/statemachine"

	"verifharness/evid"
)

// ---------------------------------------------------------------------------------------------------------------------
// Known-finding signatures (see /verif/known_findings/C16.json and notes/C16.md)

const (
	sigEvents    = "events:failing-command-keeps-revertible-events"
	sigTomb      = "root:removed-keys-stay-in-tree-as-leaves-with-hash-of-empty-value"
	sigInitPanic = "init:recovery-revert-dereferences-nil-executionContext"
	sigRestore   = "state:RestoreSnapshot-only-swaps-overlay-of-calling-handle"
	sigNilCons   = "execute:request-without-consensus-dereferences-nil"
)

// ---------------------------------------------------------------------------------------------------------------------
// History description (JSON-able; printed on failure, stored as evidence sample)

type TxSpec struct {
	Module int      `json:"module"`
	Dry    bool     `json:"dry,omitempty"` // ExecuteTransaction{DryRun:true}
	Script TxScript `json:"script"`
}

type BlockSpec struct {
	Hooks     [2]BlockScript `json:"hooks"`
	Txs       []TxSpec       `json:"txs"`
	Verify    bool           `json:"verify,omitempty"`    // VerifyTransaction before every ExecuteTransaction (consensus path)
	CommitDry bool           `json:"commitDry,omitempty"` // Commit{DryRun:true} first (generator path)
	Expected  bool           `json:"expected,omitempty"`  // pass ExpectedStateRoot (consensus path)
	Abandon   string         `json:"abandon,omitempty"`   // "", "clear" (Clear without Commit), "crash" (new handler + Init)
}

type Step struct {
	Kind     string     `json:"kind"` // block | revert | restart | finalize
	Note     string     `json:"note,omitempty"` // generator's remark: which kind of block it meant to build (not interpreted)
	Block    *BlockSpec `json:"block,omitempty"`
	Expected bool       `json:"expected,omitempty"` // revert: pass ExpectedStateRoot
	D        int        `json:"d,omitempty"`        // restart: application is D blocks ahead of the engine
	Back     int        `json:"back,omitempty"`     // finalize: Finalize(FinalizedHeight = tip height - Back) (finalize_test.go)
}

type History struct {
	GenesisHeight uint32           `json:"genesisHeight"`
	Genesis       [2]genesisScript `json:"genesis"`
	Steps         []Step           `json:"steps"`
}

func (h *History) JSON() string {
	b, _ := json.Marshal(h)
	return string(b)
}

// ---------------------------------------------------------------------------------------------------------------------

type nopLogger struct{}

func (nopLogger) Debug(string, ...interface{})    {}
func (nopLogger) Info(string, ...interface{})     {}
func (nopLogger) Error(string, ...interface{})    {}
func (nopLogger) Debugf(string, ...interface{})   {}
func (nopLogger) Infof(string, ...interface{})    {}
func (nopLogger) Errorf(string, ...interface{})   {}
func (nopLogger) Warning(string, ...interface{})  {}
func (nopLogger) Warningf(string, ...interface{}) {}
func (l nopLogger) With(...interface{}) log.Logger { return l }

type violation struct {
	sig string // candidate known-finding signature ("" = none applies)
	msg string
}

func viol(sig, format string, a ...any) *violation {
	return &violation{sig: sig, msg: fmt.Sprintf(format, a...)}
}

type tipRec struct {
	height uint32
	root   []byte
	state  mstate
	header *blockchain.BlockHeader
}

type simStats struct {
	blocks, committed, reverts, restarts, recoveries, txs, failTxs, dryTxs int
	richFail, delPreexisting, followedEvents, followedTomb                int
	failWithSnap, okAfterRestore                                          int
	recoveries2, retainedAfterRestore, storeRestores, abandoned, expectedRoots int
	// reorganisation bookkeeping (removal = Revert or one recovery step of Init)
	neutralCommitted        int    // committed blocks whose resulting state equals the state before the block
	removedNeutral          int    // removals of such a block
	revertNeutralOverStale  int    // Revert of a state-neutral block at a height that previously held a state-changing block which was abandoned
	recoverNeutralOverStale int    // the same through the Init recovery
	removedAtMultiHeight    int    // removals at a height that has seen >= 2 different committed blocks
	removedAtMulti3         int    // ... >= 3
	reorgs                  int    // removals followed by a new block
	reorgDepth              [5]int // reorgs by depth (index 4 = 4 or more)
	recoveryDepthMax        int
	descents                int    // runs of >= 2 consecutive removals through heights that saw >= 2 blocks each
	// scans inside programs (scan_test.go) and Finalize (finalize_test.go)
	sc                 scanCounters
	commitDelAfterScan int // committed blocks deleting a persisted key that lay in the interval of a later scan of a hook / succeeding command
	fin                finStats
}

type sim struct {
	stateDB, moduleDB *db.DB
	abi               *framework.ABIHandler
	rec               *recorder
	chain             []tipRec
	tomb              map[string]bool
	deviated          bool // the tree holds tombstone leaves (S13 observed in this history)
	followEvents      bool // S12 listed as known: accept exactly the "all events kept" list for failing commands
	followTomb        bool // S13 listed as known: accept exactly the tombstone root
	initWorkaround    bool // S14 listed as known: recovery is run with a live execution context
	nilConsensus      bool // send ExecuteTransaction without Consensus (as the in-process callers do)
	nonce             uint64
	seenAt            map[uint32]int  // number of blocks committed at a height so far
	staleChanging     map[uint32]bool // heights that held a state-changing block which was later removed
	pendingRemoved    int             // consecutive removals since the last committed block
	multiRun          int             // consecutive removals at heights that saw >= 2 blocks
	chainID           []byte
	finalized         uint32 // highest FinalizedHeight passed to Finalize so far (diff records below it are pruned)
	genesisBlock      *blockchain.Block
	stats             simStats
}

func newSim() *sim {
	s := &sim{rec: &recorder{}, tomb: map[string]bool{}, chainID: []byte{4, 0, 0, 0}, seenAt: map[uint32]int{}, staleChanging: map[uint32]bool{}}
	var err error
	if s.stateDB, err = db.NewInMemoryDB(); err != nil {
		panic(err)
	}
	if s.moduleDB, err = db.NewInMemoryDB(); err != nil {
		panic(err)
	}
	return s
}

func (s *sim) close() {
	s.stateDB.Close()
	s.moduleDB.Close()
}

// boot builds a new ABIHandler + state machine + module instances over the same databases (process start).
func (s *sim) boot() {
	exec := statemachine.NewExecuter()
	exec.Init(nopLogger{})
	mods := []framework.Module{}
	for i := 0; i < 2; i++ {
		m := &scriptMod{idx: i, name: modNames[i], rec: s.rec}
		if err := exec.AddModule(m); err != nil {
			panic(err)
		}
		mods = append(mods, m)
	}
	s.abi = framework.NewABIHandler(context.Background(), &config.ApplicationConfig{}, nopLogger{}, exec, s.genesisBlock, s.stateDB, s.moduleDB, mods)
}

func (s *sim) tip() *tipRec { return &s.chain[len(s.chain)-1] }

// noteCommit / noteRemoved keep the reorganisation statistics (labels only; nothing is decided on them).
func (s *sim) noteCommit(height uint32, neutral bool) {
	s.seenAt[height]++
	if neutral {
		s.stats.neutralCommitted++
	}
	if s.pendingRemoved > 0 {
		s.stats.reorgs++
		d := s.pendingRemoved
		if d > 4 {
			d = 4
		}
		s.stats.reorgDepth[d]++
	}
	s.pendingRemoved = 0
	s.multiRun = 0
}

func (s *sim) noteRemoved(cur, prev *tipRec, viaInit bool) {
	neutral := cur.state.equal(prev.state)
	if neutral {
		s.stats.removedNeutral++
		if s.staleChanging[cur.height] {
			if viaInit {
				s.stats.recoverNeutralOverStale++
			} else {
				s.stats.revertNeutralOverStale++
			}
		}
	} else {
		s.staleChanging[cur.height] = true
	}
	if s.seenAt[cur.height] >= 2 {
		s.stats.removedAtMultiHeight++
		s.multiRun++
		if s.multiRun == 2 {
			s.stats.descents++
		}
	} else {
		s.multiRun = 0
	}
	if s.seenAt[cur.height] >= 3 {
		s.stats.removedAtMulti3++
	}
	s.pendingRemoved++
}

func mkHeader(height uint32) *blockchain.BlockHeader {
	return &blockchain.BlockHeader{
		Version:          2,
		Timestamp:        1000 + height*10,
		Height:           height,
		PreviousBlockID:  bytes.Repeat([]byte{byte(height)}, 32),
		GeneratorAddress: bytes.Repeat([]byte{7}, 20),
		TransactionRoot:  bytes.Repeat([]byte{1}, 32),
		AssetRoot:        bytes.Repeat([]byte{2}, 32),
		EventRoot:        bytes.Repeat([]byte{3}, 32),
		StateRoot:        bytes.Repeat([]byte{4}, 32),
		ValidatorsHash:   bytes.Repeat([]byte{5}, 32),
		AggregateCommit:  &blockchain.AggregateCommit{AggregationBits: []byte{}, CertificateSignature: []byte{}},
		Signature:        bytes.Repeat([]byte{6}, 64),
	}
}

func (s *sim) mkTx(spec *TxSpec) *blockchain.Transaction {
	s.nonce++
	params, _ := json.Marshal(&spec.Script)
	return &blockchain.Transaction{
		Module:          modNames[spec.Module],
		Command:         "run",
		Nonce:           s.nonce,
		Fee:             1000,
		SenderPublicKey: bytes.Repeat([]byte{9}, 32),
		Params:          params,
		Signatures:      []codec.Hex{bytes.Repeat([]byte{8}, 64)},
	}
}

func (s *sim) consensus() *labi.Consensus {
	return &labi.Consensus{CurrentValidators: []*labi.Validator{}, ImplyMaxPrevote: true, MaxHeightCertified: 0, CertificateThreshold: 1}
}

// dump reads the committed application state (prefix 0 of the state DB) and the tree-state record.
func (s *sim) dump() mstate {
	out := mstate{}
	for _, kv := range s.stateDB.Iterate(framework.StateDBPrefixState, -1, false) {
		out[string(kv.Key()[1:])] = append([]byte{}, kv.Value()...)
	}
	return out
}

func (s *sim) record() (uint32, []byte, bool) {
	v, ok := s.stateDB.Get(framework.StateDBPrefixTreeState)
	if !ok || len(v) < 4 {
		return 0, nil, false
	}
	return uint32(v[0])<<24 | uint32(v[1])<<16 | uint32(v[2])<<8 | uint32(v[3]), v[4:], true
}

func (s *sim) checkCommitted(where string, want mstate, height uint32, root []byte) *violation {
	if got := s.dump(); !got.equal(want) {
		return viol("", "%s: committed state differs from the model\n  db    %v\n  model %v", where, got, want)
	}
	h, r, ok := s.record()
	if !ok {
		return viol("", "%s: tree-state record missing", where)
	}
	if h != height || !bytes.Equal(r, root) {
		return viol("", "%s: tree-state record is (height %d, root %x), application tip is (height %d, root %x)", where, h, r, height, root)
	}
	return nil
}

func (s *sim) checkEvents(where string, got []*blockchain.Event, want []mevent) (bool, string) {
	ok := len(got) == len(want)
	for i := 0; ok && i < len(got); i++ {
		e := got[i]
		if e.Module != want[i].Module || e.Name != want[i].Name || fmt.Sprintf("%x", []byte(e.Data)) != want[i].Data || e.Index != uint32(i) {
			ok = false
		}
	}
	if ok {
		return true, ""
	}
	var g []string
	for _, e := range got {
		g = append(g, fmt.Sprintf("#%d %s/%s/%x", e.Index, e.Module, e.Name, []byte(e.Data)))
	}
	var w []string
	for i, e := range want {
		w = append(w, fmt.Sprintf("#%d %s", i, e))
	}
	return false, fmt.Sprintf("%s: events differ\n  got  %v\n  want %v", where, g, w)
}

// checkObs compares what the module read (gets, probes) with the model; trigger = the programs run in this call used a
// retained handle after a restore or a store-level restore (the S10 trigger).
func (s *sim) checkObs(where string, m *mrun, trigger bool) *violation {
	sig := ""
	if trigger {
		sig = sigRestore
	}
	if len(s.rec.errs) > 0 {
		return viol("", "%s: scripted module reported errors: %v", where, s.rec.errs)
	}
	if !reflect.DeepEqual(s.rec.gets, m.gets) && !(len(s.rec.gets) == 0 && len(m.gets) == 0) {
		return viol(sig, "%s: reads differ from the model\n  got  %+v\n  want %+v", where, s.rec.gets, m.gets)
	}
	if !reflect.DeepEqual(s.rec.scans, m.scans) && !(len(s.rec.scans) == 0 && len(m.scans) == 0) {
		return viol(sig, "%s: what Iterate/Range returned inside the programs differs from the model (sorted map with the staged writes applied)\n  got  %+v\n  want %+v", where, s.rec.scans, m.scans)
	}
	if !reflect.DeepEqual(s.rec.probes, m.probes) && !(len(s.rec.probes) == 0 && len(m.probes) == 0) {
		return viol(sig, "%s: staged state seen by the probe differs from the model\n  got  %+v\n  want %+v", where, s.rec.probes, m.probes)
	}
	return nil
}

func statsTrigger(st ...opStats) bool {
	for _, x := range st {
		if x.retainedAfterRestore > 0 || x.storeRestores > 0 {
			return true
		}
	}
	return false
}

func assetsOf(v [2]any) blockchain.BlockAssets {
	out := blockchain.BlockAssets{}
	for i := 0; i < 2; i++ {
		data, _ := json.Marshal(v[i])
		out = append(out, &blockchain.BlockAsset{Module: modNames[i], Data: data})
	}
	return out
}

// classifyRoot decides whether `got` is acceptable as the root of state `st` given the tombstones `tomb`.
func (s *sim) classifyRoot(where string, got []byte, st mstate, tomb map[string]bool) *violation {
	want := stateRoot(st)
	if !s.deviated && bytes.Equal(got, want) {
		return nil
	}
	dev := tombRoot(st, tomb)
	if bytes.Equal(got, dev) && !bytes.Equal(dev, want) {
		if s.followTomb && knownFinding(sigTomb) {
			s.deviated = true
			s.stats.followedTomb++
			return nil
		}
		return viol(sigTomb, "%s: state root %x is not the sparse-Merkle root %x of the state (%d keys); it is the root of the tree in which the %d removed keys remain as leaves with value SHA256(\"\")\n  state %v", where, got, want, len(st), len(tomb), st)
	}
	if s.deviated && bytes.Equal(got, dev) {
		return nil
	}
	return viol("", "%s: state root %x is not the sparse-Merkle root %x of the state (deviated=%v, tombstone root %x)\n  state %v", where, got, want, s.deviated, dev, st)
}

func (s *sim) expectedRoot(st mstate, tomb map[string]bool) []byte {
	if s.deviated {
		return tombRoot(st, tomb)
	}
	return stateRoot(st)
}

// genesis executes and commits the genesis block.
func (s *sim) genesis(h *History) *violation {
	s.genesisBlock = &blockchain.Block{Header: mkHeader(h.GenesisHeight), Assets: assetsOf([2]any{&h.Genesis[0], &h.Genesis[1]}), Transactions: []*blockchain.Transaction{}}
	s.boot()
	res, err := s.abi.InitStateMachine(&labi.InitStateMachineRequest{Header: s.genesisBlock.Header})
	if err != nil {
		return viol("", "genesis InitStateMachine: %v", err)
	}
	m := &mrun{st: mstate{}}
	var st []opStats
	for i := 0; i < 2; i++ {
		st = append(st, m.runOps(h.Genesis[i].Init, modNames[i], "genesis-init/"+modNames[i]))
	}
	for i := 0; i < 2; i++ {
		st = append(st, m.runOps(h.Genesis[i].Fin, modNames[i], "genesis-fin/"+modNames[i]))
	}
	s.rec.reset()
	gres, err := s.abi.InitGenesisState(&labi.InitGenesisStateRequest{ContextID: res.ContextID})
	if err != nil {
		return viol("", "InitGenesisState: %v", err)
	}
	if v := s.checkObs("genesis", m, statsTrigger(st...)); v != nil {
		return v
	}
	if ok, msg := s.checkEvents("genesis", gres.Events, m.events); !ok {
		return viol("", "%s", msg)
	}
	cres, err := s.abi.Commit(&labi.CommitRequest{ContextID: res.ContextID, StateRoot: []byte{}})
	if err != nil {
		return viol("", "genesis Commit: %v", err)
	}
	if v := s.classifyRoot("genesis Commit", cres.StateRoot, m.st, s.tomb); v != nil {
		return v
	}
	if v := s.checkCommitted("genesis Commit", m.st, h.GenesisHeight, cres.StateRoot); v != nil {
		return v
	}
	s.chain = append(s.chain, tipRec{height: h.GenesisHeight, root: cres.StateRoot, state: m.st, header: s.genesisBlock.Header})
	if _, err := s.abi.Clear(&labi.ClearRequest{}); err != nil {
		return viol("", "Clear: %v", err)
	}
	return nil
}

func (s *sim) execTx(where string, ctxID []byte, header *blockchain.BlockHeader, assets blockchain.BlockAssets, spec *TxSpec, m *mrun) (*blockchain.Transaction, *violation) {
	tx := s.mkTx(spec)
	m.gets, m.probes, m.scans = nil, nil, nil
	out := m.runTx(spec.Module, &spec.Script)
	s.rec.reset()
	req := &labi.ExecuteTransactionRequest{ContextID: ctxID, Transaction: tx, Assets: assets, DryRun: spec.Dry, Header: header, Consensus: s.consensus()}
	if s.nilConsensus {
		req.Consensus = nil
	}
	var resp *labi.ExecuteTransactionResponse
	var err error
	if pv := catch(func() { resp, err = s.abi.ExecuteTransaction(req) }); pv != nil {
		sig := ""
		if s.nilConsensus && strings.Contains(pv.val, "nil pointer dereference") && strings.Contains(pv.stack, "ABIHandler).ExecuteTransaction") {
			sig = sigNilCons
		}
		return nil, viol(sig, "%s: ExecuteTransaction panicked: %s\n%s", where, pv.val, pv.stack)
	}
	if err != nil {
		return nil, viol("", "%s: ExecuteTransaction: %v", where, err)
	}
	if resp.Result != out.result {
		return nil, viol("", "%s: result %d, want %d", where, resp.Result, out.result)
	}
	if ok, msg := s.checkEvents(where, resp.Events, out.events); !ok {
		kept, _ := s.checkEvents(where, resp.Events, out.eventsKept)
		switch {
		case out.fail && kept && s.followEvents && knownFinding(sigEvents):
			s.stats.followedEvents++
		case out.fail && kept:
			return nil, viol(sigEvents, "%s: response of a failing command still contains its revertible events\n%s", where, msg)
		default:
			return nil, viol("", "%s", msg)
		}
	}
	pre0, pre1 := scan(spec.Script.Pre[0]), scan(spec.Script.Pre[1])
	post0, post1 := scan(spec.Script.Post[0]), scan(spec.Script.Post[1])
	if v := s.checkObs(where, m, statsTrigger(out.cmd, pre0, pre1, post0, post1)); v != nil {
		return nil, v
	}
	s.stats.txs++
	if out.cmd.retainedAfterRestore > 0 {
		s.stats.retainedAfterRestore++
	}
	if out.cmd.storeRestores > 0 {
		s.stats.storeRestores++
	}
	if spec.Dry {
		s.stats.dryTxs++
	}
	if out.fail {
		s.stats.failTxs++
		if out.cmd.setNew > 0 && out.cmd.overwrite > 0 && out.cmd.delExisting > 0 && out.cmd.rev > 0 && out.cmd.unrev > 0 {
			s.stats.richFail++
		}
		if out.cmd.restores+out.cmd.storeRestores > 0 {
			s.stats.failWithSnap++
		}
	} else if out.cmd.restores+out.cmd.storeRestores > 0 {
		s.stats.okAfterRestore++
	}
	return tx, nil
}

// scan computes the trigger statistics of a program without a state (for hooks).
func scan(ops []Op) opStats {
	var st opStats
	seen := map[int]bool{}
	stale := map[int]bool{}
	for _, op := range ops {
		switch op.K {
		case "set", "del", "get", "has", "iter", "range":
			if op.H == 1 {
				if stale[op.S] {
					st.retainedAfterRestore++
				}
				seen[op.S] = true
			}
		case "rest", "srest":
			if op.K == "rest" {
				st.restores++
			} else {
				st.storeRestores++
			}
			for s := range seen {
				stale[s] = true
			}
		case "ssnap":
			seen[op.S] = true
		}
	}
	return st
}

func (s *sim) block(where string, b *BlockSpec) *violation {
	tip := *s.tip()
	height := tip.height + 1
	header := mkHeader(height)
	header.Timestamp += uint32(s.seenAt[height] % 10) // another block at a height already used is a different block (different id)
	assets := assetsOf([2]any{&b.Hooks[0], &b.Hooks[1]})
	s.stats.blocks++
	ires, err := s.abi.InitStateMachine(&labi.InitStateMachineRequest{Header: header})
	if err != nil {
		return viol("", "%s: InitStateMachine: %v", where, err)
	}
	ctxID := ires.ContextID
	m := &mrun{st: tip.state.clone(), base: tip.state}
	hooks := [2]*BlockScript{&b.Hooks[0], &b.Hooks[1]}

	m.runBlockHook(hooks, false)
	s.rec.reset()
	bres, err := s.abi.BeforeTransactionsExecute(&labi.BeforeTransactionsExecuteRequest{ContextID: ctxID, Assets: assets, Consensus: s.consensus()})
	if err != nil {
		return viol("", "%s: BeforeTransactionsExecute: %v", where, err)
	}
	if ok, msg := s.checkEvents(where+" BeforeTransactionsExecute", bres.Events, m.events); !ok {
		return viol("", "%s", msg)
	}
	if v := s.checkObs(where+" BeforeTransactionsExecute", m, statsTrigger(scan(b.Hooks[0].Before), scan(b.Hooks[1].Before))); v != nil {
		return v
	}

	txs := []*blockchain.Transaction{}
	for i := range b.Txs {
		spec := &b.Txs[i]
		w := fmt.Sprintf("%s tx %d", where, i)
		if b.Verify && !spec.Dry {
			vres, err := s.abi.VerifyTransaction(&labi.VerifyTransactionRequest{ContextID: ctxID, Transaction: s.mkTx(spec)})
			if err != nil || vres.Result != labi.TxVerifyResultOk {
				return viol("", "%s: VerifyTransaction: result %v err %v", w, vres, err)
			}
		}
		run := m
		if spec.Dry {
			// a dry run works on a fresh overlay over the committed state and must leave the staged state alone
			run = &mrun{st: tip.state.clone(), base: tip.state}
		}
		tx, v := s.execTx(w, ctxID, header, assets, spec, run)
		if v != nil {
			return v
		}
		if !spec.Dry {
			txs = append(txs, tx)
		}
	}

	m.gets, m.probes, m.scans = nil, nil, nil
	m.runBlockHook(hooks, true)
	s.rec.reset()
	ares, err := s.abi.AfterTransactionsExecute(&labi.AfterTransactionsExecuteRequest{ContextID: ctxID, Assets: assets, Consensus: s.consensus(), Transactions: txs})
	if err != nil {
		return viol("", "%s: AfterTransactionsExecute: %v", where, err)
	}
	if ok, msg := s.checkEvents(where+" AfterTransactionsExecute", ares.Events, m.events); !ok {
		return viol("", "%s", msg)
	}
	if v := s.checkObs(where+" AfterTransactionsExecute", m, statsTrigger(scan(b.Hooks[0].After), scan(b.Hooks[1].After))); v != nil {
		return v
	}

	s.stats.sc.add(&m.sc)
	newTomb := nextTomb(s.tomb, tip.state, m.st)
	if b.CommitDry {
		cres, err := s.abi.Commit(&labi.CommitRequest{ContextID: ctxID, StateRoot: tip.root, DryRun: true})
		if err != nil {
			return viol("", "%s: Commit(dry run): %v", where, err)
		}
		if v := s.classifyRoot(where+" Commit(dry run)", cres.StateRoot, m.st, newTomb); v != nil {
			return v
		}
		if v := s.checkCommitted(where+" after Commit(dry run)", tip.state, tip.height, tip.root); v != nil {
			return v
		}
	}
	if b.Abandon != "" {
		s.stats.abandoned++
		if b.Abandon == "crash" {
			s.boot()
			s.stats.restarts++
			if v := s.init(where+" restart after crash", 0); v != nil {
				return v
			}
		} else if _, err := s.abi.Clear(&labi.ClearRequest{}); err != nil {
			return viol("", "%s: Clear: %v", where, err)
		}
		return s.checkCommitted(where+" after abandoned block", tip.state, tip.height, tip.root)
	}

	req := &labi.CommitRequest{ContextID: ctxID, StateRoot: tip.root}
	if b.Expected {
		req.ExpectedStateRoot = s.expectedRoot(m.st, newTomb)
		s.stats.expectedRoots++
	}
	cres, err := s.abi.Commit(req)
	if err != nil && b.Expected {
		// learn the root the application computed, classify it, then commit as a node without expectation would
		dres, derr := s.abi.Commit(&labi.CommitRequest{ContextID: ctxID, StateRoot: tip.root, DryRun: true})
		if derr != nil {
			return viol("", "%s: Commit: %v; dry run: %v", where, err, derr)
		}
		if v := s.classifyRoot(where+" Commit (rejected: "+err.Error()+")", dres.StateRoot, m.st, newTomb); v != nil {
			return v
		}
		req.ExpectedStateRoot = nil
		cres, err = s.abi.Commit(req)
	}
	if err != nil {
		return viol("", "%s: Commit: %v", where, err)
	}
	if v := s.classifyRoot(where+" Commit", cres.StateRoot, m.st, newTomb); v != nil {
		return v
	}
	if v := s.checkCommitted(where+" Commit", m.st, height, cres.StateRoot); v != nil {
		return v
	}
	for k := range tip.state {
		if _, ok := m.st[k]; !ok {
			s.stats.delPreexisting++
			break
		}
	}
	for k := range m.scannedDeleted {
		if _, ok := m.st[k]; !ok {
			s.stats.commitDelAfterScan++
			break
		}
	}
	s.tomb = newTomb
	s.stats.committed++
	if s.stats.fin.finalizes > 0 {
		s.stats.fin.blocksAfter++
	}
	s.noteCommit(height, tip.state.equal(m.st))
	s.chain = append(s.chain, tipRec{height: height, root: cres.StateRoot, state: m.st, header: header})
	if _, err := s.abi.Clear(&labi.ClearRequest{}); err != nil {
		return viol("", "%s: Clear: %v", where, err)
	}
	return nil
}

// revert removes the last block the way consensus.deleteBlock does.
func (s *sim) revert(where string, expected bool) *violation {
	cur, prev := s.chain[len(s.chain)-1], s.chain[len(s.chain)-2]
	ires, err := s.abi.InitStateMachine(&labi.InitStateMachineRequest{Header: cur.header})
	if err != nil {
		return viol("", "%s: InitStateMachine: %v", where, err)
	}
	newTomb := nextTomb(s.tomb, cur.state, prev.state)
	wantRoot := prev.root
	if s.deviated {
		wantRoot = tombRoot(prev.state, newTomb)
	}
	req := &labi.RevertRequest{ContextID: ires.ContextID, StateRoot: cur.root}
	if expected {
		req.ExpectedStateRoot = wantRoot
	}
	rres, err := s.abi.Revert(req)
	if err != nil && expected {
		// the consensus caller would fail here; find out which root the application computed
		req.ExpectedStateRoot = nil
		var err2 error
		rres, err2 = s.abi.Revert(req)
		if err2 != nil {
			if cur.height <= s.finalized {
				return s.revertRefused(where, &cur, err2)
			}
			return viol("", "%s: Revert: %v; without expectation: %v", where, err, err2)
		}
		if bytes.Equal(rres.StateRoot, wantRoot) {
			return viol("", "%s: Revert rejected the expected root %x but computes the same root: %v", where, wantRoot, err)
		}
	} else if err != nil {
		if cur.height <= s.finalized {
			return s.revertRefused(where, &cur, err)
		}
		return viol("", "%s: Revert: %v", where, err)
	}
	s.noteRevertVsFinalized(cur.height)
	got := []byte(rres.StateRoot)
	if !bytes.Equal(got, wantRoot) {
		dev := tombRoot(prev.state, newTomb)
		if bytes.Equal(got, dev) {
			if !(s.followTomb && knownFinding(sigTomb)) {
				return viol(sigTomb, "%s: Revert returns root %x, the root before the block was %x; it is the root of the tree in which the keys the block had added remain as leaves with value SHA256(\"\")", where, got, prev.root)
			}
			s.deviated = true
			s.stats.followedTomb++
		} else {
			return viol("", "%s: Revert returns root %x, the root before the block was %x (tombstone root %x)", where, got, prev.root, dev)
		}
	}
	if v := s.checkCommitted(where+" Revert", prev.state, prev.height, got); v != nil {
		return v
	}
	s.tomb = newTomb
	s.noteRemoved(&cur, &prev, false)
	s.chain = s.chain[:len(s.chain)-1]
	s.tip().root = got
	s.stats.reverts++
	if _, err := s.abi.Clear(&labi.ClearRequest{}); err != nil {
		return viol("", "%s: Clear: %v", where, err)
	}
	return nil
}

type panicInfo struct{ val, stack string }

func catch(f func()) (p *panicInfo) {
	defer func() {
		if r := recover(); r != nil {
			p = &panicInfo{val: fmt.Sprint(r), stack: string(debug.Stack())}
		}
	}()
	f()
	return nil
}

// init calls ABI Init the way engine.Start does, with the engine's tip d blocks behind the application's.
func (s *sim) init(where string, d int) *violation {
	app := s.chain[len(s.chain)-1]
	eng := s.chain[len(s.chain)-1-d]
	tomb := s.tomb
	for i := len(s.chain) - 1; i > len(s.chain)-1-d; i-- {
		tomb = nextTomb(tomb, s.chain[i].state, s.chain[i-1].state)
	}
	live := false
	if d > 0 && s.initWorkaround {
		// S14 listed as known: explore the recovery behind it with an execution context in place
		if _, err := s.abi.InitStateMachine(&labi.InitStateMachineRequest{Header: app.header}); err != nil {
			return viol("", "%s: InitStateMachine: %v", where, err)
		}
		live = true
	}
	var err error
	pv := catch(func() {
		_, err = s.abi.Init(&labi.InitRequest{ChainID: s.chainID, LastBlockHeight: eng.height, LastStateRoot: eng.root})
	})
	if pv != nil {
		sig := ""
		if d > 0 && !live && strings.Contains(pv.val, "nil pointer dereference") && strings.Contains(pv.stack, "ABIHandler).revert") {
			sig = sigInitPanic
		}
		return viol(sig, "%s: Init(lastHeight=%d) with the application at height %d panicked: %s\n%s", where, eng.height, app.height, pv.val, pv.stack)
	}
	if live {
		if _, err := s.abi.Clear(&labi.ClearRequest{}); err != nil {
			return viol("", "%s: Clear: %v", where, err)
		}
	}
	root := eng.root
	if err != nil {
		// acceptable only as the consequence of the tombstone deviation: recovery ran, the roots conflict
		_, r, ok := s.record()
		dev := tombRoot(eng.state, tomb)
		if d > 0 && ok && bytes.Equal(r, dev) && !bytes.Equal(dev, eng.root) {
			if !(s.followTomb && knownFinding(sigTomb)) {
				return viol(sigTomb, "%s: Init(lastHeight=%d, root %x) fails after recovery: %v — the recovered tree keeps the reverted blocks' added keys as leaves with value SHA256(\"\")", where, eng.height, eng.root, err)
			}
			s.deviated = true
			s.stats.followedTomb++
			root = r
		} else {
			return viol("", "%s: Init(lastHeight=%d, root %x) with the application at height %d: %v", where, eng.height, eng.root, app.height, err)
		}
	}
	if v := s.checkCommitted(where+" Init", eng.state, eng.height, root); v != nil {
		return v
	}
	s.tomb = tomb
	for i := len(s.chain) - 1; i > len(s.chain)-1-d; i-- {
		s.noteRemoved(&s.chain[i], &s.chain[i-1], true)
	}
	if d > s.stats.recoveryDepthMax {
		s.stats.recoveryDepthMax = d
	}
	s.chain = s.chain[:len(s.chain)-d]
	s.tip().root = root
	if d > 0 {
		s.stats.recoveries++
	}
	if d > 1 {
		s.stats.recoveries2++
	}
	return nil
}

func (s *sim) restart(where string, d int) *violation {
	s.boot()
	s.stats.restarts++
	return s.init(where, d)
}

// run executes a whole history; returns the first violation.
func (s *sim) run(h *History) (int, *violation) {
	if v := s.genesis(h); v != nil {
		return -1, v
	}
	for i := range h.Steps {
		st := &h.Steps[i]
		where := fmt.Sprintf("step %d (%s, tip height %d)", i, st.Kind, s.tip().height)
		var v *violation
		switch st.Kind {
		case "block":
			v = s.block(where, st.Block)
		case "revert":
			if len(s.chain) < 2 {
				continue
			}
			v = s.revert(where, st.Expected)
		case "restart":
			d := st.D
			if d > len(s.chain)-1 {
				d = len(s.chain) - 1
			}
			d = s.clampRecovery(d)
			v = s.restart(where, d)
		case "finalize":
			v = s.finalize(where, st.Back)
		}
		if v != nil {
			return i, v
		}
	}
	return 0, nil
}

// C16_ASSUME_FIXED=1 makes the check ignore /verif/known_findings/C16.json (every listed defect counts as a violation and
// nothing is avoided or followed); used for sensitivity runs against a tree that carries the proposed fixes.
func assumeFixed() bool { return os.Getenv("C16_ASSUME_FIXED") != "" }

func isKnown(sig string) bool { return !assumeFixed() && evid.R.IsKnown(sig) }

func knownFinding(sig string) bool { return !assumeFixed() && evid.R.KnownFinding(sig) }
