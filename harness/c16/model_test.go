package c16

import (
	"fmt"
	"sort"

	"github.com/LiskHQ/lisk-engine/pkg/blockchain"
)

// ---------------------------------------------------------------------------------------------------------------------
// Model: the state is one map (full key -> value) shared by all handles; Snapshot copies it, RestoreSnapshot puts the
// copy back for everybody. A failing command leaves the map as it was before the command and keeps only its
// unrevertible events; hooks run outside the command's snapshot.

type mstate map[string][]byte

func (m mstate) clone() mstate {
	c := make(mstate, len(m))
	for k, v := range m {
		c[k] = v
	}
	return c
}

func (m mstate) equal(o mstate) bool {
	if len(m) != len(o) {
		return false
	}
	for k, v := range m {
		w, ok := o[k]
		if !ok || string(v) != string(w) {
			return false
		}
	}
	return true
}

func (m mstate) hex() map[string]string {
	out := map[string]string{}
	for k, v := range m {
		out[fmt.Sprintf("%x", k)] = fmt.Sprintf("%x", v)
	}
	return out
}

func (m mstate) String() string {
	keys := make([]string, 0, len(m))
	for k := range m {
		keys = append(keys, k)
	}
	sort.Strings(keys)
	s := "{"
	for _, k := range keys {
		s += fmt.Sprintf("%x=%x ", k, m[k])
	}
	return s + "}"
}

type mevent struct {
	Module string
	Name   string
	Data   string // hex
	rev    bool
}

func (e mevent) String() string { return e.Module + "/" + e.Name + "/" + e.Data }

// opStats classifies what a program did (for the non-trivial rule and labels).
type opStats struct {
	setNew, overwrite, delExisting, rev, unrev, restores, retainedAfterRestore, storeRestores int
}

type mrun struct {
	st     mstate
	events []mevent
	gets   []obs
	probes []probe
	// scans inside programs (scan_test.go)
	scans          []scanObs       // expected results of the Iterate/Range calls
	base           mstate          // state persisted before the block (nil: nothing persisted / not tracked); labels only
	inv            mstate          // state at the start of the running program; labels only
	cmdFail        bool            // the running program is a command that is going to fail; labels only
	sc             scanCounters    // classification of the scans run on this model (labels only)
	scannedDeleted map[string]bool // persisted keys that lay, staged for deletion, in the interval of a scan run by a hook or a succeeding command
}

// runOps applies a program to r.st, appending events / expected observations. Returns stats.
func (r *mrun) runOps(ops []Op, mod, where string) opStats {
	var s opStats
	var stack []mstate
	sstack := map[int][]mstate{}
	retainedSeen := map[int]bool{} // stores whose retained handle exists
	stale := map[int]bool{}        // ... and was obtained before the latest restore
	markStale := func() {
		for st := range retainedSeen {
			stale[st] = true
		}
	}
	r.inv = r.st.clone()
	restored := false
	for _, op := range ops {
		if op.H == 1 && isStoreOp(op.K) {
			if stale[op.S] {
				s.retainedAfterRestore++
			}
			retainedSeen[op.S] = true
		}
		switch op.K {
		case "set":
			k := fullKey(op.S, op.Key)
			if old, ok := r.st[k]; !ok {
				s.setNew++
			} else if string(old) != string(valUniverse[op.Val]) {
				s.overwrite++
			}
			r.st[k] = valUniverse[op.Val]
		case "del":
			k := fullKey(op.S, op.Key)
			if _, ok := r.st[k]; ok {
				s.delExisting++
			}
			delete(r.st, k)
		case "get":
			v, ok := r.st[fullKey(op.S, op.Key)]
			r.gets = append(r.gets, obs{Where: where, Op: "get", S: op.S, Key: op.Key, Exist: ok, Val: fmt.Sprintf("%x", v)})
		case "has":
			_, ok := r.st[fullKey(op.S, op.Key)]
			r.gets = append(r.gets, obs{Where: where, Op: "has", S: op.S, Key: op.Key, Exist: ok})
		case "iter", "range":
			r.scanOp(op, where, restored)
		case "ev":
			s.rev++
			r.events = append(r.events, mevent{Module: mod, Name: evName(true, op.Tag), Data: fmt.Sprintf("%02x", op.Tag), rev: true})
		case "uev":
			s.unrev++
			r.events = append(r.events, mevent{Module: mod, Name: evName(false, op.Tag), Data: fmt.Sprintf("%02x", op.Tag)})
		case "snap":
			stack = append(stack, r.st.clone())
		case "rest":
			r.st = stack[op.N]
			stack = stack[:op.N]
			s.restores++
			restored = true
			markStale()
		case "ssnap":
			retainedSeen[op.S] = true
			sstack[op.S] = append(sstack[op.S], r.st.clone())
		case "srest":
			r.st = sstack[op.S][op.N]
			sstack[op.S] = sstack[op.S][:op.N]
			s.storeRestores++
			restored = true
			markStale()
			retainedSeen[op.S] = true
		}
	}
	return s
}

func (r *mrun) probe(where string) {
	r.probes = append(r.probes, probe{Where: where, State: r.st.hex()})
}

type txOutcome struct {
	events     []mevent // expected events of the response (correct behaviour)
	eventsKept []mevent // what the response contains if revertible events of a failing command are kept (deviation S12)
	result     int32
	cmd        opStats
	fail       bool
}

// runTx runs one transaction on r.st (r.events is reset).
func (r *mrun) runTx(module int, ts *TxScript) txOutcome {
	r.events = nil
	for i := 0; i < 2; i++ {
		r.runOps(ts.Pre[i], modNames[i], "before-cmd/"+modNames[i])
	}
	before := r.st.clone()
	nPre := len(r.events)
	r.cmdFail = ts.Fail
	stats := r.runOps(ts.Cmd, modNames[module], "cmd/"+modNames[module])
	r.cmdFail = false
	var kept []mevent
	if ts.Fail {
		r.st = before
		all := r.events
		kept = append([]mevent{}, all...)
		r.events = append([]mevent{}, all[:nPre]...)
		for _, e := range all[nPre:] {
			if !e.rev {
				r.events = append(r.events, e)
			}
		}
	}
	for i := 0; i < 2; i++ {
		pre := len(r.events)
		r.runOps(ts.Post[i], modNames[i], "after-cmd/"+modNames[i])
		if ts.Fail {
			kept = append(kept, r.events[pre:]...)
		}
	}
	if ts.Probe {
		r.probe("after-cmd/" + modNames[1])
	}
	std := mevent{Module: modNames[module], Name: blockchain.EventNameDefault, Data: fmt.Sprintf("%x", blockchain.NewStandardTransactionEventData(!ts.Fail))}
	r.events = append(r.events, std)
	out := txOutcome{events: r.events, result: 1, cmd: stats, fail: ts.Fail}
	if ts.Fail {
		out.result = 0
		out.eventsKept = append(kept, std)
	}
	return out
}

func (r *mrun) runBlockHook(bs [2]*BlockScript, after bool) {
	r.events = nil
	for i := 0; i < 2; i++ {
		if after {
			r.runOps(bs[i].After, modNames[i], "after-txs/"+modNames[i])
		} else {
			r.runOps(bs[i].Before, modNames[i], "before-txs/"+modNames[i])
		}
	}
	if bs[1].Probe {
		if after {
			r.probe("after-txs/" + modNames[1])
		} else {
			r.probe("before-txs/" + modNames[1])
		}
	}
}

// treeMap maps a state to the sparse-Merkle key/value pairs as LIP-0040 / state_batch.go derive them:
// tree key = 6-byte store prefix ‖ SHA256(store key), tree value = SHA256(value).
func treeMap(st mstate) map[string][]byte {
	out := make(map[string][]byte, len(st))
	for k, v := range st {
		out[treeKey(k)] = sha(v)
	}
	return out
}

func treeKey(full string) string { return full[:6] + string(sha([]byte(full[6:]))) }

func stateRoot(st mstate) []byte { return refRoot(treeMap(st)) }

// tombRoot is the root the tree has if removed keys stay in it as leaves with value SHA256("") (deviation S13).
func tombRoot(st mstate, tomb map[string]bool) []byte {
	m := treeMap(st)
	for tk := range tomb {
		if _, live := m[tk]; !live {
			m[tk] = refEmpty
		}
	}
	return refRoot(m)
}

// nextTomb: keys of `before` that are absent in `after` become tombstones; tombstones set again disappear.
func nextTomb(tomb map[string]bool, before, after mstate) map[string]bool {
	out := map[string]bool{}
	for tk := range tomb {
		out[tk] = true
	}
	for k := range before {
		out[treeKey(k)] = true
	}
	for k := range after {
		delete(out, treeKey(k))
	}
	return out
}
