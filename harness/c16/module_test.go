package c16

import (
	"encoding/json"
	"errors"
	"fmt"

	"github.com/LiskHQ/lisk-engine/pkg/blockchain"
	"github.com/LiskHQ/lisk-engine/pkg/codec"
	"github.com/LiskHQ/lisk-engine/pkg/framework/blueprint"
	"github.com/LiskHQ/lisk-engine/pkg/statemachine"
)

// ---------------------------------------------------------------------------------------------------------------------
// Scripts: what the scripted test module does in a command or a hook.

// Op is one step of a program run by the scripted module.
//
//	set/del/get/has  store S (index into storePrefixes), key index Key, value index Val, through a fresh handle (H=0:
//	                 ctx.GetStore for this op) or the handle retained since its first use in this invocation (H=1)
//	ev/uev           EventQueue().Add / AddUnrevertible with tag Tag and Top extra topics
//	snap             ctx.Snapshot(), id pushed on the invocation's stack
//	rest             ctx.RestoreSnapshot(stack[N]); stack cut to N entries
//	ssnap/srest      Snapshot()/RestoreSnapshot() on the retained handle of store S (own stack per store)
//	iter             Iterate(scanBounds[P], limit, Rev) on store S through handle H (scan_test.go); Lim 0 = no limit (-1)
//	range            Range(scanBounds[A], scanBounds[B], limit, Rev) on store S through handle H
type Op struct {
	K   string `json:"k"`
	S   int    `json:"s,omitempty"`
	H   int    `json:"h,omitempty"`
	Key int    `json:"key,omitempty"`
	Val int    `json:"val,omitempty"`
	Tag int    `json:"tag,omitempty"`
	Top int    `json:"top,omitempty"`
	N   int    `json:"n,omitempty"`
	P   int    `json:"p,omitempty"`
	A   int    `json:"a,omitempty"`
	B   int    `json:"b,omitempty"`
	Lim int    `json:"lim,omitempty"`
	Rev bool   `json:"rev,omitempty"`
}

// TxScript is carried in Transaction.Params (JSON).
type TxScript struct {
	Cmd   []Op    `json:"cmd"`
	Fail  bool    `json:"fail,omitempty"`
	Pre   [2][]Op `json:"pre"`  // BeforeCommandExecute of module 0 / 1
	Post  [2][]Op `json:"post"` // AfterCommandExecute of module 0 / 1
	Probe bool    `json:"probe,omitempty"`
}

// BlockScript is carried in the block asset of each module (JSON).
type BlockScript struct {
	Before []Op `json:"before"`
	After  []Op `json:"after"`
	Probe  bool `json:"probe,omitempty"`
}

var modNames = [2]string{"alpha", "beta"}

// 6-byte store prefixes (4 bytes module + 2 bytes substore, the size framework/state_batch.go assumes)
var storePrefixes = [2][2][]byte{
	{{0x00, 0x00, 0x00, 0x01}, {0x00, 0x00}},
	{{0x00, 0x00, 0x00, 0x02}, {0x80, 0x00}},
}

var keyUniverse = [][]byte{
	{},
	[]byte("a"),
	[]byte("ab"),
	[]byte("b"),
	[]byte("0123456789abcdef0123456789abcdef"),
}

var valUniverse = [][]byte{
	{},
	[]byte("x"),
	[]byte("y"),
	[]byte("zz"),
	[]byte("a-longer-value-0123456789-0123456789-0123456789"),
	{0x00},
}

func fullKey(s, key int) string {
	return string(storePrefixes[s][0]) + string(storePrefixes[s][1]) + string(keyUniverse[key])
}

func evName(rev bool, tag int) string {
	if rev {
		return fmt.Sprintf("r%d", tag)
	}
	return fmt.Sprintf("u%d", tag)
}

// ---------------------------------------------------------------------------------------------------------------------
// What the module saw (compared with the model by the harness).

type obs struct {
	Where string `json:"where"`
	Op    string `json:"op"`
	S     int    `json:"s"`
	Key   int    `json:"key"`
	Exist bool   `json:"exist"`
	Val   string `json:"val"` // hex
}

type probe struct {
	Where string            `json:"where"`
	State map[string]string `json:"state"` // hex(fullkey) -> hex(value) of the keys found
}

type recorder struct {
	gets   []obs
	probes []probe
	scans  []scanObs // what Iterate/Range returned (scan_test.go)
	errs   []string
}

func (r *recorder) reset() { r.gets, r.probes, r.scans, r.errs = nil, nil, nil, nil }

// changeCtx is what every state-changing context of the state machine offers a module.
type changeCtx interface {
	GetStore(storePrefix, substorePrefix []byte) statemachine.Store
	EventQueue() statemachine.EventAdder
	Snapshot() int
	RestoreSnapshot(id int) error
}

type env struct {
	mod      *scriptMod
	ctx      changeCtx
	where    string
	retained map[int]statemachine.Store
	stack    []int
	sstack   map[int][]int
}

func (m *scriptMod) newEnv(ctx changeCtx, where string) *env {
	return &env{mod: m, ctx: ctx, where: where, retained: map[int]statemachine.Store{}, sstack: map[int][]int{}}
}

func (e *env) store(s, h int) statemachine.Store {
	if h == 0 {
		return e.ctx.GetStore(storePrefixes[s][0], storePrefixes[s][1])
	}
	if st, ok := e.retained[s]; ok {
		return st
	}
	st := e.ctx.GetStore(storePrefixes[s][0], storePrefixes[s][1])
	e.retained[s] = st
	return st
}

func (e *env) fail(format string, a ...any) {
	e.mod.rec.errs = append(e.mod.rec.errs, e.where+": "+fmt.Sprintf(format, a...))
}

func (e *env) run(ops []Op) {
	rec := e.mod.rec
	for i, op := range ops {
		switch op.K {
		case "set":
			e.store(op.S, op.H).Set(append([]byte{}, keyUniverse[op.Key]...), append([]byte{}, valUniverse[op.Val]...))
		case "del":
			e.store(op.S, op.H).Del(append([]byte{}, keyUniverse[op.Key]...))
		case "get":
			v, ok := e.store(op.S, op.H).Get(keyUniverse[op.Key])
			rec.gets = append(rec.gets, obs{Where: e.where, Op: "get", S: op.S, Key: op.Key, Exist: ok, Val: fmt.Sprintf("%x", v)})
		case "has":
			ok := e.store(op.S, op.H).Has(keyUniverse[op.Key])
			rec.gets = append(rec.gets, obs{Where: e.where, Op: "has", S: op.S, Key: op.Key, Exist: ok})
		case "iter", "range":
			e.scanOp(op)
		case "ev", "uev":
			topics := []codec.Hex{}
			for j := 0; j < op.Top; j++ {
				topics = append(topics, codec.Hex{byte(op.Tag), byte(j)})
			}
			var err error
			if op.K == "ev" {
				err = e.ctx.EventQueue().Add(e.mod.name, evName(true, op.Tag), []byte{byte(op.Tag)}, topics)
			} else {
				err = e.ctx.EventQueue().AddUnrevertible(e.mod.name, evName(false, op.Tag), []byte{byte(op.Tag)}, topics)
			}
			if err != nil {
				e.fail("op %d %s: %v", i, op.K, err)
			}
		case "snap":
			e.stack = append(e.stack, e.ctx.Snapshot())
		case "rest":
			if op.N >= len(e.stack) {
				e.fail("op %d rest: bad slot %d (script error)", i, op.N)
				continue
			}
			if err := e.ctx.RestoreSnapshot(e.stack[op.N]); err != nil {
				e.fail("op %d rest: %v", i, err)
			}
			e.stack = e.stack[:op.N]
		case "ssnap":
			e.sstack[op.S] = append(e.sstack[op.S], e.store(op.S, 1).Snapshot())
		case "srest":
			st := e.sstack[op.S]
			if op.N >= len(st) {
				e.fail("op %d srest: bad slot %d (script error)", i, op.N)
				continue
			}
			if err := e.store(op.S, 1).RestoreSnapshot(st[op.N]); err != nil {
				e.fail("op %d srest: %v", i, err)
			}
			e.sstack[op.S] = st[:op.N]
		default:
			e.fail("op %d: unknown kind %q (script error)", i, op.K)
		}
	}
}

// probeAll reads every key of the universe through fresh handles.
func (e *env) probeAll() {
	p := probe{Where: e.where, State: map[string]string{}}
	for s := range storePrefixes {
		st := e.ctx.GetStore(storePrefixes[s][0], storePrefixes[s][1])
		for k := range keyUniverse {
			if v, ok := st.Get(keyUniverse[k]); ok {
				p.State[fmt.Sprintf("%x", fullKey(s, k))] = fmt.Sprintf("%x", v)
			}
		}
	}
	e.mod.rec.probes = append(e.mod.rec.probes, p)
}

// ---------------------------------------------------------------------------------------------------------------------
// The module.

type scriptMod struct {
	blueprint.Module
	idx  int
	name string
	rec  *recorder
}

type genesisScript struct {
	Init []Op `json:"init"`
	Fin  []Op `json:"fin"`
}

func (m *scriptMod) Name() string { return m.name }

func (m *scriptMod) GetCommand(name string) (statemachine.Command, bool) {
	if name != "run" {
		return nil, false
	}
	return &scriptCmd{mod: m}, true
}

func (m *scriptMod) blockScript(assets blockchain.ReadableBlockAssets, where string) *BlockScript {
	data, ok := assets.GetAsset(m.name)
	if !ok {
		return &BlockScript{}
	}
	bs := &BlockScript{}
	if err := json.Unmarshal(data, bs); err != nil {
		m.rec.errs = append(m.rec.errs, where+": bad block script: "+err.Error())
	}
	return bs
}

func (m *scriptMod) txScript(params []byte, where string) *TxScript {
	ts := &TxScript{}
	if err := json.Unmarshal(params, ts); err != nil {
		m.rec.errs = append(m.rec.errs, where+": bad tx script: "+err.Error())
	}
	return ts
}

func (m *scriptMod) InitGenesisState(ctx *statemachine.GenesisBlockProcessingContext) error {
	where := "genesis-init/" + m.name
	data, ok := ctx.BlockAssets().GetAsset(m.name)
	if !ok {
		return nil
	}
	gs := &genesisScript{}
	if err := json.Unmarshal(data, gs); err != nil {
		return err
	}
	m.newEnv(ctx, where).run(gs.Init)
	return nil
}

func (m *scriptMod) FinalizeGenesisState(ctx *statemachine.GenesisBlockProcessingContext) error {
	where := "genesis-fin/" + m.name
	data, ok := ctx.BlockAssets().GetAsset(m.name)
	if !ok {
		return nil
	}
	gs := &genesisScript{}
	if err := json.Unmarshal(data, gs); err != nil {
		return err
	}
	m.newEnv(ctx, where).run(gs.Fin)
	return nil
}

func (m *scriptMod) BeforeTransactionsExecute(ctx *statemachine.BeforeTransactionsExecuteContext) error {
	where := "before-txs/" + m.name
	bs := m.blockScript(ctx.BlockAssets(), where)
	e := m.newEnv(ctx, where)
	e.run(bs.Before)
	if bs.Probe && m.idx == 1 {
		e.probeAll()
	}
	return nil
}

func (m *scriptMod) AfterTransactionsExecute(ctx *statemachine.AfterTransactionsExecuteContext) error {
	where := "after-txs/" + m.name
	bs := m.blockScript(ctx.BlockAssets(), where)
	e := m.newEnv(ctx, where)
	e.run(bs.After)
	if bs.Probe && m.idx == 1 {
		e.probeAll()
	}
	return nil
}

func (m *scriptMod) BeforeCommandExecute(ctx *statemachine.TransactionExecuteContext) error {
	where := "before-cmd/" + m.name
	ts := m.txScript(ctx.Transaction().Params(), where)
	m.newEnv(ctx, where).run(ts.Pre[m.idx])
	return nil
}

func (m *scriptMod) AfterCommandExecute(ctx *statemachine.TransactionExecuteContext) error {
	where := "after-cmd/" + m.name
	ts := m.txScript(ctx.Transaction().Params(), where)
	e := m.newEnv(ctx, where)
	e.run(ts.Post[m.idx])
	if ts.Probe && m.idx == 1 {
		e.probeAll()
	}
	return nil
}

type scriptCmd struct {
	blueprint.Command
	mod *scriptMod
}

func (c *scriptCmd) ID() uint32   { return 1 }
func (c *scriptCmd) Name() string { return "run" }

var errScripted = errors.New("scripted command failure")

func (c *scriptCmd) Execute(ctx *statemachine.TransactionExecuteContext) error {
	where := "cmd/" + c.mod.name
	ts := c.mod.txScript(ctx.Transaction().Params(), where)
	c.mod.newEnv(ctx, where).run(ts.Cmd)
	if ts.Fail {
		return errScripted
	}
	return nil
}
