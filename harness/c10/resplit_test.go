// Soundness of smt.Verify against FIELD RE-SPLITTING AND LENGTH forgeries (property C10: "no proof verifies for a claim
// that disagrees with the map").
//
// Nothing in a proof is length-prefixed when it is hashed: a leaf hash is H(0x00 || key || value), a branch hash is
// H(0x01 || left || right). The only thing that fixes the boundary between key and value is Verify's demand that every
// proof key has exactly keyLength bytes. The forgeries of this file start from an honest single- or multi-query proof
// (model answers + assembleSiblings, as in forged_test.go) and change only LENGTHS / FIELD BOUNDARIES of one query (or
// of all of them), while the query keys - the keys the verifier asks about - keep the correct length:
//
//   - resplit key+n:  n leading value bytes are moved to the end of the key   (key longer, value shorter, down to empty)
//   - resplit key-n:  n trailing key bytes are moved to the front of the value (key shorter, down to empty, value longer)
//     (both keep key||value, hence the leaf hash, hence - with the same bitmap and sibling hashes - the real root; the proof
//     key no longer equals the query key, so the query now reads "query key is absent, another leaf sits on its path")
//   - key with extra trailing / leading bytes (zero, ff, junk, value bytes, the key itself: keyLength+1/+8/2x), key with
//     the tail / head cut off (keyLength-1/-8/0); for empty nodes the hash does not depend on the key at all
//   - value alone shorter / longer (key untouched)
//   - bitmap with leading zero bytes / trailing bytes / 00 instead of the empty bitmap
//   - sibling hashes of 31 / 33 / 0 / 64 bytes
//
// Oracle (unchanged): Verify(queryKeys, proof, real root, real key length) == true  =>  every claim the proof certifies
// (query key present with value / query key absent) agrees with the reference map, and w.claims (model/smt.ClaimsHold
// for every query) holds. true together with an error is a failure; a panic counts as "not verified" (noted).
//
// Classification only (never asserted): preCheck mirrors Verify's input checks ("reached CalculateRoot"), and
// hashesToRoot recomputes, per query, the root from the forged (key, value, bitmap) and the honest per-level sibling
// hashes: a forged set whose every query still hashes to the real root can ONLY be rejected by field validation.
package c10

import (
	"bytes"
	"fmt"
	"strconv"
	"strings"
	"testing"

	"pgregory.net/rapid"

	"verifharness/evid"
	msmt "verifharness/model/smt"
)

// lenVariant is one length / boundary forgery of the query at position pos of w (src = the honest query it stems from).
type lenVariant struct {
	class  string
	name   string
	sib    bool // touches the sibling-hash list (not a query)
	ctl    bool // also run with the query key following the forged proof key (control: dies at the query-key length check)
	follow bool // the query key always follows the forged proof key (same-length ghost keys: an inclusion claim)
	apply  func(c *forgeCtx, w *wire, pos int, src *fq) bool
}

func uniqInts(in ...int) []int {
	var out []int
	seen := map[int]bool{}
	for _, x := range in {
		if !seen[x] {
			seen[x] = true
			out = append(out, x)
		}
	}
	return out
}

func cat(parts ...[]byte) []byte {
	var out []byte
	for _, p := range parts {
		out = append(out, p...)
	}
	if out == nil {
		out = []byte{}
	}
	return out
}

func fillBytes(b byte, n int) []byte { return bytes.Repeat([]byte{b}, n) }

// resplitLonger / resplitShorter: the two boundary moves. n > len(value) resp. n > len(key): not applicable.
func resplitLonger(q *tq, n int) bool {
	if n < 1 || len(q.Value) < n {
		return false
	}
	q.Key, q.Value = cat(q.Key, q.Value[:n]), cat(q.Value[n:])
	return true
}

func resplitShorter(q *tq, n int) bool {
	if n < 1 || len(q.Key) < n {
		return false
	}
	cut := len(q.Key) - n
	q.Key, q.Value = cat(q.Key[:cut]), cat(q.Key[cut:], q.Value)
	return true
}

// lenVariants: the fixed list for key length L; extraN = further (drawn) byte counts for the two boundary moves.
func lenVariants(L int, extraN []int) []lenVariant {
	var vs []lenVariant
	add := func(class, name string, ctl bool, f func(c *forgeCtx, w *wire, pos int, src *fq) bool) {
		vs = append(vs, lenVariant{class: class, name: name, ctl: ctl, apply: f})
	}
	nName := func(n, whole int) string {
		switch {
		case n == whole:
			return "all"
		case n == whole-1 && n > 8:
			return "all-but-1"
		case n > 8 && n != 16:
			return "9.."
		}
		return strconv.Itoa(n)
	}
	for _, n := range uniqInts(append([]int{1, 2, 3, 8, 16, 31, 32}, extraN...)...) {
		n := n
		add("resplit:key-longer(value bytes moved to the end of the key)", "resplit:key+"+nName(n, 32)+"(value-"+nName(n, 32)+")", n == 1,
			func(c *forgeCtx, w *wire, pos int, src *fq) bool { return resplitLonger(&w.Q[pos], n) })
	}
	for _, n := range uniqInts(append([]int{1, 2, 8, L - 1, L}, extraN...)...) {
		n := n
		if n < 1 || n > L {
			continue
		}
		add("resplit:key-shorter(key bytes moved to the front of the value)", "resplit:key-"+nName(n, L)+"(value+"+nName(n, L)+")", n == 1,
			func(c *forgeCtx, w *wire, pos int, src *fq) bool { return resplitShorter(&w.Q[pos], n) })
	}
	// extra bytes behind / in front of the key, value untouched
	type fill struct {
		n    int
		kind string
	}
	mk := func(c *forgeCtx, f fill, q *tq) []byte {
		switch f.kind {
		case "zero":
			return fillBytes(0, f.n)
		case "ff":
			return fillBytes(0xff, f.n)
		case "value-bytes(copied)":
			if len(q.Value) == 0 {
				return nil
			}
			var o []byte
			for len(o) < f.n {
				o = append(o, q.Value...)
			}
			return o[:f.n]
		case "key-bytes(repeated)":
			if len(q.Key) == 0 {
				return nil
			}
			var o []byte
			for len(o) < f.n {
				o = append(o, q.Key...)
			}
			return o[:f.n]
		}
		return expand(c.seed, "len-junk", c.n, f.n)
	}
	for _, f := range []fill{{1, "zero"}, {1, "junk"}, {1, "value-bytes(copied)"}, {1, "ff"}, {8, "junk"}, {8, "zero"}, {L, "junk"}, {L, "key-bytes(repeated)"}} {
		f := f
		add("key:trailing-extra-bytes", fmt.Sprintf("key:trailing+%s(%s)", nName(f.n, L), f.kind), f.n == 1 && f.kind == "zero",
			func(c *forgeCtx, w *wire, pos int, src *fq) bool {
				x := mk(c, f, &w.Q[pos])
				if x == nil {
					return false
				}
				w.Q[pos].Key = cat(w.Q[pos].Key, x)
				return true
			})
	}
	for _, f := range []fill{{1, "zero"}, {1, "junk"}, {1, "key-bytes(repeated)"}, {8, "junk"}, {8, "key-bytes(repeated)"}, {L, "zero"}} {
		f := f
		add("key:leading-extra-bytes", fmt.Sprintf("key:leading+%s(%s)", nName(f.n, L), f.kind), false,
			func(c *forgeCtx, w *wire, pos int, src *fq) bool {
				x := mk(c, f, &w.Q[pos])
				if x == nil {
					return false
				}
				w.Q[pos].Key = cat(x, w.Q[pos].Key)
				return true
			})
	}
	for _, n := range uniqInts(1, 8, L) {
		n := n
		if n > L {
			continue
		}
		add("key:truncated", "key:tail-"+nName(n, L)+"-cut-off", false, func(c *forgeCtx, w *wire, pos int, src *fq) bool {
			w.Q[pos].Key = cat(w.Q[pos].Key[:len(w.Q[pos].Key)-n])
			return true
		})
	}
	add("key:truncated", "key:head-1-cut-off", false, func(c *forgeCtx, w *wire, pos int, src *fq) bool {
		w.Q[pos].Key = cat(w.Q[pos].Key[1:])
		return true
	})
	// same lengths, same path, same value, another key: the ghost key differs from the honest proof key only in bits below
	// the node (last bit / first bit below the node / all bits below it); the query key follows, so the query claims
	// INCLUSION of the ghost key with the honest leaf's value. Meant for the sets that also hold the honest copy of the
	// target: both queries end in the same node with the same value and must still be told apart (by node hash).
	for _, how := range []string{"last-bit", "first-bit-below-the-node", "all-bits-below-the-node"} {
		how := how
		vs = append(vs, lenVariant{class: "key:other-key-on-the-same-path(lengths and value kept)", name: "key:ghost-on-the-same-path(" + how + " flipped, query key follows)", follow: true,
			apply: func(c *forgeCtx, w *wire, pos int, src *fq) bool {
				h := src.h()
				if h >= 8*c.L {
					return false
				}
				k := cp(w.Q[pos].Key)
				switch how {
				case "last-bit":
					flipBit(k, 8*c.L-1)
				case "first-bit-below-the-node":
					flipBit(k, h)
				default:
					for i := h; i < 8*c.L; i++ {
						flipBit(k, i)
					}
				}
				w.Q[pos].Key = k
				return true
			}})
	}
	// value alone
	add("value-length(key untouched)", "value:head-1-cut-off", false, func(c *forgeCtx, w *wire, pos int, src *fq) bool {
		if len(w.Q[pos].Value) == 0 {
			return false
		}
		w.Q[pos].Value = cat(w.Q[pos].Value[1:])
		return true
	})
	add("value-length(key untouched)", "value:tail-1-cut-off", false, func(c *forgeCtx, w *wire, pos int, src *fq) bool {
		if len(w.Q[pos].Value) == 0 {
			return false
		}
		w.Q[pos].Value = cat(w.Q[pos].Value[:len(w.Q[pos].Value)-1])
		return true
	})
	add("value-length(key untouched)", "value:trailing+1(zero)", false, func(c *forgeCtx, w *wire, pos int, src *fq) bool {
		w.Q[pos].Value = cat(w.Q[pos].Value, []byte{0})
		return true
	})
	add("value-length(key untouched)", "value:leading+1(zero)", false, func(c *forgeCtx, w *wire, pos int, src *fq) bool {
		w.Q[pos].Value = cat([]byte{0}, w.Q[pos].Value)
		return true
	})
	// bitmap length
	for _, n := range []int{1, 2} {
		n := n
		add("bitmap-length", fmt.Sprintf("bitmap:leading-zero-bytes+%d", n), false, func(c *forgeCtx, w *wire, pos int, src *fq) bool {
			w.Q[pos].Bitmap = cat(fillBytes(0, n), w.Q[pos].Bitmap)
			return true
		})
	}
	for _, b := range []byte{0x00, 0xff} {
		b := b
		add("bitmap-length", fmt.Sprintf("bitmap:trailing-byte+1(%02x)", b), false, func(c *forgeCtx, w *wire, pos int, src *fq) bool {
			if len(w.Q[pos].Bitmap) == 0 {
				return false // 00 alone is the leading-zero variant; ff alone is a plain other bitmap (tampering kind bitmap-bit)
			}
			w.Q[pos].Bitmap = cat(w.Q[pos].Bitmap, []byte{b})
			return true
		})
	}
	// sibling-hash length
	for _, where := range []string{"first", "last"} {
		for _, op := range []string{"31(head cut off)", "31(tail cut off)", "33(zero appended)", "33(zero in front)", "0(empty)", "64(doubled)"} {
			where, op := where, op
			vs = append(vs, lenVariant{class: "sibling-hash-length", name: "sibling[" + where + "]:" + op, sib: true,
				apply: func(c *forgeCtx, w *wire, pos int, src *fq) bool {
					if len(w.Sib) == 0 {
						return false
					}
					i := 0
					if where == "last" {
						i = len(w.Sib) - 1
					}
					s := w.Sib[i]
					switch op[:2] {
					case "31":
						if strings.Contains(op, "head") {
							s = cat(s[1:])
						} else {
							s = cat(s[:len(s)-1])
						}
					case "33":
						if strings.Contains(op, "front") {
							s = cat([]byte{0}, s)
						} else {
							s = cat(s, []byte{0})
						}
					case "0(":
						s = []byte{}
					default:
						s = cat(s, s)
					}
					w.Sib[i] = s
					return true
				}})
		}
	}
	return vs
}

// unpackBitmap: the significant bits of a packed bitmap, deepest level first (the order of fq.Bm).
func unpackBitmap(bm []byte) []bool {
	h := bitmapHeight(bm)
	out := make([]bool, h)
	total := 8 * len(bm)
	for i := 0; i < h; i++ {
		bit := total - h + i
		out[i] = bm[bit/8]&(0x80>>uint(bit%8)) != 0
	}
	return out
}

// climbsToRoot: does this single query, with the per-level sibling hashes of the honest query it stems from, hash to root?
func climbsToRoot(q tq, src *fq, root []byte) bool {
	bm := unpackBitmap(q.Bitmap)
	h := len(bm)
	if h != src.h() || 8*len(q.Key) < h {
		return false
	}
	cur := msmt.EmptyHash()
	if len(q.Value) > 0 {
		cur = msmt.LeafHash(q.Key, q.Value)
	}
	for i := 0; i < h; i++ {
		s := msmt.EmptyHash()
		if bm[i] {
			s = src.Sib[i]
		}
		if msmt.Bit(q.Key, h-1-i) {
			cur = msmt.BranchHash(s, cur)
		} else {
			cur = msmt.BranchHash(cur, s)
		}
	}
	return bytes.Equal(cur, root)
}

// semanticClaims: what the proof certifies about the QUERIED keys only; "" = all of it agrees with the map.
func semanticClaims(kv map[string][]byte, w *wire) string {
	for i, qk := range w.Keys {
		if i >= len(w.Q) {
			break
		}
		q := w.Q[i]
		switch {
		case !bytes.Equal(qk, q.Key):
			if msmt.Present(kv, qk) {
				return fmt.Sprintf("query %d certifies ABSENCE of the queried key %x (proof key %x, %d bytes, is another key) but the map holds %x -> %x",
					i, qk, q.Key, len(q.Key), qk, kv[string(qk)])
			}
		case len(q.Value) == 0:
			if msmt.Present(kv, qk) {
				return fmt.Sprintf("query %d certifies ABSENCE of the queried key %x (empty node) but the map holds %x -> %x", i, qk, qk, kv[string(qk)])
			}
		default:
			if !bytes.Equal(kv[string(qk)], q.Value) {
				return fmt.Sprintf("query %d certifies %x -> %x but the map holds %x -> %x", i, qk, q.Value, qk, kv[string(qk)])
			}
		}
	}
	return ""
}

func relLen(n, L int) string {
	switch {
	case n == L:
		return "L"
	case n == 0:
		return "0"
	case n == 2*L:
		return "2L"
	case n == L+1, n == L-1, n == L+8, n == L-8, n == L+2, n == L-2:
		return fmt.Sprintf("L%+d", n-L)
	case n > L:
		return "L+other"
	}
	return "L-other"
}

func targetKind(q *fq) string {
	switch {
	case len(q.Value) == 0:
		return "absence(empty node)"
	case bytes.Equal(q.QK, q.Key):
		return "inclusion"
	}
	return "absence(other leaf on the path)"
}

// lenStats: per-test totals for the generator health note.
type lenStats struct {
	total, falseSets, reached, falseReached, falseRooted, accepted int
}

// lenSet is one honest query set with its assembled proof (built once, cloned per forgery).
type lenSet struct {
	name string
	qs   []*fq
	tpos int
	w    *wire
}

func (c *forgeCtx) newLenSet(name string, idx []int, tpos int) *lenSet {
	s := &lenSet{name: name, tpos: tpos}
	for _, i := range idx {
		s.qs = append(s.qs, c.cands[i])
	}
	s.w = &wire{Root: cp(c.root), L: c.L}
	for _, q := range s.qs {
		s.w.Keys = append(s.w.Keys, cp(q.QK))
		s.w.Q = append(s.w.Q, tq{cp(q.Key), cp(q.Value), packBitmap(q.Bm)})
	}
	for _, h := range assembleSiblings(s.qs).sib {
		s.w.Sib = append(s.w.Sib, cp(h))
	}
	// control: the honest set must verify, else the forgeries built on it prove nothing
	fg := &forgery{form: "honest control of a length-forgery set", side: name}
	// (FATAL, and compared with Prove's output for the same keys: see honestControl in forged_test.go)
	c.honestControl(s.w, fg, "honest set of a length forgery")
	evid.R.Label(c.tag+"-control:honest query set verifies", 1)
	return s
}

// lenCase applies one variant (with one modifier) to a copy of the set's proof, verifies it and applies the oracle.
// mod: "" | "querykey-follows-proofkey" | "every-query" | "plus-wrong-value-on-target"
func (c *forgeCtx) lenCase(s *lenSet, v *lenVariant, mod string, st *lenStats) {
	c.n++
	w := s.w.clone()
	if mod == "plus-wrong-value-on-target" {
		w.Q[s.tpos].Value = c.forgedValue(c.n)
	}
	applied := 0
	if mod == "every-query" && !v.sib {
		for pos := range w.Q {
			if v.apply(c, w, pos, s.qs[pos]) {
				applied++
			}
		}
	} else if v.apply(c, w, s.tpos, s.qs[s.tpos]) {
		applied++
	}
	if applied == 0 {
		evid.R.Label(c.tag+":variant-not-applicable-to-target(skipped)", 1)
		return
	}
	if mod == "querykey-follows-proofkey" || v.follow {
		w.Keys[s.tpos] = cp(w.Q[s.tpos].Key)
	}
	claimSet := map[string]bool{}
	for i := range w.Q {
		for _, k := range claimKinds(c.kv, w.Keys[i], w.Q[i].Key, w.Q[i].Value) {
			claimSet[k] = true
		}
	}
	hasFalse := len(claimSet) > 0
	rooted := !v.sib
	for i := range w.Q {
		if !rooted {
			break
		}
		rooted = climbsToRoot(w.Q[i], s.qs[i], c.root)
	}
	ok, verr, pv := w.verify()
	c.verified++
	pre := preCheck(w)
	fg := &forgery{form: v.name + " [" + mod + "]", side: s.name + ", target " + targetKind(s.qs[s.tpos])}
	stage := ""
	switch {
	case pv != nil:
		stage = "panic(not verified)"
		evid.R.Note("Verify panicked on a length-forged proof (%s): %v\n%s", v.name, pv, w)
	case ok && verr != nil:
		c.failWire(w, fg, "Verify returned true together with error %v", verr)
	case ok:
		if sc := semanticClaims(c.kv, w); sc != "" {
			c.failWire(w, fg, "SOUNDNESS: length/boundary-forged proof verifies against the real root but %s", sc)
		}
		if sc := w.claims(c.kv, nil); sc != "" {
			c.failWire(w, fg, "SOUNDNESS: length/boundary-forged proof verifies against the real root but asserts something false: %s", sc)
		}
		stage = "ACCEPTED(all claims true)"
		st.accepted++
	case pre != "":
		stage = "died in input validation:" + pre
	case verr != nil:
		stage = "reached CalculateRoot:error:" + verr.Error()
	default:
		stage = "reached CalculateRoot:root mismatch"
	}
	st.total++
	labels := []string{c.tag, c.tag + ":class=" + v.class, c.tag + ":variant=" + v.name, c.tag + ":set=" + s.name,
		c.tag + ":target=" + targetKind(s.qs[s.tpos]), fmt.Sprintf("%s:L=%d", c.tag, c.L),
		c.tag + ":proofkey-length=" + relLen(len(w.Q[s.tpos].Key), c.L), c.tag + ":stage=" + stage}
	if mod != "" {
		labels = append(labels, c.tag+":modifier="+mod)
	}
	if hasFalse {
		st.falseSets++
		labels = append(labels, c.tag+":set-contains-false-claim")
		for k := range claimSet {
			labels = append(labels, c.tag+":false-claim="+k)
		}
	} else {
		labels = append(labels, c.tag+":all-claims-true(control)")
	}
	if pre == "" {
		st.reached++
		c.reached++
		labels = append(labels, c.tag+":reached-CalculateRoot(hashing stage)")
		if hasFalse {
			st.falseReached++
		}
	}
	if rooted {
		labels = append(labels, c.tag+":every-query-still-hashes-to-the-real-root(only field validation can reject it)")
		if hasFalse {
			st.falseRooted++
			labels = append(labels, c.tag+":false-claim-AND-hashes-to-the-real-root:"+v.class)
		}
	}
	var kb strings.Builder
	kb.WriteString("len|")
	wr := func(b []byte) {
		kb.WriteString(strconv.Itoa(len(b)))
		kb.WriteByte(':')
		kb.Write(b)
	}
	for i := range w.Keys {
		wr(w.Keys[i])
		wr(w.Q[i].Key)
		wr(w.Q[i].Value)
		wr(w.Q[i].Bitmap)
	}
	kb.WriteByte('|')
	for _, h := range w.Sib {
		wr(h)
	}
	evid.R.Case(kb.String(), hasFalse && (pre == "" || rooted), func() any {
		return map[string]any{"kind": c.tag, "variant": v.name, "modifier": mod, "set": s.name, "stage": stage, "keyLength": c.L,
			"mapKeys": hexAll(c.keys), "hashesToRealRoot": rooted, "proof": w.String()}
	}, labels...)
}

// lenRun: every variant (with its modifiers) on one set.
func (c *forgeCtx) lenRun(s *lenSet, vs []lenVariant, st *lenStats) {
	if s == nil {
		return
	}
	for i := range vs {
		v := &vs[i]
		c.lenCase(s, v, "", st)
		if v.ctl {
			c.lenCase(s, v, "querykey-follows-proofkey", st)
		}
		if len(s.qs) > 1 && !v.sib && (c.n+i)%2 == 0 {
			c.lenCase(s, v, "every-query", st)
		}
		if v.sib || v.class == "bitmap-length" {
			c.lenCase(s, v, "plus-wrong-value-on-target", st)
		}
	}
}

// lenSetsFor: the query sets around target ti: alone; with one/two/three other honest queries (pending deeper / at or above
// the target's height, rotating picks), target first / last / in the middle; and the target twice (honest + forged copy).
func (c *forgeCtx) lenSetsFor(ti int, thin int) []*lenSet {
	var deeper, shallower []int
	for i, q := range c.cands {
		if i == ti {
			continue
		}
		if q.h() > c.cands[ti].h() {
			deeper = append(deeper, i)
		} else {
			shallower = append(shallower, i)
		}
	}
	others := append(append([]int{}, deeper...), shallower...)
	pick := func(from []int, by int) int {
		if len(from) == 0 {
			if len(others) == 0 {
				return -1
			}
			return others[by%len(others)]
		}
		return from[by%len(from)]
	}
	type plan struct {
		name string
		idx  []int
		tpos int
	}
	r := c.n + ti
	d1, s1, o2 := pick(deeper, r), pick(shallower, r/2), pick(others, r/3+1)
	plans := []plan{{"single-query", []int{ti}, 0}}
	if d1 >= 0 {
		plans = append(plans,
			plan{"multi-2(target first)", []int{ti, d1}, 0},
			plan{"multi-2(target last)", []int{s1, ti}, 1},
			plan{"multi-2(honest and forged copy of the target)", []int{ti, ti}, 1})
		if s1 != d1 {
			plans = append(plans, plan{"multi-3(target in the middle)", []int{d1, ti, s1}, 1},
				plan{"multi-3(honest copy of the target, another query, forged copy)", []int{ti, s1, ti}, 2})
			if o2 != d1 && o2 != s1 {
				plans = append(plans, plan{"multi-4", []int{s1, o2, ti, d1}, 2})
			}
		}
	}
	var out []*lenSet
	for pi, p := range plans {
		if thin > 1 && pi > 0 && (pi+r)%thin != 0 {
			continue
		}
		out = append(out, c.newLenSet(p.name, p.idx, p.tpos))
	}
	return out
}

func (st *lenStats) note(name string) {
	evid.R.Note("%s: %d length/boundary-forged proofs, %d with a false claim; %d reached CalculateRoot (%d of them with a false claim); "+
		"%d carry a false claim AND still hash to the real root query by query (only the length checks stand against them); %d accepted (all claims true)",
		name, st.total, st.falseSets, st.reached, st.falseReached, st.falseRooted, st.accepted)
}

// fixedLenTrie: 6 keys of length L expanded from a seed: a far key, a last-bit sibling pair, a key sharing 9 bits, a key
// sharing the top nibble, a key with the first bit flipped.
func fixedLenTrie(L int, seed uint64) map[string][]byte {
	kv := map[string][]byte{}
	k0 := expand(seed, "len-key", 0, L)
	put := func(k []byte, i int) { kv[string(k)] = expand(seed, "len-value", i, 32) }
	put(k0, 0)
	k1 := cp(k0)
	flipBit(k1, 8*L-1)
	put(k1, 1)
	if L >= 2 {
		k2 := expand(seed, "len-key", 2, L)
		copy(k2[:1], k0[:1])
		k2[1] = k0[1] ^ 0x40
		put(k2, 2)
	}
	k3 := expand(seed, "len-key", 3, L)
	k3[0] = k0[0]&0xf0 | (k0[0]^0x08)&0x0f
	put(k3, 3)
	k4 := expand(seed, "len-key", 4, L)
	k4[0] = k0[0] ^ 0x80
	put(k4, 4)
	put(expand(seed, "len-key", 5, L), 5)
	return kv
}

// TestResplitEnum: deterministic. Every variant on every candidate (present keys and absent probes) of enumerated
// one-byte tries (b<<5|tail, as in TestForgedEnum; quick: every seventh shape) and of fixed tries of key length 2/4/32/38.
func TestResplitEnum(t *testing.T) {
	var st lenStats
	run := func(L int, kv map[string][]byte, seed uint64, mode string) {
		c := newForgeCtx(t, "resplit-enum", mode, L, kv, absentProbes(L, kv, 6), seed)
		vs := lenVariants(L, nil)
		thin := 2
		if evid.Thorough() {
			thin = 1
		}
		for ti := range c.cands {
			for _, s := range c.lenSetsFor(ti, thin) {
				c.lenRun(s, vs, &st)
			}
		}
	}
	tails := []byte{0x00, 0x0a, 0x1f}
	idx := 0
	for mask := 0; mask < 256; mask++ {
		var bs []int
		for b := 0; b < 8; b++ {
			if mask&(1<<uint(b)) != 0 {
				bs = append(bs, b)
			}
		}
		if len(bs) < 3 || len(bs) > 6 {
			continue
		}
		idx++
		if !evid.Thorough() && idx%7 != 0 {
			continue
		}
		if evid.Thorough() && shardSkip(idx) {
			continue
		}
		kv := map[string][]byte{}
		for _, b := range bs {
			k := []byte{byte(b<<5) | tails[idx%3]}
			kv[string(k)] = expand(uint64(mask), "enum-value", b, 32)
		}
		run(1, kv, uint64(mask)*4+1, "enumerated-1-byte-tries")
	}
	nFixed := 2
	if evid.Thorough() {
		nFixed = 8
	}
	for i := 0; i < nFixed; i++ {
		for li, L := range []int{2, 4, 32, 38} {
			if evid.Thorough() && shardSkip(i*4+li) {
				continue
			}
			seed := uint64(evid.Seed())*16 + uint64(i)
			run(L, fixedLenTrie(L, seed), seed, fmt.Sprintf("fixed-%d-byte-tries", L))
		}
	}
	st.note("TestResplitEnum")
	if st.total == 0 || st.falseRooted*20 < st.total || st.reached*20 < st.total {
		t.Fatalf("generator health: %d forged proofs, %d with a false claim that still hash to the real root, %d reaching CalculateRoot", st.total, st.falseRooted, st.reached)
	}
}

// TestResplitMulti: drawn tries (as in TestForgedMulti), drawn targets, drawn query sets (1-5 queries, drawn order, the
// target possibly twice) and, besides the fixed variants, boundary moves by drawn byte counts.
func TestResplitMulti(t *testing.T) {
	rapid.Check(t, func(t *rapid.T) {
		var L int
		var keys [][]byte
		mode := "small-trie(2-8 keys)"
		if irange(0, 9).Draw(t, "poolMode") < 7 {
			L = rapid.SampledFrom([]int{32, 38, 1, 2, 4, 32, 38}).Draw(t, "L")
			n := irange(2, 8).Draw(t, "nKeys")
			seen := map[string]bool{}
			for tries := 0; len(keys) < n && tries < 4*n; tries++ {
				k := randBytes(t, L, "key")
				if irange(0, 2).Draw(t, "derive") == 0 && len(keys) > 0 {
					k = deriveKey(t, L, keys[irange(0, len(keys)-1).Draw(t, "base")])
				}
				if !seen[string(k)] {
					seen[string(k)] = true
					keys = append(keys, k)
				}
			}
		} else {
			mode = "clustered-pool(8-24 keys)"
			L = rapid.SampledFrom(keyLengths).Draw(t, "L")
			keys = drawPool(t, L, irange(8, 24).Draw(t, "poolSize"))
		}
		if len(keys) < 1 {
			t.Skip("no keys")
		}
		vals := drawValues(t)
		kv := map[string][]byte{}
		for _, k := range keys {
			kv[string(k)] = vals[irange(0, len(vals)-1).Draw(t, "val")]
		}
		seed := rapid.Uint64().Draw(t, "forgeSeed")
		probes := absentProbes(L, kv, 8)
		probes = append(probes, randBytes(t, L, "farProbe"))
		c := newForgeCtx(t, "resplit-multi", mode, L, kv, probes, seed)
		vs := lenVariants(L, []int{irange(1, 32).Draw(t, "moveN"), irange(1, max(1, L)).Draw(t, "moveN2")})
		var st lenStats
		nTargets := irange(1, 3).Draw(t, "nTargets")
		for x := 0; x < nTargets; x++ {
			// two thirds of the targets are present keys (the only ones a boundary move turns into a false claim)
			ti := irange(0, len(c.cands)-1).Draw(t, "target")
			if irange(0, 2).Draw(t, "presentTarget") > 0 {
				ti = irange(0, c.nPres-1).Draw(t, "presentTargetIdx")
			}
			idx := []int{ti}
			tpos := 0
			name := "single-query"
			if n := irange(0, 4).Draw(t, "nExtras"); n > 0 && len(c.cands) > 1 {
				for i := 0; i < n; i++ {
					idx = append(idx, irange(0, len(c.cands)-1).Draw(t, "extra"))
				}
				perm := rapid.Permutation(seq(len(idx))).Draw(t, "order")
				p := make([]int, len(idx))
				for i, j := range perm {
					p[i] = idx[j]
					if j == 0 {
						tpos = i
					}
				}
				idx = p
				name = fmt.Sprintf("multi-%d(drawn)", len(idx))
				for i, j := range idx {
					if j == ti && i != tpos {
						name = fmt.Sprintf("multi-%d(drawn, target also queried honestly)", len(idx))
					}
				}
			}
			c.lenRun(c.newLenSet(name, idx, tpos), vs, &st)
		}
		evid.R.Case(fmt.Sprintf("resplit-trie|%d|%x|%d", L, c.keys, seed), st.falseRooted > 0, func() any {
			return map[string]any{"kind": "resplit-multi-trie", "keyLength": L, "mapKeys": hexAll(c.keys), "forgedProofs": st.total,
				"falseClaimAndHashesToRoot": st.falseRooted, "reachedCalculateRoot": st.reached}
		}, "resplit-multi-trie", "resplit-multi-trie:"+mode)
		evid.R.Label("resplit-multi:forged proofs with a false claim that still hash to the real root", int64(st.falseRooted))
	})
}

// TestResplitDirected: the minimal shape on the engine's OWN proofs (no model, no assembler): for every key of a 16-key
// trie (32-byte keys) and of a 5-key trie (1-byte keys), alone and together with two other query keys, the honest
// inclusion query is re-split by 1/2/8/31 bytes towards the key and by 1 byte towards the value. Runs in every tier.
func TestResplitDirected(t *testing.T) {
	type tr struct {
		L  int
		kv map[string][]byte
	}
	big := map[string][]byte{}
	for i := 0; i < 16; i++ {
		big[string(expand(7, "directed-key", i, 32))] = expand(7, "directed-value", i, 32)
	}
	small := map[string][]byte{}
	for _, b := range []byte{0x20, 0x40, 0x80, 0xc0, 0xe0} {
		small[string([]byte{b})] = expand(7, "directed-value", int(b), 32)
	}
	n := 0
	for _, x := range []tr{{32, big}, {1, small}} {
		c := newForgeCtx(t, "resplit-directed", "directed", x.L, x.kv, nil, 7)
		for i, k := range c.keys {
			absent := cp(k)
			flipBit(absent, 8*x.L-1)
			if msmt.Present(x.kv, absent) {
				flipBit(absent, 8*x.L-2)
			}
			for _, qks := range [][][]byte{{k}, {c.keys[(i+1)%len(c.keys)], k, absent}} {
				p, err := c.trie.Prove(c.store, qks)
				if err != nil {
					t.Fatalf("Prove(%x): %v", qks, err)
				}
				hw := wireOf(qks, p, c.root, x.L)
				if ok, verr, pv := hw.verify(); !ok || verr != nil || pv != nil {
					t.Fatalf("honest proof rejected: %v %v %v\n%s", ok, verr, pv, hw)
				}
				pos := len(qks) - 1
				if len(qks) > 1 {
					pos = 1
				}
				if !bytes.Equal(hw.Q[pos].Key, k) || !bytes.Equal(hw.Q[pos].Value, x.kv[string(k)]) {
					t.Fatalf("honest proof does not show the stored value of %x\n%s", k, hw)
				}
				for _, mv := range []int{1, 2, 8, 31, -1} {
					f := hw.clone()
					if mv > 0 {
						resplitLonger(&f.Q[pos], mv)
					} else {
						resplitShorter(&f.Q[pos], -mv)
					}
					ok, verr, pv := f.verify()
					n++
					evid.R.Case(fmt.Sprintf("resplit-directed|%d|%x|%d|%d", x.L, k, len(qks), mv), true, nil, "resplit-directed",
						fmt.Sprintf("resplit-directed:L=%d,queries=%d,move=%+d", x.L, len(qks), mv))
					if ok && verr == nil && pv == nil {
						if sc := semanticClaims(x.kv, f); sc != "" {
							t.Fatalf("SOUNDNESS: the honest proof of Prove(%x) with the key/value boundary of query %d moved by %+d bytes verifies against the real root but %s\n%s",
								qks, pos, mv, sc, f)
						}
						t.Fatalf("SOUNDNESS: proof with a proof key of %d bytes verifies for key length %d\n%s", len(f.Q[pos].Key), x.L, f)
					}
					if ok {
						t.Fatalf("Verify returned true together with error %v\n%s", verr, f)
					}
				}
			}
		}
	}
	if n == 0 {
		t.Fatalf("no directed case ran")
	}
}
