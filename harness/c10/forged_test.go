// Soundness of smt.Verify against FORGED MULTI-QUERY proofs (property C10: "no proof verifies for a claim that
// disagrees with the map").
//
// The single-field tamperings of c10_test.go change one field of an honest proof. The generator in this file builds
// whole query sets a forger would build: an honest multi-key proof (answers and sibling hashes of the naive LIP-0039
// model) plus 1-2 forged queries whose key, bitmap and sibling hashes are DERIVED from one honest query of the same
// proof (the anchor):
//
//   - below(d):   the forged node sits d = 1..3 levels below the anchor's node, on a path that extends the anchor's path;
//     the d extra bitmap bits are enumerated (set bits get a forged sibling hash), the rest of the bitmap
//     and the sibling hashes are the anchor's. After d steps the forged branch lands on the anchor's path.
//   - pair-below: two forged sibling leaves one level below the anchor's node (they merge without any sibling hash).
//   - sibling:    the forged node claims to be the sibling of the anchor's node.
//   - samepath:   another key on exactly the anchor's path (dies in Verify's query filter; kept as a control class).
//   - above(d):   the forged node sits d = 1..2 levels above the anchor's node (the anchor's branch lands on the forged path).
//   - own(d):     a present key that is not queried honestly, with a wrong/empty value one level below / at / above its
//     real position.
//   - two independent below-forgeries under two anchors.
//
// Every form is built with the forged key sorting BEFORE and AFTER the anchor's key (Verify's work queue is ordered by
// height, then key, and only the neighbour in that order is looked at when a branch lands on an occupied path), with
// the forged key leaving the anchor's key immediately below the anchor's node or only below the forged node ("late":
// then the anchor's own key can be used as the query key = an absence claim for a present key), and with 0..3
// further honest queries of the same trie that are still pending at greater heights and 0..3 at smaller-or-equal
// heights when the forged branch lands (all subsets up to size 3 in the enumerating test's thorough tier, ten
// (deeper, shallower) count combinations with rotating picks otherwise). Query order in the proof (forged last / first /
// reversed / permuted) and duplicated queries (anchor / forged / extra) rotate over the cases.
//
// The sibling-hash list of a forged proof is computed by assembleSiblings: the LIP-0039 verification loop run over the
// forged query set, emitting the hash each query wants at each level in exactly the order Verify will consume them, so
// the forged proof is consistent everywhere except in what it claims, and it survives until the forged branch meets
// the honest one.
//
// Oracle: Verify(queryKeys, forged proof, real root, real key length) == true  =>  every claim of every query holds in
// the reference map (model/smt.ClaimsHold). Labels record how far each forged proof got: rejected by Verify's input
// checks (mirrored here for classification only), or inside CalculateRoot (which error / root mismatch), and what
// happened to the forged branch (dropped onto an honest path, honest dropped onto it, sibling merge, reached the root).
package c10

import (
	"bytes"
	"encoding/hex"
	"encoding/json"
	"fmt"
	"os"
	"sort"
	"strings"
	"testing"

	"github.com/LiskHQ/lisk-engine/pkg/trie/smt"
	"pgregory.net/rapid"

	"verifharness/evid"
	msmt "verifharness/model/smt"
)

// ---------------------------------------------------------------------------------------------------------------
// queries with their per-level sibling hashes

// fq is one query of a proof under construction. Bm[0] belongs to the deepest level (the most significant bit of the
// packed bitmap, always set); Sib[i] is the sibling hash at the level of Bm[i] (used only where Bm[i] is set).
type fq struct {
	QK, Key, Value []byte
	Bm             []bool
	Sib            [][]byte
	Forged         bool
}

func (q *fq) h() int { return len(q.Bm) }

func (q *fq) nodeHash() []byte {
	if len(q.Value) == 0 {
		return msmt.EmptyHash()
	}
	return msmt.LeafHash(q.Key, q.Value)
}

func pathStr(key []byte, h int) string {
	b := make([]byte, h)
	for i := range b {
		b[i] = '0'
		if msmt.Bit(key, i) {
			b[i] = '1'
		}
	}
	return string(b)
}

func setBit(k []byte, i int, v bool) {
	if v {
		k[i/8] |= 0x80 >> uint(i%8)
	} else {
		k[i/8] &^= 0x80 >> uint(i%8)
	}
}

// asmResult: the sibling-hash list of a query set and what happens to forged branches on the way to the root.
type asmResult struct {
	sib              [][]byte
	forgedOntoHonest bool // a forged branch landed on a path held by an honest query and was dropped
	honestOntoForged bool // an honest branch landed on a path held by a forged query and was dropped
	siblingMerge     bool // a forged and an honest branch met as siblings
	coexist          bool // a forged and an honest query stay in the queue on the same path (forged key sorts after)
	forgedAtRoot     bool // the branch that reaches the root stems from a forged query
}

type asmItem struct {
	key    []byte
	bm     []bool
	sib    [][]byte
	forged bool
}

func asmSamePath(a, b *asmItem) bool {
	return len(a.bm) == len(b.bm) && pathStr(a.key, len(a.bm)) == pathStr(b.key, len(b.bm))
}

func asmSibling(a, b *asmItem) bool {
	h := len(a.bm)
	if h != len(b.bm) || h == 0 {
		return false
	}
	return pathStr(a.key, h-1) == pathStr(b.key, h-1) && msmt.Bit(a.key, h-1) != msmt.Bit(b.key, h-1)
}

// assembleSiblings runs the LIP-0039 verification loop (queue ordered by height descending, then key; sibling queries
// merge; a branch landing on an occupied path is dropped in favour of its right neighbour) over the queries and emits,
// in consumption order, the sibling hash every surviving branch wants at every level whose bitmap bit is set.
func assembleSiblings(qs []*fq) asmResult {
	var res asmResult
	seen := map[string]bool{}
	var queue []*asmItem
	for _, q := range qs {
		p := pathStr(q.Key, q.h())
		if seen[p] {
			continue // Verify keeps the first query of a path
		}
		seen[p] = true
		queue = append(queue, &asmItem{key: q.Key, bm: q.Bm, sib: q.Sib, forged: q.Forged})
	}
	sort.SliceStable(queue, func(i, j int) bool {
		if len(queue[i].bm) != len(queue[j].bm) {
			return len(queue[i].bm) > len(queue[j].bm)
		}
		return bytes.Compare(queue[i].key, queue[j].key) < 0
	})
	for len(queue) > 0 {
		q := queue[0]
		queue = queue[1:]
		if len(q.bm) == 0 {
			res.forgedAtRoot = q.forged
			break
		}
		if len(queue) > 0 && asmSibling(q, queue[0]) {
			s := queue[0]
			queue = queue[1:]
			if s.forged != q.forged {
				res.siblingMerge = true
			}
			q = &asmItem{key: q.key, bm: q.bm, sib: q.sib, forged: q.forged || s.forged}
		} else if q.bm[0] {
			res.sib = append(res.sib, q.sib[0])
		}
		q = &asmItem{key: q.key, bm: q.bm[1:], sib: q.sib[1:], forged: q.forged}
		idx := sort.Search(len(queue), func(i int) bool {
			v := queue[i]
			return (len(q.bm) == len(v.bm) && bytes.Compare(q.key, v.key) < 0) || len(q.bm) > len(v.bm)
		})
		if idx < len(queue) && asmSamePath(q, queue[idx]) {
			switch {
			case q.forged && !queue[idx].forged:
				res.forgedOntoHonest = true
			case !q.forged && queue[idx].forged:
				res.honestOntoForged = true
			}
			continue
		}
		if idx > 0 && asmSamePath(q, queue[idx-1]) && q.forged != queue[idx-1].forged {
			res.coexist = true
		}
		queue = append(queue[:idx:idx], append([]*asmItem{q}, queue[idx:]...)...)
	}
	return res
}

// preCheck mirrors the input checks Verify makes before it calls CalculateRoot. Used ONLY to classify how far a forged
// proof got ("" = it reaches CalculateRoot); the oracle does not depend on it.
func preCheck(w *wire) string {
	if len(w.Keys) != len(w.Q) {
		return "query-count"
	}
	seen := map[string]tq{}
	for i, k := range w.Keys {
		if len(k) != w.L {
			return "querykey-length"
		}
		q := w.Q[i]
		h := bitmapHeight(q.Bitmap)
		if len(q.Key) != w.L || h > 8*w.L {
			return "key-length-or-bitmap-height"
		}
		if d, ok := seen[string(q.Key)]; ok && (!bytes.Equal(d.Bitmap, q.Bitmap) || !bytes.Equal(d.Value, q.Value)) {
			return "duplicate-key-with-other-content"
		}
		seen[string(q.Key)] = q
		if len(q.Bitmap) > 0 && q.Bitmap[0] == 0 {
			return "bitmap-leading-zero-byte"
		}
		if !bytes.Equal(k, q.Key) && h > msmt.CommonPrefixBits(k, q.Key) {
			return "querykey-not-below-the-node"
		}
	}
	paths := map[string]string{}
	for _, q := range w.Q {
		p := pathStr(q.Key, bitmapHeight(q.Bitmap))
		node := "empty"
		if len(q.Value) > 0 {
			node = string(q.Key) + "=" + string(q.Value)
		}
		if prev, ok := paths[p]; ok {
			if prev != node {
				return "same-path-other-node(query filter)"
			}
			continue
		}
		paths[p] = node
	}
	return ""
}

// claimKinds classifies what one (queryKey, key, value) triple asserts against the map; empty = everything true.
func claimKinds(kv map[string][]byte, qk, key, value []byte) []string {
	var out []string
	switch {
	case len(value) > 0 && !msmt.Present(kv, key):
		out = append(out, "inclusion-of-absent-key")
	case len(value) > 0 && !bytes.Equal(kv[string(key)], value):
		out = append(out, "wrong-value-for-present-key")
	case len(value) == 0 && msmt.Present(kv, key):
		out = append(out, "absence-of-present-key(shown as empty node)")
	}
	if !bytes.Equal(qk, key) && msmt.Present(kv, qk) {
		out = append(out, "absence-of-present-key(other node shown on its path)")
	}
	return out
}

// ---------------------------------------------------------------------------------------------------------------
// the forger

type failer interface {
	Fatalf(format string, args ...any)
}

type forgeCtx struct {
	L     int
	kv    map[string][]byte
	keys  [][]byte
	root  []byte
	cands []*fq // honest candidate queries: every present key, then absent probes
	nPres int   // cands[:nPres] are the present keys
	seed  uint64
	n     int // running counter: rotates order / duplicate / junk / pick variants
	mode  string
	full  bool // all extra-query subsets up to size 3 instead of the ten count combinations
	thin  int  // > 1: every form uses only every thin-th extras plan (offset rotating with the form), to afford more tries
	t     failer
	tag   string // test name for labels/replay files
	trie  interface {
		Update(db smt.DBReadWriter, keys [][]byte, values [][]byte) ([]byte, error)
		Prove(db smt.DBReader, queryKeys [][]byte) (*smt.Proof, error)
	}
	store *mapStore

	verified, reached, falseSets int
	proved                       map[string]bool // honest query-key lists whose Prove output was compared with the model assembly
}

func (c *forgeCtx) honest(qk []byte) *fq {
	b := msmt.QueryWithSiblings(c.L, c.kv, qk)
	return &fq{QK: cp(qk), Key: b.Key, Value: b.Value, Bm: b.Bitmap, Sib: b.Siblings}
}

func (c *forgeCtx) filler(i int) []byte { return expand(c.seed, "forge-filler", i, c.L) }

func (c *forgeCtx) junk(kind int, anchor *fq, i int) []byte {
	switch kind % 4 {
	case 1:
		return msmt.EmptyHash()
	case 2:
		return anchor.nodeHash()
	}
	return expand(c.seed, "forge-junk", i, 32)
}

func (c *forgeCtx) forgedValue(i int) []byte { return expand(c.seed, "forge-value", i, 32) }

// deriveFrom returns a key that shares the first share bits with base and then leaves it: at the first bit >= share where
// base allows the wanted order (before: base has 1, after: base has 0); the bits behind come from the filler.
func (c *forgeCtx) deriveFrom(base []byte, share int, before bool, fill int) ([]byte, bool) {
	for i := share; i < 8*c.L; i++ {
		if msmt.Bit(base, i) == before {
			k := cp(base)
			setBit(k, i, !before)
			f := c.filler(fill)
			for j := i + 1; j < 8*c.L; j++ {
				setBit(k, j, msmt.Bit(f, j))
			}
			return k, true
		}
	}
	return nil, false
}

// forgery = the forged queries of one form + bookkeeping for extras and labels.
type forgery struct {
	form    string
	side    string
	qs      []*fq
	land    int   // height at which the forged branch meets (or would meet) the anchor's branch
	anchors []int // indexes into cands of the honest queries the forgery is derived from (included in the proof)
	omit    bool  // own-position forms: the anchor itself is NOT part of the proof (its key is the forged query's key)
}

func sideName(before bool) string {
	if before {
		return "forged-key-before-anchor-key"
	}
	return "forged-key-after-anchor-key"
}

func extName(ext []bool) string {
	b := make([]byte, len(ext))
	for i, e := range ext {
		b[i] = '0'
		if e {
			b[i] = '1'
		}
	}
	return string(b)
}

// below: d = len(ext) levels below the anchor's node.
func (c *forgeCtx) below(ai int, ext []bool, before, late bool, variant int) *forgery {
	a := c.cands[ai]
	hf := a.h() + len(ext)
	if hf > 8*c.L {
		return nil
	}
	share := a.h()
	if late {
		share = hf
	}
	kf, ok := c.deriveFrom(a.Key, share, before, c.n)
	if !ok {
		return nil
	}
	f := &fq{QK: kf, Key: kf, Forged: true}
	f.Bm = append(append([]bool{}, ext...), a.Bm...)
	for i, e := range ext {
		if e {
			f.Sib = append(f.Sib, c.junk(c.n/24+i, a, 8*c.n+i))
		} else {
			f.Sib = append(f.Sib, msmt.EmptyHash())
		}
	}
	f.Sib = append(f.Sib, a.Sib...)
	anchorPresent := msmt.Present(c.kv, a.Key)
	vname := ""
	switch variant {
	case 0:
		f.Value, vname = c.forgedValue(c.n), "forged-value"
	case 1:
		if !anchorPresent {
			return nil
		}
		f.Value, vname = cp(a.Value), "value-of-anchor-leaf"
	case 2: // query key = the anchor's (present) key: the forged leaf is shown on its path
		if !anchorPresent || msmt.CommonPrefixBits(a.Key, kf) < hf {
			return nil
		}
		f.Value, f.QK, vname = c.forgedValue(c.n), cp(a.Key), "forged-value,querykey=anchor-key"
	case 3: // query key = the anchor's (present) key, shown as an empty node below its real leaf
		if !anchorPresent || msmt.CommonPrefixBits(a.Key, kf) < hf {
			return nil
		}
		f.Value, f.QK, vname = []byte{}, cp(a.Key), "empty-node,querykey=anchor-key"
	case 4: // empty node for the forged key itself: a TRUE claim in a forged geometry (control class)
		f.Value, vname = []byte{}, "empty-node(true claim)"
	}
	l := ""
	if late {
		l = ",late"
	}
	return &forgery{form: fmt.Sprintf("below%d(ext=%s%s;%s)", len(ext), extName(ext), l, vname), side: sideName(before),
		qs: []*fq{f}, land: a.h(), anchors: []int{ai}}
}

func (c *forgeCtx) pairBelow(ai int, high bool) *forgery {
	a := c.cands[ai]
	ha := a.h()
	if ha+1 >= 8*c.L {
		return nil
	}
	mk := func(bit bool, n int) []byte {
		k := cp(a.Key)
		setBit(k, ha, bit)
		for j := ha + 1; j < 8*c.L; j++ {
			setBit(k, j, high)
		}
		if bytes.Equal(k, a.Key) {
			flipBit(k, 8*c.L-1)
		}
		return k
	}
	k0, k1 := mk(false, 0), mk(true, 1)
	f0 := &fq{QK: k0, Key: k0, Value: c.forgedValue(2 * c.n), Forged: true}
	f1 := &fq{QK: k1, Key: k1, Value: c.forgedValue(2*c.n + 1), Forged: true}
	f0.Bm = append([]bool{true}, a.Bm...)
	f1.Bm = f0.Bm
	f0.Sib = append([][]byte{f1.nodeHash()}, a.Sib...)
	f1.Sib = append([][]byte{f0.nodeHash()}, a.Sib...)
	return &forgery{form: "pair-below1(two forged sibling leaves)", side: sideName(bytes.Compare(k0, a.Key) < 0),
		qs: []*fq{f0, f1}, land: ha, anchors: []int{ai}}
}

func (c *forgeCtx) sibling(ai int) *forgery {
	a := c.cands[ai]
	ha := a.h()
	if ha < 1 {
		return nil
	}
	kf := cp(a.Key)
	flipBit(kf, ha-1)
	fl := c.filler(c.n)
	for j := ha; j < 8*c.L; j++ {
		setBit(kf, j, msmt.Bit(fl, j))
	}
	f := &fq{QK: kf, Key: kf, Value: c.forgedValue(c.n), Forged: true}
	f.Bm = append([]bool{true}, a.Bm[1:]...)
	f.Sib = append([][]byte{a.nodeHash()}, a.Sib[1:]...)
	return &forgery{form: "sibling-of-anchor", side: sideName(bytes.Compare(kf, a.Key) < 0), qs: []*fq{f}, land: ha, anchors: []int{ai}}
}

func (c *forgeCtx) samePath(ai int, before bool) *forgery {
	a := c.cands[ai]
	kf, ok := c.deriveFrom(a.Key, a.h(), before, c.n)
	if !ok {
		return nil
	}
	f := &fq{QK: kf, Key: kf, Value: c.forgedValue(c.n), Bm: a.Bm, Sib: a.Sib, Forged: true}
	return &forgery{form: "same-path-as-anchor", side: sideName(before), qs: []*fq{f}, land: a.h(), anchors: []int{ai}}
}

// above: d levels above the anchor's node. prune = the forged node is empty and the query key is the anchor's key.
func (c *forgeCtx) above(ai, d int, before, prune bool) *forgery {
	a := c.cands[ai]
	hf := a.h() - d
	if hf < 1 {
		return nil
	}
	kf, ok := c.deriveFrom(a.Key, hf, before, c.n)
	if !ok {
		return nil
	}
	f := &fq{QK: kf, Key: kf, Value: c.forgedValue(c.n), Forged: true}
	f.Bm = append([]bool{true}, a.Bm[d+1:]...)
	f.Sib = append([][]byte{}, a.Sib[d:]...)
	vname := "forged-value"
	if prune {
		if !msmt.Present(c.kv, a.Key) {
			return nil
		}
		f.Value, f.QK, vname = []byte{}, cp(a.Key), "empty-node,querykey=anchor-key"
	}
	return &forgery{form: fmt.Sprintf("above%d(%s)", d, vname), side: sideName(before), qs: []*fq{f}, land: hf, anchors: []int{ai}}
}

// own: the present key of candidate ai, not queried honestly, wrong/empty value, d levels below (+) / above (-) its leaf.
func (c *forgeCtx) own(ai, d int, empty bool) *forgery {
	a := c.cands[ai]
	if !msmt.Present(c.kv, a.Key) || !bytes.Equal(a.QK, a.Key) {
		return nil
	}
	f := &fq{QK: cp(a.Key), Key: cp(a.Key), Value: c.forgedValue(c.n), Forged: true}
	vname := "wrong-value"
	if empty {
		f.Value, vname = []byte{}, "empty-node"
	}
	switch {
	case d > 0:
		if a.h()+1 > 8*c.L {
			return nil
		}
		f.Bm = append([]bool{true}, a.Bm...)
		f.Sib = append([][]byte{c.junk(c.n/24, a, 8*c.n)}, a.Sib...)
	case d == 0:
		f.Bm, f.Sib = a.Bm, a.Sib
	default:
		if a.h() < 2 {
			return nil
		}
		f.Bm = append([]bool{true}, a.Bm[2:]...)
		f.Sib = append([][]byte{}, a.Sib[1:]...)
	}
	return &forgery{form: fmt.Sprintf("own-position%+d(%s)", d, vname), side: "forged-key-is-a-present-key", qs: []*fq{f},
		land: f.h(), anchors: []int{ai}, omit: true}
}

// extraPlans: which further honest candidates join the proof. Candidates whose key equals a forged key are left out (a
// second query with the same key and other content is rejected as "duplicate query" before anything is computed).
func (c *forgeCtx) extraPlans(fg *forgery) [][]int {
	var deeper, shallower []int
	for i, q := range c.cands {
		skip := false
		for _, a := range fg.anchors {
			if a == i {
				skip = true
			}
		}
		for _, f := range fg.qs {
			if bytes.Equal(f.Key, q.Key) {
				skip = true
			}
		}
		if skip {
			continue
		}
		if q.h() > fg.land {
			deeper = append(deeper, i)
		} else {
			shallower = append(shallower, i)
		}
	}
	var plans [][]int
	if c.full {
		all := append(append([]int{}, deeper...), shallower...)
		plans = append(plans, nil)
		for i := 0; i < len(all); i++ {
			plans = append(plans, []int{all[i]})
			for j := i + 1; j < len(all); j++ {
				plans = append(plans, []int{all[i], all[j]})
				for k := j + 1; k < len(all); k++ {
					plans = append(plans, []int{all[i], all[j], all[k]})
				}
			}
		}
		return plans
	}
	rot := func(s []int, n, by int) []int {
		var out []int
		for i := 0; i < n && i < len(s); i++ {
			out = append(out, s[(by+i)%len(s)])
		}
		return out
	}
	for ci, gs := range [][2]int{{0, 0}, {1, 0}, {0, 1}, {1, 1}, {2, 0}, {0, 2}, {2, 1}, {1, 2}, {3, 0}, {0, 3}} {
		if (gs[0] > 0 && len(deeper) == 0) || (gs[1] > 0 && len(shallower) == 0) {
			continue
		}
		plans = append(plans, append(rot(deeper, gs[0], c.n+ci), rot(shallower, gs[1], c.n/3+ci)...))
	}
	return plans
}

// fire builds the proof for one forgery and one extras plan, verifies it and applies the oracle.
func (c *forgeCtx) fire(fg *forgery, extras []int) {
	c.n++
	n := c.n
	var honest []*fq
	if !fg.omit {
		for _, a := range fg.anchors {
			honest = append(honest, c.cands[a])
		}
	}
	deeper, shallower := 0, 0
	for _, e := range extras {
		honest = append(honest, c.cands[e])
		if c.cands[e].h() > fg.land {
			deeper++
		} else {
			shallower++
		}
	}
	// duplicates
	dup := "none"
	forged := append([]*fq{}, fg.qs...)
	switch (n / 4) % 6 {
	case 3:
		if len(honest) > 0 && !fg.omit {
			honest = append(honest, honest[0])
			dup = "anchor-query-twice"
		}
	case 4:
		forged = append(forged, forged[0])
		dup = "forged-query-twice"
	case 5:
		if len(extras) > 0 {
			honest = append(honest, honest[len(honest)-1])
			dup = "extra-query-twice"
		}
	}
	// order
	var all []*fq
	order := ""
	switch n % 4 {
	case 0:
		all, order = append(append(all, honest...), forged...), "forged-last"
	case 1:
		all, order = append(append(all, forged...), honest...), "forged-first"
	case 2:
		all = append(append(all, honest...), forged...)
		for i, j := 0, len(all)-1; i < j; i, j = i+1, j-1 {
			all[i], all[j] = all[j], all[i]
		}
		order = "reversed"
	default:
		all = append(append(all, honest...), forged...)
		tags := make([][]byte, len(all))
		for i := range tags {
			tags[i] = expand(c.seed, "forge-perm", n*16+i, 4)
		}
		idx := seq(len(all))
		sort.SliceStable(idx, func(a, b int) bool { return bytes.Compare(tags[idx[a]], tags[idx[b]]) < 0 })
		p := make([]*fq, len(all))
		for i, j := range idx {
			p[i] = all[j]
		}
		all, order = p, "permuted"
	}
	res := assembleSiblings(all)
	w := &wire{Root: cp(c.root), L: c.L}
	for _, q := range all {
		w.Keys = append(w.Keys, cp(q.QK))
		w.Q = append(w.Q, tq{cp(q.Key), cp(q.Value), packBitmap(q.Bm)})
	}
	for _, s := range res.sib {
		w.Sib = append(w.Sib, cp(s))
	}
	// what is claimed
	claimSet := map[string]bool{}
	for _, q := range all {
		for _, k := range claimKinds(c.kv, q.QK, q.Key, q.Value) {
			claimSet[k] = true
		}
	}
	hasFalse := len(claimSet) > 0
	labels := []string{c.tag, c.tag + ":mode=" + c.mode, c.tag + ":form=" + fg.form, c.tag + ":side=" + fg.side,
		fmt.Sprintf("%s:honest-queries-pending-deeper-than-landing-height=%d", c.tag, deeper),
		fmt.Sprintf("%s:honest-queries-at-or-above-landing-height=%d", c.tag, shallower),
		fmt.Sprintf("%s:forged-queries=%d", c.tag, len(fg.qs)), c.tag + ":order=" + order, c.tag + ":duplicate=" + dup,
		fmt.Sprintf("%s:L=%d", c.tag, c.L)}
	if hasFalse {
		labels = append(labels, c.tag+":set-contains-false-claim")
		for k := range claimSet {
			labels = append(labels, c.tag+":false-claim="+k)
		}
		c.falseSets++
	} else {
		labels = append(labels, c.tag+":all-claims-true(control)")
	}
	switch {
	case res.forgedOntoHonest:
		labels = append(labels, c.tag+":forged-branch=lands on an honest query path and is dropped (only the merge comparison ties it to the root)")
	case res.honestOntoForged:
		labels = append(labels, c.tag+":forged-branch=an honest branch lands on the forged path and is dropped")
	case res.coexist:
		labels = append(labels, c.tag+":forged-branch=stays queued next to the honest query of the same path")
	case res.siblingMerge:
		labels = append(labels, c.tag+":forged-branch=merges with an honest branch as its sibling")
	default:
		labels = append(labels, c.tag+":forged-branch=climbs to the root on its own")
	}
	ok, verr, pv := w.verify()
	c.verified++
	pre := preCheck(w)
	stage := ""
	switch {
	case pv != nil:
		stage = "panic(not verified)"
		evid.R.Note("Verify panicked on a forged multi-query proof: %v\n%s", pv, w)
	case ok && verr != nil:
		c.failWire(w, fg, "Verify returned true together with error %v", verr)
	case ok:
		if s := w.claims(c.kv, nil); s != "" {
			c.failWire(w, fg, "SOUNDNESS: forged multi-query proof verifies against the real root but asserts something false: %s", s)
		}
		stage = "ACCEPTED(all claims true)"
	case pre != "":
		stage = "died in input validation:" + pre
	case verr != nil:
		stage = "reached CalculateRoot:error:" + verr.Error()
	default:
		stage = "reached CalculateRoot:root mismatch"
	}
	if pre == "" {
		c.reached++
		labels = append(labels, c.tag+":reached-CalculateRoot")
		if res.forgedOntoHonest || res.honestOntoForged || res.coexist || res.siblingMerge {
			labels = append(labels, c.tag+":reached-CalculateRoot-and-meets-an-honest-branch(merge logic)")
		}
	}
	labels = append(labels, c.tag+":stage="+stage)
	var kb strings.Builder
	kb.WriteString("forged|")
	for i := range w.Keys {
		kb.Write(w.Keys[i])
		kb.Write(w.Q[i].Key)
		kb.Write(w.Q[i].Value)
		kb.WriteByte('|')
		kb.Write(w.Q[i].Bitmap)
		kb.WriteByte('|')
	}
	for _, s := range w.Sib {
		kb.Write(s)
	}
	evid.R.Case(kb.String(), hasFalse && pre == "", func() any {
		return map[string]any{"kind": c.tag, "form": fg.form, "side": fg.side, "stage": stage, "keyLength": c.L, "mapKeys": hexAll(c.keys),
			"pendingDeeper": deeper, "atOrAbove": shallower, "order": order, "duplicate": dup, "proof": w.String()}
	}, labels...)
	// control: the honest part alone must verify (else the forged proofs above would test nothing)
	if n%4 == 0 && len(honest) > 0 {
		hw := &wire{Root: cp(c.root), L: c.L}
		for _, q := range honest {
			hw.Keys = append(hw.Keys, cp(q.QK))
			hw.Q = append(hw.Q, tq{cp(q.Key), cp(q.Value), packBitmap(q.Bm)})
		}
		for _, s := range assembleSiblings(honest).sib {
			hw.Sib = append(hw.Sib, cp(s))
		}
		c.honestControl(hw, fg, "honest part of a forged query set")
		evid.R.Label(c.tag+"-control:honest part of the query set alone verifies", 1)
	}
}

// honestControl: the honest proof assembled from the reference model (answers + sibling hashes) must (1) be verified by
// Verify on the real root and (2) be, field by field and sibling hash by sibling hash, what Prove returns for the same
// query keys. Both are FATAL: the forged proofs of this file are built on the model's assembly, so if Prove and Verify
// leave LIP-0039 TOGETHER (a shared helper such as the query order or the sibling test changes; Verify(Prove(keys))
// stays true), every forged proof dies for an unrelated reason and the soundness test would pass without testing
// anything. (Until the audit of 2026-09 a disagreement was only a label.) The comparison with Prove runs once per
// distinct honest query-key list of a trie.
func (c *forgeCtx) honestControl(hw *wire, fg *forgery, what string) {
	ok, verr, pv := hw.verify()
	var kb strings.Builder
	for _, k := range hw.Keys {
		kb.Write(k)
	}
	if ok && verr == nil && pv == nil && c.proved[kb.String()] {
		return
	}
	p, perr := c.trie.Prove(c.store, hw.Keys)
	if perr != nil {
		c.failWire(hw, fg, "Prove returned error %v for the %s", perr, what)
	}
	ew := wireOf(hw.Keys, p, c.root, c.L)
	eok, everr, epv := ew.verify()
	if !eok || everr != nil || epv != nil {
		c.failWire(ew, fg, "Verify(Prove(keys)) = %v, err=%v, panic=%v on the real root (%s)", eok, everr, epv, what)
	}
	if !ok || verr != nil || pv != nil {
		c.failWire(hw, fg, "Verify rejects the honest LIP-0039 proof assembled from the reference model (%v, err=%v, panic=%v) while it accepts the proof "+
			"returned by Prove for the same keys: Prove and Verify agree with each other but not with LIP-0039 (difference: %s) (%s)\nProve: %s",
			ok, verr, pv, ew.diffFromModel(hw), what, ew)
	}
	if d := ew.diffFromModel(hw); d != "" {
		c.failWire(ew, fg, "Prove's proof differs from the LIP-0039 proof assembled from the reference model: %s (%s)\nmodel: %s", d, what, hw)
	}
	if c.proved == nil {
		c.proved = map[string]bool{}
	}
	c.proved[kb.String()] = true
	evid.R.Label(c.tag+"-control:Prove output equals the model-assembled proof(key,value,bitmap,siblingHashes)", 1)
}

type forgedReplay struct {
	L    int
	KV   map[string]string
	Wire *wire
	Form string
}

func (c *forgeCtx) failWire(w *wire, fg *forgery, format string, a ...any) {
	rp := forgedReplay{L: c.L, KV: map[string]string{}, Wire: w, Form: fg.form + " / " + fg.side}
	for k, v := range c.kv {
		rp.KV[hex.EncodeToString([]byte(k))] = hex.EncodeToString(v)
	}
	p := evid.R.FailCase("forged", rp)
	var sb strings.Builder
	for _, k := range c.keys {
		fmt.Fprintf(&sb, "  %x -> %x\n", k, c.kv[string(k)])
	}
	c.t.Fatalf("%s\nforgery form: %s, %s\nproof: %s\nmap (key length %d):\n%s(case written to %s)", fmt.Sprintf(format, a...), fg.form, fg.side, w, c.L, sb.String(), p)
}

// run enumerates the forgeries for the chosen anchors.
func (c *forgeCtx) run(anchors []int) {
	exts := [][]bool{{true}, {true, true}, {true, false}, {true, true, true}, {true, false, false}}
	for ax, ai := range anchors {
		var forms []*forgery
		for _, before := range []bool{true, false} {
			for _, ext := range exts {
				forms = append(forms, c.below(ai, ext, before, false, (c.n+len(forms))%2)) // forged value / anchor value
				for _, v := range []int{0, 2, 3} {
					forms = append(forms, c.below(ai, ext, before, true, v))
				}
			}
			forms = append(forms, c.below(ai, []bool{true}, before, ax%2 == 0, 4))
			for d := 1; d <= 2; d++ {
				forms = append(forms, c.above(ai, d, before, false), c.above(ai, d, before, true))
			}
			forms = append(forms, c.samePath(ai, before))
		}
		forms = append(forms, c.sibling(ai), c.pairBelow(ai, false), c.pairBelow(ai, true))
		for _, d := range []int{1, 0, -1} {
			forms = append(forms, c.own(ai, d, false), c.own(ai, d, true))
		}
		// two independent forgeries under two anchors
		if len(anchors) > 1 {
			bi := anchors[(ax+1)%len(anchors)]
			f1, f2 := c.below(ai, []bool{true}, true, false, 0), c.below(bi, []bool{true}, ax%2 == 0, false, 0)
			if f1 != nil && f2 != nil && bi != ai && !bytes.Equal(f1.qs[0].Key, f2.qs[0].Key) {
				f2.qs[0].Value = c.forgedValue(c.n + 7)
				forms = append(forms, &forgery{form: "two-independent-below1", side: f1.side, qs: []*fq{f1.qs[0], f2.qs[0]},
					land: min(f1.land, f2.land), anchors: []int{ai, bi}})
			}
		}
		for fi, fg := range forms {
			if fg == nil {
				evid.R.Label(c.tag+":form-not-applicable-to-anchor(skipped)", 1)
				continue
			}
			plans := c.extraPlans(fg)
			if strings.HasPrefix(fg.form, "same-path") && len(plans) > 2 {
				plans = plans[:2]
			}
			for pi, p := range plans {
				if c.thin > 1 && (pi+fi+ax)%c.thin != 0 {
					continue
				}
				c.fire(fg, p)
			}
		}
	}
}

// newForgeCtx builds the trie with the engine (root must equal the model's) and the honest candidate queries.
func newForgeCtx(t failer, tag, mode string, L int, kv map[string][]byte, probes [][]byte, seed uint64) *forgeCtx {
	c := &forgeCtx{L: L, kv: kv, keys: msmt.Keys(L, kv), seed: seed, t: t, tag: tag, mode: mode}
	vals := make([][]byte, len(c.keys))
	for i, k := range c.keys {
		vals[i] = kv[string(k)]
	}
	c.trie, c.store = smt.NewTrie(nil, L), newMapStore()
	root, err := c.trie.Update(c.store, c.keys, vals)
	if err != nil || !bytes.Equal(root, msmt.Root(L, kv)) {
		t.Fatalf("Update root %x (err %v) != LIP-0039 root %x for keys %x", root, err, msmt.Root(L, kv), c.keys)
	}
	c.root = root
	seen := map[string]bool{}
	for _, k := range c.keys {
		c.cands = append(c.cands, c.honest(k))
		seen[string(k)] = true
	}
	c.nPres = len(c.cands)
	for _, k := range probes {
		if len(k) == L && !seen[string(k)] {
			seen[string(k)] = true
			c.cands = append(c.cands, c.honest(k))
		}
	}
	return c
}

// absentProbes: for every present key the key leaving it just below its leaf (answered by that leaf) and the key
// leaving it at its leaf's level (answered by whatever sits in the sibling position: often an empty node).
func absentProbes(L int, kv map[string][]byte, limit int) [][]byte {
	keys := msmt.Keys(L, kv)
	var out [][]byte
	for i, k := range keys {
		h := msmt.QuerySorted(L, kv, keys, k).Height
		if h < 8*L {
			x := cp(k)
			flipBit(x, h)
			out = append(out, x)
		}
		if h >= 2 {
			x := cp(k)
			flipBit(x, h-2+i%2)
			for j := h; j < 8*L; j++ {
				setBit(x, j, i%2 == 0)
			}
			out = append(out, x)
		}
	}
	if len(out) > limit {
		out = out[:limit]
	}
	return out
}

// ---------------------------------------------------------------------------------------------------------------
// tests

// TestForgedEnum: deterministic. One-byte keys b<<5|tail with b in a subset (3..6 elements) of 0..7: every such trie has
// depth <= 3 below the root plus the tails, so that heights and positions are easy to enumerate; every present key and
// the absent probes are anchors. Quick tier: every third trie, tails rotating, and the extras follow the ten count
// combinations; thorough tier: all three tails and all extra subsets up to size 3.
func TestForgedEnum(t *testing.T) {
	tails := []byte{0x00, 0x0a, 0x1f}
	idx := 0
	probeLimit := 6
	if evid.Thorough() {
		probeLimit = 3 // all subsets of the other candidates up to size 3 are enumerated: keep the candidate list short
	}
	total, reached, falseSets := 0, 0, 0
	for mask := 0; mask < 256; mask++ {
		var bs []int
		for b := 0; b < 8; b++ {
			if mask&(1<<uint(b)) != 0 {
				bs = append(bs, b)
			}
		}
		if len(bs) < 3 || len(bs) > 6 {
			continue
		}
		idx++
		for ti, tail := range tails {
			if !evid.Thorough() && (idx%3 != 0 || ti != (idx/3)%3) {
				continue // quick tier: every third trie, tails rotating
			}
			if evid.Thorough() && shardSkip(idx*3+ti) {
				continue
			}
			kv := map[string][]byte{}
			for _, b := range bs {
				k := []byte{byte(b<<5) | tail}
				kv[string(k)] = expand(uint64(mask), "enum-value", b, 32)
			}
			c := newForgeCtx(t, "forged-enum", "enumerated-1-byte-tries", 1, kv, absentProbes(1, kv, probeLimit), uint64(mask)*4+uint64(ti))
			c.full = evid.Thorough()
			c.run(seq(len(c.cands)))
			total, reached, falseSets = total+c.verified, reached+c.reached, falseSets+c.falseSets
		}
	}
	if total == 0 || reached*2 < total {
		t.Fatalf("generator health: only %d of %d forged proofs got past Verify's input checks", reached, total)
	}
	evid.R.Note("TestForgedEnum: %d forged proofs, %d with a false claim, %d (%.1f%%) reached CalculateRoot", total, falseSets, reached, 100*float64(reached)/float64(total))
}

// shardSkip spreads the enumerated tries over the shards of a run spec.
func shardSkip(i int) bool {
	var s, n int
	fmt.Sscan(os.Getenv("VERIF_SHARD"), &s)
	fmt.Sscan(os.Getenv("VERIF_SHARDS"), &n)
	return n > 1 && i%n != s
}

// TestForgedMulti: drawn tries (small ones with 3-8 keys spread over the top nibble, and pools of clustered keys as in
// TestHistory), key lengths 1/2/4/32/38; the forger runs over every (small) or 5 drawn (pool) anchors.
func TestForgedMulti(t *testing.T) {
	rapid.Check(t, func(t *rapid.T) {
		var L int
		var keys [][]byte
		mode := "small-trie(3-8 keys)"
		if irange(0, 9).Draw(t, "poolMode") < 7 {
			L = rapid.SampledFrom([]int{1, 2, 4, 32, 1, 2, 38}).Draw(t, "L")
			n := irange(3, 8).Draw(t, "nKeys")
			seen := map[string]bool{}
			for tries := 0; len(keys) < n && tries < 4*n; tries++ {
				k := make([]byte, L)
				switch irange(0, 3).Draw(t, "tailKind") {
				case 0:
				case 1:
					for i := range k {
						k[i] = 0xff
					}
				default:
					k = randBytes(t, L, "keyTail")
				}
				k[0] = byte(irange(0, 15).Draw(t, "topNibble"))<<4 | k[0]&0x0f
				if irange(0, 3).Draw(t, "derive") == 0 && len(keys) > 0 {
					k = deriveKey(t, L, keys[irange(0, len(keys)-1).Draw(t, "base")])
				}
				if !seen[string(k)] {
					seen[string(k)] = true
					keys = append(keys, k)
				}
			}
		} else {
			mode = "clustered-pool(8-24 keys)"
			L = rapid.SampledFrom(keyLengths).Draw(t, "L")
			keys = drawPool(t, L, irange(8, 24).Draw(t, "poolSize"))
		}
		if len(keys) < 2 {
			t.Skip("fewer than 2 keys")
		}
		vals := drawValues(t)
		kv := map[string][]byte{}
		for _, k := range keys {
			kv[string(k)] = vals[irange(0, len(vals)-1).Draw(t, "val")]
		}
		seed := rapid.Uint64().Draw(t, "forgeSeed")
		probes := absentProbes(L, kv, 8)
		probes = append(probes, randBytes(t, L, "farProbe"))
		c := newForgeCtx(t, "forged-multi", mode, L, kv, probes, seed)
		anchors := seq(len(c.cands))
		maxAnchors := 5
		if L >= 32 {
			maxAnchors = 2 // Verify converts every key to a bit slice many times per step: 38-byte keys cost 5-10x
		}
		if len(anchors) > maxAnchors {
			anchors = rapid.Permutation(anchors).Draw(t, "anchors")[:maxAnchors]
		}
		if !evid.Thorough() {
			c.thin = 3
		}
		c.run(anchors)
		evid.R.Case(fmt.Sprintf("forged-trie|%d|%x|%d", L, c.keys, seed), c.reached > 0, func() any {
			return map[string]any{"kind": "forged-multi-trie", "keyLength": L, "mapKeys": hexAll(c.keys), "forgedProofs": c.verified, "reachedCalculateRoot": c.reached}
		}, "forged-multi-trie", "forged-multi-trie:"+mode)
	})
}

// TestReplayForged re-runs a forged proof saved by failWire: VERIF_REPLAY_CASE=<json>.
func TestReplayForged(t *testing.T) {
	p := os.Getenv("VERIF_REPLAY_CASE")
	if p == "" {
		t.Skip("no replay case")
	}
	raw, err := os.ReadFile(p)
	if err != nil {
		t.Fatal(err)
	}
	var rp forgedReplay
	if err := json.Unmarshal(raw, &rp); err != nil || rp.Wire == nil || rp.L == 0 {
		t.Skip("not a forged-proof case")
	}
	kv := map[string][]byte{}
	for k, v := range rp.KV {
		kb, _ := hex.DecodeString(k)
		vb, _ := hex.DecodeString(v)
		kv[string(kb)] = vb
	}
	if !bytes.Equal(rp.Wire.Root, msmt.Root(rp.L, kv)) {
		t.Fatalf("replay case: root of the proof is not the root of the map")
	}
	ok, verr, pv := rp.Wire.verify()
	if ok && verr == nil && pv == nil {
		if s := rp.Wire.claims(kv, nil); s != "" {
			t.Fatalf("SOUNDNESS: forged multi-query proof (%s) verifies against the real root but asserts something false: %s\n%s", rp.Form, s, rp.Wire)
		}
	}
	if ok && verr != nil {
		t.Fatalf("Verify returned true together with error %v\n%s", verr, rp.Wire)
	}
	t.Logf("replayed: verify=%v err=%v panic=%v", ok, verr, pv)
}

// Regression for the forgery shape "forged leaf below an honestly proven leaf, a third honest query still pending at a
// greater height": map (1-byte keys) 20,40,80,c0,e0; honest queries e0 (height 3) and 20 (height 2, path 00); forged
// inclusion of the absent key 10 one level below the leaf 20 (bitmap 07) with a forged sibling hash in front. The forged
// branch lands on path 00 while e0 is still queued in front of 20. Also with two and with four queries.
func TestRegressForgedBelowLeafPendingDeeperQuery(t *testing.T) {
	r, _ := fixedTrie(t, 1, 0x20, 0x40, 0x80, 0xc0, 0xe0)
	for _, hq := range [][][]byte{{{0x20}}, {{0xe0}, {0x20}}, {{0xe0}, {0xc0}, {0x20}}, {{0x20}, {0x80}, {0xe0}}} {
		p, err := r.trie.Prove(r.st.reader(), hq)
		if err != nil {
			t.Fatalf("Prove: %v", err)
		}
		w := wireOf(hq, p, r.root, 1)
		if ok, verr, pv := w.verify(); !ok || verr != nil || pv != nil {
			t.Fatalf("honest proof rejected: %v %v %v\n%s", ok, verr, pv, w)
		}
		for _, front := range []bool{true, false} {
			f := w.clone()
			forged := tq{Key: []byte{0x10}, Value: bytes.Repeat([]byte{0xee}, 32), Bitmap: []byte{0x07}}
			junk := bytes.Repeat([]byte{0x5a}, 32)
			if front {
				f.Keys = append([][]byte{{0x10}}, f.Keys...)
				f.Q = append([]tq{forged}, f.Q...)
			} else {
				f.Keys = append(f.Keys, []byte{0x10})
				f.Q = append(f.Q, forged)
			}
			f.Sib = append([][]byte{junk}, f.Sib...)
			ok, verr, pv := f.verify()
			evid.R.Case(fmt.Sprintf("regress-forged-below|%x|%v", hq, front), true, nil, "regress")
			if ok && verr == nil && pv == nil {
				t.Fatalf("SOUNDNESS: proof with a forged inclusion claim for the absent key 10 verifies (honest queries %x)\n%s", hq, f)
			}
		}
	}
}
