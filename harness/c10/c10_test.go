// Package c10 checks property C10 (sparse Merkle trie: the root commits to exactly the map; proofs are sound and
// complete) of pkg/trie/smt against the naive LIP-0039 model in verifharness/model/smt.
//
// Domain (derived from the callers: framework.ABIHandler.Commit/revert -> 38-byte keys, 32-byte value hashes, unique
// keys per batch in map-iteration order, NewTrie(previous root) per block on a batchdb over pebble;
// blockchain.CalculateEventRoot -> 12-byte keys, one Update on a fresh trie/in-memory pebble; package tests -> 32-byte
// keys/values, deletion = empty value):
//   - key length L in {1,2,4,32,38} (+12 for the event pattern), values 32 bytes (deletion = empty value);
//   - histories of 1..8 batches of set/overwrite/delete (also of absent keys), keys unique inside a batch
//     (labelled sub-domain: identical duplicates), random key order, optional reopen with NewTrie(root, L);
//   - stores: mutex-protected map, in-memory pebble written directly, in-memory pebble through batchdb + Write per batch;
//   - key families: uniform, derived from an existing key by keeping c leading bits (c around the 8-bit subtree
//     boundaries 8/16/24, last-bit siblings), so that keys collide deep and cross subtrees;
//   - dense families (TestDense): all 256 values of one key byte under a common prefix (completely expanded 8-bit
//     subtrees = the largest encoded subtree the store holds, and its neighbours with 253-255 nodes), at the top, at
//     lower levels, at the last key byte, nested 2-3 levels deep; large undirected maps (1500+ keys, 38-byte
//     module-store shape, hundreds of events) where the top/store subtree fills up by size alone.
package c10

import (
	"bytes"
	"crypto/sha256"
	"encoding/binary"
	"encoding/hex"
	"fmt"
	"math/bits"
	"sort"
	"strings"
	"sync"
	"testing"

	"github.com/LiskHQ/lisk-engine/pkg/blockchain"
	"github.com/LiskHQ/lisk-engine/pkg/codec"
	"github.com/LiskHQ/lisk-engine/pkg/db"
	"github.com/LiskHQ/lisk-engine/pkg/db/batchdb"
	"github.com/LiskHQ/lisk-engine/pkg/trie/smt"
	"pgregory.net/rapid"

	"verifharness/evid"
	msmt "verifharness/model/smt"
)

func TestMain(m *testing.M) { evid.Main(m, "C10") }

// ---------------------------------------------------------------------------------------------------------------
// stores

type store interface {
	begin() smt.DBReadWriter // handle for one Update
	commit()                 // make the writes of that Update visible
	reader() smt.DBReader
	close()
	kind() string
}

// mapStore: the trie updates sibling nodes from concurrent goroutines, so the map is locked.
type mapStore struct {
	mu sync.RWMutex
	m  map[string][]byte
}

func newMapStore() *mapStore { return &mapStore{m: map[string][]byte{}} }
func (s *mapStore) Get(k []byte) ([]byte, bool) {
	s.mu.RLock()
	defer s.mu.RUnlock()
	v, ok := s.m[string(k)]
	if !ok {
		return nil, false
	}
	return append([]byte{}, v...), true
}
func (s *mapStore) Set(k, v []byte) {
	s.mu.Lock()
	defer s.mu.Unlock()
	s.m[string(k)] = append([]byte{}, v...)
}
func (s *mapStore) Del(k []byte) {
	s.mu.Lock()
	defer s.mu.Unlock()
	delete(s.m, string(k))
}
func (s *mapStore) begin() smt.DBReadWriter { return s }
func (s *mapStore) commit()                 {}
func (s *mapStore) reader() smt.DBReader    { return s }
func (s *mapStore) close()                  {}
func (s *mapStore) kind() string            { return "map" }

// One in-memory pebble instance is shared by consecutive cases (opening one costs a 4 MB arena; thousands of
// open/close cycles per run make the check needlessly sensitive to memory pressure on a loaded machine). Every
// store gets its own key prefix - the way framework.ABIHandler separates the tree nodes from the other state
// (StateDBPrefixTree) - and the instance is replaced after sharedDBMaxUses stores once nobody uses it.
const sharedDBMaxUses = 300

var (
	sharedMu     sync.Mutex
	sharedDB     *db.DB
	sharedUses   int
	sharedActive int
	sharedSeq    uint64
)

func acquireDB() (*db.DB, []byte) {
	sharedMu.Lock()
	defer sharedMu.Unlock()
	if sharedDB != nil && sharedActive == 0 && sharedUses >= sharedDBMaxUses {
		sharedDB.Close()
		sharedDB = nil
	}
	if sharedDB == nil {
		d, err := db.NewInMemoryDB()
		if err != nil {
			panic(err)
		}
		sharedDB, sharedUses = d, 0
	}
	sharedUses++
	sharedActive++
	sharedSeq++
	prefix := make([]byte, 9)
	prefix[0] = 1 // StateDBPrefixTree
	binary.BigEndian.PutUint64(prefix[1:], sharedSeq)
	return sharedDB, prefix
}

func releaseDB() {
	sharedMu.Lock()
	defer sharedMu.Unlock()
	sharedActive--
}

// pebbleStore: in-memory pebble written directly (as the package's own tests do), under a per-store prefix.
type pebbleStore struct {
	d      *db.DB
	prefix []byte
}

func (s *pebbleStore) pk(k []byte) []byte {
	return append(append(make([]byte, 0, len(s.prefix)+len(k)), s.prefix...), k...)
}
func (s *pebbleStore) Get(k []byte) ([]byte, bool) { return s.d.Get(s.pk(k)) }
func (s *pebbleStore) Set(k, v []byte)             { s.d.Set(s.pk(k), v) }
func (s *pebbleStore) Del(k []byte)                { s.d.Del(s.pk(k)) }
func (s *pebbleStore) begin() smt.DBReadWriter     { return s }
func (s *pebbleStore) commit()                     {}
func (s *pebbleStore) reader() smt.DBReader        { return s }
func (s *pebbleStore) close()                      { releaseDB() }
func (s *pebbleStore) kind() string                { return "pebble" }

// batchStore: the pattern of framework.ABIHandler.Commit: reads hit the DB, writes go to a batch that is
// applied after Update returned (batchdb.NewWithPrefix over pebble).
type batchStore struct {
	d      *db.DB
	prefix []byte
	b      *db.Batch
}

func (s *batchStore) begin() smt.DBReadWriter {
	s.b = s.d.NewBatch()
	return batchdb.NewWithPrefix(s.d, s.b, s.prefix)
}
func (s *batchStore) commit() {
	if s.b != nil {
		s.d.Write(s.b)
		s.b = nil
	}
}
func (s *batchStore) reader() smt.DBReader { return batchdb.NewWithPrefix(s.d, nil, s.prefix) }
func (s *batchStore) close()               { releaseDB() }
func (s *batchStore) kind() string         { return "batchdb" }

func newStore(kind string) store {
	switch kind {
	case "map":
		return newMapStore()
	case "pebble":
		d, prefix := acquireDB()
		return &pebbleStore{d: d, prefix: prefix}
	case "batchdb":
		d, prefix := acquireDB()
		return &batchStore{d: d, prefix: prefix}
	}
	panic("store kind")
}

// ---------------------------------------------------------------------------------------------------------------
// history representation

type op struct {
	Key []byte
	Val []byte // empty = delete
}

type batch struct {
	Ops    []op
	Reopen bool // reopen the trie from the stored nodes (NewTrie(root, L)) before this batch
}

type history struct {
	L       int
	Store   string
	Batches []batch
}

func (h *history) String() string {
	var sb strings.Builder
	fmt.Fprintf(&sb, "L=%d store=%s\n", h.L, h.Store)
	for i, b := range h.Batches {
		fmt.Fprintf(&sb, " batch %d reopen=%v:", i, b.Reopen)
		for _, o := range b.Ops {
			if len(o.Val) == 0 {
				fmt.Fprintf(&sb, " del(%x)", o.Key)
			} else {
				fmt.Fprintf(&sb, " set(%x=%x)", o.Key, o.Val)
			}
		}
		sb.WriteString("\n")
	}
	return sb.String()
}

func (h *history) key() string {
	var sb strings.Builder
	fmt.Fprintf(&sb, "h|%d|%s", h.L, h.Store)
	for _, b := range h.Batches {
		fmt.Fprintf(&sb, "|%v", b.Reopen)
		for _, o := range b.Ops {
			sb.WriteString(";")
			sb.Write(o.Key)
			sb.WriteString("=")
			sb.Write(o.Val)
		}
	}
	return sb.String()
}

func short(b []byte) string {
	if len(b) > 6 {
		return hex.EncodeToString(b[:6]) + "…"
	}
	return hex.EncodeToString(b)
}

func (h *history) sample(finalKeys int) any {
	type jo struct {
		K string `json:"k"`
		V string `json:"v"`
	}
	type jb struct {
		Reopen bool `json:"reopen"`
		Ops    []jo `json:"ops"`
	}
	out := struct {
		L         int    `json:"keyLength"`
		Store     string `json:"store"`
		Batches   []jb   `json:"batches"`
		FinalKeys int    `json:"finalKeys"`
	}{L: h.L, Store: h.Store, FinalKeys: finalKeys}
	for _, b := range h.Batches {
		x := jb{Reopen: b.Reopen}
		for _, o := range b.Ops {
			v := "delete"
			if len(o.Val) > 0 {
				v = short(o.Val)
			}
			x.Ops = append(x.Ops, jo{hex.EncodeToString(o.Key), v})
		}
		out.Batches = append(out.Batches, x)
	}
	return out
}

// ---------------------------------------------------------------------------------------------------------------
// generators

var keyLengths = []int{1, 2, 2, 4, 4, 32, 32, 38, 38}

// irange is rapid.IntRange with a uniform distribution: rapid biases integer draws towards small values, which is
// welcome for sizes and byte values but skews percentages and index picks (a "25 %" delete rate came out near 50 %).
// Built from Bool draws (which are unbiased); shrinks towards lo.
func irange(lo, hi int) *rapid.Generator[int] {
	if hi < lo {
		panic("irange")
	}
	span := uint64(hi-lo) + 1
	k := bits.Len64(span-1) + 3
	return rapid.Custom(func(t *rapid.T) int {
		var v uint64
		for _, b := range rapid.SliceOfN(rapid.Bool(), k, k).Draw(t, "bits") {
			v <<= 1
			if b {
				v |= 1
			}
		}
		return lo + int(v%span)
	})
}

func randBytes(t *rapid.T, n int, label string) []byte {
	return rapid.SliceOfN(rapid.Byte(), n, n).Draw(t, label)
}

func flipBit(k []byte, i int) { k[i/8] ^= 0x80 >> uint(i%8) }

// drawSplit draws the number of leading bits a derived key keeps: biased to the 8-bit subtree boundaries and the last bit.
func drawSplit(t *rapid.T, L int) int {
	bits := 8 * L
	switch irange(0, 9).Draw(t, "splitKind") {
	case 0, 1, 2:
		return irange(0, bits-1).Draw(t, "split")
	case 3:
		return bits - 1 // sibling pair: differ in the last bit only
	case 4:
		return irange(max(0, bits-4), bits-1).Draw(t, "splitLow")
	default:
		// the order matters: SampledFrom favours early elements, and the deep boundaries are the rarer ones
		var c []int
		for _, x := range []int{16, 24, 17, 20, 8, 25, 22, 15, 9, 23, 7, 32, 18, 26, 10, 31, 33, 40, 39} {
			if x < bits {
				c = append(c, x)
			}
		}
		if len(c) == 0 {
			return irange(0, bits-1).Draw(t, "split")
		}
		return rapid.SampledFrom(c).Draw(t, "splitBoundary")
	}
}

// deriveKey keeps c leading bits of base, flips bit c and (depending on tail) keeps or re-draws the rest.
func deriveKey(t *rapid.T, L int, base []byte) []byte {
	c := drawSplit(t, L)
	k := append([]byte{}, base...)
	flipBit(k, c)
	if c+1 < 8*L && rapid.Bool().Draw(t, "redrawTail") {
		r := randBytes(t, L, "tail")
		for i := c + 1; i < 8*L; i++ {
			if msmt.Bit(r, i) != msmt.Bit(k, i) {
				flipBit(k, i)
			}
		}
	}
	return k
}

func drawPool(t *rapid.T, L int, n int) [][]byte {
	seen := map[string]bool{}
	var pool [][]byte
	freshPct := rapid.SampledFrom([]int{20, 50, 5, 100}).Draw(t, "freshPct")
	for tries := 0; len(pool) < n && tries < 4*n; tries++ {
		var k []byte
		if len(pool) == 0 || irange(0, 99).Draw(t, "fresh") < freshPct {
			k = randBytes(t, L, "key")
		} else {
			k = deriveKey(t, L, pool[irange(0, len(pool)-1).Draw(t, "base")])
		}
		if !seen[string(k)] {
			seen[string(k)] = true
			pool = append(pool, k)
		}
	}
	return pool
}

func drawValues(t *rapid.T) [][]byte {
	n := irange(1, 4).Draw(t, "nValues")
	vals := make([][]byte, 0, n+1)
	for i := 0; i < n; i++ {
		vals = append(vals, randBytes(t, 32, "value"))
	}
	if irange(0, 5).Draw(t, "emptyHashValue") == 0 {
		// framework.stateSMTBatch.Del feeds H("") as a value: an ordinary non-empty 32-byte value for the trie
		vals = append(vals, msmt.EmptyHash())
	}
	return vals
}

func drawHistory(t *rapid.T) (*history, [][]byte, [][]byte) {
	L := rapid.SampledFrom(keyLengths).Draw(t, "L")
	h := &history{L: L, Store: rapid.SampledFrom([]string{"map", "map", "pebble", "batchdb"}).Draw(t, "store")}
	// (rapid biases integer draws towards small values and SampledFrom towards early elements: sizes are sampled
	// from explicit lists with the common cases first)
	pool := drawPool(t, L, rapid.SampledFrom([]int{8, 12, 5, 20, 3, 32, 2, 48, 1}).Draw(t, "poolSize"))
	vals := drawValues(t)
	nb := rapid.SampledFrom([]int{3, 2, 4, 1, 5, 6, 8, 7}).Draw(t, "batches")
	delPct := rapid.SampledFrom([]int{25, 10, 50}).Draw(t, "delPct")
	for b := 0; b < nb; b++ {
		var bt batch
		bt.Reopen = b > 0 && irange(0, 2).Draw(t, "reopen") == 0
		frac := rapid.SampledFrom([]int{60, 100, 30, 10, 60, 100, 30, 0}).Draw(t, "batchFrac") // 0 = empty batch (a block without state changes)
		size := (len(pool)*frac + 99) / 100
		perm := rapid.Permutation(seq(len(pool))).Draw(t, "order")
		for _, ix := range perm[:size] {
			o := op{Key: pool[ix]}
			if irange(0, 99).Draw(t, "del") >= delPct {
				o.Val = vals[irange(0, len(vals)-1).Draw(t, "val")]
			}
			bt.Ops = append(bt.Ops, o)
		}
		if len(bt.Ops) > 0 && irange(0, 11).Draw(t, "dupIdentical") == 0 {
			// labelled sub-domain: an identical duplicate (same key, same value) somewhere in the batch
			src := bt.Ops[irange(0, len(bt.Ops)-1).Draw(t, "dupSrc")]
			at := irange(0, len(bt.Ops)).Draw(t, "dupAt")
			bt.Ops = append(bt.Ops[:at], append([]op{src}, bt.Ops[at:]...)...)
		}
		h.Batches = append(h.Batches, bt)
	}
	return h, pool, vals
}

func seq(n int) []int {
	s := make([]int, n)
	for i := range s {
		s[i] = i
	}
	return s
}

// ---------------------------------------------------------------------------------------------------------------
// running a history against trie + model

type runner struct {
	h    *history
	st   store
	trie interface {
		Update(db smt.DBReadWriter, keys [][]byte, values [][]byte) ([]byte, error)
		Prove(db smt.DBReader, queryKeys [][]byte) (*smt.Proof, error)
	}
	root    []byte
	rawRoot []byte
	kv      map[string][]byte
	roots   [][]byte // roots after every batch (for "another root" tamperings)

	effectiveDeletes int
	absentDeletes    int
	overwrites       int
	dupBatches       int
	reopens          int
}

func newRunner(h *history) *runner {
	r := &runner{h: h, st: newStore(h.Store), kv: map[string][]byte{}, root: msmt.EmptyHash()}
	r.trie = smt.NewTrie(nil, h.L)
	return r
}

// apply runs batch i; it returns a non-empty description when the trie disagrees with the model.
func (r *runner) apply(i int) string {
	b := r.h.Batches[i]
	if b.Reopen {
		r.trie = smt.NewTrie(append([]byte{}, r.root...), r.h.L)
		r.reopens++
	}
	keys := make([][]byte, len(b.Ops))
	vals := make([][]byte, len(b.Ops))
	seen := map[string]bool{}
	for j, o := range b.Ops {
		keys[j] = append([]byte{}, o.Key...)
		vals[j] = append([]byte{}, o.Val...)
		if seen[string(o.Key)] {
			r.dupBatches++
			continue
		}
		seen[string(o.Key)] = true
		_, had := r.kv[string(o.Key)]
		switch {
		case len(o.Val) == 0 && had:
			r.effectiveDeletes++
			delete(r.kv, string(o.Key))
		case len(o.Val) == 0:
			r.absentDeletes++
		default:
			if had {
				r.overwrites++
			}
			r.kv[string(o.Key)] = o.Val
		}
	}
	w := r.st.begin()
	root, err := r.trie.Update(w, keys, vals)
	if err != nil {
		return fmt.Sprintf("batch %d: Update returned error: %v", i, err)
	}
	r.st.commit()
	want := msmt.Root(r.h.L, r.kv)
	if !bytes.Equal(root, want) {
		return fmt.Sprintf("batch %d: Update root %x != LIP-0039 root of the map %x (map has %d keys)", i, root, want, len(r.kv))
	}
	r.root = append([]byte{}, root...)
	r.rawRoot = root // the very slice Update returned (result-lifetime check)
	r.roots = append(r.roots, r.root)
	return ""
}

// rebuild: the final map inserted into a fresh trie/store in one sorted batch must give the same root
// (history independence without the model).
func rebuildRoot(L int, kv map[string][]byte) ([]byte, error) {
	keys := msmt.Keys(L, kv)
	vals := make([][]byte, len(keys))
	for i, k := range keys {
		vals[i] = kv[string(k)]
	}
	return smt.NewTrie(nil, L).Update(newMapStore(), keys, vals)
}

func maxSharedPrefix(L int, kv map[string][]byte) int {
	keys := msmt.Keys(L, kv)
	m := -1
	for i := 1; i < len(keys); i++ {
		if c := msmt.CommonPrefixBits(keys[i-1], keys[i]); c > m {
			m = c
		}
	}
	return m
}

func shareLabel(L, m int) string {
	switch {
	case m < 0:
		return "share:n/a(<2 keys)"
	case m >= 24:
		return "share:>=24bits(3+ subtree levels)"
	case m >= 16:
		return "share:16-23bits(2 subtree levels)"
	case m >= 8:
		return "share:8-15bits(1 subtree level)"
	}
	return "share:<8bits"
}

func sizeLabel(n int) string {
	switch {
	case n == 0:
		return "final:empty"
	case n == 1:
		return "final:1key"
	case n <= 4:
		return "final:2-4keys"
	case n <= 16:
		return "final:5-16keys"
	}
	return "final:>16keys"
}

// ---------------------------------------------------------------------------------------------------------------
// proofs

type tq struct{ Key, Value, Bitmap []byte }

// wire is a proof as it would arrive from outside: exported fields only.
type wire struct {
	Keys [][]byte
	Sib  [][]byte
	Q    []tq
	Root []byte
	L    int
}

func cp(b []byte) []byte { return append([]byte{}, b...) }

func wireOf(keys [][]byte, p *smt.Proof, root []byte, L int) *wire {
	w := &wire{Root: cp(root), L: L}
	for _, k := range keys {
		w.Keys = append(w.Keys, cp(k))
	}
	for _, s := range p.SiblingHashes {
		w.Sib = append(w.Sib, cp(s))
	}
	for _, q := range p.Queries {
		w.Q = append(w.Q, tq{cp(q.Key), cp(q.Value), cp(q.Bitmap)})
	}
	return w
}

func (w *wire) clone() *wire {
	c := &wire{Root: cp(w.Root), L: w.L}
	for _, k := range w.Keys {
		c.Keys = append(c.Keys, cp(k))
	}
	for _, s := range w.Sib {
		c.Sib = append(c.Sib, cp(s))
	}
	for _, q := range w.Q {
		c.Q = append(c.Q, tq{cp(q.Key), cp(q.Value), cp(q.Bitmap)})
	}
	return c
}

func (w *wire) proof() *smt.Proof {
	p := &smt.Proof{SiblingHashes: []codec.Hex{}, Queries: []*smt.QueryProof{}}
	for _, s := range w.Sib {
		p.SiblingHashes = append(p.SiblingHashes, cp(s))
	}
	for _, q := range w.Q {
		p.Queries = append(p.Queries, &smt.QueryProof{Key: cp(q.Key), Value: cp(q.Value), Bitmap: cp(q.Bitmap)})
	}
	return p
}

func (w *wire) equal(o *wire) bool {
	if w.L != o.L || !bytes.Equal(w.Root, o.Root) || len(w.Keys) != len(o.Keys) || len(w.Sib) != len(o.Sib) || len(w.Q) != len(o.Q) {
		return false
	}
	for i := range w.Keys {
		if !bytes.Equal(w.Keys[i], o.Keys[i]) {
			return false
		}
	}
	for i := range w.Sib {
		if !bytes.Equal(w.Sib[i], o.Sib[i]) {
			return false
		}
	}
	for i := range w.Q {
		if !bytes.Equal(w.Q[i].Key, o.Q[i].Key) || !bytes.Equal(w.Q[i].Value, o.Q[i].Value) || !bytes.Equal(w.Q[i].Bitmap, o.Q[i].Bitmap) {
			return false
		}
	}
	return true
}

func (w *wire) String() string {
	var sb strings.Builder
	fmt.Fprintf(&sb, "keyLength=%d root=%x\n", w.L, w.Root)
	for i, k := range w.Keys {
		fmt.Fprintf(&sb, "  queryKey[%d]=%x\n", i, k)
	}
	for i, q := range w.Q {
		fmt.Fprintf(&sb, "  query[%d]: key=%x value=%x bitmap=%x\n", i, q.Key, q.Value, q.Bitmap)
	}
	for i, s := range w.Sib {
		fmt.Fprintf(&sb, "  sibling[%d]=%x\n", i, s)
	}
	return sb.String()
}

// verify calls smt.Verify, converting a panic into (false, nil, panicValue).
func (w *wire) verify() (ok bool, err error, pv any) {
	defer func() {
		if r := recover(); r != nil {
			ok, err, pv = false, nil, r
		}
	}()
	ok, err = smt.Verify(w.Keys, w.proof(), w.Root, w.L)
	return ok, err, nil
}

// claims returns "" when everything the proof asserts is true of kv; skip[i] exempts query i.
func (w *wire) claims(kv map[string][]byte, skip map[int]bool) string {
	if len(w.Keys) != len(w.Q) {
		return "number of query keys differs from number of queries"
	}
	for i := range w.Keys {
		if skip[i] {
			continue
		}
		if s := w.claim(kv, i); s != "" {
			return s
		}
	}
	return ""
}

func (w *wire) claim(kv map[string][]byte, i int) string {
	if len(w.Keys[i]) != w.L || len(w.Q[i].Key) != w.L {
		return fmt.Sprintf("query %d: key of wrong length accepted", i)
	}
	if s := msmt.ClaimsHold(kv, w.Keys[i], w.Q[i].Key, w.Q[i].Value); s != "" {
		return fmt.Sprintf("query %d (queryKey=%x proofKey=%x proofValue=%x): %s", i, w.Keys[i], w.Q[i].Key, w.Q[i].Value, s)
	}
	return ""
}

// Known findings C10-F1/C10-F2: smt.Verify de-duplicates the queries of a proof by bytes.FromBools(path), which
// (F1) packs the path right-aligned and so forgets its length ("1" and "01" collide) and (F2) keeps the first query
// of a path without comparing the dropped one with it. A dropped query is not verified at all.
const (
	sigPathAlias = "verify:filter-key-drops-path-length" // C10-F1
	sigSamePath  = "verify:same-path-query-not-compared" // C10-F2
)

// shadowed returns, per query index, the signature of the finding by which Verify ignores that query ("" = it is
// verified): an earlier query has the same packed path but is a different node (F1) or has other contents (F2).
func (w *wire) shadowed() map[int]string {
	type first struct {
		bits string
		leaf string
	}
	seen := map[string]first{}
	out := map[int]string{}
	for i, q := range w.Q {
		h := 0
		for _, b := range q.Bitmap {
			if h == 0 {
				for x := b; x != 0; x >>= 1 {
					h++
				}
			} else {
				h += 8
			}
		}
		if h > 8*len(q.Key) {
			return out // Verify cannot get past this query (S3)
		}
		bits := make([]byte, h)
		packed := make([]byte, (h+7)/8)
		off := len(packed)*8 - h
		for j := 0; j < h; j++ {
			bits[j] = '0'
			if msmt.Bit(q.Key, j) {
				bits[j] = '1'
				packed[(off+j)/8] |= 0x80 >> uint((off+j)%8)
			}
		}
		leaf := "empty"
		if len(q.Value) > 0 {
			leaf = string(q.Key) + "=" + string(q.Value)
		}
		f, ok := seen[string(packed)]
		if !ok {
			seen[string(packed)] = first{string(bits), leaf}
			continue
		}
		if f.bits != string(bits) {
			out[i] = sigPathAlias
		} else if f.leaf != leaf {
			out[i] = sigSamePath
		}
	}
	return out
}

func sortedKeys(kv map[string][]byte) [][]byte {
	out := make([][]byte, 0, len(kv))
	for k := range kv {
		out = append(out, []byte(k))
	}
	sort.Slice(out, func(i, j int) bool { return bytes.Compare(out[i], out[j]) < 0 })
	return out
}

// drawQueries: present, absent from the pool (near, derived keys), absent near a present key, absent far, duplicates.
func drawQueries(t *rapid.T, L int, kv map[string][]byte, pool [][]byte) ([][]byte, []string) {
	present := sortedKeys(kv)
	n := rapid.SampledFrom([]int{2, 3, 1, 4, 6, 5}).Draw(t, "nQueries")
	var qs [][]byte
	var kinds []string
	avoid := avoidF1()
	filter := newAliasFilter(L, kv)
	for i := 0; i < n; i++ {
		kind := rapid.SampledFrom([]string{"present", "present", "pool", "near", "far", "dup"}).Draw(t, "qKind")
		var k []byte
		switch kind {
		case "present":
			if len(present) == 0 {
				k = randBytes(t, L, "qFar")
			} else {
				k = present[irange(0, len(present)-1).Draw(t, "qPresent")]
			}
		case "pool":
			k = pool[irange(0, len(pool)-1).Draw(t, "qPool")]
		case "near":
			base := pool[irange(0, len(pool)-1).Draw(t, "qNearBase")]
			if len(present) > 0 && rapid.Bool().Draw(t, "qNearPresent") {
				base = present[irange(0, len(present)-1).Draw(t, "qNearPresentIx")]
			}
			k = deriveKey(t, L, base)
		case "far":
			k = randBytes(t, L, "qFar")
		case "dup":
			if len(qs) == 0 {
				k = randBytes(t, L, "qFar")
			} else {
				k = qs[irange(0, len(qs)-1).Draw(t, "qDup")]
			}
		}
		if avoid && filter.add(k) {
			// known finding C10-F1: keep the search behind it
			evid.R.Excluded(1)
			continue
		}
		qs = append(qs, cp(k))
		kinds = append(kinds, kind)
	}
	if len(qs) == 0 {
		qs, kinds = append(qs, randBytes(t, L, "qFar")), append(kinds, "far")
	}
	return qs, kinds
}

// avoidF1: while C10-F1 is listed as known (TestRegressVerifyPathAlias reports it in every run) the generators do
// not ask for two nodes whose packed paths collide, so that the search continues behind the defect.
func avoidF1() bool { return evid.R.IsKnown(sigPathAlias) }

// packedPath mimics bytes.FromBools(path): the path bits right-aligned in whole bytes (the length is lost).
func packedPath(path string) string {
	packed := make([]byte, (len(path)+7)/8)
	off := len(packed)*8 - len(path)
	for i := 0; i < len(path); i++ {
		if path[i] == '1' {
			packed[(off+i)/8] |= 0x80 >> uint((off+i)%8)
		}
	}
	return string(packed)
}

// aliasFilter tracks the nodes asked for so far; add reports whether key would end in a node whose packed path
// collides with a different node already asked for (the trigger of C10-F1).
type aliasFilter struct {
	L    int
	kv   map[string][]byte
	keys [][]byte
	seen map[string]string
}

func newAliasFilter(L int, kv map[string][]byte) *aliasFilter {
	return &aliasFilter{L: L, kv: kv, keys: msmt.Keys(L, kv), seen: map[string]string{}}
}

func (f *aliasFilter) add(key []byte) (alias bool) {
	path := msmt.QuerySorted(f.L, f.kv, f.keys, key).Path()
	pk := packedPath(path)
	if prev, ok := f.seen[pk]; ok {
		return prev != path
	}
	f.seen[pk] = path
	return false
}

// dropAliases removes the queries that would make the set hit C10-F1 (only while that finding is listed as known).
func dropAliases(L int, kv map[string][]byte, qs [][]byte) [][]byte {
	if !avoidF1() {
		return qs
	}
	f := newAliasFilter(L, kv)
	var out [][]byte
	for _, q := range qs {
		if f.add(q) {
			evid.R.Excluded(1)
			continue
		}
		out = append(out, q)
	}
	return out
}

// pathAlias reports whether two of the queried nodes have different paths that bytes.FromBools maps to the same
// byte string (right-aligned packing drops the path length: e.g. "1" and "01"). Signature of finding C10-F1.
func pathAlias(L int, kv map[string][]byte, qs [][]byte) bool {
	f := newAliasFilter(L, kv)
	for _, q := range qs {
		if f.add(q) {
			return true
		}
	}
	return false
}

type proofStats struct {
	present, absent int
}

// checkProof: completeness, stated answers, codec round trip. Returns the honest wire proof (nil when the case
// hit a known finding and was skipped) .
// lastProveResult is the object Prove returned in the latest checkProof call (kept for the result-lifetime check of TestHistory).
var lastProveResult *smt.Proof

// heldProof is a Prove result that stays in the caller's hands while the trie is used further (more Prove calls, more batches):
// the proof OBJECT, the root slice Update returned, and deep copies of both taken at the time.
type heldProof struct {
	qs       [][]byte
	p        *smt.Proof
	w        *wire
	root     []byte
	rootCopy []byte
	after    int
}

// recheckHeld: every held proof must still be what it was and must still verify against the root it was generated for (seeded change
// C11-v showed the class for the regular Merkle tree: a result that is a window of per-object scratch space verifies right after it
// is produced and is rewritten by the next call).
func recheckHeld(t *rapid.T, L int, held []*heldProof, when string, ctx func() string) {
	for _, h := range held {
		if !bytes.Equal(h.root, h.rootCopy) {
			t.Fatalf("the root slice returned by Update after batch %d was rewritten later (%s): was %x, now %x\n%s", h.after, when, h.rootCopy, h.root, ctx())
		}
		now := wireOf(h.qs, h.p, h.rootCopy, L)
		if !h.w.equal(now) {
			t.Fatalf("a proof handed out after batch %d changed while the trie was used further (%s):\nas generated %s\nnow %s\n%s", h.after, when, h.w, now, ctx())
		}
		if ok, verr, pv := now.verify(); !ok || verr != nil || pv != nil {
			t.Fatalf("a proof handed out after batch %d no longer verifies against the root it was generated for (%s): %v %v %v\n%s%s", h.after, when, ok, verr, pv, now, ctx())
		}
		evid.R.Label("held-proof-rechecked", 1)
	}
}

func checkProof(t *rapid.T, r *runner, qs [][]byte, ctx func() string) (*wire, proofStats) {
	L := r.h.L
	var st proofStats
	for _, k := range qs {
		if msmt.Present(r.kv, k) {
			st.present++
		} else {
			st.absent++
		}
	}
	p, err := r.trie.Prove(r.st.reader(), qs)
	if err != nil {
		t.Fatalf("Prove returned error %v\nqueries=%x\n%s", err, qs, ctx())
	}
	if len(p.Queries) != len(qs) {
		t.Fatalf("Prove returned %d queries for %d query keys\n%s", len(p.Queries), len(qs), ctx())
	}
	w := wireOf(qs, p, r.root, L)
	lastProveResult = p
	for i, k := range qs {
		q := w.Q[i]
		if msmt.Present(r.kv, k) {
			if !bytes.Equal(q.Key, k) || !bytes.Equal(q.Value, r.kv[string(k)]) {
				t.Fatalf("proof does not show the stored value of present key %x: got key=%x value=%x want value=%x\n%s%s", k, q.Key, q.Value, r.kv[string(k)], w, ctx())
			}
		} else if bytes.Equal(q.Key, k) && len(q.Value) != 0 {
			t.Fatalf("proof shows a value for absent key %x: value=%x\n%s%s", k, q.Value, w, ctx())
		}
	}
	if s := w.claims(r.kv, nil); s != "" {
		t.Fatalf("honest proof asserts something false: %s\n%s%s", s, w, ctx())
	}
	// Prove's output against the proof the reference model prescribes for these query keys (answers AND sibling
	// hashes). Prove and Verify share helpers (query order, sibling test, bitmap packing): a change in one of them
	// keeps Verify(Prove(keys)) true while both leave LIP-0039, and every soundness test built on model-assembled
	// proofs (tamperings of this proof, forged_test.go, resplit_test.go) would then be rejected for the wrong reason.
	mw := modelProof(L, r.kv, qs, r.root)
	if d := w.diffFromModel(mw); d != "" {
		t.Fatalf("Prove's proof differs from the LIP-0039 proof of the reference model (%s)\nProve: %s\nmodel: %s%s", d, w, mw, ctx())
	}
	evid.R.Label("proof-answers:equal-LIP-0039-model(key,value,bitmap,siblingHashes)", 1)
	// (the proof verified below is therefore byte for byte the model's proof as well)
	ok, verr, pv := w.verify()
	if !ok || verr != nil || pv != nil {
		if pathAlias(L, r.kv, qs) && evid.R.KnownFinding(sigPathAlias) {
			evid.R.Label("proof:skipped(known C10-F1 path alias)", 1)
			return nil, st
		}
		t.Fatalf("Verify(Prove(keys)) = %v, err=%v, panic=%v on the real root\n%s%s", ok, verr, pv, w, ctx())
	}
	// codec round trip
	enc := p.Encode()
	dec := &smt.Proof{}
	if err := dec.Decode(enc); err != nil {
		t.Fatalf("Proof.Decode(Encode(p)) error %v\n%s", err, w)
	}
	w2 := wireOf(qs, dec, r.root, L)
	if !w.equal(w2) {
		t.Fatalf("proof changed in Encode/Decode:\nbefore %s\nafter %s", w, w2)
	}
	if ok, verr, pv := w2.verify(); !ok || verr != nil || pv != nil {
		t.Fatalf("decoded proof does not verify: %v %v %v\n%s", ok, verr, pv, w2)
	}
	if !bytes.Equal(dec.Encode(), enc) {
		t.Fatalf("re-encoding the decoded proof gives different bytes\n%s", w)
	}
	strict := &smt.Proof{}
	if err := strict.DecodeStrict(enc); err != nil {
		t.Fatalf("Proof.DecodeStrict(Encode(p)) error %v\n%s", err, w)
	}
	if !w.equal(wireOf(qs, strict, r.root, L)) {
		t.Fatalf("proof changed in Encode/DecodeStrict\n%s", w)
	}
	return w, st
}

// packBitmap renders a model bitmap the way the trie does: bitmap[0] (deepest level, always set) is the most
// significant bit, the level below the root the least significant one; big-endian, no leading zero byte.
func packBitmap(bm []bool) []byte {
	h := len(bm)
	out := make([]byte, (h+7)/8)
	for i := 0; i < h; i++ {
		if bm[i] {
			sig := h - 1 - i // significance of this bit
			out[len(out)-1-sig/8] |= 1 << uint(sig%8)
		}
	}
	return out
}

// modelProof is the proof LIP-0039 prescribes for the query keys, built from the reference model alone: the answer
// to every key (msmt.QueryWithSiblings: key, value, bitmap, sibling hash per level) and the sibling-hash list in the
// order the LIP-0039 verification loop consumes it (assembleSiblings: queue by height descending, then key; sibling
// queries merge; queries ending in the same node count once). Nothing of pkg/trie/smt is involved.
func modelProof(L int, kv map[string][]byte, qs [][]byte, root []byte) *wire {
	m := &wire{Root: cp(root), L: L}
	fqs := make([]*fq, 0, len(qs))
	for _, k := range qs {
		a := msmt.QueryWithSiblings(L, kv, k)
		fqs = append(fqs, &fq{QK: cp(k), Key: a.Key, Value: a.Value, Bm: a.Bitmap, Sib: a.Siblings})
		m.Keys = append(m.Keys, cp(k))
		m.Q = append(m.Q, tq{cp(a.Key), cp(a.Value), packBitmap(a.Bitmap)})
	}
	for _, s := range assembleSiblings(fqs).sib {
		m.Sib = append(m.Sib, cp(s))
	}
	return m
}

// diffFromModel compares a proof (as returned by Prove) with the model's proof for the same query keys; "" = equal in
// every query (key, value, bitmap) and in the sibling-hash list (number, order, contents).
func (w *wire) diffFromModel(m *wire) string {
	if len(w.Q) != len(m.Q) {
		return fmt.Sprintf("%d queries, model has %d", len(w.Q), len(m.Q))
	}
	for i := range w.Q {
		a, b := w.Q[i], m.Q[i]
		switch {
		case !bytes.Equal(a.Key, b.Key):
			return fmt.Sprintf("query %d (query key %x): key %x, model %x", i, m.Keys[i], a.Key, b.Key)
		case !bytes.Equal(a.Value, b.Value):
			return fmt.Sprintf("query %d (query key %x): value %x, model %x", i, m.Keys[i], a.Value, b.Value)
		case !bytes.Equal(a.Bitmap, b.Bitmap):
			return fmt.Sprintf("query %d (query key %x): bitmap %x, model %x", i, m.Keys[i], a.Bitmap, b.Bitmap)
		}
	}
	if len(w.Sib) != len(m.Sib) {
		return fmt.Sprintf("%d sibling hashes, model has %d", len(w.Sib), len(m.Sib))
	}
	for i := range w.Sib {
		if !bytes.Equal(w.Sib[i], m.Sib[i]) {
			return fmt.Sprintf("sibling hash %d is %x, model %x (same multiset in another order: %v)", i, w.Sib[i], m.Sib[i], sameHashSet(w.Sib, m.Sib))
		}
	}
	return ""
}

func sameHashSet(a, b [][]byte) bool {
	if len(a) != len(b) {
		return false
	}
	n := map[string]int{}
	for _, x := range a {
		n[string(x)]++
	}
	for _, x := range b {
		n[string(x)]--
	}
	for _, v := range n {
		if v != 0 {
			return false
		}
	}
	return true
}

// ---------------------------------------------------------------------------------------------------------------
// tampering

var tamperKinds = []string{
	"value-bit", "value-other", "value-to-empty", "value-from-empty",
	"key-bit", "key-other",
	"querykey-other", "querykey-bit",
	"bitmap-bit", "bitmap-resize",
	"sibling-drop", "sibling-bit", "sibling-insert", "sibling-swap",
	"queries-swap", "query-drop", "query-forged", "query-forged-climbing",
	"root-other", "keylength-other",
}

// bitmapHeight: number of significant bits of a proof bitmap (= height of the query's node).
func bitmapHeight(bm []byte) int {
	h := 8 * len(bm)
	for _, b := range bm {
		if b == 0 {
			h -= 8
			continue
		}
		for m := byte(0x80); m != 0 && b&m == 0; m >>= 1 {
			h--
		}
		break
	}
	return h
}

func drawOtherKey(t *rapid.T, L int, kv map[string][]byte, pool [][]byte, not []byte) []byte {
	present := sortedKeys(kv)
	for tries := 0; tries < 4; tries++ {
		var k []byte
		switch irange(0, 3).Draw(t, "otherKeyKind") {
		case 0:
			if len(present) > 0 {
				k = present[irange(0, len(present)-1).Draw(t, "otherPresent")]
			}
		case 1:
			k = pool[irange(0, len(pool)-1).Draw(t, "otherPool")]
		case 2:
			k = deriveKey(t, L, not)
		}
		if k == nil {
			k = randBytes(t, L, "otherFar")
		}
		if !bytes.Equal(k, not) {
			return cp(k)
		}
	}
	k := cp(not)
	flipBit(k, 8*L-1)
	return k
}

// tamper applies one drawn single-field tampering to a copy of w. ok=false: kind not applicable to this proof.
func tamper(t *rapid.T, w *wire, kind string, r *runner, pool, vals [][]byte) (*wire, string, bool) {
	c := w.clone()
	L := w.L
	nq := len(c.Q)
	qi := 0
	if nq > 0 {
		qi = irange(0, nq-1).Draw(t, "tq")
	}
	switch kind {
	case "value-bit":
		if len(c.Q[qi].Value) == 0 {
			return nil, "", false
		}
		b := irange(0, 8*len(c.Q[qi].Value)-1).Draw(t, "bit")
		flipBit(c.Q[qi].Value, b)
		return c, fmt.Sprintf("flip bit %d of query[%d].value", b, qi), true
	case "value-other":
		if len(c.Q[qi].Value) == 0 {
			return nil, "", false
		}
		v := vals[irange(0, len(vals)-1).Draw(t, "v")]
		if irange(0, 3).Draw(t, "vKind") == 0 {
			v = v[:irange(1, 31).Draw(t, "vLen")]
		}
		c.Q[qi].Value = cp(v)
		return c, fmt.Sprintf("replace query[%d].value by %x", qi, v), true
	case "value-to-empty":
		if len(c.Q[qi].Value) == 0 {
			return nil, "", false
		}
		c.Q[qi].Value = []byte{}
		return c, fmt.Sprintf("empty query[%d].value (inclusion -> absence)", qi), true
	case "value-from-empty":
		if len(c.Q[qi].Value) != 0 {
			return nil, "", false
		}
		c.Q[qi].Value = cp(vals[irange(0, len(vals)-1).Draw(t, "v")])
		return c, fmt.Sprintf("set query[%d].value (absence -> inclusion)", qi), true
	case "key-bit":
		b := irange(0, 8*L-1).Draw(t, "bit")
		flipBit(c.Q[qi].Key, b)
		return c, fmt.Sprintf("flip bit %d of query[%d].key", b, qi), true
	case "key-other":
		c.Q[qi].Key = drawOtherKey(t, L, r.kv, pool, c.Q[qi].Key)
		return c, fmt.Sprintf("replace query[%d].key by %x", qi, c.Q[qi].Key), true
	case "querykey-other":
		c.Keys[qi] = drawOtherKey(t, L, r.kv, pool, c.Keys[qi])
		return c, fmt.Sprintf("replace queryKey[%d] by %x", qi, c.Keys[qi]), true
	case "querykey-bit":
		b := irange(0, 8*L-1).Draw(t, "bit")
		flipBit(c.Keys[qi], b)
		return c, fmt.Sprintf("flip bit %d of queryKey[%d]", b, qi), true
	case "bitmap-bit":
		if len(c.Q[qi].Bitmap) == 0 {
			if L < 1 {
				return nil, "", false
			}
			c.Q[qi].Bitmap = []byte{byte(1 << uint(irange(0, 7).Draw(t, "bit")))}
			return c, fmt.Sprintf("set query[%d].bitmap to %x", qi, c.Q[qi].Bitmap), true
		}
		b := irange(0, 8*len(c.Q[qi].Bitmap)-1).Draw(t, "bit")
		flipBit(c.Q[qi].Bitmap, b)
		return c, fmt.Sprintf("flip bit %d of query[%d].bitmap", b, qi), true
	case "bitmap-resize":
		bm := c.Q[qi].Bitmap
		switch irange(0, 3).Draw(t, "resize") {
		case 0:
			if len(bm) == 0 {
				return nil, "", false
			}
			c.Q[qi].Bitmap = bm[1:]
		case 1:
			if len(bm) == 0 {
				return nil, "", false
			}
			c.Q[qi].Bitmap = bm[:len(bm)-1]
		case 2:
			if len(bm) >= L { // longer bitmaps than the key are the S3 panic (C09), not this property
				return nil, "", false
			}
			c.Q[qi].Bitmap = append([]byte{byte(irange(1, 255).Draw(t, "newTop"))}, bm...)
		case 3:
			if len(bm) >= L {
				return nil, "", false
			}
			c.Q[qi].Bitmap = append(cp(bm), byte(irange(0, 255).Draw(t, "newLow")))
			if len(bm) == 0 && c.Q[qi].Bitmap[0] == 0 {
				c.Q[qi].Bitmap[0] = 1
			}
		}
		return c, fmt.Sprintf("resize query[%d].bitmap to %x", qi, c.Q[qi].Bitmap), true
	case "sibling-drop":
		if len(c.Sib) == 0 {
			return nil, "", false
		}
		i := irange(0, len(c.Sib)-1).Draw(t, "sib")
		c.Sib = append(c.Sib[:i], c.Sib[i+1:]...)
		return c, fmt.Sprintf("drop sibling[%d]", i), true
	case "sibling-bit":
		if len(c.Sib) == 0 {
			return nil, "", false
		}
		i := irange(0, len(c.Sib)-1).Draw(t, "sib")
		b := irange(0, 255).Draw(t, "bit")
		flipBit(c.Sib[i], b)
		return c, fmt.Sprintf("flip bit %d of sibling[%d]", b, i), true
	case "sibling-insert":
		i := irange(0, len(c.Sib)).Draw(t, "sib")
		var hsh []byte
		switch irange(0, 3).Draw(t, "insKind") {
		case 0:
			hsh = msmt.EmptyHash()
		case 1:
			if len(c.Sib) > 0 {
				hsh = cp(c.Sib[irange(0, len(c.Sib)-1).Draw(t, "insDup")])
			}
		case 2:
			if len(r.kv) > 0 {
				ks := sortedKeys(r.kv)
				k := ks[irange(0, len(ks)-1).Draw(t, "insLeaf")]
				hsh = msmt.LeafHash(k, r.kv[string(k)])
			}
		}
		if hsh == nil {
			hsh = randBytes(t, 32, "insRandom")
		}
		c.Sib = append(c.Sib[:i], append([][]byte{hsh}, c.Sib[i:]...)...)
		return c, fmt.Sprintf("insert sibling %x at %d", hsh, i), true
	case "sibling-swap":
		if len(c.Sib) < 2 {
			return nil, "", false
		}
		i := irange(0, len(c.Sib)-2).Draw(t, "sib")
		j := irange(i+1, len(c.Sib)-1).Draw(t, "sib2")
		c.Sib[i], c.Sib[j] = c.Sib[j], c.Sib[i]
		return c, fmt.Sprintf("swap sibling[%d] and sibling[%d]", i, j), true
	case "queries-swap":
		if nq < 2 {
			return nil, "", false
		}
		j := irange(0, nq-2).Draw(t, "tq2")
		if j >= qi {
			j++
		}
		c.Q[qi], c.Q[j] = c.Q[j], c.Q[qi]
		return c, fmt.Sprintf("swap query[%d] and query[%d] (query keys unchanged)", qi, j), true
	case "query-drop":
		if nq < 2 {
			return nil, "", false
		}
		c.Q = append(c.Q[:qi], c.Q[qi+1:]...)
		what := "query"
		if rapid.Bool().Draw(t, "dropKeyToo") {
			c.Keys = append(c.Keys[:qi], c.Keys[qi+1:]...)
			what = "query and its query key"
		}
		return c, fmt.Sprintf("drop %s %d", what, qi), true
	case "query-forged":
		// one forged (queryKey, query) pair appended: whatever it says must be true if the proof still verifies
		k := drawOtherKey(t, L, r.kv, pool, c.Keys[qi])
		f := tq{Key: cp(k)}
		switch irange(0, 2).Draw(t, "forgedKey") {
		case 0:
			f.Key = drawOtherKey(t, L, r.kv, pool, k)
		}
		switch irange(0, 2).Draw(t, "forgedValue") {
		case 0:
			f.Value = []byte{}
		case 1:
			f.Value = cp(vals[irange(0, len(vals)-1).Draw(t, "v")])
		default:
			f.Value = randBytes(t, 32, "forgedRandomValue")
		}
		switch irange(0, 2).Draw(t, "forgedBitmap") {
		case 0:
			f.Bitmap = cp(c.Q[qi].Bitmap)
		case 1:
			f.Bitmap = []byte{byte(irange(1, 255).Draw(t, "forgedBm"))}
		default:
			n := irange(1, min(L, 3)).Draw(t, "forgedBmLen")
			f.Bitmap = randBytes(t, n, "forgedBmBytes")
			if f.Bitmap[0] == 0 {
				f.Bitmap[0] = 1
			}
		}
		c.Keys = append(c.Keys, k)
		c.Q = append(c.Q, f)
		return c, fmt.Sprintf("append forged pair queryKey=%x key=%x value=%x bitmap=%x", k, f.Key, f.Value, f.Bitmap), true
	case "query-forged-climbing":
		// a forged query one level below the deepest honest query, on the same path, with its own forged sibling hash placed
		// where it will be consumed first: after one step it climbs onto the honest query's path (two fields change, but it is
		// the one forgery shape in which the forged node never has to match anything if merged queries are not compared)
		best, bh := -1, -1
		for i := range c.Q {
			if h := bitmapHeight(c.Q[i].Bitmap); h > bh {
				best, bh = i, h
			}
		}
		if best < 0 || bh < 1 || bh+1 > 8*L {
			return nil, "", false
		}
		k := cp(c.Q[best].Key)
		// keep the first bh bits (the honest path), choose the next bit, randomise the rest
		rest := randBytes(t, L, "climbRest")
		for bit := bh; bit < 8*L; bit++ {
			if rest[bit/8]&(0x80>>uint(bit%8)) != 0 {
				k[bit/8] |= 0x80 >> uint(bit%8)
			} else {
				k[bit/8] &^= 0x80 >> uint(bit%8)
			}
		}
		f := tq{Key: cp(k)}
		if irange(0, 3).Draw(t, "climbEmpty") == 0 {
			f.Value = []byte{}
		} else {
			f.Value = randBytes(t, 32, "climbValue")
		}
		// bitmap of height bh+1: top bit set (a sibling hash is consumed), the remaining bits copy the honest bitmap
		nb := (bh + 1 + 7) / 8
		bm := make([]byte, nb)
		hb := c.Q[best].Bitmap
		for i := 0; i < len(hb) && i < nb; i++ {
			bm[nb-1-i] = hb[len(hb)-1-i]
		}
		bm[nb-1-bh/8] |= 1 << uint(bh%8)
		f.Bitmap = bm
		c.Keys = append(c.Keys, cp(k))
		c.Q = append(c.Q, f)
		c.Sib = append([][]byte{randBytes(t, 32, "climbSibling")}, c.Sib...)
		return c, fmt.Sprintf("append forged climbing pair key=%x value=%x bitmap=%x below query[%d] plus one forged sibling hash in front", f.Key, f.Value, f.Bitmap, best), true
	case "root-other":
		var o []byte
		switch irange(0, 3).Draw(t, "rootKind") {
		case 0:
			o = msmt.EmptyHash()
		case 1:
			o = cp(r.roots[irange(0, len(r.roots)-1).Draw(t, "oldRoot")])
		case 2:
			o = cp(w.Root)
			flipBit(o, irange(0, 255).Draw(t, "bit"))
		default:
			o = randBytes(t, 32, "randomRoot")
		}
		c.Root = o
		return c, fmt.Sprintf("verify against root %x", o), true
	case "keylength-other":
		var c2 []int
		for _, l := range []int{1, 2, 4, 12, 31, 32, 33, 38} {
			if l != L {
				c2 = append(c2, l)
			}
		}
		c.L = rapid.SampledFrom(c2).Draw(t, "otherL")
		return c, fmt.Sprintf("verify with key length %d", c.L), true
	}
	return nil, "", false
}

// checkTampered: if the tampered proof still verifies, everything it says must be true and the root the real one.
func checkTampered(t *rapid.T, r *runner, honest *wire, st proofStats, pool, vals [][]byte, ctx func() string) {
	n := irange(1, 4).Draw(t, "nTamper")
	for i := 0; i < n; i++ {
		var c *wire
		var desc, kind string
		ok := false
		for tries := 0; tries < 6 && !ok; tries++ {
			kind = rapid.SampledFrom(tamperKinds).Draw(t, "tamperKind")
			c, desc, ok = tamper(t, honest, kind, r, pool, vals)
		}
		if !ok {
			continue
		}
		outcome := ""
		if c.equal(honest) {
			outcome = "noop"
		} else {
			got, verr, pv := c.verify()
			switch {
			case pv != nil:
				// a crash on malformed input is property C09's subject (S3); here it only means "did not verify"
				outcome = "panic(not-verified;C09-domain)"
				evid.R.Note("Verify panicked on tampered proof (%s): %v", kind, pv)
			case got && verr == nil:
				if !bytes.Equal(c.Root, r.root) {
					t.Fatalf("SOUNDNESS: tampered proof verifies against a root that is not the trie's root (%s)\nreal root %x\ntampered: %s\nhonest: %s%s", desc, r.root, c, honest, ctx())
				}
				if c.L != r.h.L {
					t.Fatalf("SOUNDNESS: proof verifies with key length %d (trie has %d) (%s)\n%s%s", c.L, r.h.L, desc, c, ctx())
				}
				sh := c.shadowed()
				skip := map[int]bool{}
				if len(c.Keys) == len(c.Q) {
					for qi, sig := range sh {
						if c.claim(r.kv, qi) != "" && evid.R.KnownFinding(sig) {
							skip[qi] = true
						}
					}
				}
				if s := c.claims(r.kv, skip); s != "" {
					t.Fatalf("SOUNDNESS: tampered proof verifies but asserts something false: %s\ntampering: %s\ntampered: %s\nhonest: %s%s", s, desc, c, honest, ctx())
				}
				if len(skip) > 0 {
					outcome = "accepted(false claim in a query Verify ignores: known C10-F1/F2)"
					evid.R.Excluded(1)
					break
				}
				outcome = "accepted(all claims true)"
			case got:
				outcome = "true-with-error"
				t.Fatalf("Verify returned true together with error %v (%s)\n%s%s", verr, desc, c, ctx())
			case verr != nil:
				outcome = "rejected(error)"
			default:
				outcome = "rejected(false)"
			}
		}
		evid.R.Case("t|"+desc+"|"+honest.String()+"|"+string(c.Root), st.present > 0 && st.absent > 0,
			func() any {
				return map[string]any{"kind": "tamper", "tampering": desc, "outcome": outcome, "keyLength": honest.L, "queries": len(honest.Q), "siblings": len(honest.Sib)}
			},
			"tamper", "tamper:"+kind, "tamper-outcome:"+outcome)
	}
}

// ---------------------------------------------------------------------------------------------------------------
// the main property

func TestHistory(t *testing.T) {
	rapid.Check(t, func(t *rapid.T) {
		h, pool, vals := drawHistory(t)
		r := newRunner(h)
		defer r.st.close()
		ctx := func() string { return "history:\n" + h.String() }
		proofAfter := map[int]bool{len(h.Batches) - 1: true}
		if len(h.Batches) > 1 && rapid.Bool().Draw(t, "midProof") {
			proofAfter[irange(0, len(h.Batches)-2).Draw(t, "midProofAt")] = true
		}
		var held []*heldProof
		for i := range h.Batches {
			if s := r.apply(i); s != "" {
				t.Fatalf("%s\n%s", s, ctx())
			}
			recheckHeld(t, h.L, held, fmt.Sprintf("after batch %d", i), ctx)
			if !proofAfter[i] {
				continue
			}
			nSets := irange(1, 2).Draw(t, "querySets")
			for s := 0; s < nSets; s++ {
				qs, kinds := drawQueries(t, h.L, r.kv, pool)
				pctx := func() string { return fmt.Sprintf("proof taken after batch %d\n%s", i, ctx()) }
				w, st := checkProof(t, r, qs, pctx)
				if w != nil {
					held = append(held, &heldProof{qs: qs, p: lastProveResult, w: w, root: r.rawRoot, rootCopy: append([]byte{}, r.root...), after: i})
					recheckHeld(t, h.L, held, fmt.Sprintf("after the next Prove following batch %d", i), ctx)
				}
				labels := []string{"proof", fmt.Sprintf("proof:L=%d", h.L), "proof:store=" + h.Store}
				switch {
				case st.present > 0 && st.absent > 0:
					labels = append(labels, "proof:present+absent")
				case st.present > 0:
					labels = append(labels, "proof:present-only")
				default:
					labels = append(labels, "proof:absent-only")
				}
				for _, k := range uniq(kinds) {
					labels = append(labels, "query-kind:"+k)
				}
				if len(r.kv) == 0 {
					labels = append(labels, "proof:empty-trie")
				}
				if hasDup(qs) {
					labels = append(labels, "proof:duplicate-query-keys")
				}
				if pathAlias(h.L, r.kv, qs) {
					labels = append(labels, "proof:aliasing-paths(C10-F1 shape)")
				}
				evid.R.Case(fmt.Sprintf("p|%d|%x|%s", i, qs, h.key()), st.present > 0 && st.absent > 0, func() any {
					return map[string]any{"kind": "proof", "keyLength": h.L, "store": h.Store, "mapKeys": len(r.kv), "queryKeys": hexAll(qs), "present": st.present, "absent": st.absent}
				}, labels...)
				if w != nil {
					checkTampered(t, r, w, st, pool, vals, pctx)
				}
			}
		}
		// history independence, without the model: the final map built in one sorted batch on a fresh store
		rb, err := rebuildRoot(h.L, r.kv)
		if err != nil || !bytes.Equal(rb, r.root) {
			t.Fatalf("one-batch rebuild of the final map gives root %x (err %v), history gave %x\n%s", rb, err, r.root, ctx())
		}
		m := maxSharedPrefix(h.L, r.kv)
		nt := len(r.kv) >= 2 && (r.effectiveDeletes > 0 || m >= 8)
		labels := []string{"history", fmt.Sprintf("L=%d", h.L), "store=" + h.Store, sizeLabel(len(r.kv)), shareLabel(h.L, m),
			fmt.Sprintf("batches=%d", len(h.Batches))}
		if r.effectiveDeletes > 0 {
			labels = append(labels, "with:delete-of-present-key")
		}
		if m == 8*h.L-1 {
			labels = append(labels, "with:last-bit-siblings")
		}
		if r.absentDeletes > 0 {
			labels = append(labels, "with:delete-of-absent-key")
		}
		if r.overwrites > 0 {
			labels = append(labels, "with:overwrite")
		}
		if r.reopens > 0 {
			labels = append(labels, "with:reopen")
		}
		if r.dupBatches > 0 {
			labels = append(labels, "with:identical-duplicate-in-batch")
		}
		if len(r.kv) == 0 && (r.effectiveDeletes > 0) {
			labels = append(labels, "with:emptied-by-deletes")
		}
		evid.R.Case(h.key(), nt, func() any { return h.sample(len(r.kv)) }, labels...)
	})
}

func uniq(s []string) []string {
	m := map[string]bool{}
	var out []string
	for _, x := range s {
		if !m[x] {
			m[x] = true
			out = append(out, x)
		}
	}
	sort.Strings(out)
	return out
}

func hasDup(qs [][]byte) bool {
	m := map[string]bool{}
	for _, q := range qs {
		if m[string(q)] {
			return true
		}
		m[string(q)] = true
	}
	return false
}

func hexAll(qs [][]byte) []string {
	out := make([]string, len(qs))
	for i, q := range qs {
		out[i] = hex.EncodeToString(q)
	}
	return out
}

// ---------------------------------------------------------------------------------------------------------------
// two routes to the same map: directly, and via a detour that inserts extra keys and deletes them again, with
// different batching/order/stores. The two tries must agree with each other (no model involved).

func TestTwoRoutes(t *testing.T) {
	rapid.Check(t, func(t *rapid.T) {
		L := rapid.SampledFrom(keyLengths).Draw(t, "L")
		pool := drawPool(t, L, irange(2, 24).Draw(t, "poolSize"))
		vals := drawValues(t)
		nFinal := irange(0, len(pool)).Draw(t, "nFinal")
		final := map[string][]byte{}
		for _, k := range pool[:nFinal] {
			final[string(k)] = vals[irange(0, len(vals)-1).Draw(t, "val")]
		}
		extras := pool[nFinal:]
		// route A: final keys in 1..3 batches, random order
		hA := &history{L: L, Store: rapid.SampledFrom([]string{"map", "pebble", "batchdb"}).Draw(t, "storeA")}
		permA := rapid.Permutation(seq(nFinal)).Draw(t, "orderA")
		cut := irange(0, nFinal).Draw(t, "cutA")
		for _, part := range [][]int{permA[:cut], permA[cut:]} {
			var b batch
			for _, ix := range part {
				b.Ops = append(b.Ops, op{pool[ix], final[string(pool[ix])]})
			}
			if len(b.Ops) > 0 {
				hA.Batches = append(hA.Batches, b)
			}
		}
		// route B: everything (final keys with a wrong value first, extras), then fix the values, then delete the extras
		hB := &history{L: L, Store: rapid.SampledFrom([]string{"map", "pebble", "batchdb"}).Draw(t, "storeB")}
		var b1, b2, b3 batch
		for _, ix := range rapid.Permutation(seq(len(pool))).Draw(t, "orderB1") {
			b1.Ops = append(b1.Ops, op{pool[ix], vals[irange(0, len(vals)-1).Draw(t, "valB")]})
		}
		for _, ix := range rapid.Permutation(seq(nFinal)).Draw(t, "orderB2") {
			b2.Ops = append(b2.Ops, op{pool[ix], final[string(pool[ix])]})
		}
		for _, ix := range rapid.Permutation(seq(len(extras))).Draw(t, "orderB3") {
			b3.Ops = append(b3.Ops, op{extras[ix], nil})
		}
		b2.Reopen = rapid.Bool().Draw(t, "reopenB2")
		b3.Reopen = rapid.Bool().Draw(t, "reopenB3")
		if rapid.Bool().Draw(t, "deleteFirst") {
			b2, b3 = b3, b2
		}
		for _, b := range []batch{b1, b2, b3} {
			if len(b.Ops) > 0 {
				hB.Batches = append(hB.Batches, b)
			}
		}
		run := func(h *history) *runner {
			r := newRunner(h)
			for i := range h.Batches {
				if s := r.apply(i); s != "" {
					r.st.close()
					t.Fatalf("%s\nhistory:\n%s", s, h)
				}
			}
			return r
		}
		rA, rB := run(hA), run(hB)
		defer rA.st.close()
		defer rB.st.close()
		if !bytes.Equal(rA.root, rB.root) {
			t.Fatalf("two histories reaching the same map give different roots %x vs %x\nA:\n%s\nB:\n%s", rA.root, rB.root, hA, hB)
		}
		m := maxSharedPrefix(L, final)
		evid.R.Case("two|"+hA.key()+"|"+hB.key(), len(final) >= 2 && (len(extras) > 0 || m >= 8), func() any {
			return map[string]any{"kind": "two-routes", "direct": hA.sample(len(final)), "detour": hB.sample(len(final))}
		}, "two-routes", fmt.Sprintf("two-routes:L=%d", L), "two-routes:"+shareLabel(L, m), "two-routes:"+sizeLabel(len(final)))
	})
}

// ---------------------------------------------------------------------------------------------------------------
// the event-root call pattern: 12-byte keys, values of arbitrary length (CalculateEventRoot passes the encoded
// event, not a hash), ONE Update on a fresh trie over a fresh in-memory pebble. Root only: nothing is ever read
// back from the store in this pattern.

func TestEventPattern(t *testing.T) {
	rapid.Check(t, func(t *rapid.T) {
		n := irange(0, 24).Draw(t, "events")
		var events []*blockchain.Event
		topicPool := [][]byte{}
		for i := 0; i < 5; i++ {
			topicPool = append(topicPool, rapid.SliceOfN(rapid.Byte(), 0, 40).Draw(t, "topic"))
		}
		for i := 0; i < n; i++ {
			nt := irange(1, 4).Draw(t, "topics")
			var topics []codec.Hex
			for j := 0; j < nt; j++ {
				topics = append(topics, topicPool[irange(0, len(topicPool)-1).Draw(t, "topicIx")])
			}
			data := rapid.SliceOfN(rapid.Byte(), 0, 80).Draw(t, "data")
			events = append(events, blockchain.NewEventFromValues("mod", "evt", data, topics, 7, uint32(i)))
		}
		kv := map[string][]byte{}
		var keys, vals [][]byte
		for _, e := range events {
			ks, vs := eventPairs(e)
			for x := range ks {
				if _, dup := kv[string(ks[x])]; dup {
					t.Fatalf("harness assumption broken: duplicate event key %x", ks[x])
				}
				kv[string(ks[x])] = vs[x]
				keys = append(keys, ks[x])
				vals = append(vals, vs[x])
			}
		}
		want := msmt.Root(12, kv)
		got, err := blockchain.CalculateEventRoot(events)
		if err != nil || !bytes.Equal(got, want) {
			t.Fatalf("CalculateEventRoot = %x (err %v), LIP-0039 root of its key/value pairs = %x; %d events", got, err, want, n)
		}
		st := newStore("pebble")
		defer st.close()
		got2, err := smt.NewTrie(msmt.EmptyHash(), 12).Update(st.begin(), keys, vals)
		if err != nil || !bytes.Equal(got2, want) {
			t.Fatalf("single Update with %d 12-byte keys = %x (err %v), want %x", len(keys), got2, err, want)
		}
		sameTopic := false
		seen := map[string]bool{}
		for _, k := range keys {
			if seen[string(k[:8])] {
				sameTopic = true
			}
			seen[string(k[:8])] = true
		}
		evid.R.Case(fmt.Sprintf("ev|%x|%x", keys, vals), len(kv) >= 2 && sameTopic, func() any {
			return map[string]any{"kind": "event-pattern", "events": n, "keys": len(keys)}
		}, "event-pattern", sizeLabel(len(kv)))
	})
}

// ---------------------------------------------------------------------------------------------------------------
// large maps (run as its own run spec with few rapid checks): keys expanded from a drawn seed.

func expand(seed uint64, tag string, i int, n int) []byte {
	var out []byte
	for c := 0; len(out) < n; c++ {
		var b [20]byte
		binary.BigEndian.PutUint64(b[:8], seed)
		binary.BigEndian.PutUint64(b[8:16], uint64(i))
		binary.BigEndian.PutUint32(b[16:], uint32(c))
		h := sha256.Sum256(append(b[:], tag...))
		out = append(out, h[:]...)
	}
	return out[:n]
}

func TestLargeMaps(t *testing.T) {
	rapid.Check(t, func(t *rapid.T) {
		L := rapid.SampledFrom([]int{4, 32, 38}).Draw(t, "L")
		n := rapid.SampledFrom([]int{300, 700, 2000}).Draw(t, "n")
		if !evid.Thorough() && n > 700 {
			n = 700
		}
		seed := rapid.Uint64().Draw(t, "seed")
		cluster := rapid.SampledFrom([]string{"uniform", "module-prefix", "deep"}).Draw(t, "cluster")
		storeKind := rapid.SampledFrom([]string{"map", "batchdb"}).Draw(t, "store")
		keyOf := func(i int) []byte {
			k := expand(seed, "k", i, L)
			switch cluster {
			case "module-prefix": // like state keys: few distinct 6-byte (here: up to 3-byte) prefixes
				p := expand(seed, "p", i%3, L)
				copy(k[:min(3, L-1)], p)
			case "deep": // half of the keys share 2 bytes + pairs of last-bit siblings
				if i%2 == 0 {
					copy(k[:2], expand(seed, "d", 0, 2))
				} else if i%4 == 1 {
					k = expand(seed, "k", i-1, L)
					copy(k[:2], expand(seed, "d", 0, 2))
					flipBit(k, 8*L-1)
				}
			}
			return k
		}
		valOf := func(i, gen int) []byte { return expand(seed, fmt.Sprintf("v%d", gen), i, 32) }
		h := &history{L: L, Store: storeKind}
		// batch 0/1: insert everything in two unsorted batches; 2: delete a third, overwrite a third; 3: delete all but ~5; 4: re-insert some
		seenK := map[string]bool{}
		var all [][]byte
		for i := 0; i < n; i++ {
			k := keyOf(i)
			if !seenK[string(k)] {
				seenK[string(k)] = true
				all = append(all, k)
			}
		}
		order := func(tag string, idx []int) []int {
			sort.Slice(idx, func(a, b int) bool {
				return bytes.Compare(expand(seed, tag, idx[a], 8), expand(seed, tag, idx[b], 8)) < 0
			})
			return idx
		}
		var b0, b1, b2, b3, b4 batch
		for _, i := range order("o0", seq(len(all))) {
			if i%2 == 0 {
				b0.Ops = append(b0.Ops, op{all[i], valOf(i, 0)})
			} else {
				b1.Ops = append(b1.Ops, op{all[i], valOf(i, 0)})
			}
		}
		for _, i := range order("o2", seq(len(all))) {
			switch i % 3 {
			case 0:
				b2.Ops = append(b2.Ops, op{all[i], nil})
			case 1:
				b2.Ops = append(b2.Ops, op{all[i], valOf(i, 1)})
			}
		}
		for _, i := range order("o3", seq(len(all))) {
			if i >= 5 {
				b3.Ops = append(b3.Ops, op{all[i], nil})
			}
		}
		for _, i := range order("o4", seq(len(all))) {
			if i%7 == 0 {
				b4.Ops = append(b4.Ops, op{all[i], valOf(i, 2)})
			}
		}
		b2.Reopen = rapid.Bool().Draw(t, "reopen2")
		b3.Reopen = rapid.Bool().Draw(t, "reopen3")
		b4.Reopen = true
		h.Batches = []batch{b0, b1, b2, b3, b4}
		r := newRunner(h)
		defer r.st.close()
		brief := func() string {
			return fmt.Sprintf("large map: L=%d n=%d seed=%d cluster=%s store=%s (keys = SHA-256 expansion, see expand())", L, n, seed, cluster, storeKind)
		}
		for i := range h.Batches {
			if s := r.apply(i); s != "" {
				t.Fatalf("%s\n%s", s, brief())
			}
			if i == 1 || i == 2 || i == 4 {
				// 20 queries: present, absent-near, absent-far
				var qs [][]byte
				present := sortedKeys(r.kv)
				for q := 0; q < 20; q++ {
					switch {
					case q%3 == 0 && len(present) > 0:
						qs = append(qs, present[int(binary.BigEndian.Uint32(expand(seed, "qp", q+100*i, 4)))%len(present)])
					case q%3 == 1 && len(present) > 0:
						k := cp(present[int(binary.BigEndian.Uint32(expand(seed, "qn", q+100*i, 4)))%len(present)])
						flipBit(k, 8*L-1-int(expand(seed, "qb", q, 1)[0])%min(8*L, 24))
						qs = append(qs, k)
					default:
						qs = append(qs, expand(seed, "qf", q+100*i, L))
					}
				}
				qs = dropAliases(L, r.kv, qs)
				w, st := checkProof(t, r, qs, brief)
				evid.R.Label(fmt.Sprintf("proof-large:queries=%d", len(qs)), 1)
				evid.R.Case(fmt.Sprintf("lp|%d|%d|%d|%s|%s|%d", L, n, seed, cluster, storeKind, i), st.present > 0 && st.absent > 0, nil, "proof-large")
				if w != nil {
					checkTampered(t, r, w, st, all, [][]byte{valOf(0, 0), valOf(1, 1)}, brief)
				}
			}
		}
		rb, err := rebuildRoot(L, r.kv)
		if err != nil || !bytes.Equal(rb, r.root) {
			t.Fatalf("one-batch rebuild differs: %x (err %v) vs %x\n%s", rb, err, r.root, brief())
		}
		evid.R.Case(fmt.Sprintf("large|%d|%d|%d|%s|%s", L, n, seed, cluster, storeKind), true, func() any {
			return map[string]any{"kind": "large-map", "keyLength": L, "keys": len(all), "cluster": cluster, "store": storeKind, "seed": seed}
		}, "large-map", fmt.Sprintf("large:L=%d", L), "large:"+cluster, fmt.Sprintf("large:n=%d", n))
	})
}

// ---------------------------------------------------------------------------------------------------------------
// dense subtrees (own run spec, a few rapid checks per kind): directed key families that expand one or more of the
// trie's 8-bit subtrees COMPLETELY (256 nodes at depth 8 = the largest subtree the store ever holds, count byte 255),
// sit exactly at the neighbouring sizes (254/255 nodes; 256 leaves + 1 key), nest such subtrees two or three levels
// deep, and maps large enough (1000+ uniform keys; a 38-byte "module store" with 1000+ entries; a block with
// hundreds of events) that the same happens without direction. The states are pushed through the same oracles as
// everywhere else: model root after every batch, Prove/Verify/codec/tamperings, reopen, one-batch rebuild, a second
// route on another store.
//
// Layout facts used for DIRECTING the generator and for LABELS only (never asserted against the engine): the subtree
// below a prefix of l bytes holds the keys sharing that prefix; walking the next 8 key bits, a part without keys is one
// empty node, with one key one leaf node, with >= 2 keys at depth 8 one stub node (root of the next subtree). So a
// subtree has 256 nodes iff each of its 128 pairs of neighbouring slots holds >= 2 keys.

type denseLevel struct {
	Level   int    // byte index: the subtree below Spine[:Level]
	Profile string // leaves: one key per slot; stubs: two keys per slot; mixed: per pair one of pairShapes
	Toggled []densePair
	fam     [][]byte // base keys of this family
}

type densePair struct{ Pair, Shape, Which int }

type densePlan struct {
	Kind   string
	L      int
	Seed   uint64
	Store  string
	N      int // undirected kinds: number of keys
	Spine  []byte
	Levels []*denseLevel
	Watch  []int // byte levels (prefix Spine[:level]) of the subtrees whose size is tracked across batches

	base, toggle, extra, hot [][]byte
}

// number of keys in the two slots of a pair; every shape has >= 2 keys (the pair is expanded to depth 8)
var pairShapes = [][2]int{{1, 1}, {2, 0}, {0, 2}, {2, 1}, {1, 2}, {2, 2}, {3, 0}, {0, 3}, {1, 1}, {2, 2}}

// shapes of a toggled pair: exactly two keys, one of them is the toggle key (without it the pair collapses to one
// node at depth 7: the subtree has one node less)
var toggleShapes = [][2]int{{1, 1}, {2, 0}, {0, 2}}

func (p *densePlan) famKey(level, slot, j int) []byte {
	k := make([]byte, p.L)
	copy(k, p.Spine[:level])
	k[level] = byte(slot)
	copy(k[level+1:], expand(p.Seed, fmt.Sprintf("t%d", level), slot*64+j, p.L-level-1))
	return k
}

func (p *densePlan) val(k []byte, gen int) []byte {
	var b [13]byte
	binary.BigEndian.PutUint64(b[:8], p.Seed)
	binary.BigEndian.PutUint32(b[8:12], uint32(gen))
	b[12] = 'V'
	h := sha256.Sum256(append(b[:], k...))
	return h[:]
}

func (p *densePlan) String() string {
	var sb strings.Builder
	fmt.Fprintf(&sb, "dense case kind=%s L=%d store=%s seed=%d n=%d spine=%x base=%d toggle=%d extra=%d keys\n", p.Kind, p.L, p.Store, p.Seed, p.N, p.Spine, len(p.base), len(p.toggle), len(p.extra))
	for _, lv := range p.Levels {
		fmt.Fprintf(&sb, "  dense level %d (prefix %x) profile=%s toggled pairs=%v; family key(slot,j) = prefix|slot|expand(seed,\"t%d\",64*slot+j), j = 0.. skipping repeats\n", lv.Level, p.Spine[:lv.Level], lv.Profile, lv.Toggled, lv.Level)
	}
	for _, k := range p.toggle {
		fmt.Fprintf(&sb, "  toggle %x\n", k)
	}
	for _, k := range p.extra {
		fmt.Fprintf(&sb, "  extra  %x\n", k)
	}
	return sb.String()
}

// pick draws an element uniformly (rapid.SampledFrom favours early elements; with a handful of checks per kind that
// would starve the later ones).
func pick[T any](t *rapid.T, from []T, label string) T {
	return from[irange(0, len(from)-1).Draw(t, label)]
}

func drawDensePlan(t *rapid.T, kind string) *densePlan {
	p := &densePlan{Kind: kind}
	p.Store = pick(t, []string{"batchdb", "pebble", "map"}, "store")
	p.Seed = rapid.Uint64().Draw(t, "seed")
	profiles := []string{"mixed", "stubs", "leaves"}
	var levels []int
	switch kind {
	case "top-leaves":
		p.L = pick(t, []int{32, 38, 1, 2, 4, 12}, "L")
		levels, profiles = []int{0}, []string{"leaves"}
	case "top-mixed":
		p.L = pick(t, []int{38, 32, 4, 2, 12}, "L")
		levels, profiles = []int{0}, []string{"mixed", "stubs"}
	case "lower-leaves", "lower-mixed":
		p.L = pick(t, []int{38, 32, 4, 12}, "L")
		c := []int{1, 2, p.L - 2}
		if p.L >= 12 {
			c = append(c, 6, 3) // 6 = first byte after module id + substore prefix of a 38-byte state key
		}
		levels = []int{pick(t, c, "level")}
		if kind == "lower-leaves" {
			profiles = []string{"leaves"}
		} else {
			profiles = []string{"mixed", "stubs"}
		}
	case "last-level":
		p.L = pick(t, []int{32, 38, 1, 2, 4, 12}, "L")
		levels = []int{p.L - 1}
	case "nested-2":
		p.L = pick(t, []int{38, 32, 4, 2, 12}, "L")
		c := []int{0, p.L - 2}
		if p.L > 2 {
			c = append(c, 1)
		}
		if p.L >= 12 {
			c = append(c, 6)
		}
		l0 := pick(t, c, "level")
		levels = []int{l0, l0 + 1}
	case "nested-3":
		p.L = pick(t, []int{38, 32, 4, 12}, "L")
		c := []int{0, 1, p.L - 3}
		if p.L >= 12 {
			c = append(c, 6)
		}
		l0 := pick(t, c, "level")
		if rapid.Bool().Draw(t, "gap") {
			levels = []int{l0, l0 + 2}
		} else {
			levels = []int{l0, l0 + 1, l0 + 2}
		}
	case "random-large":
		p.L = pick(t, []int{32, 38, 4}, "L")
		ns := []int{1500, 2500}
		if evid.Thorough() {
			ns = append(ns, 4000)
		}
		p.N = pick(t, ns, "n")
		p.Watch = []int{0}
	case "state-keys":
		p.L = 38
		p.N = pick(t, []int{1200, 2000}, "n")
		p.Watch = []int{6}
	default:
		panic("dense kind")
	}
	p.Spine = randBytes(t, p.L, "spine")
	for _, l := range levels {
		lv := &denseLevel{Level: l, Profile: pick(t, profiles, "profile")}
		if p.L-l-1 == 0 {
			lv.Profile = "leaves" // last key byte: a slot is one key
		}
		for h := pick(t, []int{1, 2, 0, 3}, "toggledPairs"); h > 0; h-- {
			pr := densePair{Shape: irange(0, len(toggleShapes)-1).Draw(t, "toggleShape"), Which: irange(0, 1).Draw(t, "toggleWhich")}
			switch irange(0, 3).Draw(t, "pairAt") {
			case 0:
				pr.Pair = 0
			case 1:
				pr.Pair = 127
			default:
				pr.Pair = irange(0, 127).Draw(t, "pair")
			}
			lv.Toggled = append(lv.Toggled, pr)
		}
		p.Levels = append(p.Levels, lv)
		p.Watch = append(p.Watch, l)
	}
	p.build(t)
	return p
}

func (p *densePlan) build(t *rapid.T) {
	seen := map[string]bool{}
	add := func(dst *[][]byte, k []byte) bool {
		if seen[string(k)] {
			return false
		}
		seen[string(k)] = true
		*dst = append(*dst, k)
		return true
	}
	L := p.L
	for li, lv := range p.Levels {
		tail := L - lv.Level - 1
		spinePair := -1
		if li < len(p.Levels)-1 {
			spinePair = int(p.Spine[lv.Level]) / 2 // this pair holds the deeper dense family: never toggled
		}
		tg := map[int]densePair{}
		for i := range lv.Toggled {
			if lv.Toggled[i].Pair == spinePair {
				lv.Toggled[i].Pair = (spinePair + 1) % 128
			}
			tg[lv.Toggled[i].Pair] = lv.Toggled[i]
		}
		for pair := 0; pair < 128; pair++ {
			shape := [2]int{1, 1}
			pr, isT := tg[pair]
			switch {
			case tail == 0:
			case isT:
				shape = toggleShapes[pr.Shape]
			case lv.Profile == "stubs":
				shape = [2]int{2, 2}
			case lv.Profile == "mixed":
				shape = pairShapes[int(expand(p.Seed, fmt.Sprintf("shape%d", lv.Level), pair, 1)[0])%len(pairShapes)]
			}
			var pk [][]byte
			for side := 0; side < 2; side++ {
				// the keys of one slot must be pairwise distinct (short tails collide: L=4, level 2 leaves one tail byte)
				inSlot := map[string]bool{}
				for j := 0; len(inSlot) < shape[side] && j < 64; j++ {
					if k := p.famKey(lv.Level, 2*pair+side, j); !inSlot[string(k)] {
						inSlot[string(k)] = true
						pk = append(pk, k)
					}
				}
			}
			for i, k := range pk {
				if isT && i == pr.Which%len(pk) {
					add(&p.toggle, k)
				} else if add(&p.base, k) {
					lv.fam = append(lv.fam, k)
				}
			}
		}
	}
	pickFrom := p.base
	switch p.Kind {
	case "random-large":
		for i := 0; i < p.N; i++ {
			add(&p.base, expand(p.Seed, "k", i, L))
		}
		pickFrom = p.base
	case "state-keys":
		// 38-byte state keys: module id (4) | substore prefix (2) | 32-byte hashed key. One big substore, a small
		// one in the same module, a few entries of another module.
		for i := 0; i < p.N; i++ {
			add(&p.base, append(cp(p.Spine[:6]), expand(p.Seed, "k", i, 32)...))
		}
		pickFrom = append([][]byte{}, p.base...)
		for i := 0; i < 40; i++ {
			k := append(cp(p.Spine[:6]), expand(p.Seed, "s", i, 32)...)
			k[4] ^= 0x01
			add(&p.base, k)
		}
		for i := 0; i < 30; i++ {
			k := append(cp(p.Spine[:4]), expand(p.Seed, "m", i, 34)...)
			k[3] ^= 0x10
			add(&p.base, k)
		}
	default:
		pickFrom = p.Levels[len(p.Levels)-1].fam
	}
	// extras: keys that are absent at first and come and go in the later batches
	deep := 0 // byte level of the deepest watched subtree
	for _, w := range p.Watch {
		deep = max(deep, w)
	}
	if L-deep-1 > 0 {
		for j := 0; j < 2; j++ { // a second/third key in an occupied slot of the deepest dense subtree (leaf -> stub: "256 leaves + 1")
			slot := irange(0, 255).Draw(t, "extraSlot")
			k := make([]byte, L)
			copy(k, p.Spine[:deep])
			k[deep] = byte(slot)
			copy(k[deep+1:], expand(p.Seed, "xs", slot*8+j, L-deep-1))
			add(&p.extra, k)
		}
	}
	if deep > 0 { // leaves the spine one level above the deepest dense subtree, in the neighbouring slot
		k := expand(p.Seed, "xu", 0, L)
		copy(k, p.Spine[:deep])
		k[deep-1] ^= 0x01
		add(&p.extra, k)
	}
	add(&p.extra, expand(p.Seed, "xf", 0, L)) // far away
	if len(pickFrom) > 0 {
		k := cp(pickFrom[irange(0, len(pickFrom)-1).Draw(t, "extraSiblingOf")]) // last-bit sibling of a present key
		flipBit(k, 8*L-1)
		add(&p.extra, k)
	}
	if len(p.toggle) > 0 {
		k := cp(p.toggle[0]) // last-bit sibling of a toggle key
		flipBit(k, 8*L-1)
		add(&p.extra, k)
	}
	p.hot = append(p.hot, p.toggle...)
	p.hot = append(p.hot, p.extra...)
	nb := 4
	if len(p.Levels) == 0 {
		nb = 8
	}
	hs := map[string]bool{}
	for i := 0; i < nb && len(pickFrom) > 0; i++ {
		k := pickFrom[irange(0, len(pickFrom)-1).Draw(t, "hotBase")]
		if !hs[string(k)] {
			hs[string(k)] = true
			p.hot = append(p.hot, k)
		}
	}
}

// history: base keys in one or two batches, a "fill" batch that sets every toggle key (from here on every planned
// dense subtree is complete), then 2-4 batches that set/delete keys of the hot pool.
func (p *densePlan) history(t *rapid.T) (*history, int) {
	h := &history{L: p.L, Store: p.Store}
	idx := seq(len(p.base))
	tags := make([][]byte, len(idx))
	for i := range tags {
		tags[i] = expand(p.Seed, "o", i, 8)
	}
	sort.Slice(idx, func(a, b int) bool { return bytes.Compare(tags[idx[a]], tags[idx[b]]) < 0 })
	cut := len(idx)
	switch rapid.SampledFrom([]string{"one-batch", "half", "all-but-one", "drawn"}).Draw(t, "baseSplit") {
	case "half":
		cut = len(idx) / 2
	case "all-but-one":
		cut = len(idx) - 1
	case "drawn":
		cut = irange(1, len(idx)).Draw(t, "baseCut")
	}
	var b0, b1 batch
	for n, i := range idx {
		o := op{p.base[i], p.val(p.base[i], 0)}
		if n < cut {
			b0.Ops = append(b0.Ops, o)
		} else {
			b1.Ops = append(b1.Ops, o)
		}
	}
	h.Batches = append(h.Batches, b0)
	if len(b1.Ops) > 0 {
		b1.Reopen = rapid.Bool().Draw(t, "reopenBase")
		h.Batches = append(h.Batches, b1)
	}
	fill := batch{Reopen: irange(0, 3).Draw(t, "reopenFill") > 0}
	for _, i := range rapid.Permutation(seq(len(p.toggle))).Draw(t, "fillOrder") {
		fill.Ops = append(fill.Ops, op{p.toggle[i], p.val(p.toggle[i], 1)})
	}
	for _, k := range p.extra {
		if rapid.Bool().Draw(t, "fillExtra") {
			fill.Ops = append(fill.Ops, op{k, p.val(k, 1)})
		}
	}
	if len(fill.Ops) == 0 {
		fill.Ops = append(fill.Ops, op{p.hot[0], p.val(p.hot[0], 1)})
	}
	h.Batches = append(h.Batches, fill)
	fillIdx := len(h.Batches) - 1
	nd := rapid.SampledFrom([]int{3, 2, 4}).Draw(t, "deltaBatches")
	for d := 0; d < nd; d++ {
		b := batch{Reopen: irange(0, 3).Draw(t, "reopenDelta") > 0}
		for _, i := range rapid.Permutation(seq(len(p.hot))).Draw(t, "deltaOrder") {
			if irange(0, 99).Draw(t, "deltaIn") >= 40 {
				continue
			}
			o := op{Key: p.hot[i]}
			if rapid.Bool().Draw(t, "deltaSet") {
				o.Val = p.val(p.hot[i], 2+d)
			}
			b.Ops = append(b.Ops, o)
		}
		if len(b.Ops) == 0 {
			b.Ops = append(b.Ops, op{Key: p.hot[0]})
		}
		h.Batches = append(h.Batches, b)
	}
	return h, fillIdx
}

// subtreeInfo: one stored subtree of the (expected) layout of a key set.
type subtreeInfo struct {
	Level                  int
	Prefix                 []byte
	Nodes                  int
	Leaves, Stubs, Empties int
	FullAbove              int // number of complete (256-node) subtrees among its ancestors
	keys                   [][]byte
}

// census lists the subtrees of the layout for the sorted keys (labels and generator self-check only).
func census(keys [][]byte) []subtreeInfo {
	var out []subtreeInfo
	var walk func(ks [][]byte, level, fullAbove int)
	walk = func(ks [][]byte, level, fullAbove int) {
		info := subtreeInfo{Level: level, Prefix: cp(ks[0][:level]), FullAbove: fullAbove, keys: ks}
		var below [][][]byte
		var rec func(ks [][]byte, depth int)
		rec = func(ks [][]byte, depth int) {
			switch {
			case len(ks) == 0:
				info.Empties++
			case len(ks) == 1:
				info.Leaves++
			case depth == 8:
				info.Stubs++
				below = append(below, ks)
			default:
				i := sort.Search(len(ks), func(i int) bool { return msmt.Bit(ks[i], 8*level+depth) })
				rec(ks[:i], depth+1)
				rec(ks[i:], depth+1)
			}
		}
		rec(ks, 0)
		info.Nodes = info.Leaves + info.Stubs + info.Empties
		out = append(out, info)
		if info.Nodes == 256 {
			fullAbove++
		}
		for _, b := range below {
			walk(b, level+1, fullAbove)
		}
	}
	if len(keys) > 0 {
		walk(keys, 0, 0)
	}
	return out
}

// nodeHashAt: LIP-0039 hash of the node holding exactly the (sorted) keys, which agree on their first depth bits
// (= the store key under which the engine keeps the subtree rooted there).
func nodeHashAt(keys [][]byte, kv map[string][]byte, depth int) []byte {
	switch len(keys) {
	case 0:
		return msmt.EmptyHash()
	case 1:
		return msmt.LeafHash(keys[0], kv[string(keys[0])])
	}
	i := sort.Search(len(keys), func(i int) bool { return msmt.Bit(keys[i], depth) })
	return msmt.BranchHash(nodeHashAt(keys[:i], kv, depth+1), nodeHashAt(keys[i:], kv, depth+1))
}

func levelLabel(L, level int) string {
	switch {
	case level == L-1:
		return fmt.Sprintf("last-key-byte(L=%d)", L)
	case level >= 3:
		return "3+"
	}
	return fmt.Sprint(level)
}

func nodesBucket(n int) string {
	switch {
	case n >= 254:
		return fmt.Sprint(n)
	case n == 0:
		return "none"
	}
	return "<254"
}

func hasPrefixKey(keys [][]byte, prefix []byte) bool {
	for _, k := range keys {
		if bytes.HasPrefix(k, prefix) {
			return true
		}
	}
	return false
}

var denseKinds = []string{"top-leaves", "top-mixed", "lower-leaves", "lower-mixed", "last-level", "nested-2", "nested-3", "random-large", "state-keys"}

func TestDense(t *testing.T) {
	for _, kind := range denseKinds {
		kind := kind
		t.Run(kind, func(t *testing.T) {
			rapid.Check(t, func(t *rapid.T) { denseCase(t, kind) })
		})
	}
}

func denseCase(t *rapid.T, kind string) {
	// every sub-test's rapid.Check runs on the same seed, i.e. the same draw stream: consume a kind-specific number of
	// draws first so that the kinds do not all get the same store/seed/length choices in their n-th case
	for i, k := range denseKinds {
		if k == kind {
			rapid.SliceOfN(rapid.Uint64(), i, i).Draw(t, "decorrelate")
		}
	}
	p := drawDensePlan(t, kind)
	h, fillIdx := p.history(t)
	L := p.L
	r := newRunner(h)
	defer r.st.close()
	ctx := func() string {
		var sb strings.Builder
		sb.WriteString(p.String())
		for i, b := range h.Batches {
			if i < fillIdx {
				fmt.Fprintf(&sb, " batch %d reopen=%v: %d base keys set to val(key,0), order by expand(seed,\"o\",i)\n", i, b.Reopen, len(b.Ops))
				continue
			}
			fmt.Fprintf(&sb, " batch %d reopen=%v:", i, b.Reopen)
			for _, o := range b.Ops {
				if len(o.Val) == 0 {
					fmt.Fprintf(&sb, " del(%x)", o.Key)
				} else {
					fmt.Fprintf(&sb, " set(%x)", o.Key)
				}
			}
			sb.WriteString("\n")
		}
		return sb.String()
	}
	watchedNodes := func(cs []subtreeInfo, level int) int {
		for _, c := range cs {
			if c.Level == level && bytes.Equal(c.Prefix, p.Spine[:level]) {
				return c.Nodes
			}
		}
		return 0
	}
	var prev []subtreeInfo
	readBack, fullStored, maxNest, maxNodes := 0, 0, 0, 0
	for i := range h.Batches {
		// which complete subtrees of the previous state does this Update read back from the store?
		var opKeys [][]byte
		for _, o := range h.Batches[i].Ops {
			opKeys = append(opKeys, o.Key)
		}
		for _, c := range prev {
			if c.Nodes == 256 && hasPrefixKey(opKeys, c.Prefix) {
				readBack++
				how := "same-trie-object"
				if h.Batches[i].Reopen {
					how = "NewTrie(root)-reopen"
				}
				evid.R.Label("full-subtree(256 nodes) read back by Update:"+how, 1)
				evid.R.Label("full-subtree(256 nodes) read back by Update:level="+levelLabel(L, c.Level), 1)
			}
		}
		if s := r.apply(i); s != "" {
			t.Fatalf("%s\n%s", s, ctx())
		}
		sorted := msmt.Keys(L, r.kv)
		cs := census(sorted)
		for _, c := range cs {
			maxNodes = max(maxNodes, c.Nodes)
			if c.Nodes < 254 {
				continue
			}
			// observation: what the store holds under this subtree's root hash
			data, ok := r.st.reader().Get(nodeHashAt(c.keys, r.kv, 8*c.Level))
			switch {
			case ok && len(data) > 0 && int(data[0]) == c.Nodes-1:
				evid.R.Label(fmt.Sprintf("store-observed:encoded subtree with count byte %d (%d nodes) under its root hash", c.Nodes-1, c.Nodes), 1)
				if c.Nodes == 256 {
					fullStored++
				}
			default:
				evid.R.Label("store-observed:differs from expected layout (observation only)", 1)
				evid.R.Note("dense: expected a stored subtree with %d nodes at prefix %x, store has found=%v firstByte=%v", c.Nodes, c.Prefix, ok, data[:min(1, len(data))])
			}
			if c.Nodes == 256 {
				maxNest = max(maxNest, c.FullAbove+1)
				evid.R.Label("full-subtree(256 nodes) in state:level="+levelLabel(L, c.Level), 1)
				evid.R.Label(fmt.Sprintf("full-subtree(256 nodes) in state:nesting-depth=%d", c.FullAbove+1), 1)
				switch {
				case c.Leaves == 256:
					evid.R.Label("full-subtree(256 nodes) in state:256 leaves", 1)
				case c.Stubs == 256:
					evid.R.Label("full-subtree(256 nodes) in state:256 stubs", 1)
				case c.Empties > 0:
					evid.R.Label("full-subtree(256 nodes) in state:leaves+stubs+empty nodes", 1)
				default:
					evid.R.Label("full-subtree(256 nodes) in state:leaves+stubs", 1)
				}
			}
		}
		for _, w := range p.Watch {
			evid.R.Label(fmt.Sprintf("watched-subtree nodes %s -> %s", nodesBucket(watchedNodes(prev, w)), nodesBucket(watchedNodes(cs, w))), 1)
		}
		if i == fillIdx && len(p.Levels) > 0 {
			for _, w := range p.Watch {
				if n := watchedNodes(cs, w); n != 256 {
					t.Fatalf("harness expectation broken (generator, not the engine): planned dense subtree at level %d has %d nodes after the fill batch\n%s", w, n, ctx())
				}
			}
		}
		prev = cs
		// proofs in this state
		sets := [][][]byte{drawDenseQueries(t, p, r, sorted)}
		if i == fillIdx {
			sets = append(sets, p.proveAllSet(r, sorted))
		}
		for si, qs := range sets {
			qs = dropAliases(L, r.kv, qs)
			pctx := func() string { return fmt.Sprintf("proof taken after batch %d\n%s", i, ctx()) }
			w, st := checkProof(t, r, qs, pctx)
			labels := []string{"proof-dense", fmt.Sprintf("proof-dense:L=%d", L), "proof-dense:store=" + p.Store}
			if si == 1 {
				labels = append(labels, "proof-dense:all keys of the dense family + absent ones")
			}
			for _, c := range cs {
				if c.Nodes == 256 && hasPrefixKey(qs, c.Prefix) {
					readBack++
					labels = append(labels, "full-subtree(256 nodes) read back by Prove:level="+levelLabel(L, c.Level))
				}
			}
			evid.R.Case(fmt.Sprintf("dp|%d|%d|%x|%s", i, si, qs, h.key()), st.present > 0 && st.absent > 0, func() any {
				return map[string]any{"kind": "proof-dense", "denseKind": kind, "keyLength": L, "store": p.Store, "mapKeys": len(r.kv), "queryKeys": len(qs), "present": st.present, "absent": st.absent}
			}, uniq(labels)...)
			if w != nil {
				checkTampered(t, r, w, st, p.hot, [][]byte{p.val(p.hot[0], 0), p.val(p.hot[0], 1)}, pctx)
			}
		}
	}
	// history independence without the model: one sorted batch on a fresh store ...
	rb, err := rebuildRoot(L, r.kv)
	if err != nil || !bytes.Equal(rb, r.root) {
		t.Fatalf("one-batch rebuild of the final map gives root %x (err %v), history gave %x\n%s", rb, err, r.root, ctx())
	}
	// ... and a second route: the final map in two sorted halves on another store kind, reopened in between
	final := msmt.Keys(L, r.kv)
	if len(final) >= 2 {
		alt := &history{L: L, Store: map[string]string{"map": "batchdb", "batchdb": "pebble", "pebble": "map"}[p.Store]}
		cut := len(final) - 1
		switch irange(0, 2).Draw(t, "altCut") {
		case 0:
			cut = len(final) / 2
		case 1:
			cut = irange(1, len(final)-1).Draw(t, "altCutAt")
		}
		var a0, a1 batch
		for n, k := range final {
			if n < cut {
				a0.Ops = append(a0.Ops, op{k, r.kv[string(k)]})
			} else {
				a1.Ops = append(a1.Ops, op{k, r.kv[string(k)]})
			}
		}
		a1.Reopen = true
		alt.Batches = []batch{a0, a1}
		ra := newRunner(alt)
		for i := range alt.Batches {
			if s := ra.apply(i); s != "" {
				ra.st.close()
				t.Fatalf("second route (final map in two sorted batches cut at %d, store %s): %s\n%s", cut, alt.Store, s, ctx())
			}
		}
		ra.st.close()
		if !bytes.Equal(ra.root, r.root) {
			t.Fatalf("second route (final map in two sorted batches cut at %d, store %s) gives root %x, history gave %x\n%s", cut, alt.Store, ra.root, r.root, ctx())
		}
	}
	labels := []string{"dense", "dense:kind=" + kind, fmt.Sprintf("dense:L=%d", L), "dense:store=" + p.Store,
		fmt.Sprintf("dense:max-subtree-nodes=%s", nodesBucket(maxNodes)), fmt.Sprintf("dense:full-subtrees-nested=%d", maxNest)}
	if fullStored > 0 && readBack > 0 {
		labels = append(labels, "dense:full 256-node subtree stored (count byte 255 seen in the store) and read back")
	}
	if r.reopens > 0 {
		labels = append(labels, "dense:with-reopen")
	}
	if r.effectiveDeletes > 0 {
		labels = append(labels, "dense:with-delete-of-present-key")
	}
	evid.R.Case("dense|"+p.String()+h.key(), readBack > 0, func() any {
		lv := []map[string]any{}
		for _, l := range p.Levels {
			lv = append(lv, map[string]any{"level": l.Level, "profile": l.Profile, "toggledPairs": len(l.Toggled)})
		}
		return map[string]any{"kind": "dense", "denseKind": kind, "keyLength": L, "store": p.Store, "seed": p.Seed, "spine": hex.EncodeToString(p.Spine),
			"denseLevels": lv, "baseKeys": len(p.base), "toggleKeys": len(p.toggle), "extraKeys": len(p.extra), "batches": len(h.Batches),
			"finalKeys": len(r.kv), "fullSubtreeReadBacks": readBack, "maxNestedFullSubtrees": maxNest}
	}, labels...)
}

// drawDenseQueries: 1-16 query keys around the dense region: hot keys (present or absent), present keys, the
// neighbouring slot of a present key, last-bit siblings, keys with the dense prefix and a random rest, far keys.
func drawDenseQueries(t *rapid.T, p *densePlan, r *runner, present [][]byte) [][]byte {
	L := p.L
	n := rapid.SampledFrom([]int{8, 12, 4, 16, 1}).Draw(t, "nDenseQueries")
	deep := 0
	for _, w := range p.Watch {
		deep = max(deep, w)
	}
	var qs [][]byte
	for i := 0; i < n; i++ {
		kind := rapid.SampledFrom([]string{"hot", "present", "hot", "pairmate", "lastbit", "prefix", "far"}).Draw(t, "dqKind")
		var k []byte
		switch {
		case kind == "hot":
			k = p.hot[irange(0, len(p.hot)-1).Draw(t, "dqHot")]
		case kind == "far" || len(present) == 0:
			k = randBytes(t, L, "dqFar")
		case kind == "prefix":
			k = randBytes(t, L, "dqRest")
			copy(k, p.Spine[:p.Watch[irange(0, len(p.Watch)-1).Draw(t, "dqWatch")]])
		default:
			k = cp(present[irange(0, len(present)-1).Draw(t, "dqPresent")])
			switch kind {
			case "pairmate":
				flipBit(k, 8*deep+7)
			case "lastbit":
				flipBit(k, 8*L-1)
			}
		}
		qs = append(qs, cp(k))
	}
	return qs
}

// proveAllSet: every present key below the deepest watched prefix (thinned to <= 300: the engine's Verify is
// quadratic in the number of queries) plus the hot keys.
func (p *densePlan) proveAllSet(r *runner, present [][]byte) [][]byte {
	deep := 0
	for _, w := range p.Watch {
		deep = max(deep, w)
	}
	var under [][]byte
	for _, k := range present {
		if bytes.HasPrefix(k, p.Spine[:deep]) {
			under = append(under, k)
		}
	}
	step := (len(under) + 299) / 300
	var qs [][]byte
	for i := 0; i < len(under); i += max(1, step) {
		qs = append(qs, cp(under[i]))
	}
	seen := map[string]bool{}
	for _, k := range qs {
		seen[string(k)] = true
	}
	for _, k := range p.hot {
		if !seen[string(k)] {
			seen[string(k)] = true
			qs = append(qs, cp(k))
		}
	}
	return qs
}

// The event-root pattern at block sizes where the top subtree is complete: hundreds of events with 1-4 distinct
// topics each (key = 8 bytes of the topic hash + index, value = the raw event encoding), one Update, root only.
func TestDenseEventRoot(t *testing.T) {
	rapid.Check(t, func(t *rapid.T) {
		seed := rapid.Uint64().Draw(t, "seed")
		n := pick(t, []int{700, 400, 1000}, "events")
		var events []*blockchain.Event
		for i := 0; i < n; i++ {
			nt := 1 + int(expand(seed, "nt", i, 1)[0])%4
			var topics []codec.Hex
			for j := 0; j < nt; j++ {
				topics = append(topics, expand(seed, "topic", 4*i+j, 8+int(expand(seed, "tl", 4*i+j, 1)[0])%25))
			}
			data := expand(seed, "data", i, int(expand(seed, "dl", i, 1)[0])%80)
			events = append(events, blockchain.NewEventFromValues("mod", "evt", data, topics, 7, uint32(i)))
		}
		kv := map[string][]byte{}
		var keys, vals [][]byte
		for _, e := range events {
			ks, vs := eventPairs(e)
			for x := range ks {
				if _, dup := kv[string(ks[x])]; dup {
					t.Fatalf("harness assumption broken: duplicate event key %x", ks[x])
				}
				kv[string(ks[x])] = vs[x]
				keys = append(keys, ks[x])
				vals = append(vals, vs[x])
			}
		}
		want := msmt.Root(12, kv)
		got, err := blockchain.CalculateEventRoot(events)
		if err != nil || !bytes.Equal(got, want) {
			t.Fatalf("CalculateEventRoot = %x (err %v), LIP-0039 root of its %d key/value pairs = %x; events = expansion of seed %d, n=%d", got, err, len(keys), want, seed, n)
		}
		st := newStore("pebble")
		defer st.close()
		got2, err := smt.NewTrie(msmt.EmptyHash(), 12).Update(st.begin(), keys, vals)
		if err != nil || !bytes.Equal(got2, want) {
			t.Fatalf("single Update with %d 12-byte keys = %x (err %v), want %x; seed %d n=%d", len(keys), got2, err, want, seed, n)
		}
		top := census(msmt.Keys(12, kv))[0].Nodes
		evid.R.Case(fmt.Sprintf("evl|%d|%d", seed, n), true, func() any {
			return map[string]any{"kind": "event-pattern-large", "events": n, "keys": len(keys), "topSubtreeNodes": top}
		}, "event-pattern-large", fmt.Sprintf("event-pattern-large:top-subtree-nodes=%s", nodesBucket(top)))
	})
}

// ---------------------------------------------------------------------------------------------------------------
// regression cases (run in every tier)

func fixedTrie(t *testing.T, L int, keys ...byte) (*runner, [][]byte) {
	h := &history{L: L, Store: "map", Batches: []batch{{}}}
	var ks [][]byte
	for _, b := range keys {
		k := make([]byte, L)
		k[0] = b
		v := make([]byte, 32)
		v[0] = b + 1
		h.Batches[0].Ops = append(h.Batches[0].Ops, op{k, v})
		ks = append(ks, k)
	}
	r := newRunner(h)
	if s := r.apply(0); s != "" {
		t.Fatalf("%s\n%s", s, h)
	}
	return r, ks
}

// C10-F1: map {00,40,80} (1-byte keys): the leaf 80 sits at path "1", the leaf 40 at path "01"; both pack to 0x01.
// The honest proof for [80,40] must verify.
func TestRegressVerifyPathAlias(t *testing.T) {
	r, _ := fixedTrie(t, 1, 0x00, 0x40, 0x80)
	for _, qs := range [][][]byte{{{0x80}, {0x40}}, {{0x40}, {0x80}}, {{0x40}, {0x80}, {0x00}}} {
		p, err := r.trie.Prove(r.st.reader(), qs)
		if err != nil {
			t.Fatalf("Prove: %v", err)
		}
		w := wireOf(qs, p, r.root, 1)
		ok, verr, pv := w.verify()
		evid.R.Case(fmt.Sprintf("regress-f1|%x", qs), true, nil, "regress")
		if ok && verr == nil && pv == nil {
			continue
		}
		if evid.R.KnownFinding(sigPathAlias) {
			t.Logf("known C10-F1: honest proof for %x rejected (%v, %v)", qs, ok, verr)
			continue
		}
		t.Fatalf("honest proof rejected: ok=%v err=%v panic=%v\n%s", ok, verr, pv, w)
	}
	// soundness side: an honest single-query proof for 80 plus a forged pair whose path "01" aliases "1"
	qs := [][]byte{{0x80}}
	p, err := r.trie.Prove(r.st.reader(), qs)
	if err != nil {
		t.Fatalf("Prove: %v", err)
	}
	w := wireOf(qs, p, r.root, 1)
	w.Keys = append(w.Keys, []byte{0x41})
	w.Q = append(w.Q, tq{Key: []byte{0x41}, Value: bytes.Repeat([]byte{0xee}, 32), Bitmap: []byte{0x03}})
	ok, verr, pv := w.verify()
	evid.R.Case("regress-f1-forged", true, nil, "regress")
	if ok && verr == nil && pv == nil {
		if evid.R.KnownFinding(sigPathAlias) {
			t.Logf("known C10-F1: forged inclusion of 41 accepted")
			return
		}
		t.Fatalf("forged inclusion (41 -> ee..) accepted:\n%s", w)
	}
}

// C10-F2: two absent keys answered by the same empty node; changing the second answer into an inclusion claim must
// make the proof fail. Empty trie with 32-byte keys, and a populated 1-byte trie (keys c0/e0 both end in the empty
// node "11" ... of map {00,80,a0}).
func TestRegressVerifySamePathQueries(t *testing.T) {
	type tc struct {
		r  *runner
		qs [][]byte
	}
	empty, _ := fixedTrie(t, 32)
	one, _ := fixedTrie(t, 1, 0x00, 0x80, 0xa0)
	k1 := make([]byte, 32)
	k2 := make([]byte, 32)
	k2[31] = 1
	for i, c := range []tc{{empty, [][]byte{k1, k2}}, {one, [][]byte{{0xc0}, {0xe0}}}} {
		p, err := c.r.trie.Prove(c.r.st.reader(), c.qs)
		if err != nil {
			t.Fatalf("Prove: %v", err)
		}
		w := wireOf(c.qs, p, c.r.root, c.r.h.L)
		if ok, verr, pv := w.verify(); !ok || verr != nil || pv != nil {
			t.Fatalf("case %d: honest proof rejected: %v %v %v\n%s", i, ok, verr, pv, w)
		}
		if len(w.Q[1].Value) != 0 || !bytes.Equal(w.Q[0].Bitmap, w.Q[1].Bitmap) {
			t.Fatalf("case %d: harness expectation broken, queries do not end in one empty node\n%s", i, w)
		}
		w.Q[1].Value = make([]byte, 32)
		ok, verr, pv := w.verify()
		evid.R.Case(fmt.Sprintf("regress-f2|%d", i), true, nil, "regress")
		if ok && verr == nil && pv == nil {
			if evid.R.KnownFinding(sigSamePath) {
				t.Logf("known C10-F2: case %d: forged inclusion accepted", i)
				continue
			}
			t.Fatalf("case %d: proof verifies although query[1] claims inclusion of a pair that is not in the map\n%s", i, w)
		}
	}
}

// Regression (C10-F3): a forged deeper query with its own forged sibling hash climbing onto an honest query's path.
func TestRegressForgedClimbingQuery(t *testing.T) {
	store := newMapStore()
	L := 4
	tr := smt.NewTrie(nil, L)
	k1, k2 := []byte{0, 0, 0, 0}, []byte{0, 0, 0x80, 1}
	v := make([]byte, 32)
	root, err := tr.Update(store, [][]byte{k1, k2}, [][]byte{v, v})
	if err != nil {
		t.Fatal(err)
	}
	proof, err := tr.Prove(store, [][]byte{k2, k1})
	if err != nil {
		t.Fatal(err)
	}
	if ok, err := smt.Verify([][]byte{k2, k1}, proof, root, L); !ok || err != nil {
		t.Fatalf("honest proof rejected: %v %v", ok, err)
	}
	forgedKey := []byte{0, 0, 0x80, 0}
	proof.Queries = append(proof.Queries, &smt.QueryProof{Key: forgedKey, Value: make([]byte, 32), Bitmap: []byte{3, 0, 0}})
	proof.SiblingHashes = append([]codec.Hex{make([]byte, 32)}, proof.SiblingHashes...)
	if ok, _ := smt.Verify([][]byte{k2, k1, forgedKey}, proof, root, L); ok {
		t.Fatalf("proof with a forged inclusion claim for %x verifies", forgedKey)
	}
	evid.R.Case("regress-forged-climbing", true, func() any { return "map {00000000,00008001}, forged pair key 00008000 bitmap 030000 + forged sibling" }, "regress")
}

// eventPairs restates LIP-0065 for the event root: one key per topic = first 8 bytes of SHA-256(topic) followed by the 4-byte big-endian
// number (event index << 2) + topic position; value = the encoded event. (Oracle audit: the tests used Event.KeyPairs(), i.e. the key
// derivation under test; a derivation that dropped the topic position or the index would have been mirrored.)
func eventPairs(e *blockchain.Event) (keys, vals [][]byte) {
	enc := e.Encode()
	for i, topic := range e.Topics {
		th := sha256.Sum256(topic)
		k := append([]byte{}, th[:8]...)
		var ib [4]byte
		binary.BigEndian.PutUint32(ib[:], e.Index<<2+uint32(i))
		keys = append(keys, append(k, ib[:]...))
		vals = append(vals, enc)
	}
	return keys, vals
}
