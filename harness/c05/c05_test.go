package c05

import (
	"bytes"
	"encoding/binary"
	"fmt"
	"sort"
	"strings"
	"testing"
	"time"

	"github.com/LiskHQ/lisk-engine/pkg/blockchain"
	"github.com/LiskHQ/lisk-engine/pkg/db"
	"github.com/LiskHQ/lisk-engine/pkg/db/diffdb"
	"pgregory.net/rapid"

	"verifharness/evid"
	"verifharness/node"
)

func TestMain(m *testing.M) { evid.Main(m, "C05") }

// database prefixes (pkg/blockchain/data_access.go)
const (
	pfxTemp      = 7
	pfxEvents    = 9
	pfxFinalized = 27
	pfxDiff      = 51
)

// filter applies the documented exemptions: finalized-height marker; state diffs below the finality reached; events
// pruned by the retention rule of the applied block; temp blocks (checked separately).
func filter(d []node.KV, finalizedReached uint32, eventsPrunedUpTo int64) map[string]string {
	return filterT(d, finalizedReached, eventsPrunedUpTo, false)
}

// filterT with keepTemp compares the parked temp blocks as well (used where no step of the case may touch them).
func filterT(d []node.KV, finalizedReached uint32, eventsPrunedUpTo int64, keepTemp bool) map[string]string {
	out := map[string]string{}
	for _, kv := range d {
		if len(kv.K) == 0 {
			continue
		}
		switch kv.K[0] {
		case pfxFinalized:
			if len(kv.K) == 1 {
				continue
			}
		case pfxTemp:
			if !keepTemp {
				continue
			}
		case pfxDiff:
			if len(kv.K) == 5 && binary.BigEndian.Uint32(kv.K[1:]) < finalizedReached {
				continue
			}
		case pfxEvents:
			if len(kv.K) == 5 && int64(binary.BigEndian.Uint32(kv.K[1:])) <= eventsPrunedUpTo {
				continue
			}
		}
		v := string(kv.V)
		if kv.K[0] == pfxDiff {
			v = normDiff(kv.V)
		}
		out[string(kv.K)] = v
	}
	return out
}

// normDiff renders a state-diff record order-independently: the engine writes its three lists in map-iteration order,
// which carries no meaning (a revert applies them as sets).
func normDiff(b []byte) string {
	d := &diffdb.Diff{}
	if err := d.Decode(b); err != nil {
		return "undecodable:" + string(b)
	}
	var parts []string
	for _, k := range d.Added {
		parts = append(parts, fmt.Sprintf("A %x", k))
	}
	for _, kv := range d.Updated {
		parts = append(parts, fmt.Sprintf("U %x=%x", kv.Key, kv.Value))
	}
	for _, kv := range d.Deleted {
		parts = append(parts, fmt.Sprintf("D %x=%x", kv.Key, kv.Value))
	}
	sort.Strings(parts)
	return strings.Join(parts, ";")
}

func diffDumps(a, b map[string]string) string {
	var keys []string
	for k := range a {
		if vb, ok := b[k]; !ok || vb != a[k] {
			keys = append(keys, k)
		}
	}
	for k := range b {
		if _, ok := a[k]; !ok {
			keys = append(keys, k)
		}
	}
	sort.Strings(keys)
	var sb strings.Builder
	for i, k := range keys {
		if i > 8 {
			sb.WriteString("…")
			break
		}
		va, oka := a[k]
		vb, okb := b[k]
		fmt.Fprintf(&sb, "key %x: before(present=%v,len=%d) after(present=%v,len=%d)", k, oka, len(va), okb, len(vb))
		if oka && okb && len(va) < 200 {
			fmt.Fprintf(&sb, " before=%x after=%x", va, vb)
		}
		sb.WriteString("\n")
	}
	return sb.String()
}

// eventsPruned: heights whose events the retention rule of saveBlock may have deleted when applying a block at `height`
// with finalized height f: min(f, max(0, height-keep)), nothing when keep < 0.
func eventsPruned(keep int, height, f uint32) int64 {
	if keep < 0 {
		return -1
	}
	m := int64(height) - int64(keep)
	if m < 0 {
		m = 0
	}
	if int64(f) < m {
		m = int64(f)
	}
	if m <= 0 {
		return -1
	}
	return m
}

type lookups struct {
	tipID    []byte
	byHeight map[uint32][]byte
	txs      map[string]bool
}

func snapshotLookups(n *node.Node) string {
	var sb strings.Builder
	tip := n.Tip()
	fmt.Fprintf(&sb, "tip=%x h=%d;", tip.Header.ID, tip.Header.Height)
	da := n.Chain.DataAccess()
	lb, err := da.GetLastBlock()
	if err != nil || !bytes.Equal(lb.Header.ID, tip.Header.ID) {
		fmt.Fprintf(&sb, "GetLastBlock mismatch;")
	}
	for h := n.Cfg.GenesisHeight; h <= tip.Header.Height+1; h++ {
		b, err := da.GetBlockByHeight(h)
		if err != nil {
			fmt.Fprintf(&sb, "h%d:none;", h)
			continue
		}
		fmt.Fprintf(&sb, "h%d:%x txs=%d assets=%d;", h, b.Header.ID[:6], len(b.Transactions), len(b.Assets))
		hd, err := da.GetBlockHeader(b.Header.ID)
		if err != nil || !bytes.Equal(hd.ID, b.Header.ID) {
			fmt.Fprintf(&sb, "header-by-id-missing;")
		}
		for _, tx := range b.Transactions {
			got, err := da.GetTransaction(tx.ID)
			if err != nil || !bytes.Equal(got.ID, tx.ID) {
				fmt.Fprintf(&sb, "tx-missing;")
			}
		}
	}
	return sb.String()
}

func txLookupGone(n *node.Node, b *blockchain.Block) error {
	da := n.Chain.DataAccess()
	if _, err := da.GetBlockHeader(b.Header.ID); err == nil {
		return fmt.Errorf("header of removed block still served by ID")
	}
	for _, tx := range b.Transactions {
		if _, err := da.GetTransaction(tx.ID); err == nil {
			return fmt.Errorf("transaction %x of removed block still served", tx.ID[:4])
		}
	}
	return nil
}

func runCase(t *rapid.T) {
	nVal := rapid.IntRange(1, 5).Draw(t, "validators")
	cfg := node.Config{Genesis: node.EqualGenesis(nVal), BatchSize: rapid.IntRange(nVal, nVal+2).Draw(t, "batch"),
		MaxBlockCache: rapid.SampledFrom([]int{2, 5, 515}).Draw(t, "cache"), KeepEvents: rapid.SampledFrom([]int{-1, 1, 3, 300, node.KeepEventsNone}).Draw(t, "keepEvents"),
		GenesisHeight: 0} // non-zero genesis heights cannot initialise (Chain.PrepareCache reads below genesis): observation O2 in DESIGN.md, outside C05
	n, err := node.New(cfg)
	if err != nil {
		t.Fatalf("new node: %v", err)
	}
	defer n.Close()
	opts := node.GenOpts{MaxTxs: 4, AllowChange: true, AllowAgg: true, AllowStandby: true, AllowRotate: true}
	flags := map[string]bool{}
	var hist []string
	hlen := rapid.IntRange(0, 22).Draw(t, "history")
	var blocks []*blockchain.Block
	for i := 0; i < hlen; i++ {
		sp := n.DrawSpec(t, opts, flags)
		b, err := n.Apply(sp)
		if err != nil {
			t.Fatalf("harness-built block rejected at step %d: %v\nhistory: %v", i, err, hist)
		}
		blocks = append(blocks, b)
		hist = append(hist, describe(b, sp))
	}
	n.TakeEvents()
	k := rapid.IntRange(1, 4).Draw(t, "k")
	saveTemp := rapid.Bool().Draw(t, "saveTemp")
	mode := rapid.SampledFrom([]string{"apply-delete", "apply-delete", "sibling", "restore", "sync-detour"}).Draw(t, "mode")
	if mode == "sync-detour" {
		saveTemp = true
	}
	caseFlags := map[string]bool{}
	type frame struct {
		dump []node.KV
		look string
		bft  [3]uint32
	}
	var frames []frame
	var applied []*blockchain.Block
	var appliedSpecs []node.Spec
	for i := 0; i < k; i++ {
		p, pc, c := n.Heights()
		frames = append(frames, frame{n.Dump(), snapshotLookups(n), [3]uint32{p, pc, c}})
		sp := n.DrawSpec(t, opts, caseFlags)
		b, err := n.Apply(sp)
		if err != nil {
			t.Fatalf("harness-built block rejected: %v\nhistory: %v", err, hist)
		}
		applied = append(applied, b)
		appliedSpecs = append(appliedSpecs, sp)
		hist = append(hist, "APPLY "+describe(b, sp))
	}
	fReached := n.Finalized()
	// blocks at or below finality cannot be deleted (C04); only delete above it
	deletable := 0
	for i := k - 1; i >= 0; i-- {
		if applied[i].Header.Height > fReached {
			deletable++
		} else {
			break
		}
	}
	if deletable == 0 {
		evid.R.Case(strings.Join(hist, "|")+"|none-deletable", false, nil, "history", "all-finalized")
		return
	}
	tipHeight := n.Tip().Header.Height
	for i := 0; i < deletable; i++ {
		tip := n.Tip()
		if rapid.IntRange(0, 5).Draw(t, "revertRefused") == 0 {
			// the application refuses to revert once: the removal fails and must leave everything as it was (a removal is
			// one step: nothing of it may be applied when it does not happen), and it can be retried
			pre, preLook := n.Dump(), snapshotLookups(n)
			n.ABI.FailNextRevert(1)
			if err := n.Exec.VerifDeleteBlock(tip, saveTemp); err == nil {
				t.Fatalf("delete of tip %d succeeded although the application refused to revert\nhistory: %v", tip.Header.Height, hist)
			}
			if d := diffDumps(filterT(pre, 0, -1, true), filterT(n.Dump(), 0, -1, true)); d != "" {
				t.Fatalf("refused removal of block h=%d changed the database:\n%s\nhistory:\n%s", tip.Header.Height, d, strings.Join(hist, "\n"))
			}
			if l := snapshotLookups(n); l != preLook {
				t.Fatalf("refused removal changed the lookups:\nbefore: %s\nafter:  %s\nhistory:\n%s", preLook, l, strings.Join(hist, "\n"))
			}
			hist = append(hist, fmt.Sprintf("DELETE h=%d refused by the application (nothing changed)", tip.Header.Height))
			caseFlags["revert-refused"] = true
		}
		if err := n.Exec.VerifDeleteBlock(tip, saveTemp); err != nil {
			t.Fatalf("delete of tip %d (finalized %d) failed: %v\nhistory: %v", tip.Header.Height, fReached, err, hist)
		}
		hist = append(hist, fmt.Sprintf("DELETE h=%d saveTemp=%v", tip.Header.Height, saveTemp))
		fr := frames[k-1-i]
		pruned := eventsPruned(node.EngineKeepEvents(cfg.KeepEvents), tipHeight, fReached)
		before, after := filter(fr.dump, fReached, pruned), filter(n.Dump(), fReached, pruned)
		if d := diffDumps(before, after); d != "" {
			t.Fatalf("state after apply+delete differs from state before apply (block h=%d):\n%s\nhistory:\n%s", tip.Header.Height, d, strings.Join(hist, "\n"))
		}
		if l := snapshotLookups(n); l != fr.look {
			t.Fatalf("lookups differ after delete:\nbefore: %s\nafter:  %s\nhistory:\n%s", fr.look, l, strings.Join(hist, "\n"))
		}
		p, pc, c := n.Heights()
		if [3]uint32{p, pc, c} != fr.bft {
			t.Fatalf("BFT heights after delete %v, before apply %v\nhistory:\n%s", [3]uint32{p, pc, c}, fr.bft, strings.Join(hist, "\n"))
		}
		if err := txLookupGone(n, tip); err != nil {
			// a transaction may legitimately still exist if an identical one is in an earlier block; harness never reuses txs
			t.Fatalf("%v\nhistory:\n%s", err, strings.Join(hist, "\n"))
		}
		// temp blocks: exactly the deleted ones when requested
		temps, err := n.Chain.DataAccess().GetTempBlocks()
		if err != nil {
			t.Fatalf("GetTempBlocks: %v", err)
		}
		want := 0
		if saveTemp {
			want = i + 1
		}
		if len(temps) != want {
			t.Fatalf("temp blocks: got %d want %d (saveTemp=%v)\nhistory:\n%s", len(temps), want, saveTemp, strings.Join(hist, "\n"))
		}
		if saveTemp {
			found := false
			for _, tb := range temps {
				if bytes.Equal(tb.Header.ID, tip.Header.ID) && bytes.Equal(tb.Encode(), tip.Encode()) {
					found = true
				}
			}
			if !found {
				t.Fatalf("deleted block h=%d not retrievable from temp blocks\nhistory:\n%s", tip.Header.Height, strings.Join(hist, "\n"))
			}
		}
	}
	deleted := applied[k-deletable:]
	switch mode {
	case "restore":
		// sync's restore path: re-apply the removed blocks with removeTemp
		for _, b := range deleted {
			if err := n.Exec.VerifProcessValidated(b, false, true); err != nil {
				t.Fatalf("re-apply of removed block h=%d failed: %v\nhistory:\n%s", b.Header.Height, err, strings.Join(hist, "\n"))
			}
		}
		if !bytes.Equal(n.Tip().Header.ID, applied[k-1].Header.ID) {
			t.Fatalf("tip after restore differs")
		}
		temps, _ := n.Chain.DataAccess().GetTempBlocks()
		if len(temps) != 0 {
			t.Fatalf("temp blocks left after restore: %d\nhistory:\n%s", len(temps), strings.Join(hist, "\n"))
		}
		caseFlags["restore"] = true
	case "sync-detour":
		// the failed-fast-sync path: own blocks are parked as temp blocks, 1-2 foreign blocks are applied on the common
		// block and removed again (without parking them), then the own blocks are restored. Applying and removing the foreign
		// blocks must leave everything as it was, the parked blocks included.
		type fr2 struct {
			dump []node.KV
			look string
		}
		var st []fr2
		var foreign []*blockchain.Block
		nf := rapid.IntRange(1, 2).Draw(t, "foreign")
		// Variant (added after seeded change C05-p): the foreign blocks are removed WITH saveTemp as well - a second sync that fails after
		// an earlier failed sync left parked blocks behind. The temp area is keyed by height, so the foreign block replaces the parked own
		// block of its height; what the statement demands is that the block removed last "when requested" is retrievable.
		foreignSaveTemp := rapid.IntRange(0, 2).Draw(t, "foreignSaveTemp") == 0
		for i := 0; i < nf; i++ {
			st = append(st, fr2{n.Dump(), snapshotLookups(n)})
			sp := n.DrawSpec(t, opts, caseFlags)
			b, err := n.Apply(sp)
			if err != nil {
				t.Fatalf("foreign block rejected: %v\nhistory:\n%s", err, strings.Join(hist, "\n"))
			}
			foreign = append(foreign, b)
			hist = append(hist, "APPLY foreign "+describe(b, sp))
		}
		f2 := n.Finalized()
		if f2 >= foreign[0].Header.Height {
			evid.R.Case(strings.Join(hist, "|")+"|foreign-finalized", false, nil, "history", "mode-sync-detour", "foreign-finalized")
			return
		}
		top := n.Tip().Header.Height
		for i := nf - 1; i >= 0; i-- {
			tip := n.Tip()
			if err := n.Exec.VerifDeleteBlock(tip, foreignSaveTemp); err != nil {
				t.Fatalf("delete of foreign block %d failed: %v\nhistory:\n%s", tip.Header.Height, err, strings.Join(hist, "\n"))
			}
			hist = append(hist, fmt.Sprintf("DELETE foreign h=%d saveTemp=%v", tip.Header.Height, foreignSaveTemp))
			pr := eventsPruned(node.EngineKeepEvents(cfg.KeepEvents), top, f2)
			if foreignSaveTemp {
				tb, err := n.Chain.DataAccess().GetTempBlocks()
				found := false
				for _, x := range tb {
					found = found || (bytes.Equal(x.Header.ID, tip.Header.ID) && bytes.Equal(x.Encode(), tip.Encode()))
				}
				if err != nil || !found {
					t.Fatalf("foreign block h=%d removed with saveTemp is not retrievable from the temp blocks (%d temp blocks, err=%v)\nhistory:\n%s", tip.Header.Height, len(tb), err, strings.Join(hist, "\n"))
				}
			}
			before, after := filterT(st[i].dump, f2, pr, !foreignSaveTemp), filterT(n.Dump(), f2, pr, !foreignSaveTemp)
			if d := diffDumps(before, after); d != "" {
				t.Fatalf("state (parked temp blocks included) after apply+delete of a foreign block differs from the state before:\n%s\nhistory:\n%s", d, strings.Join(hist, "\n"))
			}
			if l := snapshotLookups(n); l != st[i].look {
				t.Fatalf("lookups differ after delete of a foreign block:\nbefore: %s\nafter:  %s\nhistory:\n%s", st[i].look, l, strings.Join(hist, "\n"))
			}
		}
		temps, err := n.Chain.DataAccess().GetTempBlocks()
		if foreignSaveTemp {
			// the parked own blocks of the foreign heights were replaced; restore from the harness's copies (removeTemp clears each height)
			temps = append([]*blockchain.Block{}, deleted...)
			caseFlags["detour-foreign-parked-too"] = true
		} else if err != nil || len(temps) != deletable {
			t.Fatalf("parked blocks after the detour: got %d (%v) want %d\nhistory:\n%s", len(temps), err, deletable, strings.Join(hist, "\n"))
		}
		// restoreBlocks: the parked blocks go back in ascending height
		sort.Slice(temps, func(i, j int) bool { return temps[i].Header.Height < temps[j].Header.Height })
		for _, b := range temps {
			if err := n.Exec.VerifProcessValidated(b, false, true); err != nil {
				t.Fatalf("restore of parked block h=%d failed: %v\nhistory:\n%s", b.Header.Height, err, strings.Join(hist, "\n"))
			}
		}
		if !bytes.Equal(n.Tip().Header.ID, applied[k-1].Header.ID) {
			t.Fatalf("tip after restore differs from the original tip\nhistory:\n%s", strings.Join(hist, "\n"))
		}
		if temps, _ := n.Chain.DataAccess().GetTempBlocks(); len(temps) != 0 && !(foreignSaveTemp && nf > deletable) {
			t.Fatalf("temp blocks left after restore: %d\nhistory:\n%s", len(temps), strings.Join(hist, "\n"))
		}
		caseFlags["detour"] = true
	case "sibling":
		// apply a sibling A' of the first removed block; a twin that never saw A must end in the same state
		sp := n.DrawSpec(t, opts, caseFlags)
		sib, err := n.Apply(sp)
		if err != nil {
			t.Fatalf("sibling rejected: %v\nhistory:\n%s", err, strings.Join(hist, "\n"))
		}
		twin, err := node.New(withTS(cfg, n))
		if err != nil {
			t.Fatalf("twin: %v", err)
		}
		defer twin.Close()
		for _, b := range append(append([]*blockchain.Block{}, blocks...), applied[:k-deletable]...) {
			if err := twin.Exec.VerifProcess(node.CloneBlock(b), "peer"); err != nil {
				t.Fatalf("twin replay: %v", err)
			}
		}
		if err := twin.Exec.VerifProcess(node.CloneBlock(sib), "peer"); err != nil || !bytes.Equal(twin.Tip().Header.ID, sib.Header.ID) {
			t.Fatalf("twin rejects sibling: %v", err)
		}
		f1, f2 := n.Finalized(), twin.Finalized()
		fm := f1
		if f2 > fm {
			fm = f2
		}
		pr := eventsPruned(node.EngineKeepEvents(cfg.KeepEvents), tipHeight, fm)
		a, b := filter(n.Dump(), fm, pr), filter(twin.Dump(), fm, pr)
		if d := diffDumps(a, b); d != "" {
			t.Fatalf("reorg to sibling differs from twin that applied the sibling directly:\n%s\nhistory:\n%s", d, strings.Join(hist, "\n"))
		}
		caseFlags["sibling"] = true
	}
	touched := caseFlags["param-change"] || (caseFlags["txs"] && caseFlags["assets"] && caseFlags["events"])
	labels := []string{"history", "mode-" + mode}
	for f := range caseFlags {
		labels = append(labels, "block-"+f)
	}
	sort.Strings(labels[1:])
	if saveTemp {
		labels = append(labels, "saveTemp")
	}
	if fReached > frames[0].bft[1] {
		labels = append(labels, "finality-advanced-by-applied")
	}
	evid.R.Case(strings.Join(hist, "|"), touched, func() any {
		return map[string]any{"kind": "apply-delete", "validators": nVal, "history": hist, "mode": mode, "deleted": deletable, "saveTemp": saveTemp}
	}, labels...)
}

func withTS(cfg node.Config, n *node.Node) node.Config {
	cfg.GenesisTS = n.Cfg.GenesisTS
	return cfg
}

func describe(b *blockchain.Block, sp node.Spec) string {
	s := fmt.Sprintf("h=%d gen=%x txs=%d assets=%d evB=%d evA=%d", b.Header.Height, b.Header.GeneratorAddress[:2], len(b.Transactions), len(b.Assets), sp.Script.EvBefore, sp.Script.EvAfter)
	if sp.Script.Next != nil && !sp.NoScript {
		s += fmt.Sprintf(" next=%v/%v/%v pc=%d ct=%d", sp.Script.Next.Idx, sp.Script.Next.Weights, sp.Script.Next.Standby, sp.Script.Next.Precommit, sp.Script.Next.Cert)
	}
	if !b.Header.AggregateCommit.Empty() {
		s += fmt.Sprintf(" agg@%d", b.Header.AggregateCommit.Height)
	}
	return s
}

func TestApplyDelete(t *testing.T) { rapid.Check(t, runCase) }

// Regression (fixed defect C05-F1): more consecutive removals than cached blocks left the chain without a cached tip.
func TestRegressCacheRefill(t *testing.T) {
	n, err := node.New(node.Config{Genesis: node.EqualGenesis(2), MaxBlockCache: 2, KeepEvents: -1})
	if err != nil {
		t.Fatal(err)
	}
	defer n.Close()
	for i := 0; i < 3; i++ {
		if _, err := n.Apply(node.Spec{}); err != nil {
			t.Fatal(err)
		}
	}
	for i := 0; i < 3; i++ {
		if err := n.Exec.VerifDeleteBlock(n.Tip(), false); err != nil {
			t.Fatalf("delete %d: %v", i, err)
		}
		if n.Chain.LastBlock() == nil {
			t.Fatalf("no cached tip after %d removals (cache size 2)", i+1)
		}
	}
	if n.Tip().Header.Height != 0 {
		t.Fatalf("tip height %d", n.Tip().Header.Height)
	}
	if _, err := n.Apply(node.Spec{}); err != nil {
		t.Fatalf("apply after removals: %v", err)
	}
	evid.R.Case("regress-cache-refill", true, func() any { return "cache=2, apply 3, delete 3, apply" }, "regress")
}

// The state-diff mechanism underneath deleteBlock, driven directly with every in-block key pattern (including patterns the
// BFT module itself never produces, e.g. delete-then-recreate of a stored key): commit a staged block exactly as
// processValidated does, then revert its diff exactly as deleteBlock does; the store must be byte-identical to before.
func TestDiffApplyRevert(t *testing.T) {
	rapid.Check(t, func(t *rapid.T) {
		d, err := db.NewInMemoryDB()
		if err != nil {
			t.Fatal(err)
		}
		defer d.Close()
		prefix := []byte{10}
		keyGen := rapid.SliceOfN(rapid.SampledFrom([]byte{0, 1, 0x61, 0xff}), 1, 3)
		valGen := rapid.SliceOfN(rapid.Byte(), 0, 4)
		nInit := rapid.IntRange(0, 8).Draw(t, "initial")
		for i := 0; i < nInit; i++ {
			d.Set(append(append([]byte{}, prefix...), keyGen.Draw(t, "k0")...), valGen.Draw(t, "v0"))
		}
		d.Set([]byte{9, 9}, []byte{1}) // a record outside the state prefix must never be touched
		dump := func() map[string]string {
			m := map[string]string{}
			for _, kv := range d.Iterate([]byte{}, -1, false) {
				m[string(kv.Key())] = string(kv.Value())
			}
			return m
		}
		blocks := rapid.IntRange(1, 3).Draw(t, "blocks")
		var befores []map[string]string
		var diffKeys [][]byte
		var log []string
		recreate := false
		snapshotRestored := false
		for b := 0; b < blocks; b++ {
			befores = append(befores, dump())
			st := diffdb.New(d, prefix)
			deleted := map[string]bool{}
			nOps := rapid.IntRange(1, 10).Draw(t, "ops")
			// snapshots: what the state machine does around every command (taken before, restored when the command fails). A restored
			// overlay must still remember the values the keys had BEFORE the block (added after seeded change C05-q: the snapshot copy
			// took the staged value for the original one, so a block with a rolled-back command could not be reverted exactly).
			snap := -1
			var snapDeleted map[string]bool
			for i := 0; i < nOps; i++ {
				k := keyGen.Draw(t, "k")
				switch rapid.SampledFrom([]string{"set", "set", "del", "get", "snapshot", "restore"}).Draw(t, "op") {
				case "snapshot":
					if snap < 0 {
						snap = st.Snapshot()
						snapDeleted = map[string]bool{}
						for x := range deleted {
							snapDeleted[x] = true
						}
						log = append(log, fmt.Sprintf("b%d snapshot", b))
					}
					continue
				case "restore":
					if snap >= 0 {
						if err := st.RestoreSnapshot(snap); err != nil {
							t.Fatalf("RestoreSnapshot: %v\nops: %v", err, log)
						}
						snap = -1
						deleted = snapDeleted
						snapshotRestored = true
						log = append(log, fmt.Sprintf("b%d restore", b))
					}
					continue
				}
				switch rapid.SampledFrom([]string{"set", "set", "del", "get"}).Draw(t, "op2") {
				case "set":
					v := valGen.Draw(t, "v")
					if _, existed := befores[b][string(append(append([]byte{}, prefix...), k...))]; existed && deleted[string(k)] {
						recreate = true
					}
					st.Set(k, v)
					log = append(log, fmt.Sprintf("b%d set %x=%x", b, k, v))
				case "del":
					st.Del(k)
					deleted[string(k)] = true
					log = append(log, fmt.Sprintf("b%d del %x", b, k))
				default:
					st.Get(k)
				}
			}
			batch := d.NewBatch()
			diff := st.Commit(batch)
			dk := []byte{51, byte(b)}
			batch.Set(dk, diff.Encode())
			d.Write(batch)
			diffKeys = append(diffKeys, dk)
		}
		for b := blocks - 1; b >= 0; b-- {
			raw, ok := d.Get(diffKeys[b])
			if !ok {
				t.Fatalf("diff record missing")
			}
			diff := &diffdb.Diff{}
			if err := diff.Decode(raw); err != nil {
				t.Fatal(err)
			}
			batch := d.NewBatch()
			diffdb.New(d, prefix).RevertDiff(batch, diff)
			batch.Del(diffKeys[b])
			d.Write(batch)
			got, want := dump(), befores[b]
			if dd := diffDumps(want, got); dd != "" {
				t.Fatalf("apply+revert of block %d does not restore the store:\n%s\nops: %v", b, dd, log)
			}
		}
		labels := []string{"diff-apply-revert"}
		if recreate {
			labels = append(labels, "delete-then-recreate-of-stored-key")
		}
		if snapshotRestored {
			labels = append(labels, "diff-with-restored-snapshot")
		}
		evid.R.Case("diff|"+strings.Join(log, ";"), recreate || blocks > 1, nil, labels...)
	})
}

// A reorg performed by the engine itself - the LIP-0014 tie break inside Executer.process: the tip A (received outside its slot)
// is replaced by its sibling B from the owner of the current slot. The node must end in the state of a twin that applied B
// first, temp blocks included (the tie break parks nothing).
func TestTieBreakReorg(t *testing.T) {
	rapid.Check(t, func(t *rapid.T) {
		nVal := rapid.IntRange(2, 5).Draw(t, "validators")
		cfg := node.Config{Genesis: node.EqualGenesis(nVal), BatchSize: nVal + 1, MaxBlockCache: rapid.SampledFrom([]int{2, 5, 515}).Draw(t, "cache"),
			KeepEvents: rapid.SampledFrom([]int{-1, 1, 3, 300, node.KeepEventsNone}).Draw(t, "keepEvents")}
		n, err := node.New(cfg)
		if err != nil {
			t.Fatalf("node: %v", err)
		}
		defer n.Close()
		opts := node.GenOpts{MaxTxs: 3, AllowChange: true, AllowAgg: true, AllowStandby: true, AllowRotate: true}
		var blocks []*blockchain.Block
		var hist []string
		for i := rapid.IntRange(1, 14).Draw(t, "history"); i > 0; i-- {
			sp := n.DrawSpec(t, opts, map[string]bool{})
			b, err := n.Apply(sp)
			if err != nil {
				t.Fatalf("harness-built block rejected: %v", err)
			}
			blocks = append(blocks, b)
			hist = append(hist, describe(b, sp))
		}
		tip := n.Tip()
		if tip.Header.Height <= n.Finalized() {
			return
		}
		sib, ok := n.BuildTieBreakSibling(rapid.Uint32Range(100, 999).Draw(t, "salt"))
		if !ok {
			evid.R.Label("tie-break-sibling-not-constructible", 1)
			return
		}
		now := time.Now()
		n.Exec.VerifSetLastBlockReceived(&now)
		if err := n.Exec.VerifProcess(node.CloneBlock(sib), "peer"); err != nil || !bytes.Equal(n.Tip().Header.ID, sib.Header.ID) {
			why := error(nil)
			if derr := n.Exec.VerifDeleteBlock(n.Tip(), false); derr == nil {
				why = n.Exec.VerifProcessValidated(node.CloneBlock(sib), false, false)
			}
			t.Fatalf("valid tie-break sibling did not replace the tip: err=%v (applied directly after deleting the tip: %v)\nhistory:\n%s", err, why, strings.Join(hist, "\n"))
		}
		twin, err := node.New(withTS(cfg, n))
		if err != nil {
			t.Fatalf("twin: %v", err)
		}
		defer twin.Close()
		for _, b := range blocks[:len(blocks)-1] {
			if err := twin.Exec.VerifProcess(node.CloneBlock(b), "peer"); err != nil {
				t.Fatalf("twin replay: %v", err)
			}
		}
		if err := twin.Exec.VerifProcess(node.CloneBlock(sib), "peer"); err != nil || !bytes.Equal(twin.Tip().Header.ID, sib.Header.ID) {
			t.Fatalf("twin rejects the sibling: %v", err)
		}
		f := n.Finalized()
		if tf := twin.Finalized(); tf > f {
			f = tf
		}
		pr := eventsPruned(node.EngineKeepEvents(cfg.KeepEvents), tip.Header.Height, f)
		if d := diffDumps(filterT(n.Dump(), f, pr, true), filterT(twin.Dump(), f, pr, true)); d != "" {
			t.Fatalf("after the tie break the node differs from a twin that applied the sibling first (temp blocks included):\n%s\nhistory:\n%s", d, strings.Join(hist, "\n"))
		}
		if a, b := snapshotLookups(n), snapshotLookups(twin); a != b {
			t.Fatalf("lookups differ from the twin after the tie break:\nnode: %s\ntwin: %s", a, b)
		}
		evid.R.Case("tb|"+strings.Join(hist, "|"), true, func() any {
			return map[string]any{"kind": "tie-break-reorg", "history": hist, "height": tip.Header.Height}
		}, "tie-break-reorg")
	})
}
