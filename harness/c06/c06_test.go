package c06

import (
	"os"
	"bytes"
	"fmt"
	"sort"
	"strings"
	"testing"

	"github.com/LiskHQ/lisk-engine/pkg/blockchain"
	"github.com/LiskHQ/lisk-engine/pkg/consensus"
	"github.com/LiskHQ/lisk-engine/pkg/consensus/certificate"
	"github.com/LiskHQ/lisk-engine/pkg/p2p"
	"pgregory.net/rapid"

	"verifharness/evid"
	"verifharness/node"
)

func TestMain(m *testing.M) { evid.Main(m, "C06") }

// buildState: a node with a chain that has precommitted > certified most of the time, optional parameter changes.
func buildState(t *rapid.T) (*node.Node, []string) { return buildStateOpt(t, false) }

// buildStateOpt: forPool prefers chains longer than 100 blocks with validator-set changes near the tip, because the gossip
// validator's range rule only lets commits through once maxHeightPrecommitted exceeds 100 (see DESIGN.md, observation O3).
func buildStateOpt(t *rapid.T, forPool bool) (*node.Node, []string) {
	nVal := rapid.IntRange(3, 9).Draw(t, "validators") // DrawParams picks 1..nVal: the sets include exactly 8 validators (one full bitmap byte)
	g := node.DrawParams(t, nVal, false, "genesis")
	// keep at least 3 validators so that strict signer subsets exist
	for len(g.Idx) < 3 {
		g = node.DrawParams(t, nVal, false, "genesis")
	}
	cfg := node.Config{Genesis: *g, BatchSize: 10}
	n, err := node.New(cfg)
	if err != nil {
		t.Fatalf("node: %v", err)
	}
	var hist []string
	hist = append(hist, fmt.Sprintf("genesis validators=%v weights=%v precommit=%d cert=%d", g.Idx, g.Weights, g.Precommit, g.Cert))
	long := rapid.IntRange(0, 9).Draw(t, "long") == 0
	if forPool {
		long = rapid.IntRange(0, 1).Draw(t, "longPool") == 0
	}
	length := rapid.IntRange(8, 30).Draw(t, "length")
	if long {
		length = rapid.IntRange(101, 125).Draw(t, "lengthLong") // beyond the first 100 heights (CommitRangeStored)
	}
	changes := rapid.IntRange(0, 2).Draw(t, "changes")
	changeAt := map[int]bool{}
	// pool cases on long chains: half of them with an EARLY change that stays uncertified (certification lagging more than
	// 100 blocks behind finality: the commits for that height are the old ones the pool keeps and re-selects)
	earlyLag := forPool && long && rapid.Bool().Draw(t, "earlyLag")
	if earlyLag {
		changeAt[rapid.IntRange(2, 12).Draw(t, "changeAtEarly")] = true
	}
	for i := 0; i < changes; i++ {
		if forPool && long {
			changeAt[rapid.IntRange(length-40, length-6).Draw(t, "changeAtLate")] = true
		} else {
			changeAt[rapid.IntRange(2, length-1).Draw(t, "changeAt")] = true
		}
	}
	for i := 1; i <= length; i++ {
		sp := node.Spec{Script: node.Script{Salt: uint32(i % 3)}}
		if changeAt[i] {
			sp.Script.Next = node.DrawParams(t, 9, false, "chg")
			if rapid.Bool().Draw(t, "derivedChange") { // same validators, ONE aspect altered (certificate threshold alone, ...)
				if d, kind := n.DerivedChange(t); d != nil {
					sp.Script.Next = d
					evid.R.Label("chain-with-"+kind+"-change", 1)
				}
			}
			hist = append(hist, fmt.Sprintf("h=%d change -> validators=%v weights=%v precommit=%d cert=%d", i, sp.Script.Next.Idx, sp.Script.Next.Weights, sp.Script.Next.Precommit, sp.Script.Next.Cert))
		}
		// occasionally certify part of the chain through a block's aggregate commit
		_, pc, cert := n.Heights()
		lateQuiet := forPool && long && i > length-50 // keep a wide uncertified range so that gossiped commits are not discarded as stale
		if pc > cert && !lateQuiet && !earlyLag && rapid.IntRange(0, 7).Draw(t, "agg") == 0 {
			hi := pc
			if nh, ok := n.NextParamHeight(cert + 1); ok && nh-1 < hi {
				hi = nh - 1
			}
			if hi > cert {
				h := rapid.Uint32Range(cert+1, hi).Draw(t, "aggH")
				if p, err := n.CurrentParams(h); err == nil {
					if ac, err := n.BuildAggregate(h, p.Idx); err == nil {
						sp.Agg = ac
						hist = append(hist, fmt.Sprintf("h=%d carries aggregate commit for %d", i, h))
					}
				}
			}
		}
		if _, err := n.Apply(sp); err != nil {
			t.Fatalf("apply %d: %v\n%s", i, err, strings.Join(hist, "\n"))
		}
	}
	p, pc, c := n.Heights()
	hist = append(hist, fmt.Sprintf("tip=%d prevoted=%d precommitted=%d certified=%d", n.Tip().Header.Height, p, pc, c))
	return n, hist
}

// nextChange: smallest height > cert+1 at which a parameter set starts (LIP-0061), read from the real store key space.
func nextChange(n *node.Node, cert uint32) (uint32, bool) {
	// read from the raw key space, not through the API under test; the two must agree
	nh, ok := n.NextParamHeight(cert + 1)
	return nh, ok
}

type acCase struct {
	Height   uint32
	Signers  []int
	Tamper   string
	Expected bool
	Why      string
}

func weightOf(p *node.NextParams, signers []int) uint64 {
	var w uint64
	for _, s := range signers {
		for i, ix := range p.Idx {
			if ix == s {
				w += p.Weights[i]
			}
		}
	}
	return w
}

// (a) constructed aggregate commits: verdict known by construction.
func TestConstructedAggregates(t *testing.T) {
	rapid.Check(t, func(t *rapid.T) {
		n, hist := buildState(t)
		defer n.Close()
		_, pc, cert := n.Heights()
		tip := n.Tip().Header.Height
		nTries := rapid.IntRange(2, 6).Draw(t, "tries")
		for i := 0; i < nTries; i++ {
			var c acCase
			// height relative to the three bounds
			nh, hasNext := nextChange(n, cert)
			cands := []uint32{cert, cert + 1, pc, pc + 1}
			if cert > 0 {
				cands = append(cands, cert-1)
			}
			if hasNext {
				cands = append(cands, nh-1, nh, nh+1)
			}
			if pc > cert+1 {
				cands = append(cands, rapid.Uint32Range(cert+1, pc).Draw(t, "inside"))
			}
			c.Height = rapid.SampledFrom(cands).Draw(t, "height")
			if c.Height == 0 || c.Height > tip {
				continue
			}
			p, err := n.CurrentParams(c.Height)
			if err != nil {
				continue // parameters of that height already pruned: the node cannot verify anything there
			}
			// signer subset
			k := rapid.IntRange(1, len(p.Idx)).Draw(t, "k")
			if rapid.Bool().Draw(t, "manySigners") && len(p.Idx) > 1 {
				k = rapid.IntRange(len(p.Idx)*2/3, len(p.Idx)).Draw(t, "kMany")
				if k == 0 {
					k = 1
				}
			}
			perm := rapid.Permutation(p.Idx).Draw(t, "perm")
			c.Signers = append([]int{}, perm[:k]...)
			sort.Ints(c.Signers)
			c.Tamper = rapid.SampledFrom([]string{"none", "none", "none", "bit-added", "bit-removed", "foreign-signer", "other-height", "other-chain", "sig-flip"}).Draw(t, "tamper")
			hd, err := n.Chain.DataAccess().GetBlockHeaderByHeight(c.Height)
			if err != nil {
				t.Fatalf("header %d: %v", c.Height, err)
			}
			ac, err := n.BuildAggregateFor(hd, c.Height, c.Signers, node.ChainID)
			if err != nil {
				t.Fatalf("build aggregate: %v", err)
			}
			w := weightOf(p, c.Signers)
			inRange := c.Height > cert && c.Height <= pc && (!hasNext || c.Height <= nh-1)
			c.Expected = inRange && w >= p.Cert
			c.Why = fmt.Sprintf("cert=%d pc=%d next=%v/%d weight=%d threshold=%d", cert, pc, hasNext, nh, w, p.Cert)
			// position of each validator in ascending BLS key order
			order := append([]int{}, p.Idx...)
			keys := node.Keys()
			sort.Slice(order, func(a, b int) bool { return bytes.Compare(keys[order[a]].BLSPub, keys[order[b]].BLSPub) < 0 })
			pos := map[int]int{}
			for i, ix := range order {
				pos[ix] = i
			}
			switch c.Tamper {
			case "bit-added":
				// claim a validator that did not sign
				added := false
				for _, ix := range p.Idx {
					signed := false
					for _, s := range c.Signers {
						signed = signed || s == ix
					}
					if !signed {
						ac.AggregationBits[pos[ix]/8] |= 1 << (pos[ix] % 8)
						added = true
						break
					}
				}
				if !added {
					c.Tamper = "none"
				} else {
					c.Expected = false
				}
			case "bit-removed":
				s := c.Signers[0]
				ac.AggregationBits[pos[s]/8] &^= 1 << (pos[s] % 8)
				c.Expected = false
				if len(c.Signers) == 1 {
					// no bit left: bits non-empty but all zero; an aggregate over nobody cannot reach a positive threshold
					c.Expected = false
				}
			case "foreign-signer":
				// one signature comes from a key outside the validator set of that height
				var foreign int = -1
				for cand := 0; cand < node.PoolSize; cand++ {
					in := false
					for _, ix := range p.Idx {
						in = in || ix == cand
					}
					if !in {
						foreign = cand
						break
					}
				}
				if foreign < 0 {
					c.Tamper = "none"
					break
				}
				// sign with the foreign key but claim the bit of signer[0]
				cert0 := certificate.NewCertificateFromBlock(hd)
				signers := append([]int{foreign}, c.Signers[1:]...)
				ac2, err := n.BuildAggregateFor(hd, c.Height, signers, node.ChainID)
				if err != nil {
					t.Fatalf("%v", err)
				}
				_ = cert0
				ac2.AggregationBits = ac.AggregationBits // bits of the legitimate subset
				ac = ac2
				c.Expected = false
			case "other-height":
				if c.Height < 2 {
					c.Tamper = "none"
					break
				}
				other, _ := n.Chain.DataAccess().GetBlockHeaderByHeight(c.Height - 1)
				ac, _ = n.BuildAggregateFor(other, c.Height, c.Signers, node.ChainID)
				ac.Height = c.Height
				c.Expected = false
			case "other-chain":
				ac, _ = n.BuildAggregateFor(hd, c.Height, c.Signers, []byte{4, 0, 0, 0xa})
				c.Expected = false
			case "sig-flip":
				// a different valid signature: the aggregate of a different signer set, same bits
				if len(p.Idx) < 2 {
					c.Tamper = "none"
					break
				}
				other := append([]int{}, perm[len(perm)-k:]...)
				sort.Ints(other)
				if fmt.Sprint(other) == fmt.Sprint(c.Signers) {
					c.Tamper = "none"
					break
				}
				ac2, _ := n.BuildAggregateFor(hd, c.Height, other, node.ChainID)
				ac.CertificateSignature = ac2.CertificateSignature
				c.Expected = false
			}
			err = n.Exec.VerifVerifyAggregateCommit(n.Store(), ac)
			got := err == nil
			if got != c.Expected {
				t.Fatalf("verifyAggregateCommit accepted=%v (err=%v), expected %v: %+v\n%s", got, err, c.Expected, c, strings.Join(hist, "\n"))
			}
			strict := len(c.Signers) < len(p.Idx)
			adjacent := c.Height == cert || c.Height == cert+1 || c.Height == pc || c.Height == pc+1 || (hasNext && (c.Height == nh-1 || c.Height == nh))
			evid.R.Case(fmt.Sprintf("%v|%+v", hist, c), strict || adjacent, func() any {
				return map[string]any{"kind": "constructed", "state": hist, "case": c}
			}, "constructed", "tamper-"+c.Tamper, fmt.Sprintf("expected-%v", c.Expected))
		}
		// the empty aggregate commit: accepted iff its height equals the certified height
		for _, h := range []uint32{cert, cert + 1} {
			err := n.Exec.VerifVerifyAggregateCommit(n.Store(), &blockchain.AggregateCommit{Height: h, AggregationBits: []byte{}, CertificateSignature: []byte{}})
			if (err == nil) != (h == cert) {
				t.Fatalf("empty aggregate commit with height %d (certified %d): err=%v", h, cert, err)
			}
		}
		// half-empty commits (bits without a signature, a signature without bits) are aggregates over nobody: never accepted,
		// neither at the certified height (where only the wholly empty commit stands for "nothing new") nor above it
		someSig := bytes.Repeat([]byte{0xa5}, 96)
		if cert > 0 {
			if p, err := n.CurrentParams(cert); err == nil {
				if hd, err := n.Chain.DataAccess().GetBlockHeaderByHeight(cert); err == nil {
					if ac, err := n.BuildAggregateFor(hd, cert, p.Idx, node.ChainID); err == nil {
						someSig = ac.CertificateSignature // the genuine signature of the certified height
					}
				}
			}
		}
		for _, h := range []uint32{cert, cert + 1} {
			for name, ac := range map[string]*blockchain.AggregateCommit{
				"signature-without-bits": {Height: h, AggregationBits: []byte{}, CertificateSignature: someSig},
				"bits-without-signature": {Height: h, AggregationBits: []byte{0x0f}, CertificateSignature: []byte{}},
			} {
				if err := n.Exec.VerifVerifyAggregateCommit(n.Store(), ac); err == nil {
					t.Fatalf("half-empty aggregate commit (%s) accepted at height %d (certified %d)\n%s", name, h, cert, strings.Join(hist, "\n"))
				}
				evid.R.Case(fmt.Sprintf("%v|half-empty|%s|%d", hist, name, h), h == cert, nil, "constructed", "tamper-half-empty")
			}
		}
	})
}

// certifiableTop: highest height an aggregate commit may have now.
func certifiableTop(n *node.Node, cert, pc uint32) uint32 {
	hi := pc
	if nh, ok := nextChange(n, cert); ok && nh-1 < hi {
		hi = nh - 1
	}
	return hi
}

func encodeCommits(cs ...*certificate.SingleCommit) []byte {
	return (&consensus.EventPostSingleCommits{SingleCommits: cs}).Encode()
}

func putUvarint(b []byte, v uint64) []byte {
	for v >= 0x80 {
		b = append(b, byte(v)|0x80)
		v >>= 7
	}
	return append(b, byte(v))
}

// relabelled returns the encoding of a genuine single commit with only its height field rewritten (block ID, signer and
// signature untouched): what a relaying peer can forge without any key.
func relabelled(sc *certificate.SingleCommit, height uint32) []byte {
	var b []byte
	b = append(b, 0x0a)
	b = putUvarint(b, uint64(len(sc.BlockID())))
	b = append(b, sc.BlockID()...)
	b = append(b, 0x10)
	b = putUvarint(b, uint64(height))
	b = append(b, 0x1a)
	b = putUvarint(b, uint64(len(sc.ValidatorAddress())))
	b = append(b, sc.ValidatorAddress()...)
	b = append(b, 0x22)
	b = putUvarint(b, uint64(len(sc.CertificateSignature())))
	b = append(b, sc.CertificateSignature()...)
	return b
}

// rawCommitsMessage wraps encoded single commits into a postSingleCommits payload.
func rawCommitsMessage(commits ...[]byte) []byte {
	var b []byte
	for _, c := range commits {
		b = append(b, 0x0a)
		b = putUvarint(b, uint64(len(c)))
		b = append(b, c...)
	}
	return b
}

// (b) self-consistency: what the node assembles from its pool is accepted by its own verification, and only sound
// single commits enter the pool.
func TestPoolSelfConsistency(t *testing.T) {
	rapid.Check(t, func(t *rapid.T) {
		n, hist := buildStateOpt(t, true)
		defer n.Close()
		_, pc, cert := n.Heights()
		tip := n.Tip().Header.Height
		keys := node.Keys()
		nMsgs := rapid.IntRange(0, 6).Draw(t, "msgs")
		strictSubset := false
		invalidOffered := false
		// targeted: a signer subset of the validators of one certifiable height gossips valid commits (shuffled)
		if hi := certifiableTop(n, cert, pc); hi > cert {
			h := rapid.Uint32Range(cert+1, hi).Draw(t, "target")
			if p, err := n.CurrentParams(h); err == nil {
				hd, _ := n.Chain.DataAccess().GetBlockHeaderByHeight(h)
				perm := rapid.Permutation(p.Idx).Draw(t, "targetPerm")
				k := rapid.IntRange(1, len(perm)).Draw(t, "targetK")
				if rapid.IntRange(0, 3).Draw(t, "targetMany") > 0 {
					k = rapid.IntRange((len(perm)*2+2)/3, len(perm)).Draw(t, "targetKMany")
				}
				for _, ix := range perm[:k] {
					// below height 100 the gossip validator's range rule drops everything (observation O3): own certification then
					if tip <= 100 || rapid.Bool().Draw(t, "viaCertify") {
						if err := n.Exec.Certify(h-1, h, keys[ix].Addr, keys[ix].BLSPriv); err != nil {
							t.Fatalf("Certify: %v", err)
						}
						hist = append(hist, fmt.Sprintf("Certify(%d,%d) by %d", h-1, h, ix))
						continue
					}
					sc := certificate.NewSingleCommit(hd, keys[ix].Addr, node.ChainID, keys[ix].BLSPriv)
					res := n.Exec.VerifSingleCommitValidator(&p2p.Message{Data: encodeCommits(sc)})
					hist = append(hist, fmt.Sprintf("gossip valid single commit h=%d signer=%d -> %v", h, ix, res))
				}
				hist = append(hist, fmt.Sprintf("target height %d: %d of %d validators signed (weight %d, threshold %d)", h, k, len(perm), weightOf(p, perm[:k]), p.Cert))
			}
		}
		for i := 0; i < nMsgs; i++ {
			// one gossip message carries several single commits, possibly for heights under different validator sets
			per := rapid.IntRange(1, 4).Draw(t, "commitsInMessage")
			var batch []*certificate.SingleCommit
			var desc []string
			for j := 0; j < per; j++ {
				h := rapid.Uint32Range(1, tip).Draw(t, "commitHeight")
				if pc > cert && rapid.IntRange(0, 2).Draw(t, "inRange") > 0 {
					h = rapid.Uint32Range(cert+1, pc).Draw(t, "commitHeightInRange")
				}
				if pc > 100 && rapid.Bool().Draw(t, "recent") {
					h = rapid.Uint32Range(pc-45, pc).Draw(t, "commitHeightRecent") // inside the gossip range, around late set changes
				}
				hd, err := n.Chain.DataAccess().GetBlockHeaderByHeight(h)
				if err != nil {
					t.Fatalf("%v", err)
				}
				signer := rapid.IntRange(0, 9).Draw(t, "signer")
				kind := rapid.SampledFrom([]string{"valid", "valid", "valid", "bad-signature", "wrong-block", "other-chain"}).Draw(t, "commitKind")
				var sc *certificate.SingleCommit
				switch kind {
				case "valid":
					sc = certificate.NewSingleCommit(hd, keys[signer].Addr, node.ChainID, keys[signer].BLSPriv)
				case "bad-signature":
					sc = certificate.NewSingleCommit(hd, keys[signer].Addr, node.ChainID, keys[(signer+1)%10].BLSPriv)
					invalidOffered = true
				case "wrong-block":
					fake := *hd
					fake.ID = bytes.Repeat([]byte{9}, 32)
					sc = certificate.NewSingleCommit(&fake, keys[signer].Addr, node.ChainID, keys[signer].BLSPriv)
					invalidOffered = true
				case "other-chain":
					sc = certificate.NewSingleCommit(hd, keys[signer].Addr, []byte{4, 0, 0, 0xa}, keys[signer].BLSPriv)
					invalidOffered = true
				}
				batch = append(batch, sc)
				desc = append(desc, fmt.Sprintf("h=%d signer=%d %s", h, signer, kind))
			}
			res := n.Exec.VerifSingleCommitValidator(&p2p.Message{Data: encodeCommits(batch...)})
			if res == p2p.ValidationAccept {
				t.Fatalf("singleCommitValidator returned Accept (would re-gossip)")
			}
			hist = append(hist, fmt.Sprintf("gossip message [%s] -> %v", strings.Join(desc, "; "), res))
		}
		// cross-change messages: commits for heights on both sides of a validator-set change in ONE message, signed by
		// members of either set (a validator that left, one that joined, one that stayed)
		if pc > 100 {
			var changes []uint32
			for k := pc - 99; k <= pc; k++ {
				if ex, _ := n.Exec.VerifLiskBFT().API().ExistBFTParameters(n.Store(), k); ex && k > 1 {
					changes = append(changes, k)
				}
			}
			for _, k := range changes {
				if k <= pc-99 || k >= pc {
					continue
				}
				lo := pc - 99
				if cert+1 > lo {
					lo = cert + 1
				}
				if lo > k-1 {
					continue
				}
				h1 := rapid.Uint32Range(lo, k-1).Draw(t, "beforeChange")
				h2 := rapid.Uint32Range(k, pc).Draw(t, "afterChange")
				p1, err1 := n.CurrentParams(h1)
				p2, err2 := n.CurrentParams(h2)
				if err1 != nil || err2 != nil {
					continue
				}
				union := append(append([]int{}, p1.Idx...), p2.Idx...)
				mk := func(h uint32, signer int) *certificate.SingleCommit {
					hd, _ := n.Chain.DataAccess().GetBlockHeaderByHeight(h)
					return certificate.NewSingleCommit(hd, keys[signer].Addr, node.ChainID, keys[signer].BLSPriv)
				}
				sA := rapid.SampledFrom(union).Draw(t, "crossSignerA")
				sB := rapid.SampledFrom(union).Draw(t, "crossSignerB")
				first, second := mk(h1, sA), mk(h2, sB)
				order := "before,after"
				if rapid.Bool().Draw(t, "crossOrder") {
					first, second = second, first
					order = "after,before"
				}
				res := n.Exec.VerifSingleCommitValidator(&p2p.Message{Data: encodeCommits(first, second)})
				hist = append(hist, fmt.Sprintf("gossip cross-change message (change at %d): [h=%d signer=%d; h=%d signer=%d] order %s -> %v", k, h1, sA, h2, sB, order, res))
				invalidOffered = true
				evid.R.Label("cross-change-message", 1)
			}
		}
		// old uncertified change heights: valid commits for the block preceding a validator-set change that lies more than 100
		// blocks below the precommitted height (the gossip rule lets them in because the next height starts new parameters)
		if pc > 101 {
			for _, k := range n.ParamHeights() {
				if k < 2 || k-1 <= cert || k-1 >= pc-100 {
					continue
				}
				h := k - 1
				p, err := n.CurrentParams(h)
				hd, err2 := n.Chain.DataAccess().GetBlockHeaderByHeight(h)
				if err != nil || err2 != nil {
					continue
				}
				perm := rapid.Permutation(p.Idx).Draw(t, "oldPerm")
				cnt := rapid.IntRange(1, len(perm)).Draw(t, "oldSigners")
				for _, ix := range perm[:cnt] {
					sc := certificate.NewSingleCommit(hd, keys[ix].Addr, node.ChainID, keys[ix].BLSPriv)
					res := n.Exec.VerifSingleCommitValidator(&p2p.Message{Data: encodeCommits(sc)})
					hist = append(hist, fmt.Sprintf("gossip valid single commit for old change height %d (precommitted %d) signer=%d -> %v", h, pc, ix, res))
				}
				evid.R.Label("old-uncertified-change-height-commits", 1)
			}
		}
		// relabelled commits: a genuine commit of an active validator for a neighbouring block, relayed with its height field
		// rewritten to a height inside the accepted window (needs no key)
		if pc > cert+1 && tip > 2 {
			for i := rapid.IntRange(0, 2).Draw(t, "relabelled"); i > 0; i-- {
				lo := cert + 1
				if pc > 100 && pc-99 > lo {
					lo = pc - 99
				}
				if lo >= pc {
					break
				}
				h := rapid.Uint32Range(lo, pc).Draw(t, "relabelHeight") // the height the commit claims
				from := h - 1
				if h < tip && rapid.Bool().Draw(t, "relabelFromAbove") {
					from = h + 1
				}
				if from == 0 {
					continue
				}
				p, err := n.CurrentParams(from)
				hd, err2 := n.Chain.DataAccess().GetBlockHeaderByHeight(from)
				if err != nil || err2 != nil {
					continue
				}
				signer := rapid.SampledFrom(p.Idx).Draw(t, "relabelSigner")
				genuine := certificate.NewSingleCommit(hd, keys[signer].Addr, node.ChainID, keys[signer].BLSPriv)
				res := n.Exec.VerifSingleCommitValidator(&p2p.Message{Data: rawCommitsMessage(relabelled(genuine, h))})
				hist = append(hist, fmt.Sprintf("gossip relabelled single commit: signed for block %d, height field %d, signer %d -> %v", from, h, signer, res))
				invalidOffered = true
				evid.R.Label("relabelled-height-commit", 1)
			}
		}
		// broadcast rounds (what the certificate ticker does: clean up, select, mark as gossiped, publish): the pool must stay a
		// SET of commits whatever was selected how often
		if rounds := rapid.IntRange(0, 3).Draw(t, "broadcastRounds"); rounds > 0 {
			for i := 0; i < rounds; i++ {
				_ = n.Exec.VerifBroadcastCertificate() // clean-up, selection, publish attempt (fails without a started network)
				// the same round with a successful publish: what was selected is marked as gossiped
				if cur, err := n.CurrentParams(n.Tip().Header.Height); err == nil {
					pool := n.Exec.VerifCertificatePool()
					pool.Upgrade(pool.Select(pc, len(cur.Idx)))
				}
			}
			hist = append(hist, fmt.Sprintf("%d certificate broadcast rounds", rounds))
			evid.R.Label("broadcast-rounds", 1)
			// a commit that was already gossiped arrives again on the direct path (Certify adds without the Has pre-check of the gossip
			// validator: a restarted node certifies the same range again; a validator re-sends): the pool must stay a set (added after
			// seeded change C06-t: Add compared with the not-yet-gossiped list only)
			if rapid.Bool().Draw(t, "recertifyAfterGossip") {
				for h := uint32(1); h <= tip; h++ {
					cs := n.Exec.VerifPoolCommits(h)
					if len(cs) == 0 {
						continue
					}
					k := node.KeyByAddr(cs[rapid.IntRange(0, len(cs)-1).Draw(t, "recertifyWho")].ValidatorAddress())
					if k == nil {
						continue
					}
					if err := n.Exec.Certify(h-1, h, k.Addr, k.BLSPriv); err != nil {
						t.Fatalf("Certify: %v", err)
					}
					hist = append(hist, fmt.Sprintf("Certify(%d,%d) again by %d after the broadcast rounds", h-1, h, k.Index))
					evid.R.Label("recertified-after-gossip", 1)
					break
				}
			}
		}
		// own certification (what the generator does on finalization)
		if rapid.Bool().Draw(t, "certify") && pc > 0 {
			from := rapid.Uint32Range(0, pc-1).Draw(t, "from")
			signer := rapid.IntRange(0, 9).Draw(t, "certifySigner")
			if err := n.Exec.Certify(from, pc, keys[signer].Addr, keys[signer].BLSPriv); err != nil {
				t.Fatalf("Certify: %v", err)
			}
			hist = append(hist, fmt.Sprintf("Certify(%d,%d) by %d", from, pc, signer))
		}
		// pool soundness
		for h := uint32(1); h <= tip; h++ {
			commits := n.Exec.VerifPoolCommits(h)
			if len(commits) == 0 {
				continue
			}
			hd, _ := n.Chain.DataAccess().GetBlockHeaderByHeight(h)
			p, err := n.CurrentParams(h)
			if err != nil {
				t.Fatalf("pool holds commits for height %d whose parameters are gone\n%s", h, strings.Join(hist, "\n"))
			}
			seen := map[string]bool{}
			for _, sc := range commits {
				if seen[string(sc.ValidatorAddress())] {
					t.Fatalf("pool holds two single commits of one validator for height %d\n%s", h, strings.Join(hist, "\n"))
				}
				seen[string(sc.ValidatorAddress())] = true
				if sc.Height() != h {
					t.Fatalf("pool lists a single commit with height field %d under height %d\n%s", sc.Height(), h, strings.Join(hist, "\n"))
				}
				k := node.KeyByAddr(sc.ValidatorAddress())
				active := false
				for _, ix := range p.Idx {
					active = active || (k != nil && ix == k.Index)
				}
				if !active {
					t.Fatalf("pool holds a single commit at height %d by a validator not active at that height\n%s", h, strings.Join(hist, "\n"))
				}
				if !bytes.Equal(sc.BlockID(), hd.ID) {
					t.Fatalf("pool holds a single commit at height %d for a block not on the chain\n%s", h, strings.Join(hist, "\n"))
				}
				cert := certificate.NewCertificateFromBlock(hd)
				if !cert.Verify(node.ChainID, sc.CertificateSignature(), k.BLSPub) {
					t.Fatalf("pool holds a single commit at height %d whose signature does not verify\n%s", h, strings.Join(hist, "\n"))
				}
			}
			if len(commits) < len(p.Idx) {
				strictSubset = true
			}
		}
		if os.Getenv("C06_DEBUG") != "" && strings.Contains(strings.Join(hist, "|"), "old change height") {
			fmt.Println(strings.Join(hist[len(hist)-12:], "\n"), "\n-----")
			for h := uint32(1); h <= 20; h++ {
				if c := n.Exec.VerifPoolCommits(h); len(c) > 0 {
					fmt.Printf("pool h=%d: %d commits\n", h, len(c))
				}
			}
		}
		ac, err := n.Exec.GetAggregateCommit()
		if err != nil {
			t.Fatalf("GetAggregateCommit: %v\n%s", err, strings.Join(hist, "\n"))
		}
		if verr := n.Exec.VerifVerifyAggregateCommit(n.Store(), ac); verr != nil {
			sig := "own-aggregate-rejected"
			if !evid.R.KnownFinding(sig) {
				t.Fatalf("the node rejects the aggregate commit it assembled itself (height %d, bits %x): %v\n%s", ac.Height, ac.AggregationBits, verr, strings.Join(hist, "\n"))
			}
		}
		if !ac.Empty() {
			// it must be the highest certifiable height in the pool
			p, _ := n.CurrentParams(ac.Height)
			_ = p
			if ac.Height <= cert || ac.Height > pc {
				t.Fatalf("assembled aggregate commit height %d outside (certified %d, precommitted %d]", ac.Height, cert, pc)
			}
			// and a block carrying it must be accepted by the node
			sp := node.Spec{Agg: ac}
			if _, err := n.Apply(sp); err != nil {
				if !evid.R.KnownFinding("own-aggregate-rejected") {
					t.Fatalf("block carrying the node's own aggregate commit rejected: %v\n%s", err, strings.Join(hist, "\n"))
				}
			}
		}
		evid.R.Case(strings.Join(hist, "|"), !ac.Empty() && (strictSubset || invalidOffered), func() any {
			return map[string]any{"kind": "pool", "history": hist, "aggregateHeight": ac.Height, "bits": fmt.Sprintf("%x", ac.AggregationBits)}
		}, "pool", fmt.Sprintf("aggregate-empty-%v", ac.Empty()))
	})
}

// Regression (C06-F1): 4 equal validators, certificate threshold 2; every pair of signers must yield an aggregate the node accepts.
func TestRegressOwnAggregateStrictSubset(t *testing.T) {
	pairs := [][2]int{{2, 4}, {2, 6}, {2, 8}, {4, 6}, {4, 8}, {6, 8}}
	for _, pr := range pairs {
		g := node.NextParams{Idx: []int{2, 4, 6, 8}, Weights: []uint64{1, 1, 1, 1}, Precommit: 3, Cert: 2}
		n, err := node.New(node.Config{Genesis: g, BatchSize: 4})
		if err != nil {
			t.Fatal(err)
		}
		for i := 0; i < 10; i++ {
			if _, err := n.Apply(node.Spec{}); err != nil {
				t.Fatal(err)
			}
		}
		_, pc, cert := n.Heights()
		if pc <= cert {
			t.Fatalf("state not certifiable: pc=%d cert=%d", pc, cert)
		}
		keys := node.Keys()
		for _, signer := range pr {
			// (gossiped commits below height 100 are dropped by the validator's range rule, see DESIGN.md O3; use Certify)
			if err := n.Exec.Certify(pc-1, pc, keys[signer].Addr, keys[signer].BLSPriv); err != nil {
				t.Fatal(err)
			}
		}
		ac, err := n.Exec.GetAggregateCommit()
		if err != nil || ac.Empty() {
			t.Fatalf("no aggregate assembled for signers %v: %v", pr, err)
		}
		if err := n.Exec.VerifVerifyAggregateCommit(n.Store(), ac); err != nil {
			t.Fatalf("own aggregate (signers %v, height %d, bits %x) rejected: %v", pr, ac.Height, []byte(ac.AggregationBits), err)
		}
		n.Close()
		evid.R.Case(fmt.Sprintf("regress-own-aggregate-%v", pr), true, func() any { return fmt.Sprintf("4 validators, cert threshold 2, signers %v", pr) }, "regress")
	}
}

// Regression (C06-F3): Certify over a range whose upper height starts a parameter set added the commit twice.
func TestRegressDuplicateCertify(t *testing.T) {
	g := node.NextParams{Idx: []int{0, 1, 2}, Weights: []uint64{1, 1, 1}, Precommit: 3, Cert: 3}
	n, err := node.New(node.Config{Genesis: g, BatchSize: 4})
	if err != nil {
		t.Fatal(err)
	}
	defer n.Close()
	for i := 0; i < 8; i++ {
		if _, err := n.Apply(node.Spec{}); err != nil {
			t.Fatal(err)
		}
	}
	keys := node.Keys()
	for _, s := range []int{1, 2} {
		if err := n.Exec.Certify(0, 1, keys[s].Addr, keys[s].BLSPriv); err != nil {
			t.Fatal(err)
		}
	}
	if c := n.Exec.VerifPoolCommits(1); len(c) != 2 {
		t.Fatalf("pool holds %d commits for height 1 after two validators certified it once each", len(c))
	}
	ac, err := n.Exec.GetAggregateCommit()
	if err != nil {
		t.Fatal(err)
	}
	if err := n.Exec.VerifVerifyAggregateCommit(n.Store(), ac); err != nil {
		t.Fatalf("own aggregate (height %d) rejected: %v", ac.Height, err)
	}
	evid.R.Case("regress-duplicate-certify", true, func() any { return "3 validators threshold 3; Certify(0,1) by two of them" }, "regress")
}


// (c) certification lagging more than 100 blocks behind finality: single commits for the block that precedes a validator-set
// change enter the pool while that height is recent, the chain grows by more than 100 finalized blocks without any
// certificate, and the certificate ticker keeps re-selecting and re-publishing those old commits. The pool must remain a set,
// and what the node assembles from it must pass its own verification and be accepted in a block.
func TestPoolLaggingCertification(t *testing.T) {
	rapid.Check(t, func(t *rapid.T) {
		nVal := rapid.IntRange(3, 9).Draw(t, "validators")
		g := node.DrawParams(t, nVal, false, "genesis")
		for len(g.Idx) < 2 {
			g = node.DrawParams(t, nVal, false, "genesis")
		}
		n, err := node.New(node.Config{Genesis: *g, BatchSize: 10})
		if err != nil {
			t.Fatalf("node: %v", err)
		}
		defer n.Close()
		keys := node.Keys()
		var hist []string
		apply := func(sp node.Spec) {
			if _, err := n.Apply(sp); err != nil {
				t.Fatalf("apply: %v\n%s", err, strings.Join(hist, "\n"))
			}
		}
		pre := 100 + rapid.IntRange(2, 12).Draw(t, "prefix")
		for i := 0; i < pre; i++ {
			apply(node.Spec{Script: node.Script{Salt: uint32(i % 3)}})
		}
		next := node.DrawParams(t, 9, false, "chg")
		apply(node.Spec{Script: node.Script{Salt: 9, Next: next}})
		c := n.Tip().Header.Height // the block authenticating the change; new parameters from c+1
		hist = append(hist, fmt.Sprintf("genesis validators=%v weights=%v cert=%d; block %d changes to validators=%v weights=%v cert=%d", g.Idx, g.Weights, g.Cert, c, next.Idx, next.Weights, next.Cert))
		for i := 0; i < 40; i++ {
			if _, pc, _ := n.Heights(); pc > c {
				break
			}
			apply(node.Spec{Script: node.Script{Salt: uint32(i % 3)}})
		}
		_, pc, cert := n.Heights()
		if pc <= c {
			return // finality did not pass the change (parameter sets with very high thresholds); nothing to test
		}
		starts := false
		for _, h := range n.ParamHeights() {
			starts = starts || h == c+1
		}
		if !starts {
			// the drawn "change" equals the parameters in force (same validators, weights and thresholds): the engine stores
			// nothing for c+1, so height c is an ordinary height whose commits the pool may drop once they are old
			evid.R.Label("pool-lagging:no-op-change-skipped", 1)
			return
		}
		p, err := n.CurrentParams(c)
		hd, err2 := n.Chain.DataAccess().GetBlockHeaderByHeight(c)
		if err != nil || err2 != nil {
			t.Fatalf("params/header of %d: %v %v", c, err, err2)
		}
		perm := rapid.Permutation(p.Idx).Draw(t, "signers")
		k := rapid.IntRange(1, len(perm)).Draw(t, "k")
		for _, ix := range perm[:k] {
			sc := certificate.NewSingleCommit(hd, keys[ix].Addr, node.ChainID, keys[ix].BLSPriv)
			n.Exec.VerifSingleCommitValidator(&p2p.Message{Data: encodeCommits(sc)})
		}
		if got := len(n.Exec.VerifPoolCommits(c)); got != k {
			t.Fatalf("%d valid single commits for the recent height %d gossiped, %d in the pool (precommitted %d, certified %d)\n%s", k, c, got, pc, cert, strings.Join(hist, "\n"))
		}
		hist = append(hist, fmt.Sprintf("%d of %d validators of height %d gossip their commit while precommitted=%d (weight %d, threshold %d)", k, len(perm), c, pc, weightOf(p, perm[:k]), p.Cert))
		for i := 0; i < 160; i++ {
			if _, pc, _ := n.Heights(); pc > c+101+uint32(rapid.IntRange(0, 6).Draw(t, "beyond")) {
				break
			}
			apply(node.Spec{Script: node.Script{Salt: uint32(i % 3)}})
			if i%25 == 24 && rapid.Bool().Draw(t, "roundWhileGrowing") {
				broadcastRound(n)
			}
		}
		_, pc, cert = n.Heights()
		rounds := rapid.IntRange(1, 4).Draw(t, "rounds")
		for i := 0; i < rounds; i++ {
			broadcastRound(n)
		}
		hist = append(hist, fmt.Sprintf("tip=%d precommitted=%d certified=%d; %d broadcast rounds", n.Tip().Header.Height, pc, cert, rounds))
		commits := n.Exec.VerifPoolCommits(c)
		seen := map[string]bool{}
		for _, sc := range commits {
			if seen[string(sc.ValidatorAddress())] {
				t.Fatalf("pool holds two single commits of one validator for height %d after the broadcast rounds\n%s", c, strings.Join(hist, "\n"))
			}
			seen[string(sc.ValidatorAddress())] = true
		}
		old := pc > c+100
		if old && len(commits) != k {
			t.Fatalf("commits for height %d (next height starts new parameters, still uncertified) in the pool: %d, gossiped %d\n%s", c, len(commits), k, strings.Join(hist, "\n"))
		}
		ac, err := n.Exec.GetAggregateCommit()
		if err != nil {
			t.Fatalf("GetAggregateCommit: %v\n%s", err, strings.Join(hist, "\n"))
		}
		if verr := n.Exec.VerifVerifyAggregateCommit(n.Store(), ac); verr != nil {
			t.Fatalf("the node rejects the aggregate commit it assembled itself (height %d, bits %x): %v\n%s", ac.Height, ac.AggregationBits, verr, strings.Join(hist, "\n"))
		}
		if !ac.Empty() {
			if w := weightOf(p, perm[:k]); ac.Height == c && w < p.Cert {
				t.Fatalf("aggregate commit for height %d assembled from weight %d below the threshold %d\n%s", c, w, p.Cert, strings.Join(hist, "\n"))
			}
			if _, err := n.Apply(node.Spec{Agg: ac}); err != nil {
				t.Fatalf("block carrying the node's own aggregate commit rejected: %v\n%s", err, strings.Join(hist, "\n"))
			}
		}
		evid.R.Case(strings.Join(hist, "|"), old && !ac.Empty(), func() any {
			return map[string]any{"kind": "pool-lagging", "history": hist, "aggregateHeight": ac.Height}
		}, "pool-lagging", fmt.Sprintf("lag>100-%v", old), fmt.Sprintf("aggregate-empty-%v", ac.Empty()))
	})
}

// broadcastRound: one tick of the certificate ticker with a successful publish (clean-up and selection by the engine; what
// was selected is then marked as gossiped).
func broadcastRound(n *node.Node) {
	_ = n.Exec.VerifBroadcastCertificate()
	_, pc, _ := n.Heights()
	if cur, err := n.CurrentParams(n.Tip().Header.Height); err == nil {
		pool := n.Exec.VerifCertificatePool()
		pool.Upgrade(pool.Select(pc, len(cur.Idx)))
	}
}
