package c06

import (
	"fmt"
	"strings"
	"testing"

	"pgregory.net/rapid"

	"verifharness/evid"
	"verifharness/node"
)

// TestStepwiseCertification: what a network does block by block (added after seeded change C06-r: GetAggregateCommit's upper bound
// was off by one exactly when the next validator-set change height equals the precommitted height - a state that exists for ONE
// block while finality passes the change, and that the end-of-history pool tests hit only by luck).
//
// After EVERY block: when the precommitted height moved, the validators certify the newly finalized range the way the generator
// does on finalization (Executer.Certify(previous, new) per validator - all of them, or a drawn quorum / sub-quorum); then the node
// assembles an aggregate commit and must accept it itself; now and then the aggregate is carried by the next block, so that the
// certified height advances in steps and sometimes lags. Parameter changes (fresh and derived) fall at drawn heights.
func TestStepwiseCertification(t *testing.T) {
	rapid.Check(t, func(t *rapid.T) {
		nVal := rapid.IntRange(3, 9).Draw(t, "validators")
		g := node.DrawParams(t, nVal, false, "genesis")
		for len(g.Idx) < 2 {
			g = node.DrawParams(t, nVal, false, "genesis")
		}
		n, err := node.New(node.Config{Genesis: *g, BatchSize: 10})
		if err != nil {
			t.Fatalf("node: %v", err)
		}
		defer n.Close()
		keys := node.Keys()
		hist := []string{fmt.Sprintf("genesis validators=%v weights=%v precommit=%d cert=%d", g.Idx, g.Weights, g.Precommit, g.Cert)}
		length := rapid.IntRange(12, 45).Draw(t, "length")
		changeEvery := rapid.IntRange(3, 12).Draw(t, "changeEvery")
		carry := rapid.IntRange(0, 3).Draw(t, "carryOneIn") // 0: never carry an aggregate (certification lags for ever)
		var pending *node.Spec
		nonEmpty, atChange, carried, beyond := 0, 0, 0, 0
		for i := 1; i <= length; i++ {
			sp := node.Spec{Script: node.Script{Salt: uint32(i % 3)}}
			if pending != nil {
				sp.Agg = pending.Agg
				pending = nil
			}
			if i%changeEvery == 0 {
				sp.Script.Next = node.DrawParams(t, 9, false, "chg")
				if rapid.Bool().Draw(t, "derivedChange") {
					if d, _ := n.DerivedChange(t); d != nil {
						sp.Script.Next = d
					}
				}
				hist = append(hist, fmt.Sprintf("h=%d change -> validators=%v weights=%v precommit=%d cert=%d", n.Tip().Header.Height+1, sp.Script.Next.Idx, sp.Script.Next.Weights, sp.Script.Next.Precommit, sp.Script.Next.Cert))
			}
			_, pcBefore, _ := n.Heights()
			if _, err := n.Apply(sp); err != nil {
				if sp.Agg != nil {
					t.Fatalf("block carrying the node's own aggregate commit (height %d) rejected: %v\n%s", sp.Agg.Height, err, strings.Join(hist, "\n"))
				}
				t.Fatalf("apply: %v\n%s", err, strings.Join(hist, "\n"))
			}
			if sp.Agg != nil {
				carried++
				hist = append(hist, fmt.Sprintf("h=%d carries the aggregate commit for height %d", n.Tip().Header.Height, sp.Agg.Height))
			}
			_, pc, cert := n.Heights()
			if pc > pcBefore {
				// every validator that is active anywhere in the newly finalized range certifies it; Certify itself decides for which
				// heights of the range the validator signs
				who := map[int]bool{}
				for h := pcBefore + 1; h <= pc; h++ {
					if p, err := n.CurrentParams(h); err == nil {
						for _, ix := range p.Idx {
							who[ix] = true
						}
					}
				}
				mode := rapid.SampledFrom([]string{"all", "all", "most", "few"}).Draw(t, "signers")
				k := 0
				for ix := 0; ix < 10; ix++ {
					if !who[ix] {
						continue
					}
					if (mode == "most" && rapid.IntRange(0, 3).Draw(t, "skipMost") == 0) || (mode == "few" && rapid.IntRange(0, 2).Draw(t, "skipFew") > 0) {
						continue
					}
					if err := n.Exec.Certify(pcBefore, pc, keys[ix].Addr, keys[ix].BLSPriv); err != nil {
						t.Fatalf("Certify(%d,%d) by %d: %v\n%s", pcBefore, pc, ix, err, strings.Join(hist, "\n"))
					}
					k++
				}
				hist = append(hist, fmt.Sprintf("tip %d: precommitted %d -> %d (certified %d); %d validators certify (%s)", n.Tip().Header.Height, pcBefore, pc, cert, k, mode))
			}
			ac, err := n.Exec.GetAggregateCommit()
			if err != nil {
				t.Fatalf("GetAggregateCommit at tip %d: %v\n%s", n.Tip().Header.Height, err, strings.Join(hist, "\n"))
			}
			if verr := n.Exec.VerifVerifyAggregateCommit(n.Store(), ac); verr != nil {
				nh, ok := n.NextParamHeight(cert + 1)
				t.Fatalf("tip %d (precommitted %d, certified %d, next parameter change above certified+1 at %d/%v): the node rejects the aggregate commit it assembled itself (height %d, bits %x): %v\n%s",
					n.Tip().Header.Height, pc, cert, nh, ok, ac.Height, ac.AggregationBits, verr, strings.Join(hist, "\n"))
			}
			if !ac.Empty() {
				nonEmpty++
				if ac.Height <= cert || ac.Height > pc {
					t.Fatalf("assembled aggregate commit height %d outside (certified %d, precommitted %d]\n%s", ac.Height, cert, pc, strings.Join(hist, "\n"))
				}
				if carry > 0 && rapid.IntRange(1, carry).Draw(t, "carryNow") == 1 {
					pending = &node.Spec{Agg: ac}
				}
			}
			if nh, ok := n.NextParamHeight(cert + 1); ok && nh == pc {
				atChange++
			}
			// the bound "not beyond the block preceding the next validator-set change": a genuine, fully signed aggregate for a height AT
			// or ABOVE the first change height above certified+1 (read from the raw key space) must be refused, however many further
			// changes follow (seeded C06-c returned the LAST change; the end-of-history tests met two uncertified changes too rarely)
			if nh, ok := n.NextParamHeight(cert + 1); ok && nh <= pc {
				h := rapid.Uint32Range(nh, pc).Draw(t, "beyondBound")
				if p, err := n.CurrentParams(h); err == nil {
					if ac, err := n.BuildAggregate(h, p.Idx); err == nil {
						if verr := n.Exec.VerifVerifyAggregateCommit(n.Store(), ac); verr == nil {
							t.Fatalf("tip %d (precommitted %d, certified %d): a fully signed aggregate commit for height %d is accepted although the next validator-set change above certified+1 starts at %d (allowed: <= %d)\n%s",
								n.Tip().Header.Height, pc, cert, h, nh, nh-1, strings.Join(hist, "\n"))
						}
						beyond++
					}
				}
			}
		}
		if beyond > 0 {
			evid.R.Label("stepwise-aggregate-beyond-the-next-change-refused", int64(beyond))
		}
		if atChange > 0 {
			evid.R.Label("stepwise-assembled-while-precommitted-height-is-a-change-height", int64(atChange))
		}
		evid.R.Case(strings.Join(hist, "|"), nonEmpty > 0 && atChange > 0, func() any {
			return map[string]any{"kind": "stepwise", "history": hist, "nonEmptyAggregates": nonEmpty, "carried": carried, "assembledAtChangeHeight": atChange}
		}, "stepwise", fmt.Sprintf("stepwise-carried-%v", carried > 0))
	})
}
