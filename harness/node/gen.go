package node

import (
	"bytes"
	"fmt"
	"sort"

	"github.com/LiskHQ/lisk-engine/pkg/blockchain"
	"github.com/LiskHQ/lisk-engine/pkg/consensus/certificate"
	"github.com/LiskHQ/lisk-engine/pkg/crypto"
	"pgregory.net/rapid"
)

// BuildAggregate builds an aggregate commit for the node's own block at `height`, signed by the given pool indexes,
// independently of certificate.SingleCommits.Aggregate: bit i belongs to the i-th validator of that height in ascending
// BLS-key order (the order verifyAggregateCommit defines).
func (n *Node) BuildAggregate(height uint32, signers []int) (*blockchain.AggregateCommit, error) {
	hd, err := n.Chain.DataAccess().GetBlockHeaderByHeight(height)
	if err != nil {
		return nil, err
	}
	return n.BuildAggregateFor(hd, height, signers, ChainID)
}

// BuildAggregateFor signs the certificate of an arbitrary header (tampering cases use a foreign header/chain ID).
func (n *Node) BuildAggregateFor(hd *blockchain.BlockHeader, paramsHeight uint32, signers []int, chainID []byte) (*blockchain.AggregateCommit, error) {
	p, err := n.CurrentParams(paramsHeight)
	if err != nil {
		return nil, err
	}
	keys := Keys()
	var sorted [][]byte
	for _, ix := range p.Idx {
		sorted = append(sorted, keys[ix].BLSPub)
	}
	sort.Slice(sorted, func(i, j int) bool { return bytes.Compare(sorted[i], sorted[j]) < 0 })
	cert := certificate.NewCertificateFromBlock(hd)
	var pairs []*crypto.BLSPublicKeySignaturePair
	for _, s := range signers {
		c := *cert
		c.Sign(chainID, keys[s].BLSPriv)
		pairs = append(pairs, &crypto.BLSPublicKeySignaturePair{PublicKey: keys[s].BLSPub, Signature: c.Signature})
	}
	if len(pairs) == 0 {
		return nil, fmt.Errorf("no signers")
	}
	bits, sig := crypto.BLSCreateAggSig(sorted, pairs)
	return &blockchain.AggregateCommit{Height: hd.Height, AggregationBits: bits, CertificateSignature: sig}, nil
}

// GenOpts steers DrawSpec.
type GenOpts struct {
	MaxTxs        int
	AllowChange   bool // validator/threshold changes
	AllowAgg      bool // aggregate commits
	AllowStandby  bool
	AllowRotate   bool // validator updates may switch generator keys (also updates that do nothing else)
	MaxValidators int
}

// DrawParams draws a legal parameter set from the key pool.
func DrawParams(t *rapid.T, maxN int, allowStandby bool, label string) *NextParams {
	n := rapid.IntRange(1, maxN).Draw(t, label+"-n")
	perm := rapid.Permutation([]int{0, 1, 2, 3, 4, 5, 6, 7, 8, 9}).Draw(t, label+"-perm")
	p := &NextParams{Idx: append([]int{}, perm[:n]...)}
	style := rapid.SampledFrom([]string{"equal", "equal", "skewed"}).Draw(t, label+"-style")
	var tot uint64
	for i := 0; i < n; i++ {
		w := uint64(1)
		if style == "skewed" {
			w = rapid.Uint64Range(1, 4).Draw(t, label+"-w")
		}
		p.Weights = append(p.Weights, w)
		tot += w
	}
	p.Precommit, p.Cert = tot*2/3+1, tot*2/3+1
	if rapid.IntRange(0, 2).Draw(t, label+"-thr") == 0 {
		p.Precommit = rapid.Uint64Range(tot/3+1, tot).Draw(t, label+"-pc")
		p.Cert = rapid.Uint64Range(tot/3+1, tot).Draw(t, label+"-ct")
	}
	if allowStandby && n < maxN && rapid.IntRange(0, 3).Draw(t, label+"-sb") == 0 {
		p.Standby = []int{perm[n]}
	}
	return p
}

// DrawSpec draws the spec of a valid next block for the node's current state. Flags describing what the block
// exercises are added to `flags`.
func (n *Node) DrawSpec(t *rapid.T, o GenOpts, flags map[string]bool) Spec {
	s := Spec{}
	s.SlotGap = rapid.SampledFrom([]int{1, 1, 1, 1, 2, 3}).Draw(t, "slotGap")
	s.Script.Salt = rapid.Uint32Range(0, 3).Draw(t, "salt")
	s.Script.EvBefore = rapid.IntRange(0, 2).Draw(t, "evBefore")
	s.Script.EvAfter = rapid.IntRange(0, 2).Draw(t, "evAfter")
	if s.Script.EvBefore+s.Script.EvAfter > 0 {
		flags["events"] = true
	}
	if rapid.IntRange(0, 4).Draw(t, "noScript") == 0 {
		s.NoScript = true
		s.Script = Script{}
	}
	if nx := rapid.IntRange(0, 2).Draw(t, "extraAssets"); nx > 0 {
		for i := 0; i < nx; i++ {
			s.ExtraAssets = append(s.ExtraAssets, &blockchain.BlockAsset{Module: fmt.Sprintf("mod%d", i), Data: rapid.SliceOfN(rapid.Byte(), 0, 5).Draw(t, "assetData")})
		}
		flags["assets"] = true
	}
	if !s.NoScript {
		flags["assets"] = true
	}
	ntx := 0
	if o.MaxTxs > 0 {
		ntx = rapid.IntRange(0, o.MaxTxs).Draw(t, "ntx")
	}
	for i := 0; i < ntx; i++ {
		outcome := rapid.SampledFrom([]int{TxOK, TxOK, TxOK, TxExecuteFail}).Draw(t, "txOutcome")
		s.Txs = append(s.Txs, MakeTx(rapid.IntRange(10, 13).Draw(t, "sender"), uint64(n.Tip().Header.Height)*100+uint64(i), rapid.Uint64Range(1, 1000).Draw(t, "fee"), outcome,
			rapid.IntRange(0, 2).Draw(t, "txEv"), rapid.IntRange(0, 8).Draw(t, "pad")))
		flags["txs"] = true
	}
	if o.AllowChange && !s.NoScript && rapid.IntRange(0, 5).Draw(t, "change") == 0 {
		maxN := o.MaxValidators
		if maxN == 0 || maxN > n.Cfg.BatchSize {
			maxN = n.Cfg.BatchSize
		}
		s.Script.Next = DrawParams(t, maxN, o.AllowStandby, "next")
		if len(s.Script.Next.Idx)+len(s.Script.Next.Standby) > n.Cfg.BatchSize {
			s.Script.Next.Standby = nil
		}
		flags["param-change"] = true
		// Half of the changes derive from the parameters in force and alter ONE aspect (added after seeded change C06-o: a change of
		// the certificate threshold alone was dropped by SetBFTParameters; fresh draws practically never keep everything else equal).
		if rapid.Bool().Draw(t, "derivedChange") {
			if d, kind := n.DerivedChange(t); d != nil {
				s.Script.Next = d
				flags["param-change-"+kind] = true
			}
		}
		if o.AllowRotate && !flags["param-change-cert-only"] && !flags["param-change-precommit-only"] && !flags["param-change-one-weight"] {
			switch rapid.IntRange(0, 3).Draw(t, "rotate") {
			case 0:
				// a validator update that only rotates generator keys: same validators in the same round-robin order, same
				// weights and thresholds
				if rot := n.rotationOnly(t); rot != nil {
					s.Script.Next = rot
					flags["generator-key-rotation-only"] = true
				}
			case 1:
				for _, ix := range append(append([]int{}, s.Script.Next.Idx...), s.Script.Next.Standby...) {
					if rapid.IntRange(0, 2).Draw(t, "altGen") == 0 {
						s.Script.Next.AltGen = append(s.Script.Next.AltGen, ix)
					}
				}
				flags["generator-key-rotation"] = true
			}
		}
	}
	if o.AllowAgg {
		_, pc, cert := n.Heights()
		if pc > cert && rapid.IntRange(0, 2).Draw(t, "agg") == 0 {
			// legal range: (certified, min(precommitted, nextChange-1)]
			hi := pc
			if nh, ok := n.NextParamHeight(cert + 1); ok && nh-1 < hi {
				hi = nh - 1
			}
			if hi > cert {
				h := rapid.Uint32Range(cert+1, hi).Draw(t, "aggHeight")
				p, err := n.CurrentParams(h)
				if err == nil {
					// all validators sign (signer-subset handling is C06's subject)
					agg, err := n.BuildAggregate(h, p.Idx)
					if err == nil {
						s.Agg = agg
						flags["aggregate-commit"] = true
					}
				}
			}
		}
	}
	return s
}

// BuildTieBreakSibling builds a valid sibling of the current tip (same height, parent and maxHeightPrevoted, different
// content) generated by the owner of the current wall-clock slot: the block LIP-0014's tie break prefers when the tip
// was received outside its own slot. ok=false when the slot owner is the tip's generator or the tip is the genesis.
func (n *Node) BuildTieBreakSibling(salt uint32) (*blockchain.Block, bool) {
	return n.BuildSiblingAt(salt, n.Cfg.SlotsBehind, false)
}

// BuildSiblingAt builds a valid sibling of the current tip for the given slot, signed by that slot's owner. With
// allowSameGenerator the owner may be the tip's own generator (a double-forged block); its maxHeightGenerated then repeats
// the tip's.
func (n *Node) BuildSiblingAt(salt uint32, slot int, allowSameGenerator bool) (*blockchain.Block, bool) {
	tip := n.Tip()
	if tip.Header.Height == n.Cfg.GenesisHeight {
		return nil, false
	}
	parent, err := n.Chain.DataAccess().GetBlockHeaderByHeight(tip.Header.Height - 1)
	if err != nil {
		return nil, false
	}
	k, err := n.GeneratorAt(tip.Header.Height, slot)
	if err != nil {
		return nil, false
	}
	same := bytes.Equal(k.Addr, tip.Header.GeneratorAddress)
	if same && !allowSameGenerator {
		return nil, false
	}
	sib := CloneBlock(tip)
	sib.Transactions = []*blockchain.Transaction{}
	sib.Header.TransactionRoot = blockchain.BlockAssets{}.GetRoot()
	sc := Script{Salt: salt}
	if orig := ScriptOf(tip.Assets); orig.Next != nil {
		sc.Next = orig.Next // the validators hash must keep matching the execution result
	}
	sib.Assets = blockchain.BlockAssets{ScriptAsset(sc)}
	sib.Header.AssetRoot = blockchain.BlockAssets(sib.Assets).GetRoot()
	evs := ExpectedEvents(sib.Header.Height, sib.Assets, nil)
	sib.Header.EventRoot, _ = blockchain.CalculateEventRoot(evs)
	sib.Header.StateRoot = NextStateRoot(parent.StateRoot, sib.Header.Height, sib.Assets, nil)
	sib.Header.Timestamp = n.Slot.GetSlotTime(slot) + 1
	sib.Header.GeneratorAddress = k.Addr
	// honest maxHeightGenerated of the slot owner on this chain (the tip is by somebody else)
	if !same {
		sib.Header.MaxHeightGenerated = n.LastGeneratedHeightBelow(k.Addr, tip.Header.Height)
	}
	Resign(sib, n.SignerFor(tip.Header.Height, k))
	return sib, true
}

// rotationOnly builds a validator update for the next block that keeps validators, order, weights and thresholds and toggles
// the generator key of one or two validators.
func (n *Node) rotationOnly(t *rapid.T) *NextParams {
	height := n.Tip().Header.Height + 1
	cur, err := n.CurrentParams(height)
	if err != nil {
		return nil
	}
	gens, err := n.Exec.GetGeneratorKeys(n.Store(), height)
	if err != nil || len(gens) == 0 {
		return nil
	}
	weight := map[int]uint64{}
	for i, ix := range cur.Idx {
		weight[ix] = cur.Weights[i]
	}
	next := &NextParams{Precommit: cur.Precommit, Cert: cur.Cert}
	standbySeen := false
	for _, g := range gens {
		k := KeyByAddr(g.Address())
		if k == nil {
			return nil
		}
		if w := weight[k.Index]; w > 0 {
			if standbySeen {
				return nil // an order ValidatorsOf cannot reproduce
			}
			next.Idx = append(next.Idx, k.Index)
			next.Weights = append(next.Weights, w)
		} else {
			standbySeen = true
			next.Standby = append(next.Standby, k.Index)
		}
	}
	alt := n.AltGenAt(height) // keys in force at this height, and afterwards if this block changed nothing
	all := append(append([]int{}, next.Idx...), next.Standby...)
	toggle := map[int]bool{all[int(rapid.Uint32().Draw(t, "rotWho")%uint32(len(all)))]: true}
	if rapid.Bool().Draw(t, "rotTwo") {
		toggle[all[int(rapid.Uint32().Draw(t, "rotWho2")%uint32(len(all)))]] = true
	}
	for _, ix := range all {
		if alt[ix] != toggle[ix] {
			next.AltGen = append(next.AltGen, ix)
		}
	}
	return next
}

// sameAsCurrent rebuilds, as a NextParams value, exactly what is in force for the next height: validators in round-robin order,
// weights, thresholds, standby generators and generator keys (nil when the order cannot be expressed).
func (n *Node) sameAsCurrent() *NextParams {
	height := n.Tip().Header.Height + 1
	cur, err := n.CurrentParams(height)
	if err != nil {
		return nil
	}
	gens, err := n.Exec.GetGeneratorKeys(n.Store(), height)
	if err != nil || len(gens) == 0 {
		return nil
	}
	weight := map[int]uint64{}
	for i, ix := range cur.Idx {
		weight[ix] = cur.Weights[i]
	}
	next := &NextParams{Precommit: cur.Precommit, Cert: cur.Cert}
	standbySeen := false
	for _, g := range gens {
		k := KeyByAddr(g.Address())
		if k == nil {
			return nil
		}
		if w := weight[k.Index]; w > 0 {
			if standbySeen {
				return nil
			}
			next.Idx = append(next.Idx, k.Index)
			next.Weights = append(next.Weights, w)
		} else {
			standbySeen = true
			next.Standby = append(next.Standby, k.Index)
		}
	}
	if len(next.Idx) != len(cur.Idx) {
		return nil // a BFT validator without a generator slot: not expressible
	}
	alt := n.AltGenAt(height)
	for _, ix := range append(append([]int{}, next.Idx...), next.Standby...) {
		if alt[ix] {
			next.AltGen = append(next.AltGen, ix)
		}
	}
	return next
}

// DerivedChange returns the parameters in force with exactly one aspect altered, and the name of that aspect.
func (n *Node) DerivedChange(t *rapid.T) (*NextParams, string) {
	next := n.sameAsCurrent()
	if next == nil {
		return nil, ""
	}
	var tot uint64
	for _, w := range next.Weights {
		tot += w
	}
	lo := tot/3 + 1
	other := func(curV uint64, label string) (uint64, bool) {
		if tot-lo == 0 {
			return 0, false
		}
		v := rapid.Uint64Range(lo, tot-1).Draw(t, label)
		if v >= curV {
			v++
		}
		return v, true
	}
	switch rapid.SampledFrom([]string{"cert-only", "cert-only", "precommit-only", "one-weight"}).Draw(t, "derivedKind") {
	case "cert-only":
		v, ok := other(next.Cert, "derivedCert")
		if !ok {
			return nil, ""
		}
		next.Cert = v
		return next, "cert-only"
	case "precommit-only":
		v, ok := other(next.Precommit, "derivedPrecommit")
		if !ok {
			return nil, ""
		}
		next.Precommit = v
		return next, "precommit-only"
	default:
		j := rapid.IntRange(0, len(next.Weights)-1).Draw(t, "derivedWeightIdx")
		next.Weights = append([]uint64{}, next.Weights...)
		next.Weights[j] += rapid.Uint64Range(1, 2).Draw(t, "derivedWeightAdd")
		tot = 0
		for _, w := range next.Weights {
			tot += w
		}
		if next.Precommit < tot/3+1 {
			next.Precommit = tot/3 + 1
		}
		if next.Cert < tot/3+1 {
			next.Cert = tot/3 + 1
		}
		return next, "one-weight"
	}
}
