package node

import (
	"testing"
)

func TestSanity(t *testing.T) {
	n, err := New(Config{Genesis: EqualGenesis(4)})
	if err != nil {
		t.Fatal(err)
	}
	defer n.Close()
	for i := 0; i < 12; i++ {
		sp := Spec{Script: Script{EvBefore: 1, EvAfter: 1, Salt: uint32(i)}}
		if i%3 == 0 {
			sp.Txs = append(sp.Txs, MakeTx(5, uint64(i), 100, TxOK, 1, 3))
		}
		if _, err := n.Apply(sp); err != nil {
			t.Fatalf("apply %d: %v", i, err)
		}
	}
	p, pc, c := n.Heights()
	t.Logf("tip=%d prevoted=%d precommitted=%d certified=%d finalized=%d events=%d", n.Tip().Header.Height, p, pc, c, n.Finalized(), len(n.TakeEvents()))
	if pc != 7 || p != 10 {
		t.Fatalf("unexpected heights")
	}
	if err := n.Restart(); err != nil {
		t.Fatal(err)
	}
	if n.Tip().Header.Height != 12 {
		t.Fatalf("tip after restart %d", n.Tip().Header.Height)
	}
	if _, err := n.Apply(Spec{}); err != nil {
		t.Fatalf("apply after restart: %v", err)
	}
	if err := n.Exec.VerifDeleteBlock(n.Tip(), false); err != nil {
		t.Fatalf("delete: %v", err)
	}
	if n.Tip().Header.Height != 12 {
		t.Fatalf("tip after delete %d", n.Tip().Header.Height)
	}
}
