// Package node is the node harness: a real blockchain.Chain + db.DB + consensus.Executer (+ p2p.Connection) with a
// deterministic fake application (labi.ABI) and a block builder (DESIGN.md §3.1).
package node

import (
	"bytes"
	"fmt"
	"sync"

	"github.com/LiskHQ/lisk-engine/pkg/crypto"
	"github.com/LiskHQ/lisk-engine/pkg/log"
)

// Key is one validator identity of the fixed pool.
type Key struct {
	Index   int
	Addr    []byte
	EdPub   []byte
	EdPriv  []byte
	EdPub2  []byte // alternate generator key pair of the same validator (generator-key rotation)
	EdPriv2 []byte
	BLSPub  []byte
	BLSPriv []byte
}

const PoolSize = 16

var (
	keyOnce sync.Once
	keyPool []*Key
)

// Keys returns the fixed pool of validator keys (generated once per process, deterministic).
func Keys() []*Key {
	keyOnce.Do(func() {
		for i := 0; i < PoolSize; i++ {
			pub, priv, err := crypto.GetKeys(fmt.Sprintf("verif harness validator %d", i))
			if err != nil {
				panic(err)
			}
			bls := crypto.BLSKeyGen(crypto.Hash([]byte(fmt.Sprintf("verif harness validator bls key %d padded to 32 bytes", i))))
			pub2, priv2, err := crypto.GetKeys(fmt.Sprintf("verif harness validator %d rotated generator key", i))
			if err != nil {
				panic(err)
			}
			keyPool = append(keyPool, &Key{Index: i, Addr: crypto.GetAddress(pub), EdPub: pub, EdPriv: priv, EdPub2: pub2, EdPriv2: priv2, BLSPub: bls.PublicKey, BLSPriv: bls.PrivateKey})
		}
	})
	return keyPool
}

// KeyByAddr finds a pool key by address.
func KeyByAddr(addr []byte) *Key {
	for _, k := range Keys() {
		if bytes.Equal(k.Addr, addr) {
			return k
		}
	}
	return nil
}

// nopLogger implements log.Logger without output.
type nopLogger struct{}

func (nopLogger) Debug(string, ...interface{})     {}
func (nopLogger) Info(string, ...interface{})      {}
func (nopLogger) Error(string, ...interface{})     {}
func (nopLogger) Debugf(string, ...interface{})    {}
func (nopLogger) Infof(string, ...interface{})     {}
func (nopLogger) Errorf(string, ...interface{})    {}
func (nopLogger) Warning(string, ...interface{})   {}
func (nopLogger) Warningf(string, ...interface{})  {}
func (n nopLogger) With(...interface{}) log.Logger { return n }

// NopLogger returns a silent log.Logger.
func NopLogger() log.Logger { return nopLogger{} }
