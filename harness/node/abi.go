package node

import (
	"bytes"
	"encoding/binary"
	"encoding/json"
	"errors"
	"fmt"
	"sort"
	"sync"

	"github.com/LiskHQ/lisk-engine/pkg/blockchain"
	"github.com/LiskHQ/lisk-engine/pkg/codec"
	"github.com/LiskHQ/lisk-engine/pkg/crypto"
	"github.com/LiskHQ/lisk-engine/pkg/labi"
)

// ScriptModule is the block asset module that carries the application script of a block.
const ScriptModule = "verif"

// NextParams is a scripted validator/threshold change (effective from the next height).
type NextParams struct {
	Idx       []int    `json:"idx"`               // pool indexes of BFT validators
	Weights   []uint64 `json:"weights"`           // their BFT weights (>0)
	Standby   []int    `json:"standby,omitempty"` // pool indexes of generators with weight 0
	AltGen    []int    `json:"altGen,omitempty"`  // pool indexes whose generator key is the alternate one from the next height on
	Precommit uint64   `json:"precommit"`
	Cert      uint64   `json:"cert"`
}

// Script is what the fake application does for one block; it is a pure function of the block content.
type Script struct {
	EvBefore int         `json:"evBefore,omitempty"`
	EvAfter  int         `json:"evAfter,omitempty"`
	Next     *NextParams `json:"next,omitempty"`
	FailAt   string      `json:"failAt,omitempty"` // verifyAssets | before | after | commit
	Salt     uint32      `json:"salt,omitempty"`
}

// Transaction behaviour is scripted by its params: params[0] = outcome, params[1] = number of extra events.
const (
	TxOK          = 0
	TxVerifyFail  = 1 // VerifyTransaction answers invalid
	TxExecuteFail = 2 // ExecuteTransaction answers fail (still included in a block, as in Lisk)
	TxVerifyErr   = 3 // VerifyTransaction returns an error
	TxExecuteErr  = 4 // ExecuteTransaction returns an error
	TxPending     = 5 // VerifyTransaction answers pending
	TxExecInvalid = 6 // ExecuteTransaction answers invalid
)

// Override lets a test change the scripted outcome of a transaction after it was created (keyed by transaction ID):
// e.g. a transaction that verified when it entered the pool but fails when the generator verifies it again.
var (
	overrideMu sync.Mutex
	override   = map[string]int{}
)

func SetOutcomeOverride(id []byte, outcome int) {
	overrideMu.Lock()
	override[string(id)] = outcome
	overrideMu.Unlock()
}

func ClearOutcomeOverrides() {
	overrideMu.Lock()
	override = map[string]int{}
	overrideMu.Unlock()
}

func txOutcome(tx *blockchain.Transaction) (int, int) {
	o, ev := 0, 0
	if len(tx.Params) > 0 {
		o = int(tx.Params[0])
	}
	overrideMu.Lock()
	if v, ok := override[string(tx.ID)]; ok {
		o = v
	}
	overrideMu.Unlock()
	if len(tx.Params) > 1 {
		ev = int(tx.Params[1] % 4)
	}
	return o, ev
}

// ScriptOf extracts the script from block assets (zero script when malformed). A block WITHOUT the script asset still makes
// the application emit one event in each block hook: applications log per-block events (rewards, validator bookkeeping)
// whatever a block carries, so "no transactions and no assets" does not mean "no events".
func ScriptOf(assets []*blockchain.BlockAsset) Script {
	var s Script
	found := false
	for _, a := range assets {
		if a.Module == ScriptModule {
			_ = json.Unmarshal(a.Data, &s)
			found = true
		}
	}
	if !found {
		return Script{EvBefore: 1, EvAfter: 1}
	}
	return s
}

// ScriptAsset encodes a script as a block asset.
func ScriptAsset(s Script) *blockchain.BlockAsset {
	b, _ := json.Marshal(s)
	return &blockchain.BlockAsset{Module: ScriptModule, Data: b}
}

func mkEvent(height uint32, name string, data []byte, topic []byte) *blockchain.Event {
	return blockchain.NewEventFromValues("verif", name, data, []codec.Hex{topic}, height, 0)
}

// ExpectedEvents is the event list the fake application emits for a block (before UpdateIndex).
func ExpectedEvents(height uint32, assets []*blockchain.BlockAsset, txs []*blockchain.Transaction) []*blockchain.Event {
	s := ScriptOf(assets)
	var out []*blockchain.Event
	for i := 0; i < s.EvBefore; i++ {
		out = append(out, mkEvent(height, "before", []byte{byte(i)}, []byte{0xb0, byte(i)}))
	}
	for _, tx := range txs {
		out = append(out, txEvents(height, tx)...)
	}
	for i := 0; i < s.EvAfter; i++ {
		out = append(out, mkEvent(height, "after", []byte{byte(i)}, []byte{0xa0, byte(i)}))
	}
	evs := blockchain.Events(out)
	evs.UpdateIndex()
	return out
}

func txEvents(height uint32, tx *blockchain.Transaction) []*blockchain.Event {
	o, n := txOutcome(tx)
	var out []*blockchain.Event
	for i := 0; i < n; i++ {
		out = append(out, mkEvent(height, "tx", []byte{byte(i)}, tx.ID))
	}
	out = append(out, mkEvent(height, blockchain.EventNameDefault, blockchain.NewStandardTransactionEventData(o != TxExecuteFail), tx.ID))
	return out
}

// ContentHash commits to everything the fake application sees of a block.
func ContentHash(height uint32, assets []*blockchain.BlockAsset, txs []*blockchain.Transaction) []byte {
	var buf bytes.Buffer
	var h [4]byte
	binary.BigEndian.PutUint32(h[:], height)
	buf.Write(h[:])
	// order-independent over the assets: a real application looks its asset up by module name, so the order in which the generator
	// passes them (application order while forging, sorted by module in the sealed block) cannot influence the state
	hs := make([][]byte, 0, len(assets))
	for _, a := range assets {
		hs = append(hs, crypto.Hash(a.Encode()))
	}
	sort.Slice(hs, func(i, j int) bool { return bytes.Compare(hs[i], hs[j]) < 0 })
	for _, h := range hs {
		buf.Write(h)
	}
	buf.WriteByte(0xff)
	for _, tx := range txs {
		buf.Write(tx.ID)
	}
	return crypto.Hash(buf.Bytes())
}

// NextStateRoot is the state root the fake application commits for a block on top of prevRoot.
func NextStateRoot(prevRoot []byte, height uint32, assets []*blockchain.BlockAsset, txs []*blockchain.Transaction) []byte {
	return crypto.Hash(append(append([]byte{}, prevRoot...), ContentHash(height, assets, txs)...))
}

// ValidatorsOf renders a NextParams as labi validators (list order = generator round-robin order).
func ValidatorsOf(p *NextParams) []*labi.Validator {
	keys := Keys()
	alt := map[int]bool{}
	for _, ix := range p.AltGen {
		alt[ix] = true
	}
	gk := func(k *Key) []byte {
		if alt[k.Index] {
			return k.EdPub2
		}
		return k.EdPub
	}
	var out []*labi.Validator
	for i, ix := range p.Idx {
		k := keys[ix]
		out = append(out, &labi.Validator{Address: k.Addr, BFTWeight: p.Weights[i], GeneratorKey: gk(k), BLSKey: k.BLSPub})
	}
	for _, ix := range p.Standby {
		k := keys[ix]
		out = append(out, &labi.Validator{Address: k.Addr, BFTWeight: 0, GeneratorKey: gk(k), BLSKey: k.BLSPub})
	}
	return out
}

type rootEntry struct {
	Height uint32
	Root   []byte
}

// App is the persistent part of the fake application (survives node restarts; plays the application database).
type App struct {
	mu    sync.Mutex
	Stack []rootEntry
	// Calls counts ABI calls by name (diagnostics).
	Calls map[string]int
}

func NewApp() *App { return &App{Calls: map[string]int{}} }

// TruncateTo drops application state above height (what Init recovery does after a crash).
func (a *App) TruncateTo(height uint32) {
	a.mu.Lock()
	defer a.mu.Unlock()
	for len(a.Stack) > 0 && a.Stack[len(a.Stack)-1].Height > height {
		a.Stack = a.Stack[:len(a.Stack)-1]
	}
}

func (a *App) Top() (uint32, []byte, bool) {
	a.mu.Lock()
	defer a.mu.Unlock()
	if len(a.Stack) == 0 {
		return 0, nil, false
	}
	t := a.Stack[len(a.Stack)-1]
	return t.Height, t.Root, true
}

// Clone copies the application state (twin nodes).
func (a *App) Clone() *App {
	a.mu.Lock()
	defer a.mu.Unlock()
	c := NewApp()
	for _, e := range a.Stack {
		c.Stack = append(c.Stack, rootEntry{e.Height, append([]byte{}, e.Root...)})
	}
	return c
}

type abiCtx struct {
	header *blockchain.BlockHeader
	assets []*blockchain.BlockAsset
	txs    []*blockchain.Transaction
}

// ABI is the fake application: deterministic in the block, so that every node computes the same result.
type ABI struct {
	failRevert int // scripted Revert failures left (guarded by App.mu)
	App        *App
	Genesis    *NextParams
	mu         sync.Mutex
	ctx        *abiCtx
	// InsertAssetsFn lets a test decide which assets the generator inserts (default: empty script).
	InsertAssetsFn func(height uint32) []*blockchain.BlockAsset
	// OnCall, if set, is invoked at the start of every ABI call with its name (fault injection / ordering probes).
	OnCall func(name string)
	// OnConsensus, if set, receives the consensus information the engine hands to the application with a block-execution call
	// (a real application's state may depend on it: the generator and the validator of one block must pass the same values).
	OnConsensus func(call string, c *labi.Consensus)
}

func (a *ABI) consensusSeen(call string, c *labi.Consensus) {
	if a.OnConsensus != nil {
		a.OnConsensus(call, c)
	}
}

var _ labi.ABI = (*ABI)(nil)

func (a *ABI) call(name string) {
	a.App.mu.Lock()
	a.App.Calls[name]++
	a.App.mu.Unlock()
	if a.OnCall != nil {
		a.OnCall(name)
	}
}

func (a *ABI) Init(req *labi.InitRequest) (*labi.InitResponse, error) {
	a.call("Init")
	a.App.TruncateTo(req.LastBlockHeight)
	return &labi.InitResponse{}, nil
}

func (a *ABI) InitStateMachine(req *labi.InitStateMachineRequest) (*labi.InitStateMachineResponse, error) {
	a.call("InitStateMachine")
	a.mu.Lock()
	defer a.mu.Unlock()
	a.ctx = &abiCtx{header: req.Header}
	return &labi.InitStateMachineResponse{ContextID: []byte{1, 2, 3, 4}}, nil
}

func (a *ABI) InitGenesisState(req *labi.InitGenesisStateRequest) (*labi.InitGenesisStateResponse, error) {
	a.call("InitGenesisState")
	return &labi.InitGenesisStateResponse{
		Events:               []*blockchain.Event{},
		PreCommitThreshold:   a.Genesis.Precommit,
		CertificateThreshold: a.Genesis.Cert,
		NextValidators:       ValidatorsOf(a.Genesis),
	}, nil
}

func (a *ABI) InsertAssets(req *labi.InsertAssetsRequest) (*labi.InsertAssetsResponse, error) {
	a.call("InsertAssets")
	a.mu.Lock()
	defer a.mu.Unlock()
	var assets []*blockchain.BlockAsset
	if a.InsertAssetsFn != nil && a.ctx != nil {
		assets = a.InsertAssetsFn(a.ctx.header.Height)
	}
	if assets == nil {
		assets = []*blockchain.BlockAsset{}
	}
	return &labi.InsertAssetsResponse{Assets: assets}, nil
}

func (a *ABI) VerifyAssets(req *labi.VerifyAssetsRequest) (*labi.VerifyAssetsResponse, error) {
	a.call("VerifyAssets")
	if ScriptOf(req.Assets).FailAt == "verifyAssets" {
		return nil, errors.New("scripted failure: verifyAssets")
	}
	return &labi.VerifyAssetsResponse{}, nil
}

func (a *ABI) BeforeTransactionsExecute(req *labi.BeforeTransactionsExecuteRequest) (*labi.BeforeTransactionsExecuteResponse, error) {
	a.call("BeforeTransactionsExecute")
	a.consensusSeen("before", req.Consensus)
	a.mu.Lock()
	defer a.mu.Unlock()
	if a.ctx == nil {
		return nil, errors.New("no context")
	}
	a.ctx.assets = req.Assets
	s := ScriptOf(req.Assets)
	if s.FailAt == "before" {
		return nil, errors.New("scripted failure: before")
	}
	var evs []*blockchain.Event
	for i := 0; i < s.EvBefore; i++ {
		evs = append(evs, mkEvent(a.ctx.header.Height, "before", []byte{byte(i)}, []byte{0xb0, byte(i)}))
	}
	return &labi.BeforeTransactionsExecuteResponse{Events: evs}, nil
}

func (a *ABI) VerifyTransaction(req *labi.VerifyTransactionRequest) (*labi.VerifyTransactionResponse, error) {
	a.call("VerifyTransaction")
	o, _ := txOutcome(req.Transaction)
	switch o {
	case TxVerifyFail:
		return &labi.VerifyTransactionResponse{Result: labi.TxVerifyResultInvalid}, nil
	case TxVerifyErr:
		return nil, errors.New("scripted failure: verifyTx")
	case TxPending:
		return &labi.VerifyTransactionResponse{Result: labi.TxVerifyResultPending}, nil
	}
	return &labi.VerifyTransactionResponse{Result: labi.TxVerifyResultOk}, nil
}

func (a *ABI) ExecuteTransaction(req *labi.ExecuteTransactionRequest) (*labi.ExecuteTransactionResponse, error) {
	a.call("ExecuteTransaction")
	a.consensusSeen("tx", req.Consensus)
	a.mu.Lock()
	defer a.mu.Unlock()
	o, _ := txOutcome(req.Transaction)
	if o == TxExecuteErr {
		return nil, errors.New("scripted failure: executeTx")
	}
	if o == TxExecInvalid {
		// like the real framework (ABIHandler.ExecuteTransaction returns eventLogger.Events() whatever the result), the events
		// logged before the transaction turned out invalid come back with the answer; the caller has to drop them
		h := uint32(0)
		if a.ctx != nil {
			h = a.ctx.header.Height
		}
		return &labi.ExecuteTransactionResponse{Events: txEvents(h, req.Transaction), Result: labi.TxExecuteResultInvalid}, nil
	}
	height := uint32(0)
	if a.ctx != nil {
		height = a.ctx.header.Height
		if !req.DryRun {
			a.ctx.txs = append(a.ctx.txs, req.Transaction)
		}
	}
	res := labi.TxExecuteResultSuccess
	if o == TxExecuteFail {
		res = labi.TxExecuteResultFail
	}
	return &labi.ExecuteTransactionResponse{Events: txEvents(height, req.Transaction), Result: res}, nil
}

func (a *ABI) AfterTransactionsExecute(req *labi.AfterTransactionsExecuteRequest) (*labi.AfterTransactionsExecuteResponse, error) {
	a.call("AfterTransactionsExecute")
	a.consensusSeen("after", req.Consensus)
	a.mu.Lock()
	defer a.mu.Unlock()
	if a.ctx == nil {
		return nil, errors.New("no context")
	}
	s := ScriptOf(req.Assets)
	if s.FailAt == "after" {
		return nil, errors.New("scripted failure: after")
	}
	a.ctx.txs = req.Transactions
	resp := &labi.AfterTransactionsExecuteResponse{}
	for i := 0; i < s.EvAfter; i++ {
		resp.Events = append(resp.Events, mkEvent(a.ctx.header.Height, "after", []byte{byte(i)}, []byte{0xa0, byte(i)}))
	}
	if s.Next != nil {
		resp.PreCommitThreshold = s.Next.Precommit
		resp.CertificateThreshold = s.Next.Cert
		resp.NextValidators = ValidatorsOf(s.Next)
	}
	return resp, nil
}

func (a *ABI) Commit(req *labi.CommitRequest) (*labi.CommitResponse, error) {
	a.call("Commit")
	a.mu.Lock()
	defer a.mu.Unlock()
	if a.ctx == nil {
		return nil, errors.New("no context")
	}
	if ScriptOf(a.ctx.assets).FailAt == "commit" {
		return nil, errors.New("scripted failure: commit")
	}
	root := NextStateRoot(req.StateRoot, a.ctx.header.Height, a.ctx.assets, a.ctx.txs)
	if len(req.ExpectedStateRoot) > 0 && !bytes.Equal(root, req.ExpectedStateRoot) {
		return nil, fmt.Errorf("state root mismatch: computed %x expected %x", root, req.ExpectedStateRoot)
	}
	if !req.DryRun {
		a.App.mu.Lock()
		a.App.Stack = append(a.App.Stack, rootEntry{a.ctx.header.Height, root})
		a.App.mu.Unlock()
	}
	return &labi.CommitResponse{StateRoot: root}, nil
}

// FailNextRevert makes the next n Revert calls of this application fail without reverting anything (an application that
// refuses or is unable to revert: disk error, shutting down).
func (a *ABI) FailNextRevert(n int) {
	a.App.mu.Lock()
	a.failRevert = n
	a.App.mu.Unlock()
}

func (a *ABI) Revert(req *labi.RevertRequest) (*labi.RevertResponse, error) {
	a.call("Revert")
	a.App.mu.Lock()
	defer a.App.mu.Unlock()
	if a.failRevert > 0 {
		a.failRevert--
		return nil, errors.New("scripted failure: revert")
	}
	st := a.App.Stack
	if len(st) < 2 {
		return nil, errors.New("nothing to revert")
	}
	if !bytes.Equal(st[len(st)-1].Root, req.StateRoot) {
		return nil, fmt.Errorf("revert: application is at root %x, asked to revert %x", st[len(st)-1].Root, req.StateRoot)
	}
	if !bytes.Equal(st[len(st)-2].Root, req.ExpectedStateRoot) {
		return nil, fmt.Errorf("revert: previous root %x, expected %x", st[len(st)-2].Root, req.ExpectedStateRoot)
	}
	a.App.Stack = st[:len(st)-1]
	return &labi.RevertResponse{StateRoot: req.ExpectedStateRoot}, nil
}

func (a *ABI) Clear(req *labi.ClearRequest) (*labi.ClearResponse, error) {
	a.call("Clear")
	a.mu.Lock()
	a.ctx = nil
	a.mu.Unlock()
	return &labi.ClearResponse{}, nil
}

func (a *ABI) Finalize(req *labi.FinalizeRequest) (*labi.FinalizeResponse, error) {
	a.call("Finalize")
	return &labi.FinalizeResponse{}, nil
}
func (a *ABI) GetMetadata(req *labi.MetadataRequest) (*labi.MetadataResponse, error) {
	return &labi.MetadataResponse{}, nil
}
func (a *ABI) Query(req *labi.QueryRequest) (*labi.QueryResponse, error) {
	return &labi.QueryResponse{}, nil
}
func (a *ABI) Prove(req *labi.ProveRequest) (*labi.ProveResponse, error) {
	return &labi.ProveResponse{}, nil
}
