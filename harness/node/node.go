package node

import (
	"bytes"
	"context"
	"crypto/sha256"
	"encoding/binary"
	"fmt"
	"sort"
	"strings"
	"sync"
	"time"

	"github.com/cockroachdb/pebble/vfs"

	"github.com/LiskHQ/lisk-engine/pkg/blockchain"
	"github.com/LiskHQ/lisk-engine/pkg/codec"
	"github.com/LiskHQ/lisk-engine/pkg/consensus"
	"github.com/LiskHQ/lisk-engine/pkg/consensus/validator"
	"github.com/LiskHQ/lisk-engine/pkg/crypto"
	"github.com/LiskHQ/lisk-engine/pkg/db"
	"github.com/LiskHQ/lisk-engine/pkg/db/diffdb"
	"github.com/LiskHQ/lisk-engine/pkg/p2p"
	"github.com/LiskHQ/lisk-engine/pkg/trie/rmt"
)

var ChainID = []byte{0x04, 0x00, 0x00, 0x09}

// Config of a harness node.
type Config struct {
	Genesis       NextParams // genesis validator set
	BatchSize     int
	BlockTime     uint32 // default 10000 s
	SlotsBehind   int    // "now" sits in the middle of this slot number (default 1000)
	GenesisHeight uint32
	MaxBlockCache int // default 515
	KeepEvents    int // default 300 (-1 = keep all)
	MaxTxLength   uint32
	ListenAddr    string // non-empty: started p2p connection on this multiaddr (e.g. /ip4/127.0.0.2/tcp/7001)
	FS            vfs.FS // optional file system for the database (crash simulation); nil = pebble in-memory
	DBPath        string
	GenesisTS     uint32 // 0 = derive from the wall clock
}

// EventRec is one consensus event seen by the tap.
type EventRec struct {
	Topic string
	Msg   interface{}
}

type Node struct {
	Cfg     Config
	DB      *db.DB
	Chain   *blockchain.Chain
	Exec    *consensus.Executer
	Conn    *p2p.Connection
	ABI     *ABI
	Genesis *blockchain.Block
	Slot    *SlotCalc            // the harness's OWN slot arithmetic (not the engine's BlockSlot)
	engSlot *validator.BlockSlot // the engine's, only for the cross-check in GeneratorAt

	evMu   sync.Mutex
	taps   map[string]chan interface{}
	cancel context.CancelFunc
}

// KeepEventsNone in Config.KeepEvents stands for the engine's KeepEventsForHeights == 0 (keep events for no height beyond what finality
// requires; legal, the zero value of ChainConfig). 0 itself means "harness default" in Config, hence the sentinel.
const KeepEventsNone = -2

// EngineKeepEvents is the value handed to the engine for a Config.KeepEvents.
func EngineKeepEvents(k int) int {
	if k == KeepEventsNone {
		return 0
	}
	return k
}

func (c *Config) defaults() {
	if c.BlockTime == 0 {
		c.BlockTime = 10000
	}
	if c.SlotsBehind == 0 {
		c.SlotsBehind = 1000
	}
	if c.MaxBlockCache == 0 {
		c.MaxBlockCache = 515
	}
	if c.KeepEvents == 0 {
		c.KeepEvents = 300
	}
	if c.MaxTxLength == 0 {
		c.MaxTxLength = 15 * 1024
	}
	if c.BatchSize == 0 {
		c.BatchSize = len(c.Genesis.Idx) + len(c.Genesis.Standby)
	}
	if c.GenesisTS == 0 {
		now := uint32(time.Now().Unix())
		c.GenesisTS = now - uint32(c.SlotsBehind)*c.BlockTime - c.BlockTime/2
	}
}

// EqualGenesis builds a NextParams with n equal-weight validators and standard thresholds.
func EqualGenesis(n int) NextParams {
	p := NextParams{}
	for i := 0; i < n; i++ {
		p.Idx = append(p.Idx, i)
		p.Weights = append(p.Weights, 1)
	}
	p.Precommit = uint64(n)*2/3 + 1
	p.Cert = p.Precommit
	return p
}

// ValidatorsHashOf computes the validators hash of a parameter set from its LIP-0058 definition, with its own encoder (oracle audit,
// finding 2: it used to call the engine's ComputeValidatorsHash, so a hash that ignored a weight, the threshold or the key order
// would have been mirrored): SHA-256 of the Lisk-codec message {1: repeated {1: bytes blsKey, 2: uint64 bftWeight} sorted by
// blsKey, 2: uint64 certificateThreshold}.
func ValidatorsHashOf(p *NextParams) []byte {
	keys := Keys()
	type hv struct {
		bls []byte
		w   uint64
	}
	var vs []hv
	for i, ix := range p.Idx {
		vs = append(vs, hv{keys[ix].BLSPub, p.Weights[i]})
	}
	sort.Slice(vs, func(i, j int) bool { return bytes.Compare(vs[i].bls, vs[j].bls) < 0 })
	uv := func(b []byte, x uint64) []byte {
		for x >= 0x80 {
			b = append(b, byte(x)|0x80)
			x >>= 7
		}
		return append(b, byte(x))
	}
	var out []byte
	for _, v := range vs {
		var in []byte
		in = append(in, 0x0a)
		in = uv(in, uint64(len(v.bls)))
		in = append(in, v.bls...)
		in = append(in, 0x10)
		in = uv(in, v.w)
		out = append(out, 0x0a)
		out = uv(out, uint64(len(in)))
		out = append(out, in...)
	}
	out = append(out, 0x10)
	out = uv(out, p.Cert)
	h := sha256.Sum256(out)
	return h[:]
}

// GenesisBlock builds the genesis block for a config.
func GenesisBlock(cfg *Config) *blockchain.Block {
	h := &blockchain.BlockHeader{
		Version:          0,
		Timestamp:        cfg.GenesisTS,
		Height:           cfg.GenesisHeight,
		PreviousBlockID:  bytes.Repeat([]byte{0}, 32),
		GeneratorAddress: bytes.Repeat([]byte{0}, 20),
		TransactionRoot:  crypto.Hash([]byte{}),
		AssetRoot:        blockchain.BlockAssets{}.GetRoot(),
		StateRoot:        NextStateRoot(nil, cfg.GenesisHeight, nil, nil),
		ValidatorsHash:   ValidatorsHashOf(&cfg.Genesis),
		AggregateCommit:  &blockchain.AggregateCommit{Height: 0, AggregationBits: []byte{}, CertificateSignature: []byte{}},
		Signature:        []byte{},
	}
	er, err := blockchain.CalculateEventRoot(nil)
	if err != nil {
		panic(err)
	}
	h.EventRoot = er
	h.Init()
	return &blockchain.Block{Header: h, Transactions: []*blockchain.Transaction{}, Assets: []*blockchain.BlockAsset{}}
}

// New creates a node on a fresh database and processes the genesis block.
func New(cfg Config) (*Node, error) {
	cfg.defaults()
	n := &Node{Cfg: cfg, ABI: &ABI{App: NewApp(), Genesis: &cfg.Genesis}}
	n.Genesis = GenesisBlock(&n.Cfg)
	if err := n.open(); err != nil {
		return nil, err
	}
	return n, nil
}

func (n *Node) openDB() error {
	var err error
	if n.Cfg.FS != nil {
		n.DB, err = db.NewDBWithFS(n.Cfg.DBPath, n.Cfg.FS)
	} else if n.DB == nil {
		n.DB, err = db.NewInMemoryDB()
	}
	return err
}

func (n *Node) open() error {
	if err := n.openDB(); err != nil {
		return err
	}
	n.Slot = &SlotCalc{GenesisTS: n.Cfg.GenesisTS, BlockTime: n.Cfg.BlockTime}
	n.engSlot = validator.NewBlockSlot(n.Cfg.GenesisTS, n.Cfg.BlockTime)
	n.Chain = blockchain.NewChain(&blockchain.ChainConfig{ChainID: ChainID, MaxTransactionsLength: n.Cfg.MaxTxLength, MaxBlockCache: n.Cfg.MaxBlockCache, KeepEventsForHeights: EngineKeepEvents(n.Cfg.KeepEvents)})
	n.Chain.Init(n.Genesis, n.DB)
	pc := &p2p.Config{ChainID: ChainID, Version: "1.0", MinNumOfConnections: 1, MaxNumOfConnections: 20}
	if n.Cfg.ListenAddr != "" {
		pc.Addresses = []string{n.Cfg.ListenAddr}
	}
	n.Conn = p2p.NewConnection(NopLogger(), pc)
	ctx, cancel := context.WithCancel(context.Background())
	n.cancel = cancel
	n.Exec = consensus.NewExecuter(&consensus.ExecuterConfig{CTX: ctx, ABI: n.ABI, Chain: n.Chain, Conn: n.Conn, BlockTime: n.Cfg.BlockTime, BatchSize: n.Cfg.BatchSize})
	if err := n.Exec.Init(&consensus.ExecuterInitParam{CTX: ctx, Logger: NopLogger(), Database: n.DB, GenesisBlock: n.Genesis}); err != nil {
		return err
	}
	n.Exec.VerifStopTicker()
	if n.Cfg.ListenAddr != "" {
		if err := n.Conn.Start(nil); err != nil {
			return fmt.Errorf("conn start: %w", err)
		}
	}
	n.startTap()
	return nil
}

var tapTopics = []string{consensus.EventBlockNew, consensus.EventBlockDelete, consensus.EventBlockFinalize, consensus.EventValidatorsChange}

// The tap uses buffered channels registered through the VerifOn hook: Publish is synchronous, so when a processing call
// has returned every event it published sits in a buffer (no goroutine, no race with TakeEvents).
func (n *Node) startTap() {
	n.taps = map[string]chan interface{}{}
	for _, topic := range tapTopics {
		ch := make(chan interface{}, 1<<14)
		n.taps[topic] = ch
		n.Exec.VerifOn(topic, ch)
	}
}

// TakeEvents returns and clears the consensus events recorded so far (publishers are synchronous, so after a
// VerifProcess call returns every event it published has been recorded).
func (n *Node) TakeEvents() []EventRec {
	n.evMu.Lock()
	defer n.evMu.Unlock()
	var out []EventRec
	for _, topic := range tapTopics {
		ch := n.taps[topic]
		for more := true; more; {
			select {
			case m, ok := <-ch:
				if !ok {
					more = false
				} else {
					out = append(out, EventRec{topic, m})
				}
			default:
				more = false
			}
		}
	}
	return out
}

// Close releases everything except the database when keepDB is set.
func (n *Node) shutdown() {
	n.Exec.Stop() // closes event channels
	n.cancel()
	if n.Cfg.ListenAddr != "" {
		n.Conn.Stop()
	}
}

func (n *Node) Close() {
	n.shutdown()
	n.DB.Close()
}

// Restart drops every in-memory object and reopens Chain/Executer on the same database and application state.
func (n *Node) Restart() error {
	n.shutdown()
	if n.Cfg.FS != nil {
		n.DB.Close()
		n.DB = nil
	}
	return n.open()
}

// ---------------------------------------------------------------------------------------------------------------

func (n *Node) Store() *diffdb.Database {
	return diffdb.New(n.DB, blockchain.DBPrefixToBytes(blockchain.DBPrefixState))
}

func (n *Node) Tip() *blockchain.Block { return n.Chain.LastBlock() }

func (n *Node) Heights() (prevoted, precommitted, certified uint32) {
	a, b, c, err := n.Exec.GetBFTHeights(n.Store())
	if err != nil {
		panic(err)
	}
	return a, b, c
}

func (n *Node) Finalized() uint32 {
	f, err := n.Chain.DataAccess().GetFinalizedHeight()
	if err != nil {
		panic(err)
	}
	return f
}

// KV is one database record.
type KV struct{ K, V []byte }

// Dump returns every record of the node database, sorted by key.
func (n *Node) Dump() []KV {
	var out []KV
	for _, kv := range n.DB.Iterate([]byte{}, -1, false) {
		out = append(out, KV{kv.Key(), kv.Value()})
	}
	return out
}

// ParamHeights lists, in ascending order, the heights at which a BFT parameter set is stored, read from the raw key space
// (state prefix | module id 11 | sub-store 0x0000 | height) without going through the liskbft API.
func (n *Node) ParamHeights() []uint32 {
	pfx := append(append([]byte{}, blockchain.DBPrefixToBytes(blockchain.DBPrefixState)...), 0, 0, 0, 11, 0, 0)
	var out []uint32
	for _, kv := range n.DB.Iterate(pfx, -1, false) {
		k := kv.Key()
		if len(k) == len(pfx)+4 {
			out = append(out, binary.BigEndian.Uint32(k[len(pfx):]))
		}
	}
	sort.Slice(out, func(i, j int) bool { return out[i] < out[j] })
	return out
}

// NextParamHeight is the smallest stored parameter height greater than h (LIP-0058 getNextHeightBFTParameters), from ParamHeights.
func (n *Node) NextParamHeight(h uint32) (uint32, bool) {
	for _, x := range n.ParamHeights() {
		if x > h {
			return x, true
		}
	}
	return 0, false
}

// SlotOf returns the slot number of a timestamp.
func (n *Node) SlotOf(ts uint32) int { return n.Slot.GetSlotNumber(ts) }

// SlotCalc is the protocol's slot arithmetic restated: slot k covers [genesisTS + k*blockTime, genesisTS + (k+1)*blockTime).
type SlotCalc struct{ GenesisTS, BlockTime uint32 }

func (s *SlotCalc) GetSlotNumber(ts uint32) int { return int((ts - s.GenesisTS) / s.BlockTime) }
func (s *SlotCalc) GetSlotTime(slot int) uint32 { return s.GenesisTS + uint32(slot)*s.BlockTime }

// ScriptedGenerators is the generator list (pool indexes, round-robin order) in force for a block at the given height, derived
// from the chain content alone: the validator list of the latest validator update below that height (BFT validators, then standby
// generators, in the order the application returned them), the genesis configuration otherwise.
func (n *Node) ScriptedGenerators(height uint32) []int {
	list := func(p *NextParams) []int { return append(append([]int{}, p.Idx...), p.Standby...) }
	for h := int64(height) - 1; h > int64(n.Cfg.GenesisHeight); h-- {
		b, err := n.Chain.DataAccess().GetBlockByHeight(uint32(h))
		if err != nil {
			break
		}
		if sc := ScriptOf(b.Assets); sc.Next != nil {
			return list(sc.Next)
		}
	}
	return list(&n.Cfg.Genesis)
}

// GeneratorAt returns the key of the generator assigned to (height, slot) by the protocol rule - round robin over the generator
// list in force, indexed by the slot number - computed from the chain content with the harness's own arithmetic. The engine's
// answer (stored generator list, its AtTimestamp and its BlockSlot) is compared with it: a node that assigns slots differently
// would accept blocks of the wrong generator and refuse the right one, yet agree with itself in every other check (the harness
// used to ASK the engine who the generator is; found by the pass over "oracles that read through the code under test", DESIGN 9.5).
func (n *Node) GeneratorAt(height uint32, slot int) (*Key, error) {
	want := n.ScriptedGenerators(height)
	if len(want) == 0 {
		return nil, fmt.Errorf("no generators scripted for height %d", height)
	}
	k := Keys()[want[slot%len(want)]]
	gens, err := n.Exec.GetGeneratorKeys(n.Store(), height)
	if err != nil {
		return nil, err
	}
	g, err := gens.AtTimestamp(n.engSlot, n.Slot.GetSlotTime(slot))
	if err != nil {
		return nil, err
	}
	if !bytes.Equal(g.Address(), k.Addr) {
		return nil, fmt.Errorf("GENERATOR-ASSIGNMENT: the engine assigns slot %d at height %d to %x, round robin over the generator list in force (%v) gives validator %d (%x)",
			slot, height, []byte(g.Address()), want, k.Index, k.Addr)
	}
	return k, nil
}

// LastGeneratedHeight scans the current chain (within the BFT window of the next block) for the newest block generated by addr.
func (n *Node) LastGeneratedHeight(addr []byte) uint32 {
	return n.LastGeneratedHeightBelow(addr, n.Tip().Header.Height+1)
}

// LastGeneratedHeightBelow is the honest maxHeightGenerated for a block at `height` on the current chain: the newest block by
// addr among the 3*BatchSize heights below it (the window the engine keeps when it processes a block at that height). A
// sibling of the tip has to use height = tip height: its window reaches one block further down than the next block's.
func (n *Node) LastGeneratedHeightBelow(addr []byte, height uint32) uint32 {
	lo := int64(height) - int64(3*n.Cfg.BatchSize)
	for h := int64(height) - 1; h >= lo && h > int64(n.Cfg.GenesisHeight); h-- {
		hd, err := n.Chain.DataAccess().GetBlockHeaderByHeight(uint32(h))
		if err != nil {
			break
		}
		if bytes.Equal(hd.GeneratorAddress, addr) {
			return uint32(h)
		}
	}
	return 0
}

// Spec describes the block to build on the current tip.
type Spec struct {
	SlotGap     int // slots after the tip's slot (default 1)
	AbsSlot     int // if > 0: absolute slot number (overrides SlotGap)
	MHG         *uint32
	Script      Script
	NoScript    bool // do not attach the script asset (empty block assets)
	ExtraAssets []*blockchain.BlockAsset
	Txs         []*blockchain.Transaction
	Agg         *blockchain.AggregateCommit
	TSOffset    uint32 // seconds inside the slot
}

// MakeTx builds a signed transaction from pool key `sender` whose behaviour is scripted by outcome/events.
func MakeTx(sender int, nonce, fee uint64, outcome, extraEvents int, pad int) *blockchain.Transaction {
	k := Keys()[sender]
	params := append([]byte{byte(outcome), byte(extraEvents)}, bytes.Repeat([]byte{7}, pad)...)
	tx := &blockchain.Transaction{Module: "verif", Command: "run", Nonce: nonce, Fee: fee, SenderPublicKey: k.EdPub, Params: params, Signatures: []codec.Hex{}}
	tx.Signatures = []codec.Hex{tx.GetSignature(ChainID, k.EdPriv)}
	tx.Init()
	return tx
}

// CurrentParams reads the parameter set in force at a height from the real node and renders it as NextParams
// (only used to recompute the validators hash independently).
func (n *Node) CurrentParams(height uint32) (*NextParams, error) {
	p, err := n.Exec.GetBFTParameters(n.Store(), height)
	if err != nil {
		return nil, err
	}
	out := &NextParams{Precommit: p.PrecommitThreshold(), Cert: p.CertificateThreshold()}
	for _, v := range p.Validators() {
		k := KeyByAddr(v.Address())
		if k == nil {
			return nil, fmt.Errorf("validator %x not in pool", v.Address())
		}
		out.Idx = append(out.Idx, k.Index)
		out.Weights = append(out.Weights, v.BFTWeight())
	}
	// Cross-check with the chain content (oracle audit, finding 7): the set in force at `height` is what the latest validator update
	// in a block BELOW that height returned (genesis configuration otherwise). The engine's answer is used by the builders of valid
	// blocks and aggregate commits; a set taking effect at the wrong height would otherwise be mirrored.
	if height <= n.Tip().Header.Height+1 && height > n.Cfg.GenesisHeight {
		want := n.ScriptedParams(height)
		ww := map[int]uint64{}
		for i, ix := range want.Idx {
			ww[ix] = want.Weights[i]
		}
		same := len(ww) == len(out.Idx) && want.Precommit == out.Precommit && want.Cert == out.Cert
		for i, ix := range out.Idx {
			same = same && ww[ix] == out.Weights[i]
		}
		if !same {
			return nil, fmt.Errorf("BFT-PARAMETERS: the engine reports validators %v weights %v thresholds %d/%d for height %d, the chain content gives %v %v %d/%d",
				out.Idx, out.Weights, out.Precommit, out.Cert, height, want.Idx, want.Weights, want.Precommit, want.Cert)
		}
	}
	return out, nil
}

// ScriptedParams: BFT validators, weights and thresholds in force for the given height, from the chain content alone.
func (n *Node) ScriptedParams(height uint32) *NextParams {
	for h := int64(height) - 1; h > int64(n.Cfg.GenesisHeight); h-- {
		b, err := n.Chain.DataAccess().GetBlockByHeight(uint32(h))
		if err != nil {
			break
		}
		if sc := ScriptOf(b.Assets); sc.Next != nil {
			return sc.Next
		}
	}
	g := n.Cfg.Genesis
	return &g
}

// Build constructs a block that is valid on top of the current tip (unless the spec says otherwise).
func (n *Node) Build(s Spec) (*blockchain.Block, error) {
	parent := n.Tip().Header
	height := parent.Height + 1
	slot := s.AbsSlot
	if slot <= 0 {
		gap := s.SlotGap
		if gap <= 0 {
			gap = 1
		}
		slot = n.SlotOf(parent.Timestamp) + gap
	}
	gen, err := n.GeneratorAt(height, slot)
	if err != nil {
		return nil, err
	}
	assets := blockchain.BlockAssets{}
	if !s.NoScript {
		assets = append(assets, ScriptAsset(s.Script))
	}
	assets = append(assets, s.ExtraAssets...)
	assets.Sort()
	txs := s.Txs
	if txs == nil {
		txs = []*blockchain.Transaction{}
	}
	mhp, _, cert := n.Heights()
	mhg := n.LastGeneratedHeight(gen.Addr)
	if s.MHG != nil {
		mhg = *s.MHG
	}
	agg := s.Agg
	if agg == nil {
		agg = &blockchain.AggregateCommit{Height: cert, AggregationBits: []byte{}, CertificateSignature: []byte{}}
	}
	// validators hash of the parameters in force from height+1
	var vh []byte
	cur, err := n.CurrentParams(height)
	if err != nil {
		return nil, err
	}
	vh = ValidatorsHashOf(cur)
	if s.Script.Next != nil && !s.NoScript {
		if !sameParams(cur, s.Script.Next) {
			vh = ValidatorsHashOf(s.Script.Next)
		}
	}
	txIDs := make([][]byte, len(txs))
	for i, tx := range txs {
		txIDs[i] = tx.ID
	}
	evs := ExpectedEvents(height, assets, txs)
	er, err := blockchain.CalculateEventRoot(evs)
	if err != nil {
		return nil, err
	}
	h := &blockchain.BlockHeader{
		Version:            2,
		Timestamp:          n.Slot.GetSlotTime(slot) + s.TSOffset,
		Height:             height,
		PreviousBlockID:    parent.ID,
		GeneratorAddress:   gen.Addr,
		TransactionRoot:    rmt.CalculateRoot(txIDs),
		AssetRoot:          assets.GetRoot(),
		EventRoot:          er,
		StateRoot:          NextStateRoot(parent.StateRoot, height, assets, txs),
		MaxHeightPrevoted:  mhp,
		MaxHeightGenerated: mhg,
		ValidatorsHash:     vh,
		AggregateCommit:    agg,
	}
	h.Sign(ChainID, n.SignerFor(height, gen).EdPriv)
	return &blockchain.Block{Header: h, Transactions: txs, Assets: assets}, nil
}

// sameParams mirrors the documented no-op rule of setBFTParameters: same validators (address, weight) and thresholds.
func sameParams(a, b *NextParams) bool {
	if a.Precommit != b.Precommit || a.Cert != b.Cert || len(a.Idx) != len(b.Idx) {
		return false
	}
	wa := map[int]uint64{}
	for i, ix := range a.Idx {
		wa[ix] = a.Weights[i]
	}
	for i, ix := range b.Idx {
		if w, ok := wa[ix]; !ok || w != b.Weights[i] {
			return false
		}
	}
	return true
}

// Resign re-signs a (mutated) header with the given key and refreshes its ID.
// AltGenAt: which validators (pool index) are expected to sign with their alternate generator key at the given height,
// derived from the chain content alone (the latest validator update below that height; the genesis configuration otherwise) -
// not from what the engine has stored, so that a lost key rotation shows.
func (n *Node) AltGenAt(height uint32) map[int]bool {
	out := map[int]bool{}
	set := func(p *NextParams) map[int]bool {
		for _, ix := range p.AltGen {
			out[ix] = true
		}
		return out
	}
	for h := int64(height) - 1; h > int64(n.Cfg.GenesisHeight); h-- {
		b, err := n.Chain.DataAccess().GetBlockByHeight(uint32(h))
		if err != nil {
			break
		}
		if sc := ScriptOf(b.Assets); sc.Next != nil {
			return set(sc.Next)
		}
	}
	return set(&n.Cfg.Genesis)
}

// SignerFor returns the key material validator k signs block headers with at the given height (a copy whose EdPub/EdPriv are
// the generator key pair in force).
func (n *Node) SignerFor(height uint32, k *Key) *Key {
	c := *k
	if n.AltGenAt(height)[k.Index] {
		c.EdPub, c.EdPriv = k.EdPub2, k.EdPriv2
	}
	return &c
}

// OtherSignerFor returns the generator key pair of k that is NOT in force at the height (the revoked or not yet valid one).
func (n *Node) OtherSignerFor(height uint32, k *Key) *Key {
	c := *k
	if !n.AltGenAt(height)[k.Index] {
		c.EdPub, c.EdPriv = k.EdPub2, k.EdPriv2
	}
	return &c
}

func Resign(b *blockchain.Block, k *Key) {
	b.Header.Sign(ChainID, k.EdPriv)
}

// CloneBlock deep-copies a block through its encoding.
func CloneBlock(b *blockchain.Block) *blockchain.Block {
	c, err := blockchain.NewBlock(b.Encode())
	if err != nil {
		panic(err)
	}
	return c
}

// Apply builds and processes a valid block; returns it.
func (n *Node) Apply(s Spec) (*blockchain.Block, error) {
	b, err := n.Build(s)
	if err != nil {
		return nil, err
	}
	if err := n.Exec.VerifProcess(b, "peer"); err != nil {
		return b, err
	}
	if !bytes.Equal(n.Tip().Header.ID, b.Header.ID) {
		return b, fmt.Errorf("block %d built by the harness was not appended (silently discarded)", b.Header.Height)
	}
	return b, nil
}

// NormDump renders a dump as a map with state-diff records (prefix 51) made order-independent: the engine writes the
// three lists of a diff in map-iteration order, which carries no meaning.
func NormDump(d []KV) map[string]string {
	out := map[string]string{}
	for _, kv := range d {
		v := string(kv.V)
		if len(kv.K) > 0 && kv.K[0] == 51 {
			df := &diffdb.Diff{}
			if err := df.Decode(kv.V); err == nil {
				var parts []string
				for _, k := range df.Added {
					parts = append(parts, fmt.Sprintf("A %x", k))
				}
				for _, e := range df.Updated {
					parts = append(parts, fmt.Sprintf("U %x=%x", e.Key, e.Value))
				}
				for _, e := range df.Deleted {
					parts = append(parts, fmt.Sprintf("D %x=%x", e.Key, e.Value))
				}
				sort.Strings(parts)
				v = strings.Join(parts, ";")
			}
		}
		out[string(kv.K)] = v
	}
	return out
}

// RebuildApp resets the fake application state to the engine's chain (what Init recovery achieves after a crash).
func (n *Node) RebuildApp() error {
	app := NewApp()
	tip := n.Tip().Header.Height
	for h := n.Cfg.GenesisHeight; h <= tip; h++ {
		hd, err := n.Chain.DataAccess().GetBlockHeaderByHeight(h)
		if err != nil {
			return err
		}
		app.Stack = append(app.Stack, rootEntry{h, append([]byte{}, hd.StateRoot...)})
	}
	n.ABI.App = app
	return nil
}
