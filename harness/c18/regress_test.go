package c18

import (
	"context"
	"sync"
	"testing"
	"time"

	"github.com/LiskHQ/lisk-engine/pkg/p2p"

	"verifharness/evid"
)

// TestRegressEnvelopeBanDisconnects: minimal reproduction of C18-F1. A peer that sends an undecodable request envelope
// (or names an unknown procedure) is banned by MessageProtocol.onRequest through Peer.banPeer(conn.RemoteMultiaddr());
// that address carries no /p2p/<id> part, so banPeer fails after raising the score and never closes the connection:
// the banned peer stays connected and can keep sending. The statement demands "the peer is disconnected".
func TestRegressEnvelopeBanDisconnects(t *testing.T) {
	for _, c := range []struct {
		name    string
		request bool
		data    []byte
	}{
		{"undecodable request", true, []byte{0x0a, 0x05, 0x01}},
		{"unknown procedure in a request", true, encodeEnvelope("id", "noSuchProcedure", []byte("x"), "", false)},
		{"undecodable response", false, []byte{0x0a, 0x05, 0x01}},
		{"unknown procedure in a response", false, encodeEnvelope("id", "noSuchProcedure", []byte("x"), "", true)},
	} {
		s := escn{N: 2, IPs: []int{2, 3}, Security: p2p.ConnectionSecurityNone, ExpiryS: 2, SweepMs: 100, Limit: 5, Penalty: 10, BlackOf: -1, DialOnly: -1}
		r := &erun{s: s, start: time.Now(), res: &seqResult{labels: map[string]bool{}}}
		if err := r.setup(); err != nil {
			r.teardown()
			t.Skipf("environment: %v", err)
		}
		victim, offender := r.nodes[0], r.nodes[1]
		ctx, cancel := context.WithTimeout(context.Background(), 10*time.Second)
		if err := offender.conn.Connect(ctx, *victim.info); err != nil {
			cancel()
			r.teardown()
			t.Fatalf("%s: connect: %v", c.name, err)
		}
		waitFor(5*time.Second, func() bool { return r.connected(0, 1) && r.connected(1, 0) })
		if err := offender.conn.VerifRawSend(ctx, victim.conn.ID(), c.request, c.data); err != nil {
			cancel()
			r.teardown()
			t.Fatalf("%s: raw send: %v", c.name, err)
		}
		cancel()
		banned := waitFor(5*time.Second, func() bool { sc, _, _ := victim.conn.VerifPeerScore(offender.ip); return sc >= threshold })
		gone := waitFor(2*time.Second, func() bool { return !r.connected(0, 1) })
		r.teardown()
		evid.R.Case("regress-F1 "+c.name, true, nil, "regress-F1")
		if !banned {
			t.Fatalf("%s: offender's IP was not banned", c.name)
		}
		if !gone {
			if evid.R.KnownFinding(sigF1) {
				t.Logf("%s: banned but still connected (known finding C18-F1)", c.name)
				continue
			}
			t.Fatalf("C18 violated: %s: the offender's IP is banned (score >= %d) but the peer is still connected 2 s later [signature %s]", c.name, threshold, sigF1)
		}
	}
}

// TestRegressDialOnlyPeerBan: fixed scenarios with a peer that has no listen address (Config.Addresses empty): it
// connects inbound from an IP it never announces (127.0.0.1, the other node listens on 127.0.0.2). Every way of reaching
// the threshold - handler-issued BanPeer, ApplyPenalty in two steps, an undecodable envelope, an unknown procedure, on
// the request and the response protocol - must be accounted to the IP the connection really comes from: the peer is
// disconnected, its re-dial and an outbound attempt towards that IP are refused until the ban is seen over, then it is
// accepted again and a small penalty starts from a clean score. (A BanPeer that walks over the peer's *announced*
// addresses instead of its live connections bans nothing here.)
func TestRegressDialOnlyPeerBan(t *testing.T) {
	type script struct {
		name  string
		cause string
		offs  []eev
	}
	scripts := []script{
		{"BanPeer from a handler", "app-ban", []eev{{Kind: "app", From: 1, To: 0, K: 0}}},
		{"ApplyPenalty 60+40 from a handler", "app-penalty", []eev{{Kind: "app", From: 1, To: 0, K: 60}, {Kind: "app", From: 1, To: 0, K: 40}}},
		{"undecodable request envelope", "badreq", []eev{{Kind: "badreq", From: 1, To: 0, Bytes: []byte{0x0a, 0x05, 0x01}}}},
		{"unknown procedure in a request", "unkreq", []eev{{Kind: "unkreq", From: 1, To: 0}}},
		{"undecodable response envelope", "badres", []eev{{Kind: "badres", From: 1, To: 0, Bytes: []byte{0x0a, 0x05, 0x01}}}},
		{"unknown procedure in a response", "unkres", []eev{{Kind: "unkres", From: 1, To: 0}}},
	}
	results := make([]*seqResult, len(scripts))
	var wg sync.WaitGroup
	for i, sc := range scripts {
		s := escn{On: true, N: 2, IPs: []int{2, 3}, Security: []string{p2p.ConnectionSecurityNone, p2p.ConnectionSecurityTLS, p2p.ConnectionSecurityNoise}[i%3],
			ExpiryS: 2, SweepMs: 100, Limit: 5, Penalty: 10, BlackOf: -1, DialOnly: 1}
		s.Events = append(s.Events, eev{Kind: "req", From: 1, To: 0})
		s.Events = append(s.Events, sc.offs...)
		s.Events = append(s.Events,
			eev{Kind: "dial", From: 1, To: 0}, // the banned peer dials again
			eev{Kind: "dial", From: 0, To: 1}, // outbound attempt towards the banned IP
			eev{Kind: "await", From: 1, To: 0},
			eev{Kind: "dial", From: 1, To: 0},
			eev{Kind: "dial", From: 0, To: 1},
			eev{Kind: "app", From: 1, To: 0, K: 7})
		wg.Add(1)
		go func(i int, s escn) {
			defer wg.Done()
			results[i] = runScenarioRobust(s)
		}(i, s)
	}
	wg.Wait()
	for i, sc := range scripts {
		res := results[i]
		switch {
		case res.violation != "":
			t.Errorf("C18 violated (dial-only peer, %s; 3 attempts): %s\nhistory:\n%s", sc.name, res.violation, res.render())
		case res.infra != "":
			evid.R.Inconclusive("dial-only regression scenario %q dropped: %s", sc.name, res.infra)
		default:
			if !res.labels["dial-only-peer-banned-by:"+sc.cause] {
				t.Errorf("harness: script %q passed without banning the dial-only peer\n%s", sc.name, res.render())
			}
			if !res.nontrivial {
				evid.R.Note("dial-only regression script %q: no refusal observed while the ban was certain (slow run)", sc.name)
			}
			register("e2e-dial-only-regress", res)
		}
	}
}

// TestRegressSharedIPPeers: fixed scenarios with TWO peers on one IP address (nodes behind one NAT gateway / on one
// host: same loopback address, different ports). The gater keeps one score per IP, Disconnect closes the connections of
// one peer ID. Node 0 (own IP) hands out the penalties, nodes 1 and 2 share an address: one of them takes the IP's total
// to the threshold (it is disconnected; the other one keeps its connection - engine behaviour, not asserted), then the
// still connected one offends: through ApplyPenalty with a small amount, by exceeding the rate limit, or through a ban
// path. Its IP's total is at/above the threshold, so "the peer is disconnected" applies to it at that penalty. Then both
// peers and node 0 try to connect in every direction (refused while the ban is certain), the ban is awaited, both come
// back and small penalties of both accumulate from a clean score. Variants: total reached by penalties of both peers;
// a peer without listen address sharing 127.0.0.1 with a listening peer; three nodes on ::1.
func TestRegressSharedIPPeers(t *testing.T) {
	type script struct {
		name  string
		label string // label that shows that the decisive step was taken
		s     escn
		offs  []eev
	}
	base := func(sec string) escn {
		return escn{On: true, N: 3, IPs: []int{2, 5, 5}, Group: []int{1, 2}, Shared: true, Security: sec, ExpiryS: 3, SweepMs: 100, Limit: 4, Penalty: 25, BlackOf: -1, DialOnly: -1}
	}
	dialOnly := base(p2p.ConnectionSecurityNone)
	dialOnly.IPs, dialOnly.DialOnly = []int{2, 1, 1}, 2
	v6 := base(p2p.ConnectionSecurityNoise)
	v6.V6, v6.Group = true, []int{0, 1, 2}
	victimShares := base(p2p.ConnectionSecurityTLS)
	victimShares.IPs, victimShares.Group = []int{5, 5, 5}, []int{0, 1, 2}
	second := "shared-ip:second-peer-penalised-after-ban-by-first:"
	scripts := []script{
		{"ApplyPenalty 40+60 on peer 1, then ApplyPenalty 10 on peer 2", second + "app-penalty", base(p2p.ConnectionSecurityNone),
			[]eev{{Kind: "app", From: 1, To: 0, K: 40}, {Kind: "app", From: 1, To: 0, K: 60}, {Kind: "app", From: 2, To: 0, K: 10}}},
		{"BanPeer(peer 1), then peer 2 exceeds the rate limit", second + "rate-limit(echo)", base(p2p.ConnectionSecurityTLS),
			[]eev{{Kind: "app", From: 1, To: 0, K: 0}, {Kind: "burst", From: 2, To: 0, Burst: "over1"}}},
		{"total reached by both peers (60 on peer 2, 40 on peer 1), then ApplyPenalty 5 on peer 2", second + "app-penalty", base(p2p.ConnectionSecurityNoise),
			[]eev{{Kind: "app", From: 2, To: 0, K: 60}, {Kind: "app", From: 1, To: 0, K: 40}, {Kind: "app", From: 2, To: 0, K: 5}}},
		{"undecodable request of peer 1, then BanPeer(peer 2)", second + "app-ban", base(p2p.ConnectionSecurityNone),
			[]eev{{Kind: "badreq", From: 1, To: 0, Bytes: []byte{0x0a, 0x05, 0x01}}, {Kind: "app", From: 2, To: 0, K: 0}}},
		{"rate limit bans peer 1 (4 x 25), then peer 2 names an unknown procedure", second + "unkreq", base(p2p.ConnectionSecurityTLS),
			[]eev{{Kind: "burst", From: 1, To: 0, Burst: "over", Extra: 40}, {Kind: "unkreq", From: 2, To: 0}}},
		{"listening peer and dial-only peer on 127.0.0.1: BanPeer(listener), then the dial-only peer exceeds the rate limit", second + "rate-limit(echo)", dialOnly,
			[]eev{{Kind: "app", From: 1, To: 0, K: 0}, {Kind: "burst", From: 2, To: 0, Burst: "over1"}}},
		{"three nodes on ::1: ApplyPenalty 100 on peer 1, then ApplyPenalty 1 on peer 2", second + "app-penalty", v6,
			[]eev{{Kind: "app", From: 1, To: 0, K: 100}, {Kind: "app", From: 2, To: 0, K: 1}}},
		{"penalising node on the same IP as both peers: ApplyPenalty 99+1 on peer 1, then peer 2 exceeds the rate limit", second + "rate-limit(echo)", victimShares,
			[]eev{{Kind: "app", From: 1, To: 0, K: 99}, {Kind: "app", From: 1, To: 0, K: 1}, {Kind: "burst", From: 2, To: 0, Burst: "over1"}}},
	}
	results := make([]*seqResult, len(scripts))
	var wg sync.WaitGroup
	for i, sc := range scripts {
		s := sc.s
		s.Events = append(s.Events, eev{Kind: "req", From: 1, To: 0}, eev{Kind: "req", From: 2, To: 0})
		s.Events = append(s.Events, sc.offs...)
		s.Events = append(s.Events,
			eev{Kind: "dial", From: 2, To: 0}, // the second peer tries to come back
			eev{Kind: "dial", From: 1, To: 0}, // the first one too
			eev{Kind: "dial", From: 0, To: 2}, // outbound attempt towards the banned IP
			eev{Kind: "await", From: 1, To: 0},
			eev{Kind: "await", From: 2, To: 0},
			eev{Kind: "dial", From: 1, To: 0},
			eev{Kind: "dial", From: 2, To: 0},
			eev{Kind: "app", From: 2, To: 0, K: 7},
			eev{Kind: "app", From: 1, To: 0, K: 8}) // 7+8 on one IP from a clean score
		wg.Add(1)
		go func(i int, s escn) {
			defer wg.Done()
			results[i] = runScenarioRobust(s)
		}(i, s)
	}
	wg.Wait()
	for i, sc := range scripts {
		res := results[i]
		switch {
		case res.violation != "":
			t.Errorf("C18 violated (two peers on one IP, %s; 3 attempts): %s\nhistory:\n%s", sc.name, res.violation, res.render())
		case res.infra != "":
			evid.R.Inconclusive("shared-IP regression scenario %q dropped: %s", sc.name, res.infra)
		default:
			if !res.labels[sc.label] {
				evid.R.Note("shared-IP regression script %q: the second peer was not penalised while connected and banned (label %s missing; slow run?)", sc.name, sc.label)
			}
			register("e2e-shared-ip-regress", res)
		}
	}
}
