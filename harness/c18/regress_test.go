package c18

import (
	"context"
	"testing"
	"time"

	"github.com/LiskHQ/lisk-engine/pkg/p2p"

	"verifharness/evid"
)

// TestRegressEnvelopeBanDisconnects: minimal reproduction of C18-F1. A peer that sends an undecodable request envelope
// (or names an unknown procedure) is banned by MessageProtocol.onRequest through Peer.banPeer(conn.RemoteMultiaddr());
// that address carries no /p2p/<id> part, so banPeer fails after raising the score and never closes the connection:
// the banned peer stays connected and can keep sending. The statement demands "the peer is disconnected".
func TestRegressEnvelopeBanDisconnects(t *testing.T) {
	for _, c := range []struct {
		name    string
		request bool
		data    []byte
	}{
		{"undecodable request", true, []byte{0x0a, 0x05, 0x01}},
		{"unknown procedure in a request", true, encodeEnvelope("id", "noSuchProcedure", []byte("x"), "", false)},
		{"undecodable response", false, []byte{0x0a, 0x05, 0x01}},
		{"unknown procedure in a response", false, encodeEnvelope("id", "noSuchProcedure", []byte("x"), "", true)},
	} {
		s := escn{N: 2, IPs: []int{2, 3}, Security: p2p.ConnectionSecurityNone, ExpiryS: 2, SweepMs: 100, Limit: 5, Penalty: 10, BlackOf: -1}
		r := &erun{s: s, start: time.Now(), res: &seqResult{labels: map[string]bool{}}}
		if err := r.setup(); err != nil {
			r.teardown()
			t.Skipf("environment: %v", err)
		}
		victim, offender := r.nodes[0], r.nodes[1]
		ctx, cancel := context.WithTimeout(context.Background(), 10*time.Second)
		if err := offender.conn.Connect(ctx, *victim.info); err != nil {
			cancel()
			r.teardown()
			t.Fatalf("%s: connect: %v", c.name, err)
		}
		waitFor(5*time.Second, func() bool { return r.connected(0, 1) && r.connected(1, 0) })
		if err := offender.conn.VerifRawSend(ctx, victim.conn.ID(), c.request, c.data); err != nil {
			cancel()
			r.teardown()
			t.Fatalf("%s: raw send: %v", c.name, err)
		}
		cancel()
		banned := waitFor(5*time.Second, func() bool { sc, _, _ := victim.conn.VerifPeerScore(offender.ip); return sc >= threshold })
		gone := waitFor(2*time.Second, func() bool { return !r.connected(0, 1) })
		r.teardown()
		evid.R.Case("regress-F1 "+c.name, true, nil, "regress-F1")
		if !banned {
			t.Fatalf("%s: offender's IP was not banned", c.name)
		}
		if !gone {
			if evid.R.KnownFinding(sigF1) {
				t.Logf("%s: banned but still connected (known finding C18-F1)", c.name)
				continue
			}
			t.Fatalf("C18 violated: %s: the offender's IP is banned (score >= %d) but the peer is still connected 2 s later [signature %s]", c.name, threshold, sigF1)
		}
	}
}
