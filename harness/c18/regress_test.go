package c18

import (
	"context"
	"os"
	"sync"
	"testing"
	"time"

	"github.com/LiskHQ/lisk-engine/pkg/p2p"

	"verifharness/evid"
)

// TestRegressEnvelopeBanDisconnects: minimal reproduction of C18-F1. A peer that sends an undecodable request envelope
// (or names an unknown procedure) is banned by MessageProtocol.onRequest through Peer.banPeer(conn.RemoteMultiaddr());
// that address carries no /p2p/<id> part, so banPeer fails after raising the score and never closes the connection:
// the banned peer stays connected and can keep sending. The statement demands "the peer is disconnected".
func TestRegressEnvelopeBanDisconnects(t *testing.T) {
	for _, c := range []struct {
		name    string
		request bool
		data    []byte
	}{
		{"undecodable request", true, []byte{0x0a, 0x05, 0x01}},
		{"unknown procedure in a request", true, encodeEnvelope("id", "noSuchProcedure", []byte("x"), "", false)},
		{"undecodable response", false, []byte{0x0a, 0x05, 0x01}},
		{"unknown procedure in a response", false, encodeEnvelope("id", "noSuchProcedure", []byte("x"), "", true)},
	} {
		s := escn{N: 2, IPs: []int{2, 3}, Security: p2p.ConnectionSecurityNone, ExpiryS: 2, SweepMs: 100, Limit: 5, Penalty: 10, BlackOf: -1, DialOnly: -1}
		r := &erun{s: s, start: time.Now(), res: &seqResult{labels: map[string]bool{}}}
		if err := r.setup(); err != nil {
			r.teardown()
			t.Skipf("environment: %v", err)
		}
		victim, offender := r.nodes[0], r.nodes[1]
		ctx, cancel := context.WithTimeout(context.Background(), 10*time.Second)
		if err := offender.conn.Connect(ctx, *victim.info); err != nil {
			cancel()
			r.teardown()
			t.Fatalf("%s: connect: %v", c.name, err)
		}
		waitFor(5*time.Second, func() bool { return r.connected(0, 1) && r.connected(1, 0) })
		if err := offender.conn.VerifRawSend(ctx, victim.conn.ID(), c.request, c.data); err != nil {
			cancel()
			r.teardown()
			t.Fatalf("%s: raw send: %v", c.name, err)
		}
		cancel()
		banned := waitFor(5*time.Second, func() bool { sc, _, _ := victim.conn.VerifPeerScore(offender.ip); return sc >= threshold })
		gone := waitFor(2*time.Second, func() bool { return !r.connected(0, 1) })
		r.teardown()
		evid.R.Case("regress-F1 "+c.name, true, nil, "regress-F1")
		if !banned {
			t.Fatalf("%s: offender's IP was not banned", c.name)
		}
		if !gone {
			if evid.R.KnownFinding(sigF1) {
				t.Logf("%s: banned but still connected (known finding C18-F1)", c.name)
				continue
			}
			t.Fatalf("C18 violated: %s: the offender's IP is banned (score >= %d) but the peer is still connected 2 s later [signature %s]", c.name, threshold, sigF1)
		}
	}
}

// TestRegressDialOnlyPeerBan: fixed scenarios with a peer that has no listen address (Config.Addresses empty): it
// connects inbound from an IP it never announces (127.0.0.1, the other node listens on 127.0.0.2). Every way of reaching
// the threshold - handler-issued BanPeer, ApplyPenalty in two steps, an undecodable envelope, an unknown procedure, on
// the request and the response protocol - must be accounted to the IP the connection really comes from: the peer is
// disconnected, its re-dial and an outbound attempt towards that IP are refused until the ban is seen over, then it is
// accepted again and a small penalty starts from a clean score. (A BanPeer that walks over the peer's *announced*
// addresses instead of its live connections bans nothing here.)
func TestRegressDialOnlyPeerBan(t *testing.T) {
	type script struct {
		name  string
		cause string
		offs  []eev
	}
	scripts := []script{
		{"BanPeer from a handler", "app-ban", []eev{{Kind: "app", From: 1, To: 0, K: 0}}},
		{"ApplyPenalty 60+40 from a handler", "app-penalty", []eev{{Kind: "app", From: 1, To: 0, K: 60}, {Kind: "app", From: 1, To: 0, K: 40}}},
		{"undecodable request envelope", "badreq", []eev{{Kind: "badreq", From: 1, To: 0, Bytes: []byte{0x0a, 0x05, 0x01}}}},
		{"unknown procedure in a request", "unkreq", []eev{{Kind: "unkreq", From: 1, To: 0}}},
		{"undecodable response envelope", "badres", []eev{{Kind: "badres", From: 1, To: 0, Bytes: []byte{0x0a, 0x05, 0x01}}}},
		{"unknown procedure in a response", "unkres", []eev{{Kind: "unkres", From: 1, To: 0}}},
	}
	results := make([]*seqResult, len(scripts))
	var wg sync.WaitGroup
	for i, sc := range scripts {
		s := escn{On: true, N: 2, IPs: []int{2, 3}, Security: []string{p2p.ConnectionSecurityNone, p2p.ConnectionSecurityTLS, p2p.ConnectionSecurityNoise}[i%3],
			ExpiryS: 2, SweepMs: 100, Limit: 5, Penalty: 10, BlackOf: -1, DialOnly: 1}
		s.Events = append(s.Events, eev{Kind: "req", From: 1, To: 0})
		s.Events = append(s.Events, sc.offs...)
		s.Events = append(s.Events,
			eev{Kind: "dial", From: 1, To: 0}, // the banned peer dials again
			eev{Kind: "dial", From: 0, To: 1}, // outbound attempt towards the banned IP
			eev{Kind: "await", From: 1, To: 0},
			eev{Kind: "dial", From: 1, To: 0},
			eev{Kind: "dial", From: 0, To: 1},
			eev{Kind: "app", From: 1, To: 0, K: 7})
		wg.Add(1)
		go func(i int, s escn) {
			defer wg.Done()
			results[i] = runScenarioRobust(s)
		}(i, s)
	}
	wg.Wait()
	for i, sc := range scripts {
		res := results[i]
		switch {
		case res.violation != "":
			t.Errorf("C18 violated (dial-only peer, %s; 3 attempts): %s\nhistory:\n%s", sc.name, res.violation, res.render())
		case res.infra != "":
			evid.R.Inconclusive("dial-only regression scenario %q dropped: %s", sc.name, res.infra)
		default:
			if !res.labels["dial-only-peer-banned-by:"+sc.cause] {
				t.Errorf("harness: script %q passed without banning the dial-only peer\n%s", sc.name, res.render())
			}
			if !res.nontrivial {
				evid.R.Note("dial-only regression script %q: no refusal observed while the ban was certain (slow run)", sc.name)
			}
			register("e2e-dial-only-regress", res)
		}
	}
}

// TestRegressSharedIPPeers: fixed scenarios with TWO peers on one IP address (nodes behind one NAT gateway / on one
// host: same loopback address, different ports). The gater keeps one score per IP, Disconnect closes the connections of
// one peer ID. Node 0 (own IP) hands out the penalties, nodes 1 and 2 share an address: one of them takes the IP's total
// to the threshold (it is disconnected; the other one keeps its connection - engine behaviour, not asserted), then the
// still connected one offends: through ApplyPenalty with a small amount, by exceeding the rate limit, or through a ban
// path. Its IP's total is at/above the threshold, so "the peer is disconnected" applies to it at that penalty. Then both
// peers and node 0 try to connect in every direction (refused while the ban is certain), the ban is awaited, both come
// back and small penalties of both accumulate from a clean score. Variants: total reached by penalties of both peers;
// a peer without listen address sharing 127.0.0.1 with a listening peer; three nodes on ::1.
func TestRegressSharedIPPeers(t *testing.T) {
	type script struct {
		name  string
		label string // label that shows that the decisive step was taken
		s     escn
		offs  []eev
	}
	base := func(sec string) escn {
		return escn{On: true, N: 3, IPs: []int{2, 5, 5}, Group: []int{1, 2}, Shared: true, Security: sec, ExpiryS: 3, SweepMs: 100, Limit: 4, Penalty: 25, BlackOf: -1, DialOnly: -1}
	}
	dialOnly := base(p2p.ConnectionSecurityNone)
	dialOnly.IPs, dialOnly.DialOnly = []int{2, 1, 1}, 2
	v6 := base(p2p.ConnectionSecurityNoise)
	v6.V6, v6.Group = true, []int{0, 1, 2}
	victimShares := base(p2p.ConnectionSecurityTLS)
	victimShares.IPs, victimShares.Group = []int{5, 5, 5}, []int{0, 1, 2}
	second := "shared-ip:second-peer-penalised-after-ban-by-first:"
	scripts := []script{
		{"ApplyPenalty 40+60 on peer 1, then ApplyPenalty 10 on peer 2", second + "app-penalty", base(p2p.ConnectionSecurityNone),
			[]eev{{Kind: "app", From: 1, To: 0, K: 40}, {Kind: "app", From: 1, To: 0, K: 60}, {Kind: "app", From: 2, To: 0, K: 10}}},
		{"BanPeer(peer 1), then peer 2 exceeds the rate limit", second + "rate-limit(echo)", base(p2p.ConnectionSecurityTLS),
			[]eev{{Kind: "app", From: 1, To: 0, K: 0}, {Kind: "burst", From: 2, To: 0, Burst: "over1"}}},
		{"total reached by both peers (60 on peer 2, 40 on peer 1), then ApplyPenalty 5 on peer 2", second + "app-penalty", base(p2p.ConnectionSecurityNoise),
			[]eev{{Kind: "app", From: 2, To: 0, K: 60}, {Kind: "app", From: 1, To: 0, K: 40}, {Kind: "app", From: 2, To: 0, K: 5}}},
		{"undecodable request of peer 1, then BanPeer(peer 2)", second + "app-ban", base(p2p.ConnectionSecurityNone),
			[]eev{{Kind: "badreq", From: 1, To: 0, Bytes: []byte{0x0a, 0x05, 0x01}}, {Kind: "app", From: 2, To: 0, K: 0}}},
		{"rate limit bans peer 1 (4 x 25), then peer 2 names an unknown procedure", second + "unkreq", base(p2p.ConnectionSecurityTLS),
			[]eev{{Kind: "burst", From: 1, To: 0, Burst: "over", Extra: 40}, {Kind: "unkreq", From: 2, To: 0}}},
		{"listening peer and dial-only peer on 127.0.0.1: BanPeer(listener), then the dial-only peer exceeds the rate limit", second + "rate-limit(echo)", dialOnly,
			[]eev{{Kind: "app", From: 1, To: 0, K: 0}, {Kind: "burst", From: 2, To: 0, Burst: "over1"}}},
		{"three nodes on ::1: ApplyPenalty 100 on peer 1, then ApplyPenalty 1 on peer 2", second + "app-penalty", v6,
			[]eev{{Kind: "app", From: 1, To: 0, K: 100}, {Kind: "app", From: 2, To: 0, K: 1}}},
		{"penalising node on the same IP as both peers: ApplyPenalty 99+1 on peer 1, then peer 2 exceeds the rate limit", second + "rate-limit(echo)", victimShares,
			[]eev{{Kind: "app", From: 1, To: 0, K: 99}, {Kind: "app", From: 1, To: 0, K: 1}, {Kind: "burst", From: 2, To: 0, Burst: "over1"}}},
	}
	results := make([]*seqResult, len(scripts))
	var wg sync.WaitGroup
	for i, sc := range scripts {
		s := sc.s
		s.Events = append(s.Events, eev{Kind: "req", From: 1, To: 0}, eev{Kind: "req", From: 2, To: 0})
		s.Events = append(s.Events, sc.offs...)
		s.Events = append(s.Events,
			eev{Kind: "dial", From: 2, To: 0}, // the second peer tries to come back
			eev{Kind: "dial", From: 1, To: 0}, // the first one too
			eev{Kind: "dial", From: 0, To: 2}, // outbound attempt towards the banned IP
			eev{Kind: "await", From: 1, To: 0},
			eev{Kind: "await", From: 2, To: 0},
			eev{Kind: "dial", From: 1, To: 0},
			eev{Kind: "dial", From: 2, To: 0},
			eev{Kind: "app", From: 2, To: 0, K: 7},
			eev{Kind: "app", From: 1, To: 0, K: 8}) // 7+8 on one IP from a clean score
		wg.Add(1)
		go func(i int, s escn) {
			defer wg.Done()
			results[i] = runScenarioRobust(s)
		}(i, s)
	}
	wg.Wait()
	for i, sc := range scripts {
		res := results[i]
		switch {
		case res.violation != "":
			t.Errorf("C18 violated (two peers on one IP, %s; 3 attempts): %s\nhistory:\n%s", sc.name, res.violation, res.render())
		case res.infra != "":
			evid.R.Inconclusive("shared-IP regression scenario %q dropped: %s", sc.name, res.infra)
		default:
			if !res.labels[sc.label] {
				evid.R.Note("shared-IP regression script %q: the second peer was not penalised while connected and banned (label %s missing; slow run?)", sc.name, sc.label)
			}
			register("e2e-shared-ip-regress", res)
		}
	}
}

// TestRegressMultiConnPeers: fixed scenarios with a peer that holds 2-3 SIMULTANEOUS connections to the penalising node
// (one libp2p host per connection, one key; the first connection opened by the peer or by the node) at the moment of an
// offence of every kind. "Once the total reaches the ban threshold the peer is disconnected": no connection to the peer
// may remain - whichever connection carried the offending message -, every re-dial (from each of the peer's sockets and
// from the node) is refused while the ban is certain, and after the ban the peer is accepted, served and clean.
// (A ban path that closes only the connection the offending stream arrived on leaves the peer connected here.)
func TestRegressMultiConnPeers(t *testing.T) {
	type script struct {
		name  string
		cause string
		c     mcycle
	}
	bad := []byte{0x0a, 0x05, 0x01}
	scripts := []script{
		{"undecodable request over connection 1 of 2 (both inbound)", "badreq", mcycle{NConn: 2, Offence: "badreq", Via: []int{1}, Bytes: bad}},
		{"unknown procedure in a request over connection 0 of 3 (first one outbound)", "unkreq", mcycle{NConn: 3, VFirst: true, Offence: "unkreq", Via: []int{0}}},
		{"undecodable response over connection 2 of 3", "badres", mcycle{NConn: 3, Offence: "badres", Via: []int{2}, Bytes: bad}},
		{"unknown procedure in a response over connection 1 of 2 (first one outbound)", "unkres", mcycle{NConn: 2, VFirst: true, Offence: "unkres", Via: []int{1}}},
		{"rate limit exceeded with requests spread over 3 connections", "rate-limit(echo)", mcycle{NConn: 3, Offence: "rate", Via: []int{0, 1, 2, 0}}},
		{"ApplyPenalty 20, 20, then to the threshold, over 2 connections (first one outbound)", "app-penalty", mcycle{NConn: 2, VFirst: true, Offence: "app-penalty", Via: []int{0, 1, 1, 0}, K: []int{20, 20, 100}}},
		{"BanPeer from a handler, request over connection 1 of 3", "app-ban", mcycle{NConn: 3, Offence: "app-ban", Via: []int{1}}},
		{"IPv6: unknown procedure in a request over connection 1 of 2", "unkreq", mcycle{NConn: 2, Offence: "unkreq", Via: []int{1}}},
	}
	results := make([]*seqResult, len(scripts))
	var wg sync.WaitGroup
	for i, sc := range scripts {
		s := escn{On: true, Multi: true, N: 1, IPs: []int{2 + i%8}, V6: i == len(scripts)-1,
			Security: []string{p2p.ConnectionSecurityNone, p2p.ConnectionSecurityTLS, p2p.ConnectionSecurityNoise}[i%3],
			ExpiryS:  2, SweepMs: 100, Limit: 4, Penalty: 50, PL: []int{4, 3, 5}, PP: []int{50, 34, 100}, BlackOf: -1, DialOnly: -1}
		c := sc.c
		c.Warm, c.WarmP = []int{0, 1, 2, 1}, []int{0, 1, 2, 0}
		c.Redial = []int{1, 0, -1}
		c.After = []int{0, -1, 2}[i%3]
		c.KAfter = 7
		s.MC = []mcycle{c}
		wg.Add(1)
		go func(i int, s escn) {
			defer wg.Done()
			results[i] = runScenarioRobust(s)
		}(i, s)
	}
	wg.Wait()
	for i, sc := range scripts {
		res := results[i]
		switch {
		case res.violation != "":
			t.Errorf("C18 violated (peer with several simultaneous connections, %s; 3 attempts): %s\nhistory:\n%s", sc.name, res.violation, res.render())
		case res.infra != "":
			evid.R.Inconclusive("multi-connection regression scenario %q dropped: %s", sc.name, res.infra)
		default:
			if !res.labels["multi-conn:all-connections-closed-after-ban:"+sc.cause] {
				t.Errorf("harness: script %q passed without banning the peer while it held several connections\n%s", sc.name, res.render())
			}
			if !res.nontrivial {
				evid.R.Note("multi-connection regression script %q: no refusal observed while the ban was certain (slow run)", sc.name)
			}
			register("e2e-multi-conn-regress", res)
			if os.Getenv("VERIF_C18_SHOW") != "" {
				t.Logf("%s (non-trivial=%v):\n%s", sc.name, res.nontrivial, res.render())
			}
		}
	}
}

// TestRegressRateLimitPerProcedure: every RPC procedure has its own message counter per peer. Fixed scripts, short
// rate-limit intervals: (1) legal traffic only: three procedures with limit 5 each are filled exactly to their limits
// (15 messages, 5 per procedure) before the first reset tick, after an observed reset, and in the other direction after
// another reset: no score anywhere, still connected, nobody listed; (2) the mirror: after an observed reset node 1 sends
// limit+1 messages of ONE procedure next to legal amounts of the others: exactly one penalty of that procedure, twice
// (2 x 50 = ban), with the ban consequences and a clean score afterwards.
// (A reset that hands ONE fresh counter map to all procedures makes them count into a shared counter from the first
// tick on: the 6th message of the legal mix is penalised.)
func TestRegressRateLimitPerProcedure(t *testing.T) {
	order := []byte{3, 1, 4, 1, 5, 9, 2, 6, 5, 3, 5, 8, 9, 7, 9, 3, 2, 3, 8, 4, 6, 2, 6, 4}
	mix := func(from, to int) eev { return eev{Kind: "mix", From: from, To: to, Burst: "tolimit", Bytes: order} }
	legal := escn{On: true, Legal: true, N: 2, IPs: []int{6, 7}, Security: p2p.ConnectionSecurityNone, ExpiryS: 2, SweepMs: 100,
		Limit: 5, Penalty: 100, PL: []int{5, 5, 5}, PP: []int{100, 100, 100}, RateMs: 1500, BlackOf: -1, DialOnly: -1}
	legal.Events = []eev{mix(1, 0), {Kind: "resetwait", From: 1, To: 0}, mix(1, 0), {Kind: "resetwait", From: 1, To: 0}, mix(0, 1),
		{Kind: "resetwait", From: 1, To: 0}, {Kind: "burst", From: 1, To: 0, Proc: 2, Burst: "tolimit"}, {Kind: "burst", From: 1, To: 0, Proc: 1, Burst: "tolimit"}}
	legalFast := legal
	legalFast.IPs, legalFast.RateMs, legalFast.Security = []int{8, 9}, 300, p2p.ConnectionSecurityNoise
	legalFast.PL, legalFast.PP = []int{5, 3, 4}, []int{10, 25, 34}
	mirror := escn{On: true, Mirror: true, N: 2, IPs: []int{4, 5}, Security: p2p.ConnectionSecurityTLS, ExpiryS: 2, SweepMs: 100,
		Limit: 5, Penalty: 50, PL: []int{5, 4, 3}, PP: []int{50, 50, 100}, RateMs: 1000, BlackOf: -1, DialOnly: -1}
	mirror.Events = []eev{mix(1, 0), {Kind: "over", From: 1, To: 0, Proc: 0, Burst: "tolimit", Bytes: order}, mix(1, 0),
		{Kind: "over", From: 1, To: 0, Proc: 1, Burst: "within", Extra: 1, Bytes: order},
		{Kind: "dial", From: 1, To: 0}, {Kind: "dial", From: 0, To: 1}, {Kind: "await", From: 1, To: 0}, {Kind: "dial", From: 1, To: 0},
		{Kind: "resetwait", From: 1, To: 0}, mix(1, 0), {Kind: "app", From: 1, To: 0, K: 7}}
	type script struct {
		name   string
		s      escn
		labels []string
	}
	scripts := []script{
		{"legal traffic over three procedures, interval 1.5 s", legal, []string{"legal-mix:sum-exceeds-a-single-limit-before-the-first-tick", "legal-mix:sum-exceeds-a-single-limit-after-an-observed-reset"}},
		{"legal traffic over three procedures, interval 300 ms", legalFast, []string{"legal-mix:sum-exceeds-a-single-limit-after-an-observed-reset"}},
		{"one procedure over its limit after resets", mirror, []string{"one-procedure-over-its-limit-penalised-after-the-first-tick", "banned-by:rate-limit(echo2)"}},
	}
	results := make([]*seqResult, len(scripts))
	var wg sync.WaitGroup
	for i, sc := range scripts {
		wg.Add(1)
		go func(i int, s escn) {
			defer wg.Done()
			results[i] = runScenarioRobust(s)
		}(i, sc.s)
	}
	wg.Wait()
	for i, sc := range scripts {
		res := results[i]
		switch {
		case res.violation != "":
			t.Errorf("C18 violated (rate limit per procedure, %s; 3 attempts): %s\nhistory:\n%s", sc.name, res.violation, res.render())
		case res.infra != "":
			evid.R.Inconclusive("rate-limit regression scenario %q dropped: %s", sc.name, res.infra)
		default:
			for _, l := range sc.labels {
				if !res.labels[l] {
					evid.R.Note("rate-limit regression script %q: label %s missing (slow run)", sc.name, l)
				}
			}
			register("e2e-rate-per-procedure-regress", res)
			if os.Getenv("VERIF_C18_SHOW") != "" {
				t.Logf("%s (non-trivial=%v):\n%s", sc.name, res.nontrivial, res.render())
			}
		}
	}
}

// TestRegressConcurrentResetTicks: concurrent traffic around the reset ticks of the rate limiter (conc_test.go), fixed
// scripts. Node V (short rate-limit interval) is used by innocent peers that send 60-100 % of every procedure's limit in
// EVERY counter window while an offender exceeds one procedure's limit right before every tick, so that
// rateLimit.checkLimit holds the lock of that counter (it is kept there across the tick through V's logger, which
// checkLimit calls with the lock held). The reset has to wait for the lock and then clear the counter: no innocent peer
// may ever get a score. (A reset that skips a counter it finds locked adds the messages of two windows: the steady peers
// are penalised in the window after the tick.)
func TestRegressConcurrentResetTicks(t *testing.T) {
	order := []byte{3, 1, 4, 1, 5, 9, 2, 6, 5, 3, 5, 8, 9, 7, 9, 3}
	plan := func(phase string, pct ...int) cplan { return cplan{Pct: pct, Phase: phase, Order: order} }
	rep := func(n int, p ...cplan) []cplan {
		var out []cplan
		for i := 0; i < n; i++ {
			out = append(out, p[i%len(p)])
		}
		return out
	}
	hold := func(proc, off, lead, extra int) ctick { return ctick{Mode: "hold", Proc: proc, Off: off, LeadMs: lead, ExtraMs: extra} }
	free := func(proc, off, leadUs int, twin bool) ctick { return ctick{Mode: "free", Proc: proc, Off: off, LeadUs: leadUs, Twin: twin} }
	a := escn{On: true, Conc: true, N: 6, IPs: []int{2, 3, 4, 5, 6, 7}, Security: p2p.ConnectionSecurityNone, ExpiryS: 2, SweepMs: 100,
		Limit: 6, Penalty: 50, PL: []int{6, 5, 8}, PP: []int{50, 50, 34}, RateMs: 500, BlackOf: -1, DialOnly: -1}
	a.CC = cconf{NInn: 2, NOff: 2,
		Ticks: []ctick{hold(0, 0, 30, 50), hold(0, 1, 20, 40), hold(1, 0, 40, 60), hold(2, 1, 10, 30), hold(0, 0, 25, 50)},
		Plans: [][]cplan{rep(6, plan("early", 75, 100, 75), plan("spread", 100, 80, 60)), rep(6, plan("early", 100, 60, 100), plan("late", 60, 100, 75), plan("straddle", 75, 75, 75))}}
	b := escn{On: true, Conc: true, N: 8, IPs: []int{9, 8, 7, 6, 5, 4, 3, 2}, Security: p2p.ConnectionSecurityNoise, ExpiryS: 1, SweepMs: 50,
		Limit: 4, Penalty: 100, PL: []int{4, 10, 7}, PP: []int{100, 100, 25}, RateMs: 300, BlackOf: -1, DialOnly: -1}
	b.CC = cconf{NInn: 3, NOff: 3,
		Ticks: []ctick{hold(1, 0, 15, 30), hold(0, 1, 35, 45), free(2, 2, 800, false), hold(2, 2, 20, 40), hold(2, 2, 45, 25), hold(2, 2, 8, 70)},
		Plans: [][]cplan{rep(7, plan("early", 100, 70, 75)), rep(7, plan("spread", 75, 100, 90), plan("early", 75, 60, 60)), rep(7, plan("straddle", 50, 50, 50), plan("late", 100, 90, 60))}}
	f := escn{On: true, Conc: true, N: 7, IPs: []int{4, 9, 2, 7, 3, 8, 5}, Security: p2p.ConnectionSecurityTLS, ExpiryS: 2, SweepMs: 200,
		Limit: 5, Penalty: 100, PL: []int{5, 5, 5}, PP: []int{100, 100, 100}, RateMs: 400, BlackOf: -1, DialOnly: -1}
	f.CC = cconf{NInn: 2, NOff: 3,
		Ticks: []ctick{free(0, 0, 600, true), free(1, 2, 1200, false), free(2, 1, 300, false), {Mode: "none"}, {Mode: "none"}},
		Plans: [][]cplan{rep(6, plan("early", 80, 80, 80), plan("spread", 100, 100, 100)), rep(6, plan("late", 100, 60, 80), plan("straddle", 60, 60, 60))}}
	type script struct {
		name string
		s    escn
	}
	scripts := []script{
		{"5 ticks, checkLimit held across each, interval 500 ms", a},
		{"6 ticks, bans (penalty 100) right before the ticks, interval 300 ms", b},
		{"offenders banned at the estimated tick without any hold, interval 400 ms", f},
	}
	results := make([]*seqResult, len(scripts))
	var wg sync.WaitGroup
	for i, sc := range scripts {
		wg.Add(1)
		go func(i int, s escn) {
			defer wg.Done()
			results[i] = runScenarioRobust(s)
		}(i, sc.s)
	}
	wg.Wait()
	for i, sc := range scripts {
		res := results[i]
		switch {
		case res.violation != "":
			t.Errorf("C18 violated (concurrent traffic around reset ticks, %s; 3 attempts): %s\nhistory:\n%s", sc.name, res.violation, res.render())
		case res.infra != "":
			evid.R.Inconclusive("concurrent-reset regression scenario %q dropped: %s", sc.name, res.infra)
		default:
			if i < 2 && res.counts["conc:tick-while-counter-lock-held:deliberate-hold,confirmed"]+res.counts["conc:tick-while-counter-lock-held:deliberate-hold,probable"] == 0 {
				evid.R.Note("concurrent-reset regression script %q: no reset tick fell into a held checkLimit (slow run, or the log line of checkLimit changed)", sc.name)
			}
			register("e2e-concurrent-reset-regress", res)
			registerCounts(res)
			if os.Getenv("VERIF_C18_SHOW") != "" {
				t.Logf("%s (non-trivial=%v):\n%s", sc.name, res.nontrivial, res.render())
			}
		}
	}
}
