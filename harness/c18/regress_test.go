package c18

import (
	"context"
	"sync"
	"testing"
	"time"

	"github.com/LiskHQ/lisk-engine/pkg/p2p"

	"verifharness/evid"
)

// TestRegressEnvelopeBanDisconnects: minimal reproduction of C18-F1. A peer that sends an undecodable request envelope
// (or names an unknown procedure) is banned by MessageProtocol.onRequest through Peer.banPeer(conn.RemoteMultiaddr());
// that address carries no /p2p/<id> part, so banPeer fails after raising the score and never closes the connection:
// the banned peer stays connected and can keep sending. The statement demands "the peer is disconnected".
func TestRegressEnvelopeBanDisconnects(t *testing.T) {
	for _, c := range []struct {
		name    string
		request bool
		data    []byte
	}{
		{"undecodable request", true, []byte{0x0a, 0x05, 0x01}},
		{"unknown procedure in a request", true, encodeEnvelope("id", "noSuchProcedure", []byte("x"), "", false)},
		{"undecodable response", false, []byte{0x0a, 0x05, 0x01}},
		{"unknown procedure in a response", false, encodeEnvelope("id", "noSuchProcedure", []byte("x"), "", true)},
	} {
		s := escn{N: 2, IPs: []int{2, 3}, Security: p2p.ConnectionSecurityNone, ExpiryS: 2, SweepMs: 100, Limit: 5, Penalty: 10, BlackOf: -1, DialOnly: -1}
		r := &erun{s: s, start: time.Now(), res: &seqResult{labels: map[string]bool{}}}
		if err := r.setup(); err != nil {
			r.teardown()
			t.Skipf("environment: %v", err)
		}
		victim, offender := r.nodes[0], r.nodes[1]
		ctx, cancel := context.WithTimeout(context.Background(), 10*time.Second)
		if err := offender.conn.Connect(ctx, *victim.info); err != nil {
			cancel()
			r.teardown()
			t.Fatalf("%s: connect: %v", c.name, err)
		}
		waitFor(5*time.Second, func() bool { return r.connected(0, 1) && r.connected(1, 0) })
		if err := offender.conn.VerifRawSend(ctx, victim.conn.ID(), c.request, c.data); err != nil {
			cancel()
			r.teardown()
			t.Fatalf("%s: raw send: %v", c.name, err)
		}
		cancel()
		banned := waitFor(5*time.Second, func() bool { sc, _, _ := victim.conn.VerifPeerScore(offender.ip); return sc >= threshold })
		gone := waitFor(2*time.Second, func() bool { return !r.connected(0, 1) })
		r.teardown()
		evid.R.Case("regress-F1 "+c.name, true, nil, "regress-F1")
		if !banned {
			t.Fatalf("%s: offender's IP was not banned", c.name)
		}
		if !gone {
			if evid.R.KnownFinding(sigF1) {
				t.Logf("%s: banned but still connected (known finding C18-F1)", c.name)
				continue
			}
			t.Fatalf("C18 violated: %s: the offender's IP is banned (score >= %d) but the peer is still connected 2 s later [signature %s]", c.name, threshold, sigF1)
		}
	}
}

// TestRegressDialOnlyPeerBan: fixed scenarios with a peer that has no listen address (Config.Addresses empty): it
// connects inbound from an IP it never announces (127.0.0.1, the other node listens on 127.0.0.2). Every way of reaching
// the threshold - handler-issued BanPeer, ApplyPenalty in two steps, an undecodable envelope, an unknown procedure, on
// the request and the response protocol - must be accounted to the IP the connection really comes from: the peer is
// disconnected, its re-dial and an outbound attempt towards that IP are refused until the ban is seen over, then it is
// accepted again and a small penalty starts from a clean score. (A BanPeer that walks over the peer's *announced*
// addresses instead of its live connections bans nothing here.)
func TestRegressDialOnlyPeerBan(t *testing.T) {
	type script struct {
		name  string
		cause string
		offs  []eev
	}
	scripts := []script{
		{"BanPeer from a handler", "app-ban", []eev{{Kind: "app", From: 1, To: 0, K: 0}}},
		{"ApplyPenalty 60+40 from a handler", "app-penalty", []eev{{Kind: "app", From: 1, To: 0, K: 60}, {Kind: "app", From: 1, To: 0, K: 40}}},
		{"undecodable request envelope", "badreq", []eev{{Kind: "badreq", From: 1, To: 0, Bytes: []byte{0x0a, 0x05, 0x01}}}},
		{"unknown procedure in a request", "unkreq", []eev{{Kind: "unkreq", From: 1, To: 0}}},
		{"undecodable response envelope", "badres", []eev{{Kind: "badres", From: 1, To: 0, Bytes: []byte{0x0a, 0x05, 0x01}}}},
		{"unknown procedure in a response", "unkres", []eev{{Kind: "unkres", From: 1, To: 0}}},
	}
	results := make([]*seqResult, len(scripts))
	var wg sync.WaitGroup
	for i, sc := range scripts {
		s := escn{On: true, N: 2, IPs: []int{2, 3}, Security: []string{p2p.ConnectionSecurityNone, p2p.ConnectionSecurityTLS, p2p.ConnectionSecurityNoise}[i%3],
			ExpiryS: 2, SweepMs: 100, Limit: 5, Penalty: 10, BlackOf: -1, DialOnly: 1}
		s.Events = append(s.Events, eev{Kind: "req", From: 1, To: 0})
		s.Events = append(s.Events, sc.offs...)
		s.Events = append(s.Events,
			eev{Kind: "dial", From: 1, To: 0}, // the banned peer dials again
			eev{Kind: "dial", From: 0, To: 1}, // outbound attempt towards the banned IP
			eev{Kind: "await", From: 1, To: 0},
			eev{Kind: "dial", From: 1, To: 0},
			eev{Kind: "dial", From: 0, To: 1},
			eev{Kind: "app", From: 1, To: 0, K: 7})
		wg.Add(1)
		go func(i int, s escn) {
			defer wg.Done()
			results[i] = runScenarioRobust(s)
		}(i, s)
	}
	wg.Wait()
	for i, sc := range scripts {
		res := results[i]
		switch {
		case res.violation != "":
			t.Errorf("C18 violated (dial-only peer, %s; 3 attempts): %s\nhistory:\n%s", sc.name, res.violation, res.render())
		case res.infra != "":
			evid.R.Inconclusive("dial-only regression scenario %q dropped: %s", sc.name, res.infra)
		default:
			if !res.labels["dial-only-peer-banned-by:"+sc.cause] {
				t.Errorf("harness: script %q passed without banning the dial-only peer\n%s", sc.name, res.render())
			}
			if !res.nontrivial {
				evid.R.Note("dial-only regression script %q: no refusal observed while the ban was certain (slow run)", sc.name)
			}
			register("e2e-dial-only-regress", res)
		}
	}
}
