package c18

// End-to-end scenarios with a peer that holds SEVERAL SIMULTANEOUS CONNECTIONS to the penalising node.
//
// libp2p keeps parallel connections to one peer ID (simultaneous dials from both sides, a reconnect that overlaps the
// old connection, a second process with the same key, connections opened on purpose). "Once the total reaches the ban
// threshold the peer is disconnected" speaks of the peer, not of the connection an offending message happened to arrive
// on: after the ban NO connection to that peer may remain, and every new attempt is refused for the ban's duration.
//
// The peer is built from plain libp2p hosts that share ONE private key (= one peer ID), one host per connection: every
// connection is a complete, working libp2p connection (identify, streams in both directions), the penalising node (a
// started p2p.Connection) sees 2-3 connections to one peer: inbound ones (the peer dialled) and, when the node dialled
// first, an outbound one. All hosts of the peer live on 127.0.0.1 (::1 in the IPv6 variant), the node on 127.0.0.2-9.

import (
	"context"
	"crypto/ed25519"
	"crypto/sha256"
	"fmt"
	"io"
	"strings"
	"sync"
	"time"

	"github.com/libp2p/go-libp2p"
	lcrypto "github.com/libp2p/go-libp2p/core/crypto"
	"github.com/libp2p/go-libp2p/core/host"
	"github.com/libp2p/go-libp2p/core/network"
	"github.com/libp2p/go-libp2p/core/peer"
	"github.com/libp2p/go-libp2p/core/protocol"
	"github.com/libp2p/go-libp2p/p2p/net/swarm"
	"github.com/libp2p/go-libp2p/p2p/security/noise"
	libp2ptls "github.com/libp2p/go-libp2p/p2p/security/tls"
	"github.com/libp2p/go-libp2p/p2p/transport/tcp"
	"pgregory.net/rapid"

	"github.com/LiskHQ/lisk-engine/pkg/p2p"

	"verifharness/evid"
)

// mcycle: one life cycle of the multi-connection peer: connect 2-3 times, behave, offend, try to come back, wait, come back.
type mcycle struct {
	NConn   int    // simultaneous connections at the moment of the offence
	VFirst  bool   // the first connection is opened by the penalising node (outbound for it), the others by the peer (inbound)
	Warm    []int  // well-formed echo requests before the offence: connection used by each (index mod NConn)
	WarmP   []int  // ... and their procedure
	Offence string // badreq | badres | unkreq | unkres | rate | app-penalty | app-ban
	Via     []int  // connection used by the i-th offending message (index mod NConn)
	Proc    int    // rate: the procedure whose limit is exceeded
	K       []int  // app-penalty: amounts of the successive ApplyPenalty calls (continued with 100 until banned)
	Bytes   []byte // badreq/badres
	Redial  []int  // during the ban: >= 0: that host of the peer dials the node, -1: the node dials the peer
	After   int    // who opens the connection after the ban (>= 0 host, -1 node)
	KAfter  int
}

func genMulti(t *rapid.T, s *escn) {
	s.Multi = true
	s.N = 1
	s.IPs = []int{rapid.IntRange(2, 9).Draw(t, "nodeOctet")}
	s.V6 = rapid.IntRange(0, 5).Draw(t, "v6") == 0
	s.Security = rapid.SampledFrom([]string{p2p.ConnectionSecurityNone, p2p.ConnectionSecurityTLS, p2p.ConnectionSecurityNoise}).Draw(t, "security")
	s.ExpiryS = rapid.SampledFrom([]int{1, 2, 2}).Draw(t, "expiryS")
	s.SweepMs = rapid.SampledFrom([]int{50, 100, 200}).Draw(t, "sweepMs")
	s.BlackOf, s.DialOnly = -1, -1
	for i := 0; i < len(echoProcs); i++ {
		s.PL = append(s.PL, rapid.IntRange(2, 6).Draw(t, "limitN"))
		s.PP = append(s.PP, rapid.SampledFrom([]int{25, 34, 50, 99, 100, 120}).Draw(t, "penaltyN"))
	}
	s.Limit, s.Penalty = s.PL[0], s.PP[0]
	for c := rapid.IntRange(1, 2).Draw(t, "cycles"); c > 0; c-- {
		var m mcycle
		m.NConn = rapid.SampledFrom([]int{2, 2, 3}).Draw(t, "nConn")
		m.VFirst = rapid.IntRange(0, 2).Draw(t, "nodeDialsFirst") == 0
		for i := rapid.IntRange(0, 4).Draw(t, "nWarm"); i > 0; i-- {
			m.Warm = append(m.Warm, rapid.IntRange(0, 2).Draw(t, "warmVia"))
			m.WarmP = append(m.WarmP, rapid.IntRange(0, len(echoProcs)-1).Draw(t, "warmProc"))
		}
		m.Offence = rapid.SampledFrom([]string{"badreq", "badres", "unkreq", "unkres", "rate", "rate", "app-penalty", "app-penalty", "app-ban"}).Draw(t, "offence")
		m.Via = rapid.SliceOfN(rapid.IntRange(0, 2), 4, 4).Draw(t, "via")
		m.Proc = rapid.IntRange(0, len(echoProcs)-1).Draw(t, "proc")
		switch rapid.IntRange(0, 2).Draw(t, "kShape") {
		case 0:
			m.K = []int{rapid.SampledFrom([]int{100, 120}).Draw(t, "kFull")}
		case 1:
			k1 := rapid.IntRange(1, 49).Draw(t, "k1") // below the threshold even when applied once per connection (3 x 33 ...)
			m.K = []int{k1, rapid.SampledFrom([]int{100, 100 - k1, 120}).Draw(t, "k2")}
		default:
			m.K = []int{rapid.IntRange(1, 30).Draw(t, "k1"), rapid.IntRange(1, 30).Draw(t, "k2"), 100}
		}
		m.Bytes = genMalformed(t)
		for i := rapid.IntRange(1, 3).Draw(t, "nRedials"); i > 0; i-- {
			m.Redial = append(m.Redial, rapid.IntRange(-1, 2).Draw(t, "redialBy"))
		}
		m.After = rapid.IntRange(-1, 2).Draw(t, "afterBy")
		m.KAfter = rapid.IntRange(1, 30).Draw(t, "kAfter")
		s.MC = append(s.MC, m)
	}
}

// mpeer: one peer identity, several libp2p hosts (one per connection).
type mpeer struct {
	ip    string
	id    peer.ID
	hosts []host.Host
	reqID protocol.ID
	resID protocol.ID
	mu    sync.Mutex
	wait  map[string]chan struct{} // request ID -> response arrived
	seq   int
}

const mpeerHosts = 3

func newMPeer(seed string, v6 bool, security string) (*mpeer, error) {
	h := sha256.Sum256([]byte(seed))
	std := ed25519.NewKeyFromSeed(h[:])
	priv, _, err := lcrypto.KeyPairFromStdKey(&std)
	if err != nil {
		return nil, err
	}
	m := &mpeer{ip: "127.0.0.1", wait: map[string]chan struct{}{}}
	listen := "/ip4/127.0.0.1/tcp/0"
	if v6 {
		m.ip, listen = "::1", "/ip6/::1/tcp/0"
	}
	// same protocol IDs as the nodes of the scenario (chain ID c1800001, version 1.0; see erun.setup)
	m.reqID = protocol.ID("/lisk/message/req/c1800001/1.0")
	m.resID = protocol.ID("/lisk/message/res/c1800001/1.0")
	for i := 0; i < mpeerHosts; i++ {
		opts := []libp2p.Option{libp2p.Identity(priv), libp2p.Transport(tcp.NewTCPTransport), libp2p.DisableRelay()}
		// Only host 0 listens (the node can dial the peer there, and only there: a dial of the node goes to every
		// address it knows for the peer ID and may end in more than one connection); the others connect from sockets
		// that listen nowhere.
		if i == 0 {
			opts = append(opts, libp2p.ListenAddrStrings(listen))
		} else {
			opts = append(opts, libp2p.NoListenAddrs)
		}
		switch strings.ToLower(security) {
		case p2p.ConnectionSecurityTLS:
			opts = append(opts, libp2p.Security(libp2ptls.ID, libp2ptls.New))
		case p2p.ConnectionSecurityNoise:
			opts = append(opts, libp2p.Security(noise.ID, noise.New))
		default:
			opts = append(opts, libp2p.NoSecurity)
		}
		hh, err := libp2p.New(opts...)
		if err != nil {
			m.close()
			return nil, err
		}
		hh.SetStreamHandler(m.resID, m.onResponse)
		// requests of the node to this peer are not part of the scenario; answer nothing
		hh.SetStreamHandler(m.reqID, func(s network.Stream) { _, _ = io.ReadAll(s); s.Close() })
		m.hosts = append(m.hosts, hh)
		m.id = hh.ID()
	}
	return m, nil
}

func (m *mpeer) close() {
	for _, h := range m.hosts {
		_ = h.Close()
	}
}

func (m *mpeer) onResponse(s network.Stream) {
	buf, err := io.ReadAll(s)
	s.Close()
	if err != nil {
		return
	}
	// a response envelope starts with the same three fields as a request envelope (id, procedure, data)
	var env p2p.Request
	if env.Decode(buf) != nil {
		return
	}
	m.mu.Lock()
	ch := m.wait[env.ID]
	delete(m.wait, env.ID)
	m.mu.Unlock()
	if ch != nil {
		close(ch)
	}
}

// send writes raw bytes on a stream of the request or response protocol over the connection of host i.
func (m *mpeer) send(i int, to peer.ID, request bool, data []byte) error {
	ctx, cancel := context.WithTimeout(context.Background(), 10*time.Second)
	defer cancel()
	id := m.resID
	if request {
		id = m.reqID
	}
	s, err := m.hosts[i].NewStream(ctx, to, id)
	if err != nil {
		return err
	}
	if _, err := s.Write(data); err != nil {
		_ = s.Reset()
		return err
	}
	return s.Close()
}

// request sends a well-formed request over the connection of host i; the channel is closed when the response arrives
// (at whichever host the node chose to answer to).
func (m *mpeer) request(i int, to peer.ID, proc string, data []byte) (<-chan struct{}, error) {
	m.mu.Lock()
	m.seq++
	id := fmt.Sprintf("c18-multi-%s-%d", m.id.String()[len(m.id.String())-6:], m.seq)
	ch := make(chan struct{})
	m.wait[id] = ch
	m.mu.Unlock()
	return ch, m.send(i, to, true, encodeEnvelope(id, proc, data, "", false))
}

func answered(ch <-chan struct{}, d time.Duration) bool {
	ok := false
	waitFor(d, func() bool {
		select {
		case <-ch:
			ok = true
		default:
		}
		return ok
	})
	return ok
}

// ---------------------------------------------------------------------------------------------------------------

type mrun struct {
	*erun
	V    *enode
	P    *enode // pseudo node of the peer (ip only): lets the ban-model helpers of erun address "the peer's IP at node 0"
	mp   *mpeer
	info *p2p.AddrInfo // the node
}

func (r *mrun) nconns() int { return len(r.V.conn.VerifRemoteAddrs(r.mp.id)) }

func (r *mrun) gone() bool {
	return r.nconns() == 0 && !has(r.V.conn.ConnectedPeers(), r.mp.id)
}

func (r *mrun) st() *ipState { return r.V.bm.get(r.mp.ip) }

// storedIs compares the node's stored score for the peer's IP with the model while the IP is certainly not banned.
func (r *mrun) storedIs(when string) string {
	t0 := time.Now()
	sc, _, _ := r.V.conn.VerifPeerScore(r.mp.ip)
	if v := r.V.bm.scoreSeen(r.mp.ip, sc, t0, time.Now()); v != "" {
		return fmt.Sprintf("%s at %s: %s", when, r.name(0), v)
	}
	return ""
}

// dropAll closes whatever connections exist between the peer and the node.
func (r *mrun) dropAll() bool {
	for _, h := range r.mp.hosts {
		_ = h.Network().ClosePeer(r.info.ID)
	}
	_ = r.V.conn.Disconnect(r.mp.id)
	return waitFor(5*time.Second, func() bool {
		if !r.gone() {
			return false
		}
		for _, h := range r.mp.hosts {
			if h.Network().Connectedness(r.info.ID) == network.Connected {
				return false
			}
		}
		return true
	})
}

// remoteOK: environment guard - every connection of the peer is seen by the node as coming from / going to the peer's IP.
func (r *mrun) remoteOK() bool {
	for _, ra := range r.V.conn.VerifRemoteAddrs(r.mp.id) {
		if !strings.HasPrefix(ra, "/ip4/"+r.mp.ip+"/") && !strings.HasPrefix(ra, "/ip6/"+r.mp.ip+"/") {
			r.res.infra = fmt.Sprintf("environment: the peer is seen by %s as %v, not as %s", r.name(0), r.V.conn.VerifRemoteAddrs(r.mp.id), r.mp.ip)
			return false
		}
	}
	return true
}

// attempt: one connection attempt. by >= 0: host `by` of the peer dials the node (InterceptAccept/Secured at the node);
// by < 0: the node dials the peer's host 0 (InterceptAddrDial). The outcome is judged by the node's ban model.
func (r *mrun) attempt(by int, why string) string {
	V := r.V
	before := r.nconns()
	zone := r.zone(0, 1)
	var err error
	var t0, t1 time.Time
	g := gAccept
	if by >= 0 {
		h := r.mp.hosts[by%len(r.mp.hosts)]
		if h.Network().Connectedness(r.info.ID) == network.Connected {
			_ = h.Network().ClosePeer(r.info.ID)
			waitFor(3*time.Second, func() bool { return h.Network().Connectedness(r.info.ID) != network.Connected && r.nconns() <= before-1 })
			before = r.nconns()
		}
		if sw, ok := h.Network().(*swarm.Swarm); ok {
			sw.Backoff().Clear(r.info.ID)
		}
		ctx, cancel := context.WithTimeout(context.Background(), 10*time.Second)
		t0 = time.Now()
		err = h.Connect(ctx, *r.info)
		t1 = time.Now()
		cancel()
	} else {
		g = gAddrDial
		if before > 0 {
			// Connection.Connect answers nil when a connection to the peer ID exists: nothing would be attempted
			r.logf("dial %s -> peer (%s): skipped, %d connection(s) exist", r.name(0), why, before)
			return ""
		}
		h0 := r.mp.hosts[0]
		V.conn.VerifClearDialBackoff(r.mp.id)
		ctx, cancel := context.WithTimeout(context.Background(), 10*time.Second)
		t0 = time.Now()
		err = V.conn.Connect(ctx, p2p.AddrInfo{ID: r.mp.id, Addrs: h0.Addrs()})
		t1 = time.Now()
		cancel()
	}
	// a connection results iff the node holds one more connection to the peer (a dialer may see its side "open" for an
	// instant before the node's gater closes it)
	allowed := err == nil && waitFor(2*time.Second, func() bool { return r.nconns() > before })
	who := fmt.Sprintf("peer host %d -> %s", by, r.name(0))
	if by < 0 {
		who = fmt.Sprintf("%s -> peer host 0 %v", r.name(0), r.mp.hosts[0].Addrs())
	}
	r.logf("dial %s (%s): connection=%v [%s's view of %s: %s] %s", who, why, allowed, r.name(0), r.mp.ip, zone, errText(err))
	r.res.labels["multi-dial:"+map[bool]string{true: "peer-dials", false: "node-dials"}[by >= 0]+":"+zone] = true
	if allowed && !r.remoteOK() {
		return ""
	}
	if v, soft := V.bm.gate(r.mp.ip, g, allowed, t0, t1); v != "" {
		if soft && r.banListClears(0, 1) == "" {
			return "" // the sweep was late; the refusal was consistent with the (still listed) ban
		}
		return fmt.Sprintf("connection attempt %s: %s", who, v)
	}
	return ""
}

// connectAll opens c.NConn simultaneous connections between the peer and the node.
func (r *mrun) connectAll(c mcycle) string {
	if r.nconns() > 0 && !r.dropAll() {
		r.res.infra = "could not drop the connections of the multi-connection peer"
		return ""
	}
	if r.zone(0, 1) != "clean" {
		return ""
	}
	for i := 0; i < c.NConn; i++ {
		by := i
		if i == 0 && c.VFirst {
			by = -1
		}
		if v := r.attempt(by, fmt.Sprintf("connection %d of %d", i+1, c.NConn)); v != "" || r.res.infra != "" {
			return v
		}
		if !waitFor(5*time.Second, func() bool { return r.nconns() == i+1 }) {
			r.res.infra = fmt.Sprintf("environment: %d connections to the peer instead of %d: %v", r.nconns(), i+1, r.V.conn.VerifRemoteAddrs(r.mp.id))
			return ""
		}
	}
	r.logf("%s holds %d simultaneous connections to peer %s: %v (first one opened by the %s)", r.name(0), r.nconns(), r.mp.id, r.V.conn.VerifRemoteAddrs(r.mp.id),
		map[bool]string{true: "node: outbound", false: "peer: inbound"}[c.VFirst])
	r.res.labels[fmt.Sprintf("multi-conn:%d-connections", c.NConn)] = true
	if c.VFirst {
		r.res.labels["multi-conn:outbound-and-inbound"] = true
	} else {
		r.res.labels["multi-conn:all-inbound"] = true
	}
	return ""
}

// wellFormed sends one well-formed request over connection `via` and applies the rate-limit model of the node (one
// counter per procedure and peer ID, whatever connection a message arrives on).
func (r *mrun) wellFormed(via int, proc string, data []byte, nBefore int) string {
	V := r.V
	L, P := r.s.lim(0, proc)
	st := r.st()
	V.cnt[proc][1]++
	pen := V.cnt[proc][1] > L
	if pen {
		V.cnt[proc][1] = 0
	}
	prev := st.score
	kind := ""
	k := 0
	if proc == procStrict && len(data) == 1 {
		kind, k = "app-penalty", int(data[0])
		if k == 0 {
			kind, k = "app-ban", threshold
		}
	}
	// no answer can come when the node bans the peer (it closes the connections first); ApplyPenalty may count once per connection
	if kind != "" && r.nconns() != nBefore {
		r.res.infra = fmt.Sprintf("environment: %d connections to the peer instead of %d before a handler-issued penalty", r.nconns(), nBefore)
		return ""
	}
	willBan := (pen && prev+P >= threshold) || (kind != "" && prev+k*nBefore >= threshold)
	t0 := time.Now()
	ch, err := r.mp.request(via%len(r.mp.hosts), r.info.ID, proc, data)
	if err != nil {
		r.res.infra = "multi-connection peer could not send: " + err.Error()
		return ""
	}
	timeout := 10 * time.Second
	if willBan {
		timeout = 300 * time.Millisecond
	}
	got := false
	if !pen && kind == "" {
		// no penalty is due: watch the stored score while waiting (a false ban closes the connections and may be over
		// and swept before the timeout)
		bad := -1
		waitFor(timeout, func() bool {
			select {
			case <-ch:
				got = true
			default:
			}
			if sc, _, ok := V.conn.VerifPeerScore(r.mp.ip); ok && sc != prev {
				bad = sc
			}
			return got || bad >= 0
		})
		if bad >= 0 {
			return fmt.Sprintf("well-formed %s request of the peer over connection %d, within the limits, was penalised: %s stored score %d for %s (model %d) %.3fs after it was sent; answered=%v, connections left %d of %d",
				proc, via, r.name(0), bad, r.mp.ip, prev, time.Since(t0).Seconds(), got, r.nconns(), nBefore)
		}
	} else {
		got = answered(ch, timeout)
	}
	if pen {
		cause := "rate-limit(" + proc + ")"
		r.res.labels["rate-penalty"] = true
		var sc int
		if !waitFor(6*time.Second, func() bool { sc, _, _ = V.conn.VerifPeerScore(r.mp.ip); return sc == prev+P }) {
			return fmt.Sprintf("after %s (message %d of the window over connection %d), %s stores score %d for %s; expected %d+%d", cause, L+1, via, r.name(0), sc, r.mp.ip, prev, P)
		}
		r.logf("%s: score of %s at %s: %d -> %d", cause, r.mp.ip, r.name(0), prev, sc)
		if v := V.bm.penalty(r.mp.ip, P, sc, true, t0, time.Now()); v != "" {
			return v
		}
		if st.banned {
			return r.afterBan(cause, nBefore)
		}
		prev = sc
	}
	if kind != "" {
		// Connection.ApplyPenalty/BanPeer walk over the open connections of the peer: the amount is applied once per
		// connection (recorded in the notes as an observation). Asserted: at least once, at most once per connection.
		var sc int
		stable := func() bool {
			a, _, _ := V.conn.VerifPeerScore(r.mp.ip)
			waitBeats(4)
			b, _, _ := V.conn.VerifPeerScore(r.mp.ip)
			sc = b
			return a == b && b >= prev+k
		}
		if !waitFor(6*time.Second, stable) {
			return fmt.Sprintf("%s(%d) by the handler of %s for the peer with %d connections did not raise the score of %s by at least that amount (stored %d, before %d)", kind, k, r.name(0), nBefore, r.mp.ip, sc, prev)
		}
		if d := sc - prev; kind == "app-penalty" && (d%k != 0 || d/k > nBefore) {
			return fmt.Sprintf("ApplyPenalty(%d) for a peer with %d connections changed the score of %s from %d to %d (not 1..%d times the amount)", k, nBefore, r.mp.ip, prev, sc, nBefore)
		}
		r.logf("%s(%d): score of %s at %s: %d -> %d (%d connections)", kind, k, r.mp.ip, r.name(0), prev, sc, nBefore)
		if v := V.bm.penalty(r.mp.ip, sc-prev, sc, true, t0, time.Now()); v != "" {
			return v
		}
		if st.banned {
			return r.afterBan(kind, nBefore)
		}
		if kind == "app-ban" {
			return fmt.Sprintf("BanPeer at %s left the IP %s unbanned (score %d)", r.name(0), r.mp.ip, st.score)
		}
	}
	if !got && willBan {
		got = answered(ch, 10*time.Second) // not banned after all: the answer is due
	}
	if !got {
		waitBeats(20)
		if v := r.storedIs(fmt.Sprintf("after a request (%s over connection %d, within the limits: no penalty expected) stayed unanswered", proc, via)); v != "" {
			return v
		}
		r.res.infra = "a request of the multi-connection peer that the model expects to be served was not answered"
		return ""
	}
	return r.storedIs("after a served request")
}

// afterBan: the node has just banned the peer's IP: the IP is listed and NO connection to the peer may remain.
func (r *mrun) afterBan(cause string, nBefore int) string {
	if v, _ := r.listedOnce(0, 1); v != "" {
		return v
	}
	r.res.labels["banned-by:"+cause] = true
	patience := 3 * time.Second
	if !waitFor(patience, r.gone) {
		left := r.V.conn.VerifRemoteAddrs(r.mp.id)
		return fmt.Sprintf("%s banned %s (cause %s, score >= %d) but peer %s is still connected over %d of its %d simultaneous connections %v later: %v (listed by ConnectedPeers: %v) [signature multi-conn]",
			r.name(0), r.mp.ip, cause, threshold, r.mp.id, len(left), nBefore, patience, left, has(r.V.conn.ConnectedPeers(), r.mp.id))
	}
	r.logf("%s banned %s (%s): all %d connections to the peer are closed", r.name(0), r.mp.ip, cause, nBefore)
	r.res.labels["disconnected-after-ban"] = true
	r.res.labels["multi-conn:all-connections-closed-after-ban"] = true
	r.res.labels["multi-conn:all-connections-closed-after-ban:"+cause] = true
	r.res.labels[fmt.Sprintf("multi-conn:banned-with-%d-connections", nBefore)] = true
	// let the peer's side notice
	waitFor(3*time.Second, func() bool {
		for _, h := range r.mp.hosts {
			if h.Network().Connectedness(r.info.ID) == network.Connected {
				return false
			}
		}
		return true
	})
	return ""
}

// envelopeOffence: raw bytes on the request / response protocol over connection via.
func (r *mrun) envelopeOffence(c mcycle, nBefore int) string {
	V := r.V
	isReq := c.Offence == "badreq" || c.Offence == "unkreq"
	var data []byte
	if c.Offence == "badreq" || c.Offence == "badres" {
		data = c.Bytes
		var proc string
		var derr error
		if isReq {
			q := &p2p.Request{}
			derr = q.Decode(data)
			proc = q.Procedure
		} else {
			proc, derr = p2p.VerifDecodeResponseEnvelope(data)
		}
		if len(data) == 0 || (derr == nil && (procIndex(proc) >= 0 || proc == procStrict)) {
			data = []byte{0x0a, 0x05, 0x01}
			derr = fmt.Errorf("truncated")
		}
		if derr != nil {
			r.res.labels["envelope-undecodable"] = true
		} else {
			r.res.labels["envelope-decodable-unknown-procedure"] = true
		}
	} else {
		data = encodeEnvelope("6f1c1f0e-1111-4222-8333-444455556666", fmt.Sprintf("noSuchProcedure%d", c.Proc), []byte("x"), "", !isReq)
	}
	via := c.Via[0] % nBefore
	r.logf("%s over connection %d of %d: %d raw bytes %x on the %s protocol", c.Offence, via, nBefore, len(data), data, map[bool]string{true: "request", false: "response"}[isReq])
	st := r.st()
	prev := st.score
	t0 := time.Now()
	if err := r.mp.send(via, r.info.ID, isReq, data); err != nil {
		r.res.infra = "raw send failed: " + err.Error()
		return ""
	}
	var sc int
	if !waitFor(6*time.Second, func() bool { sc, _, _ = V.conn.VerifPeerScore(r.mp.ip); return sc > prev }) {
		return fmt.Sprintf("%s by the peer did not raise its score at %s (score %d, before %d)", c.Offence, r.name(0), sc, prev)
	}
	r.logf("%s: score of %s at %s: %d -> %d", c.Offence, r.mp.ip, r.name(0), prev, sc)
	if v := V.bm.penalty(r.mp.ip, sc-prev, sc, true, t0, time.Now()); v != "" {
		return v
	}
	if !st.banned {
		return fmt.Sprintf("%s left the IP %s unbanned at %s (score %d)", c.Offence, r.mp.ip, r.name(0), sc)
	}
	return r.afterBan(c.Offence, nBefore)
}

func (r *mrun) cycle(c mcycle) string {
	if v := r.connectAll(c); v != "" || r.res.infra != "" {
		return v
	}
	if r.zone(0, 1) != "clean" || r.nconns() != c.NConn {
		return ""
	}
	n := c.NConn
	// well-formed traffic within the limits over all connections: served, no score, all connections stay
	for i, via := range c.Warm {
		proc := echoProcs[c.WarmP[i]%len(echoProcs)]
		if L, _ := r.s.lim(0, proc); r.V.cnt[proc][1] >= L {
			continue
		}
		r.logf("well-formed %s request over connection %d", proc, via%n)
		if v := r.wellFormed(via%n, proc, []byte{byte(i)}, n); v != "" || r.res.infra != "" {
			return v
		}
	}
	if len(c.Warm) > 0 {
		if r.nconns() != n {
			if v := r.storedIs("after well-formed traffic"); v != "" {
				return v
			}
			r.res.infra = fmt.Sprintf("environment: %d of %d connections left after well-formed traffic", r.nconns(), n)
			return ""
		}
		r.res.labels["multi-conn:well-formed-traffic-over-all-connections"] = true
	}
	// the offence
	r.res.labels["multi-offence:"+c.Offence] = true
	switch c.Offence {
	case "badreq", "badres", "unkreq", "unkres":
		if v := r.envelopeOffence(c, n); v != "" || r.res.infra != "" {
			return v
		}
	case "app-ban":
		r.logf("strict request over connection %d of %d: the handler calls BanPeer", c.Via[0]%n, n)
		if v := r.wellFormed(c.Via[0]%n, procStrict, []byte{0}, n); v != "" || r.res.infra != "" {
			return v
		}
	case "app-penalty":
		ks := append(append([]int{}, c.K...), 100, 100)
		for i, k := range ks {
			if r.st().banned || r.nconns() != n {
				break
			}
			via := c.Via[i%len(c.Via)] % n
			r.logf("strict request over connection %d of %d: the handler calls ApplyPenalty(%d)", via, n, k)
			if v := r.wellFormed(via, procStrict, []byte{byte(k)}, n); v != "" || r.res.infra != "" {
				return v
			}
		}
	case "rate":
		proc := echoProcs[c.Proc%len(echoProcs)]
		L, P := r.s.lim(0, proc)
		r.logf("requests of %s above the limit %d (penalty %d), spread over the %d connections, until banned", proc, L, P, n)
		for i := 0; i < 5*(L+1)+2 && !r.st().banned && r.nconns() == n; i++ {
			via := (c.Via[i%len(c.Via)] + i) % n
			if v := r.wellFormed(via, proc, []byte{byte(i)}, n); v != "" || r.res.infra != "" {
				return v
			}
		}
	}
	if !r.st().banned {
		if r.nconns() != n {
			r.res.infra = "environment: connections of the multi-connection peer were lost before the ban"
		}
		return ""
	}
	// during the ban: every attempt, from any of the peer's sockets and from the node, is refused
	for _, by := range c.Redial {
		if v := r.attempt(by, "during the ban"); v != "" || r.res.infra != "" {
			return v
		}
	}
	if v := r.runEvent(eev{Kind: "await", From: 1, To: 0}); v != "" || r.res.infra != "" {
		return v
	}
	// after the ban: accepted again, served, clean score, a small penalty is exact (one connection)
	if r.nconns() == 0 {
		if v := r.attempt(c.After, "after the ban"); v != "" || r.res.infra != "" {
			return v
		}
	}
	if r.zone(0, 1) != "clean" || r.nconns() == 0 {
		return ""
	}
	for r.nconns() > 1 { // a re-dial accepted in the uncertain window may have left more than one
		if !r.dropAll() {
			r.res.infra = "could not drop the connections of the multi-connection peer"
			return ""
		}
		if v := r.attempt(c.After, "after the ban (single connection)"); v != "" || r.res.infra != "" {
			return v
		}
		if r.nconns() == 0 {
			return ""
		}
	}
	via := 0
	for i, h := range r.mp.hosts {
		if h.Network().Connectedness(r.info.ID) == network.Connected {
			via = i
		}
	}
	if r.V.cnt[procEcho][1] < r.s.PL[0] {
		if v := r.wellFormed(via, procEcho, []byte("back"), 1); v != "" || r.res.infra != "" {
			return v
		}
	}
	r.logf("strict request: ApplyPenalty(%d) from a clean score over the only connection", c.KAfter)
	return r.wellFormed(via, procStrict, []byte{byte(c.KAfter)}, 1)
}

var multiSeq int64
var multiMu sync.Mutex

func runMultiScenario(s escn) *seqResult {
	res := &seqResult{labels: map[string]bool{}}
	er := &erun{s: s, start: time.Now(), res: res}
	defer er.teardown()
	if err := er.setup(); err != nil {
		res.infra = "setup: " + err.Error()
		return res
	}
	er.started = time.Now()
	multiMu.Lock()
	multiSeq++
	id := multiSeq
	multiMu.Unlock()
	mp, err := newMPeer(fmt.Sprintf("c18-multi-%d-%d", evid.Seed(), id), s.V6, s.Security)
	if err != nil {
		res.infra = "setup of the multi-connection peer: " + err.Error()
		return res
	}
	defer mp.close()
	V := er.nodes[0]
	// pseudo node 1 = the peer: ip and an (unused) model, no p2p.Connection
	P := &enode{idx: 1, ip: mp.ip, bm: newBanModel(time.Duration(s.ExpiryS)*time.Second, time.Duration(s.SweepMs)*time.Millisecond, nil),
		cnt: map[string]map[int]int{}, cause: map[int]string{}, banBy: map[string]int{}, contrib: map[string]map[int]bool{}}
	er.nodes = append(er.nodes, P)
	er.mp = mp
	r := &mrun{erun: er, V: V, P: P, mp: mp, info: V.info}
	r.logf("scenario multi-connection peer: node %s, peer %s on %s (%d hosts with one key), security=%s expiry=%ds sweep=%dms procedures %v limits %v penalties %v",
		r.name(0), mp.id, mp.ip, len(mp.hosts), s.Security, s.ExpiryS, s.SweepMs, echoProcs, s.PL, s.PP)
	res.labels["e2e-multi-connection-peer"] = true
	if s.V6 {
		res.labels["e2e-ipv6"] = true
	}
	var key strings.Builder
	fmt.Fprintf(&key, "multi|%s|%s|%v|%s|%d|%d|%v|%v|", V.ip, mp.ip, s.V6, s.Security, s.ExpiryS, s.SweepMs, s.PL, s.PP)
	banned := false
	for _, c := range s.MC {
		fmt.Fprintf(&key, "%+v;", c)
		if v := r.cycle(c); v != "" {
			res.violation = v
			return res
		}
		if res.infra != "" {
			return res
		}
		if res.labels["multi-conn:all-connections-closed-after-ban"] {
			banned = true
		}
	}
	if v := r.storedIs("at the end"); v != "" {
		res.violation = v
		return res
	}
	// non-trivial: banned while holding >= 2 connections, all of them closed, refusal observed while the ban was
	// certain, ban seen over
	res.nontrivial = banned && r.st().cycle
	res.key = key.String()
	return res
}
