package c18

import (
	"fmt"
	"os"
	"sort"
	"strings"
	"sync"
	"sync/atomic"
	"testing"
	"time"

	"github.com/LiskHQ/lisk-engine/pkg/p2p"
	"pgregory.net/rapid"

	"verifharness/evid"
)

// ---------------------------------------------------------------------------------------------------------------
// (a) the gater driven directly
// ---------------------------------------------------------------------------------------------------------------

type gop struct {
	Kind    string // pen | query | list | sleep | await
	IP      int
	Form    int
	Port    int
	PID     int
	AmtKind string // fix | exact | below
	Amt     int
	Ms      int
	Rot     int
}

type gseq struct {
	On        bool
	Staggered bool // three IPs banned 0.7-1.3 s apart, each ban's end awaited
	ExpiryS   int
	SweepMs   int
	IPs       []string
	Black     []int // indices into IPs that are blacklisted
	BlackF    int
	Ops       []gop
}

func genSeq(timed bool) *rapid.Generator[gseq] {
	return rapid.Custom(func(t *rapid.T) gseq {
		var s gseq
		s.On = rapid.IntRange(0, 15).Draw(t, "on") > 0 // shrinks towards "off": lets rapid drop whole sequences of a batch
		if timed {
			s.ExpiryS = rapid.SampledFrom([]int{1, 1, 2}).Draw(t, "expiryS")
			s.SweepMs = rapid.SampledFrom([]int{50, 100, 100, 200}).Draw(t, "sweepMs")
		} else {
			s.ExpiryS = 3600
			s.SweepMs = 20
		}
		n := rapid.IntRange(3, 6).Draw(t, "nIPs")
		perm := rapid.Permutation(ipPool).Draw(t, "ips")
		s.IPs = append([]string{}, perm[:n]...)
		// make sure both families occur in most sequences: force one v4 and one v6 with high probability
		if rapid.IntRange(0, 4).Draw(t, "mix") > 0 {
			s.IPs[0] = rapid.SampledFrom(ipPool[:7]).Draw(t, "v4")
			s.IPs[1] = rapid.SampledFrom(ipPool[7:]).Draw(t, "v6")
			s.IPs = dedup(s.IPs)
		}
		nb := rapid.SampledFrom([]int{0, 0, 1, 1, 2}).Draw(t, "nBlack")
		for i := 0; i < nb; i++ {
			s.Black = append(s.Black, rapid.IntRange(0, len(s.IPs)-1).Draw(t, "black"))
		}
		s.BlackF = rapid.IntRange(0, 2).Draw(t, "blackForm")
		var kinds []string
		if timed {
			kinds = []string{"pen", "pen", "pen", "pen", "pen", "query", "query", "query", "list", "sleep", "sleep", "await"}
		} else {
			kinds = []string{"pen", "pen", "pen", "pen", "query", "query", "list"}
		}
		nops := rapid.IntRange(4, 28).Draw(t, "nOps")
		awaits := 0
		focus := rapid.IntRange(0, len(s.IPs)-1).Draw(t, "focus") // most penalties hit one IP so that thresholds are reached
		// Timed sequences are mostly "life cycles" of the focus IP (accumulate, cross, query while banned, wait for the
		// expiry, query, penalise from a clean score) interleaved with noise on the other IPs; the rest is unstructured.
		var script []string
		if timed && rapid.IntRange(0, 3).Draw(t, "structured") > 0 {
			cycles := rapid.IntRange(1, 2).Draw(t, "cycles")
			for c := 0; c < cycles; c++ {
				for i := rapid.IntRange(0, 3).Draw(t, "nAcc"); i > 0; i-- {
					script = append(script, "pen:small")
				}
				script = append(script, rapid.SampledFrom([]string{"pen:exact", "pen:exact", "pen:mid+exact", "pen:below+small", "pen:big", "pen:mid+mid"}).Draw(t, "cross"))
				for i := rapid.IntRange(1, 3).Draw(t, "nDuring"); i > 0; i-- {
					script = append(script, rapid.SampledFrom([]string{"query", "query", "list", "sleep", "pen:small"}).Draw(t, "during"))
				}
				script = append(script, "await")
				for i := rapid.IntRange(1, 2).Draw(t, "nAfter"); i > 0; i-- {
					script = append(script, rapid.SampledFrom([]string{"query", "list", "query"}).Draw(t, "after"))
				}
				script = append(script, "pen:small")
			}
			var flat []string
			for _, x := range script {
				if strings.HasPrefix(x, "pen:") && strings.Contains(x, "+") {
					parts := strings.Split(strings.TrimPrefix(x, "pen:"), "+")
					for _, p := range parts {
						flat = append(flat, "pen:"+p)
					}
				} else {
					flat = append(flat, x)
				}
			}
			script = flat
			nops = len(script)
		}
		// Staggered bans (added after seeded change C18-w: a sweep short-cut that, once one expired ban had been removed while two
		// others were still running, waited for the LATEST of them - the middle ban stayed in force well past its own expiry).
		// Three different IPs are banned 0.7-1.3 s apart, then each ban's end is awaited in order; "every ban ends on its own" is
		// judged by the same model bound as everywhere (expiry + sweep period + slack).
		if timed && len(s.IPs) >= 3 && rapid.IntRange(0, 4).Draw(t, "staggered") == 0 {
			s.ExpiryS = 2
			s.Black = nil
			mk := func(kind string, ip int) gop {
				return gop{Kind: kind, IP: ip, Form: rapid.IntRange(0, nForms-1).Draw(t, "stForm"), Port: 4001, PID: rapid.IntRange(0, len(peerIDs)-1).Draw(t, "stPid"),
					Rot: rapid.IntRange(0, nGates-1).Draw(t, "stRot")}
			}
			for k := 0; k < 3; k++ {
				o := mk("pen", k)
				o.AmtKind, o.Amt = "fix", rapid.IntRange(100, 150).Draw(t, "stAmt")
				s.Ops = append(s.Ops, o)
				if k < 2 {
					sl := mk("sleep", k)
					sl.Ms = rapid.SampledFrom([]int{700, 1100, 1300}).Draw(t, "stGapMs")
					s.Ops = append(s.Ops, sl)
				}
			}
			for k := 0; k < 3; k++ {
				s.Ops = append(s.Ops, mk("await", k), mk("query", k))
			}
			small := mk("pen", 1)
			small.AmtKind, small.Amt = "fix", rapid.IntRange(1, 30).Draw(t, "stAfter")
			s.Ops = append(s.Ops, small, mk("query", 1))
			s.Staggered = true
			return s
		}
		for i := 0; i < nops; i++ {
			o := gop{}
			forced := ""
			if script != nil {
				if rapid.IntRange(0, 3).Draw(t, "noise") == 0 {
					// noise op on some IP, then the scripted op
					nz := gop{Kind: rapid.SampledFrom([]string{"pen", "query", "list"}).Draw(t, "noiseKind"), IP: rapid.IntRange(0, len(s.IPs)-1).Draw(t, "noiseIP"),
						Form: rapid.IntRange(0, nForms-1).Draw(t, "noiseForm"), Port: 4001, PID: rapid.IntRange(0, len(peerIDs)-1).Draw(t, "noisePid"),
						AmtKind: "fix", Amt: rapid.IntRange(1, 60).Draw(t, "noiseAmt")}
					s.Ops = append(s.Ops, nz)
				}
				parts := strings.SplitN(script[i], ":", 2)
				o.Kind = parts[0]
				if len(parts) > 1 {
					forced = parts[1]
				}
				o.IP = focus
			} else {
				o.Kind = rapid.SampledFrom(kinds).Draw(t, "kind")
				if rapid.IntRange(0, 2).Draw(t, "useFocus") > 0 {
					o.IP = focus
				} else {
					o.IP = rapid.IntRange(0, len(s.IPs)-1).Draw(t, "ip")
				}
			}
			o.Form = rapid.IntRange(0, nForms-1).Draw(t, "form")
			o.Port = rapid.SampledFrom([]int{1, 4001, 7667, 65535}).Draw(t, "port")
			o.PID = rapid.IntRange(0, len(peerIDs)-1).Draw(t, "pid")
			o.Rot = rapid.IntRange(0, nGates-1).Draw(t, "rot")
			switch o.Kind {
			case "pen":
				ak := forced
				if ak == "" {
					ak = rapid.SampledFrom([]string{"small", "small", "small", "mid", "mid", "exact", "exact", "below", "big"}).Draw(t, "amtKind")
				}
				switch ak {
				case "small":
					o.AmtKind, o.Amt = "fix", rapid.IntRange(1, 34).Draw(t, "amt")
				case "mid":
					o.AmtKind, o.Amt = "fix", rapid.IntRange(35, 99).Draw(t, "amt")
				case "big":
					o.AmtKind, o.Amt = "fix", rapid.IntRange(100, 150).Draw(t, "amt")
				case "exact":
					o.AmtKind, o.Amt = "exact", rapid.IntRange(1, 150).Draw(t, "amt")
				case "below":
					o.AmtKind, o.Amt = "below", rapid.IntRange(1, 150).Draw(t, "amt")
				}
			case "sleep":
				o.Ms = rapid.SampledFrom([]int{1, 10, 60, 150, 400, 900}).Draw(t, "ms")
			case "await":
				awaits++
				if awaits > 2 && script == nil {
					o.Kind = "query"
				}
			}
			s.Ops = append(s.Ops, o)
		}
		return s
	})
}

func dedup(in []string) []string {
	seen := map[string]bool{}
	var out []string
	for _, x := range in {
		if !seen[x] {
			seen[x] = true
			out = append(out, x)
		}
	}
	return out
}

type seqResult struct {
	key        string
	history    []string
	violation  string
	labels     map[string]bool
	nontrivial bool
	infra      string
	counts     map[string]int // per-request counters (sync_test.go)
	hard       bool           // the violation rests on positive evidence that timing cannot produce (late_test.go): reported at once
}

func (r *seqResult) render() string {
	return strings.Join(r.history, "\n")
}

type gaterRun struct {
	g     *p2p.VerifGater
	m     *banModel
	start time.Time
	res   *seqResult
	ips   []string
}

func (r *gaterRun) logf(format string, a ...any) {
	r.res.history = append(r.res.history, fmt.Sprintf("[%7.3fs] ", time.Since(r.start).Seconds())+fmt.Sprintf(format, a...))
}

func (r *gaterRun) callGate(g int, ip string, addr string) (bool, time.Time, time.Time, error) {
	pid := p2p.PeerID("peer-" + ip)
	var ok bool
	var err error
	t0 := time.Now()
	switch g {
	case gPeerDial:
		ok = r.g.InterceptPeerDial(pid)
	case gAddrDial:
		ok, err = r.g.InterceptAddrDial(pid, addr)
	case gAccept:
		ok, err = r.g.InterceptAccept(addr)
	case gSecuredIn:
		ok, err = r.g.InterceptSecured(true, pid, addr)
	case gSecuredOut:
		ok, err = r.g.InterceptSecured(false, pid, addr)
	}
	return ok, t0, time.Now(), err
}

// queryAll asks every gate (rotated order) and the score lookup for one address of ip.
func (r *gaterRun) queryAll(ip, addr string, rot int) string {
	var answers []string
	for i := 0; i < nGates; i++ {
		g := (i + rot) % nGates
		var ok bool
		var zone string
		v := persists(func() (string, bool) {
			var t0, t1 time.Time
			var err error
			ok, t0, t1, err = r.callGate(g, ip, addr)
			if err != nil {
				r.res.infra = fmt.Sprintf("hook rejected address %q: %v", addr, err)
				return "", false
			}
			zone = r.m.get(ip).zone(t0, t1)
			return r.m.gate(ip, g, ok, t0, t1)
		})
		if r.res.infra != "" {
			return ""
		}
		answers = append(answers, fmt.Sprintf("%s=%v", gateName[g], ok))
		if v != "" {
			r.logf("query %s via %s zone=%s: %s", ip, addr, zone, strings.Join(answers, " "))
			return v
		}
	}
	t0 := time.Now()
	sc, _, _ := r.g.Score(ip)
	t1 := time.Now()
	r.logf("query %s via %s: %s score=%d", ip, addr, strings.Join(answers, " "), sc)
	return r.m.scoreSeen(ip, sc, t0, t1)
}

func (r *gaterRun) list() string {
	return persists(r.listOnce)
}

func (r *gaterRun) listOnce() (string, bool) {
	t0 := time.Now()
	raw := r.g.ListBannedPeers()
	t1 := time.Now()
	got := map[string]bool{}
	for _, x := range raw {
		got[canon(x)] = true
	}
	var names []string
	for k := range got {
		names = append(names, k)
	}
	sort.Strings(names)
	r.logf("listBannedPeers = %v", names)
	for _, ip := range r.ips {
		if v, soft := r.m.listed(ip, got[ip], t0, t1); v != "" {
			return v, soft
		}
		delete(got, ip)
	}
	for k := range got {
		return fmt.Sprintf("listBannedPeers contains %s which was never penalised", k), false
	}
	return "", false
}

// await polls the gates until the model has seen the ban of ip end (or a violation).
func (r *gaterRun) await(ip, addr string) string {
	s := r.m.get(ip)
	if !s.banned || r.m.black[ip] { // a blacklisted IP stays refused: its ban cannot be seen ending through the gates
		return ""
	}
	hard := s.upper.Add(10 * r.m.slack)
	r.logf("await expiry of %s (must be banned until +%.3fs, at most until +%.3fs)", ip, s.mustEnd.Sub(r.start).Seconds(), s.upper.Sub(r.start).Seconds())
	n := 0
	for s.banned {
		g := []int{gAddrDial, gAccept, gSecuredIn}[n%3]
		n++
		var ok bool
		v := persists(func() (string, bool) {
			var t0, t1 time.Time
			var err error
			ok, t0, t1, err = r.callGate(g, ip, addr)
			if err != nil {
				r.res.infra = err.Error()
				return "", false
			}
			return r.m.gate(ip, g, ok, t0, t1)
		})
		if r.res.infra != "" {
			return ""
		}
		if v != "" {
			r.logf("poll #%d %s=%v", n, gateName[g], ok)
			return v
		}
		if s.banned {
			if time.Now().After(hard) {
				r.res.infra = "await: model did not resolve (harness bug)"
				return ""
			}
			time.Sleep(20 * time.Millisecond)
		}
	}
	r.logf("ban of %s observed over after %d polls", ip, n)
	return ""
}

func runGaterSeq(s gseq, timed bool) *seqResult {
	res := &seqResult{labels: map[string]bool{}}
	var bl []string
	for _, b := range s.Black {
		if b < len(s.IPs) {
			bl = append(bl, blacklistForm(s.IPs[b], s.BlackF))
		}
	}
	expiry := time.Duration(s.ExpiryS) * time.Second
	sweep := time.Duration(s.SweepMs) * time.Millisecond
	g, err := p2p.VerifNewGater(nopLogger{}, expiry, sweep, bl)
	if err != nil {
		res.infra = "VerifNewGater: " + err.Error()
		return res
	}
	defer g.Stop()
	r := &gaterRun{g: g, m: newBanModel(expiry, sweep, bl), start: time.Now(), res: res, ips: s.IPs}
	r.logf("gater expiry=%v sweep=%v blacklist=%v ips=%v", expiry, sweep, bl, s.IPs)
	if len(bl) > 0 {
		res.labels["blacklist-configured"] = true
	}
	var key strings.Builder
	fmt.Fprintf(&key, "E%d S%d %v B%v|", s.ExpiryS, s.SweepMs, s.IPs, bl)
	idsPerIP := map[string]map[int]bool{}
	for _, o := range s.Ops {
		if o.IP >= len(s.IPs) {
			o.IP = 0
		}
		ip := s.IPs[o.IP]
		addr := addrForm(ip, o.Form, o.Port, o.PID)
		st := r.m.get(ip)
		switch o.Kind {
		case "pen":
			amt := o.Amt
			if !st.banned && st.score < threshold {
				if o.AmtKind == "exact" {
					amt = threshold - st.score
				} else if o.AmtKind == "below" && threshold-1-st.score >= 1 {
					amt = threshold - 1 - st.score
				}
			}
			t0 := time.Now()
			zone := st.zone(t0, t0)
			wasBanned := st.banned
			prev := st.score
			ret, err := g.AddPenalty(addr, amt)
			t1 := time.Now()
			if err != nil {
				res.infra = fmt.Sprintf("AddPenalty(%q): %v", addr, err)
				return res
			}
			r.logf("addPenalty(%s, %d) -> %d   [ip %s, model before: score=%d zone=%s]", addr, amt, ret, ip, prev, zone)
			fmt.Fprintf(&key, "p%d.%d.%d.%d;", o.IP, o.Form%nForms, o.PID%len(peerIDs), amt)
			if v := r.m.penalty(ip, amt, ret, true, t0, t1); v != "" {
				res.violation = v
				return res
			}
			if idsPerIP[ip] == nil {
				idsPerIP[ip] = map[int]bool{}
			}
			idsPerIP[ip][o.PID%len(peerIDs)] = true
			if isMappedForm(ip, o.Form) {
				res.labels["penalty-via-ipv4-mapped-form"] = true
			}
			if strings.Contains(ip, ":") {
				res.labels["penalty-on-ipv6"] = true
			}
			if wasBanned {
				res.labels["penalty-while-banned-or-expiring:"+zone] = true
			}
			if !wasBanned && st.banned {
				if st.score == threshold {
					res.labels["crossed-at-exactly-threshold"] = true
				}
				if st.crossedByAccum {
					res.labels["crossed-by-accumulation"] = true
				} else {
					res.labels["crossed-by-single-penalty"] = true
				}
				if st.expiries > 0 {
					res.labels["banned-again-after-expiry"] = true
				}
				if len(idsPerIP[ip]) > 1 {
					res.labels["crossed-with-several-peer-ids-on-one-ip"] = true
				}
			}
			if !st.banned && st.score == threshold-1 {
				res.labels["score-at-threshold-minus-1"] = true
			}
			if !wasBanned && !st.banned && st.expiries > 0 {
				res.labels["penalty-after-expiry-from-clean-score"] = true
			}
		case "query":
			fmt.Fprintf(&key, "q%d.%d;", o.IP, o.Form%nForms)
			zone := st.zone(time.Now(), time.Now())
			res.labels["query-zone:"+zone] = true
			if r.m.black[ip] {
				res.labels["query-blacklisted"] = true
			}
			if v := r.queryAll(ip, addr, o.Rot); v != "" || res.infra != "" {
				res.violation = v
				return res
			}
		case "list":
			key.WriteString("l;")
			if v := r.list(); v != "" {
				res.violation = v
				return res
			}
		case "sleep":
			fmt.Fprintf(&key, "s%d;", o.Ms)
			if timed {
				r.logf("sleep %d ms", o.Ms)
				time.Sleep(time.Duration(o.Ms) * time.Millisecond)
			}
		case "await":
			fmt.Fprintf(&key, "a%d;", o.IP)
			if timed {
				if v := r.await(ip, addr); v != "" || res.infra != "" {
					res.violation = v
					return res
				}
			}
		}
	}
	// closing round: every IP through every gate, and the list.
	for i, ip := range s.IPs {
		if v := r.queryAll(ip, addrForm(ip, i, 4001, i), i); v != "" || res.infra != "" {
			res.violation = v
			return res
		}
	}
	if v := r.list(); v != "" {
		res.violation = v
		return res
	}
	for _, ip := range s.IPs {
		st := r.m.get(ip)
		if timed {
			if st.full {
				res.nontrivial = true
			}
		} else if st.crossedByAccum && st.qDuringBan {
			res.nontrivial = true
		}
		if st.expiries > 0 {
			res.labels["ban-expired-and-observed"] = true
			if s.Staggered {
				res.labels["staggered-bans-each-end-awaited"] = true
			}
		}
	}
	res.key = key.String()
	return res
}

func register(kind string, res *seqResult) {
	labels := []string{kind}
	var ls []string
	for l := range res.labels {
		ls = append(ls, l)
	}
	sort.Strings(ls)
	labels = append(labels, ls...)
	if res.nontrivial {
		labels = append(labels, kind+":nontrivial")
	}
	evid.R.Case(res.key, res.nontrivial, func() any { return map[string]any{"kind": kind, "history": res.history} }, labels...)
}

// TestGaterUntimed: expiry far away (1 h): accumulation, threshold, per-IP keying across address spellings, gates,
// blacklist. Fast, so thousands of sequences.
func TestGaterUntimed(t *testing.T) {
	rapid.Check(t, func(rt *rapid.T) {
		s := genSeq(false).Draw(rt, "seq")
		res := runGaterSeq(s, false)
		if res.infra != "" {
			rt.Fatalf("harness problem: %s\n%s", res.infra, res.render())
		}
		if res.violation != "" {
			rt.Fatalf("C18 violated (gater, untimed): %s\nhistory:\n%s", res.violation, res.render())
		}
		register("gater-untimed", res)
	})
}

// TestGaterTimed: expiry 1-2 s, sweep 50-200 ms; batches of sequences run in parallel goroutines (they mostly sleep).
func TestGaterTimed(t *testing.T) {
	n := 24
	rapid.Check(t, func(rt *rapid.T) {
		seqs := rapid.SliceOfN(genSeq(true), n, n).Draw(rt, "seqs")
		results := make([]*seqResult, len(seqs))
		var wg sync.WaitGroup
		for i := range seqs {
			if !seqs[i].On {
				continue
			}
			wg.Add(1)
			go func(i int) {
				defer wg.Done()
				results[i] = runGaterSeq(seqs[i], true)
			}(i)
		}
		wg.Wait()
		var fails []string
		for i, res := range results {
			if res == nil {
				continue
			}
			if res.infra != "" {
				fails = append(fails, fmt.Sprintf("sequence %d: harness problem: %s\n%s", i, res.infra, res.render()))
			} else if res.violation != "" {
				fails = append(fails, fmt.Sprintf("sequence %d: C18 violated (gater, timed): %s\nhistory:\n%s", i, res.violation, res.render()))
			} else {
				register("gater-timed", res)
			}
		}
		if len(fails) > 0 {
			rt.Fatalf("%s", strings.Join(fails, "\n\n"))
		}
	})
}

// TestGaterConcurrent: concurrent callers. K goroutines add penalties to one IP through different spellings while
// readers query the gates. No update may be lost (final score = sum when it stays below the threshold); the readers'
// view is monotone (accepted ... refused) within the ban's minimum duration; with a total >= threshold the IP ends up
// banned, with less it is never refused.
func TestGaterConcurrent(t *testing.T) {
	rapid.Check(t, func(rt *rapid.T) {
		k := rapid.IntRange(2, 8).Draw(rt, "writers")
		per := rapid.IntRange(1, 12).Draw(rt, "perWriter")
		amt := rapid.IntRange(1, 20).Draw(rt, "amount")
		ip := rapid.SampledFrom(ipPool).Draw(rt, "ip")
		other := rapid.SampledFrom(ipPool).Draw(rt, "other")
		total := k * per * amt
		g, err := p2p.VerifNewGater(nopLogger{}, time.Hour, 5*time.Millisecond, nil)
		if err != nil {
			rt.Fatalf("harness: %v", err)
		}
		defer g.Stop()
		var wg sync.WaitGroup
		var stop atomic.Bool
		var flip atomic.Int64     // reader saw accepted after refused
		var refOther atomic.Int64 // reader saw the unpenalised IP refused
		for rdr := 0; rdr < 3; rdr++ {
			wg.Add(1)
			go func(rdr int) {
				defer wg.Done()
				refused := false
				for !stop.Load() {
					ok, _ := g.InterceptAccept(addrForm(ip, rdr, 4001, rdr))
					if !ok {
						refused = true
					} else if refused {
						flip.Add(1)
					}
					if other != ip {
						if ok, _ := g.InterceptAddrDial(p2p.PeerID("x"), addrForm(other, rdr, 1, 0)); !ok {
							refOther.Add(1)
						}
					}
				}
			}(rdr)
		}
		var ww sync.WaitGroup
		var maxRet atomic.Int64
		for w := 0; w < k; w++ {
			ww.Add(1)
			go func(w int) {
				defer ww.Done()
				for i := 0; i < per; i++ {
					ret, err := g.AddPenalty(addrForm(ip, w+i, 4000+w, w), amt)
					if err == nil {
						for {
							cur := maxRet.Load()
							if int64(ret) <= cur || maxRet.CompareAndSwap(cur, int64(ret)) {
								break
							}
						}
					}
				}
			}(w)
		}
		ww.Wait()
		stop.Store(true)
		wg.Wait()
		sc, _, _ := g.Score(ip)
		okAccept, _ := g.InterceptAccept(addrForm(ip, 0, 1, 0))
		okDial, _ := g.InterceptAddrDial(p2p.PeerID("x"), addrForm(ip, 2, 1, 1))
		okSec, _ := g.InterceptSecured(true, p2p.PeerID("x"), addrForm(ip, 3, 1, 2))
		desc := fmt.Sprintf("%d writers x %d penalties of %d on %s (total %d), 3 readers", k, per, amt, ip, total)
		banned := total >= threshold
		// the score of a banned IP is outside the statement; below the threshold every penalty must be counted
		if !banned && (sc != total || int(maxRet.Load()) != total) {
			rt.Fatalf("C18 violated (concurrent): lost update: %s: stored score %d, largest returned score %d", desc, sc, maxRet.Load())
		}
		if banned && int(maxRet.Load()) < threshold {
			rt.Fatalf("C18 violated (concurrent): %s: no call returned a score >= %d (largest %d)", desc, threshold, maxRet.Load())
		}
		if okAccept == banned || okDial == banned || okSec == banned {
			rt.Fatalf("C18 violated (concurrent): %s: banned expected %v but gates answer accept=%v addrDial=%v securedIn=%v", desc, banned, okAccept, okDial, okSec)
		}
		if flip.Load() > 0 {
			rt.Fatalf("C18 violated (concurrent): %s: a reader saw the IP accepted after it had been refused (within the 1 h expiry)", desc)
		}
		if refOther.Load() > 0 {
			rt.Fatalf("C18 violated (concurrent): %s: unpenalised IP %s was refused %d times", desc, other, refOther.Load())
		}
		evid.R.Case(fmt.Sprintf("conc %d %d %d %s", k, per, amt, ip), banned && k*per >= 2, nil, "gater-concurrent", fmt.Sprintf("concurrent-banned=%v", banned))
	})
}

// TestGaterTimedStaggered: the long form of the staggered-bans sequence. The bound that turns "still refused" into a violation is
// generous (expiry + 1 s + sweep + 3 s slack, see common_test.go), so a ban that outlives its expiry by the distance to a LATER ban
// is only visible when that distance exceeds the bound AND the 600 heartbeats (>= 3 s) over which a "should be over by now" verdict must
// persist: expiry 12 s, bans at 0 s, ~1.3 s and ~11 s - with seeded change C18-w the middle ban lasts until the last one ends, ~10 s
// late (tolerance ~7.2 s). One sequence per quick run (it takes ~24 s), four per thorough shard.
func TestGaterTimedStaggered(t *testing.T) {
	limit := 1
	if evid.Thorough() {
		limit = 4
	}
	runs := 0
	rapid.Check(t, func(rt *rapid.T) {
		runs++
		if runs > limit && os.Getenv("VERIF_REPLAY") == "" {
			return
		}
		perm := rapid.Permutation(ipPool).Draw(rt, "ips")
		s := gseq{On: true, Staggered: true, ExpiryS: 12, SweepMs: rapid.SampledFrom([]int{50, 100, 200}).Draw(rt, "sweepMs"), IPs: dedup(append([]string{}, perm[:3]...))}
		if len(s.IPs) < 3 {
			return
		}
		mk := func(kind string, ip int) gop {
			return gop{Kind: kind, IP: ip, Form: rapid.IntRange(0, nForms-1).Draw(rt, "form"), Port: 4001, PID: rapid.IntRange(0, len(peerIDs)-1).Draw(rt, "pid"),
				Rot: rapid.IntRange(0, nGates-1).Draw(rt, "rot")}
		}
		gaps := []int{rapid.SampledFrom([]int{1100, 1300, 1600}).Draw(rt, "gap1"), rapid.SampledFrom([]int{9600, 10000}).Draw(rt, "gap2")} // gap1 above one second: expiries are whole unix seconds
		for k := 0; k < 3; k++ {
			o := mk("pen", k)
			o.AmtKind, o.Amt = "fix", rapid.IntRange(100, 150).Draw(rt, "amt")
			s.Ops = append(s.Ops, o)
			if k < 2 {
				sl := mk("sleep", k)
				sl.Ms = gaps[k]
				s.Ops = append(s.Ops, sl)
			}
		}
		for k := 0; k < 3; k++ {
			s.Ops = append(s.Ops, mk("await", k), mk("query", k))
		}
		small := mk("pen", 1)
		small.AmtKind, small.Amt = "fix", rapid.IntRange(1, 30).Draw(rt, "after")
		s.Ops = append(s.Ops, small, mk("query", 1))
		res := runGaterSeq(s, true)
		if os.Getenv("VERIF_C18_SHOW") != "" {
			fmt.Println(res.render())
		}
		if res.infra != "" {
			rt.Fatalf("harness problem: %s\n%s", res.infra, res.render())
		}
		if res.violation != "" {
			rt.Fatalf("C18 violated (gater, staggered bans): %s\nhistory:\n%s", res.violation, res.render())
		}
		res.labels["staggered-bans-long-form"] = true
		register("gater-timed", res)
	})
}
