package c18

// (c) sync_test.go: "invalid sync requests ... lead to these penalties; well-formed traffic within the limits never does".
//
// The penalising side is a REAL consensus node (verifharness/node: Executer + consensus/sync Syncer over an in-memory
// chain, started p2p.Connection); Executer.Init registers the three sync procedures of the engine on that connection
// (getLastBlock, getHighestCommonBlock, getBlocksFromId). The requesting side are plain started p2p.Connections on their
// own loopback IPs which send generated requests through the public RequestFrom API.
//
// Oracle (the rule each handler documents in pkg/consensus/sync/sync.go, restated here, not read from the code):
//   getHighestCommonBlock: invalid = no data | data that does not decode | no block ID | ANY block ID whose length is not 32
//   getBlocksFromId:       invalid = no data | data that does not decode | block ID whose length is not 32
//   getLastBlock:          takes no parameters (never invalid)
// An invalid request must leave the sender's IP banned at the node (stored score >= threshold, listed, the peer
// disconnected, its re-dial and the node's own dial towards it refused while the ban certainly lasts; in scenarios with a
// short expiry: accepted again afterwards with a clean score). A valid request - known or unknown well-formed IDs,
// duplicates, lists of any length - must never change the sender's score, close its connection or list its IP; the
// node's answers never earn the node a penalty at the requester.
// Requests whose validity the handlers do not fix (parameters on getLastBlock, garbage that the lenient decoder happens
// to read as a well-formed request) are sent too, but nothing is asserted about their penalty.

import (
	"bytes"
	"context"
	"fmt"
	"os"
	"strings"
	"sync"
	"testing"
	"time"

	"pgregory.net/rapid"

	csync "github.com/LiskHQ/lisk-engine/pkg/consensus/sync"
	"github.com/LiskHQ/lisk-engine/pkg/p2p"

	"verifharness/evid"
	"verifharness/node"
)

const (
	procGLB = csync.RPCEndpointGetLastBlock
	procHCB = csync.RPCEndpointGetHighestCommonBlock
	procBFI = csync.RPCEndpointGetBlocksFromID
	idLen   = 32
)

// sid: one block ID of a request, materialised against the responder's chain at run time.
type sid struct {
	Kind string // chain | unknown | bad
	H    int    // chain: height H mod (tip+1); bad with H >= 0: derived from that chain ID (cut or extended)
	Len  int    // bad: length (never 32)
	Fill byte
}

type sreq struct {
	Proc    string
	Class   string
	IDs     []sid
	Raw     []byte // raw request data for the classes that are not built from IDs
	Reuse   bool   // send from the previous requester if that one is still clean
	Preload int    // > 0: the node first applies this penalty to the requester through Connection.ApplyPenalty
}

type sscn struct {
	On      bool
	Blocks  int
	ExpiryS int // 0: production ban time (24 h), else seconds
	SweepMs int
	Reqs    []sreq
	Cycle   bool // short expiry: the last (banning) request is followed by wait-for-expiry, re-dial, valid request, small penalty
	AfterK  int
}

var badLens = []int{0, 1, 16, 20, 31, 31, 33, 33, 64}

func genBadID(t *rapid.T) sid {
	d := sid{Kind: "bad", Len: rapid.SampledFrom(badLens).Draw(t, "badLen"), H: -1, Fill: byte(rapid.IntRange(1, 255).Draw(t, "fill"))}
	if rapid.Bool().Draw(t, "fromChainID") {
		d.H = rapid.IntRange(0, 40).Draw(t, "h") // a real block ID cut short or extended
	}
	return d
}

func genGoodID(t *rapid.T, kinds []string) sid {
	k := rapid.SampledFrom(kinds).Draw(t, "goodKind")
	if k == "chain" {
		return sid{Kind: "chain", H: rapid.IntRange(0, 40).Draw(t, "h")}
	}
	return sid{Kind: "unknown", Fill: byte(rapid.IntRange(1, 255).Draw(t, "fill")), H: rapid.IntRange(0, 1<<20).Draw(t, "salt")}
}

// garbage: raw bytes that are not the encoding of a request; classified with the real decoders at run time.
func genGarbage(t *rapid.T) []byte {
	ids := [][]byte{bytes.Repeat([]byte{0x11}, 32), bytes.Repeat([]byte{0x22}, 32), bytes.Repeat([]byte{0x33}, 32)}
	enc := (&csync.GetHighestCommonBlockRequest{IDs: ids[:rapid.IntRange(1, 3).Draw(t, "k")]}).Encode()
	switch rapid.IntRange(0, 6).Draw(t, "garbage") {
	case 0: // cut inside a field
		return enc[:rapid.IntRange(1, len(enc)-1).Draw(t, "cut")]
	case 1: // length prefix pointing past the end
		return append([]byte{0x0a, 0x7f}, bytes.Repeat([]byte{9}, rapid.IntRange(0, 40).Draw(t, "n"))...)
	case 2: // varint that never ends
		return append([]byte{0x0a}, bytes.Repeat([]byte{0xff}, 11)...)
	case 3: // field 1 with the wrong wire type
		return []byte{0x08, 0x01}
	case 4: // another field number
		return append([]byte{0x12, 0x20}, bytes.Repeat([]byte{7}, 32)...)
	case 5: // valid encoding followed by junk
		return append(enc, rapid.SliceOfN(rapid.Byte(), 1, 6).Draw(t, "junk")...)
	default:
		return rapid.SliceOfN(rapid.Byte(), 1, 24).Draw(t, "bytes")
	}
}

func genSyncReq(t *rapid.T) sreq {
	q := sreq{Reuse: rapid.IntRange(0, 2).Draw(t, "reuse") > 0}
	if rapid.IntRange(0, 3).Draw(t, "preload") == 0 {
		q.Preload = rapid.IntRange(1, 60).Draw(t, "preloadK")
	}
	both := []string{"chain", "chain", "unknown"}
	switch rapid.SampledFrom([]string{procHCB, procHCB, procHCB, procHCB, procHCB, procBFI, procBFI, procBFI, procGLB}).Draw(t, "proc") {
	case procGLB:
		q.Proc = procGLB
		q.Class = "plain"
		if rapid.IntRange(0, 2).Draw(t, "payload") == 0 {
			q.Class = "with-payload"
			q.Raw = rapid.SliceOfN(rapid.Byte(), 1, 40).Draw(t, "bytes")
		}
	case procBFI:
		q.Proc = procBFI
		q.Class = rapid.SampledFrom([]string{"nil", "garbage", "bad-len", "bad-len", "bad-len", "valid-known", "valid-known", "valid-tip", "valid-unknown", "valid-unknown"}).Draw(t, "class")
		switch q.Class {
		case "garbage":
			q.Raw = genGarbage(t)
		case "bad-len":
			q.IDs = []sid{genBadID(t)}
		case "valid-known":
			q.IDs = []sid{{Kind: "chain", H: rapid.IntRange(0, 40).Draw(t, "h")}}
		case "valid-tip":
			q.IDs = []sid{{Kind: "chain", H: -1}}
		case "valid-unknown":
			q.IDs = []sid{genGoodID(t, []string{"unknown"})}
		}
	default:
		q.Proc = procHCB
		q.Class = rapid.SampledFrom([]string{"nil", "empty-list", "garbage", "garbage", "all-malformed", "all-malformed",
			"mixed", "mixed", "mixed", "mixed", "mixed", "mixed", "long-one-bad",
			"valid-known", "valid-known", "valid-known", "valid-unknown", "valid-mixed", "valid-mixed", "valid-dup", "valid-long"}).Draw(t, "class")
		switch q.Class {
		case "garbage":
			q.Raw = genGarbage(t)
		case "all-malformed":
			for i := rapid.IntRange(1, 5).Draw(t, "n"); i > 0; i-- {
				q.IDs = append(q.IDs, genBadID(t))
			}
		case "mixed":
			// at least one well-formed and at least one malformed ID; the first malformed one is steered to the first,
			// a middle or the last position
			for i := rapid.IntRange(1, 6).Draw(t, "nGood"); i > 0; i-- {
				q.IDs = append(q.IDs, genGoodID(t, both))
			}
			where := rapid.SampledFrom([]string{"first", "middle", "last"}).Draw(t, "where")
			at := 0
			switch {
			case where == "last" || (where == "middle" && len(q.IDs) < 2):
				at = len(q.IDs)
			case where == "middle":
				at = rapid.IntRange(1, len(q.IDs)-1).Draw(t, "at")
			}
			q.IDs = insertID(q.IDs, at, genBadID(t))
			for i := rapid.SampledFrom([]int{0, 0, 0, 1, 2}).Draw(t, "moreBad"); i > 0; i-- {
				q.IDs = insertID(q.IDs, rapid.IntRange(at+1, len(q.IDs)).Draw(t, "at2"), genBadID(t))
			}
		case "long-one-bad":
			n := rapid.IntRange(110, 400).Draw(t, "n")
			for i := 0; i < n; i++ {
				q.IDs = append(q.IDs, sid{Kind: "unknown", Fill: byte(1 + i%250), H: i})
			}
			at := rapid.IntRange(0, n-1).Draw(t, "at")
			q.IDs[at] = genBadID(t)
			q.IDs[(at+1+rapid.IntRange(0, n-2).Draw(t, "known"))%n].Kind = "chain"
		case "valid-known":
			for i := rapid.IntRange(1, 8).Draw(t, "n"); i > 0; i-- {
				q.IDs = append(q.IDs, genGoodID(t, []string{"chain"}))
			}
		case "valid-unknown":
			for i := rapid.IntRange(1, 8).Draw(t, "n"); i > 0; i-- {
				q.IDs = append(q.IDs, genGoodID(t, []string{"unknown"}))
			}
		case "valid-mixed":
			for i := rapid.IntRange(2, 10).Draw(t, "n"); i > 0; i-- {
				q.IDs = append(q.IDs, genGoodID(t, both))
			}
		case "valid-dup":
			for i := rapid.IntRange(1, 3).Draw(t, "n"); i > 0; i-- {
				q.IDs = append(q.IDs, genGoodID(t, both))
			}
			for i := rapid.IntRange(1, 5).Draw(t, "dups"); i > 0; i-- {
				q.IDs = append(q.IDs, q.IDs[rapid.IntRange(0, len(q.IDs)-1).Draw(t, "dupOf")])
			}
		case "valid-long":
			n := rapid.IntRange(110, 500).Draw(t, "n")
			for i := 0; i < n; i++ {
				d := sid{Kind: "unknown", Fill: byte(1 + i%250), H: i}
				if i%7 == 3 {
					d = sid{Kind: "chain", H: i}
				}
				q.IDs = append(q.IDs, d)
			}
		}
	}
	return q
}

func insertID(l []sid, at int, d sid) []sid {
	out := append([]sid{}, l[:at]...)
	out = append(out, d)
	return append(out, l[at:]...)
}

func genSyncScenario() *rapid.Generator[sscn] {
	return rapid.Custom(func(t *rapid.T) sscn {
		s := sscn{On: true, Blocks: rapid.IntRange(1, 6).Draw(t, "blocks")}
		for i := rapid.IntRange(4, 9).Draw(t, "nReq"); i > 0; i-- {
			s.Reqs = append(s.Reqs, genSyncReq(t))
		}
		if rapid.IntRange(0, 3).Draw(t, "short") == 0 {
			s.ExpiryS = rapid.IntRange(1, 2).Draw(t, "expiry")
			s.SweepMs = rapid.SampledFrom([]int{50, 100, 200}).Draw(t, "sweep")
			s.Cycle = true
			s.AfterK = rapid.IntRange(1, 30).Draw(t, "afterK")
			// the life cycle needs a banning request at the end
			last := genSyncReq(t)
			for tries := 0; !last.invalidByConstruction() && tries < 50; tries++ {
				last = genSyncReq(t)
			}
			if !last.invalidByConstruction() {
				last = sreq{Proc: procHCB, Class: "mixed", IDs: []sid{{Kind: "chain", H: 0}, {Kind: "bad", Len: 31, H: -1, Fill: 5}}}
			}
			s.Reqs = append(s.Reqs, last)
		}
		return s
	})
}

// invalidByConstruction: classes that are invalid by the handlers' documented rule whatever the decoder does.
func (q sreq) invalidByConstruction() bool {
	switch q.Proc + ":" + q.Class {
	case procHCB + ":nil", procHCB + ":empty-list", procHCB + ":all-malformed", procHCB + ":mixed", procHCB + ":long-one-bad",
		procBFI + ":nil", procBFI + ":bad-len":
		return true
	}
	return false
}

// ---------------------------------------------------------------------------------------------------------------

type speer struct {
	idx   int
	ip    string
	conn  *p2p.Connection
	info  *p2p.AddrInfo
	score int  // what the node must store for this IP (penalties applied on purpose)
	dead  bool // banned, tainted by an unasserted request, or unusable
}

type srun struct {
	s       sscn
	slot    int
	res     *seqResult
	start   time.Time
	n       *node.Node
	rip     string
	rinfo   *p2p.AddrInfo
	bm      *banModel
	stop    func()
	ids     [][]byte // block IDs of the node's chain by height
	peers   []*speer
	counts  map[string]int
	bans    int
	cleans  int
	cycled  bool
	refused [2]bool
}

func (r *srun) logf(format string, a ...any) {
	r.res.history = append(r.res.history, fmt.Sprintf("[%7.3fs] ", time.Since(r.start).Seconds())+fmt.Sprintf(format, a...))
}

var syncSeq struct {
	sync.Mutex
	n int
}

func (r *srun) setup() error {
	s := r.s
	r.rip = fmt.Sprintf("127.0.%d.1", 20+r.slot)
	n, err := node.New(node.Config{Genesis: node.EqualGenesis(4), ListenAddr: "/ip4/" + r.rip + "/tcp/0"})
	if err != nil {
		return err
	}
	r.n = n
	expiry, sweep := 24*time.Hour, 10*time.Second
	if s.ExpiryS > 0 {
		expiry, sweep = time.Duration(s.ExpiryS)*time.Second, time.Duration(s.SweepMs)*time.Millisecond
		stop, err := n.Conn.VerifRetimeGater(expiry, sweep)
		if err != nil {
			return err
		}
		r.stop = stop
	}
	r.bm = newBanModel(expiry, sweep, nil)
	for i := 0; i < s.Blocks; i++ {
		if _, err := n.Apply(node.Spec{Script: node.Script{Salt: uint32(i % 5)}}); err != nil {
			return fmt.Errorf("apply block %d: %w", i+1, err)
		}
	}
	tip := n.Tip().Header.Height
	for h := uint32(0); h <= tip; h++ {
		hd, err := n.Chain.DataAccess().GetBlockHeaderByHeight(h)
		if err != nil {
			return err
		}
		r.ids = append(r.ids, hd.ID)
	}
	addrs, err := n.Conn.MultiAddress()
	if err != nil || len(addrs) == 0 {
		return fmt.Errorf("node has no listen address: %v", err)
	}
	r.rinfo, err = p2p.AddrInfoFromMultiAddr(addrs[0])
	return err
}

func (r *srun) teardown() {
	for _, p := range r.peers {
		if p.conn != nil {
			_ = p.conn.Stop()
		}
	}
	if r.stop != nil {
		r.stop()
	}
	if r.n != nil {
		r.n.Close()
	}
}

func (r *srun) newPeer() (*speer, error) {
	p := &speer{idx: len(r.peers), ip: fmt.Sprintf("127.0.%d.%d", 20+r.slot, 2+len(r.peers))}
	cfg := &p2p.Config{Addresses: []string{"/ip4/" + p.ip + "/tcp/0"}, ChainID: node.ChainID, Version: "1.0"}
	c := p2p.NewConnection(nopLogger{}, cfg)
	// every real node registers the sync procedures (a response naming a procedure the requester does not know would
	// get the responder banned at the requester)
	for _, proc := range []string{procGLB, procHCB, procBFI} {
		if err := c.RegisterRPCHandler(proc, func(w p2p.ResponseWriter, req *p2p.Request) { w.Write(nil) }); err != nil {
			return nil, err
		}
	}
	c.VerifSetResponseTimeout(time.Minute) // no silent re-sends
	syncSeq.Lock()
	syncSeq.n++
	seed := fmt.Sprintf("c18-sync-%d-%d", evid.Seed(), syncSeq.n)
	syncSeq.Unlock()
	if err := c.Start([]byte(seed)); err != nil {
		return nil, fmt.Errorf("start requester on %s: %w", p.ip, err)
	}
	p.conn = c
	r.peers = append(r.peers, p)
	addrs, err := c.MultiAddress()
	if err != nil || len(addrs) == 0 {
		return nil, fmt.Errorf("requester has no listen address: %v", err)
	}
	p.info, err = p2p.AddrInfoFromMultiAddr(addrs[0])
	return p, err
}

func (r *srun) pname(p *speer) string { return fmt.Sprintf("Q%d(%s)", p.idx, p.ip) }

func (r *srun) linked(p *speer) bool {
	return has(r.n.Conn.ConnectedPeers(), p.conn.ID()) && has(p.conn.ConnectedPeers(), r.n.Conn.ID())
}

// seenAs: does the node see p under its listen IP (see e2e_test.go dial: source-address fallback of loopback aliases)?
func (r *srun) seenAs(p *speer) (bool, []string) {
	seen := r.n.Conn.VerifRemoteAddrs(p.conn.ID())
	for _, ra := range seen {
		if strings.HasPrefix(ra, "/ip4/"+p.ip+"/") {
			return true, seen
		}
	}
	return false, seen
}

// dialIn: p dials the node. Returns ok.
func (r *srun) dialIn(p *speer) (bool, time.Time, time.Time, error) {
	p.conn.VerifClearDialBackoff(r.n.Conn.ID())
	ctx, cancel := context.WithTimeout(context.Background(), 10*time.Second)
	defer cancel()
	t0 := time.Now()
	err := p.conn.Connect(ctx, *r.rinfo)
	t1 := time.Now()
	if err == nil {
		waitFor(5*time.Second, func() bool { return r.linked(p) })
	}
	return err == nil, t0, t1, err
}

func (r *srun) materialise(d sid) []byte {
	tip := len(r.ids) - 1
	switch d.Kind {
	case "chain":
		if d.H < 0 {
			return r.ids[tip]
		}
		return r.ids[d.H%(tip+1)]
	case "unknown":
		id := bytes.Repeat([]byte{d.Fill}, idLen)
		id[28], id[29], id[30], id[31] = byte(d.H>>16), byte(d.H>>8), byte(d.H), 0xA5
		return id
	default:
		if d.H >= 0 {
			base := r.ids[d.H%(tip+1)]
			if d.Len <= idLen {
				return append([]byte{}, base[:d.Len]...)
			}
			return append(append([]byte{}, base...), bytes.Repeat([]byte{d.Fill}, d.Len-idLen)...)
		}
		return bytes.Repeat([]byte{d.Fill}, d.Len)
	}
}

// build returns the request data and the verdict of the documented rule: "ban", "clean" or "unasserted".
func (r *srun) build(q sreq) (data []byte, verdict string, desc string) {
	var ids [][]byte
	var lens []string
	for _, d := range q.IDs {
		id := r.materialise(d)
		ids = append(ids, id)
		if len(lens) < 12 {
			lens = append(lens, fmt.Sprintf("%s:%d", d.Kind, len(id)))
		}
	}
	if len(q.IDs) > 12 {
		lens = append(lens, fmt.Sprintf("... %d IDs", len(q.IDs)))
	}
	desc = fmt.Sprintf("%s %s ids=%v", q.Proc, q.Class, lens)
	switch q.Proc {
	case procGLB:
		if q.Class == "plain" {
			return nil, "clean", desc
		}
		return q.Raw, "unasserted", desc + fmt.Sprintf(" data=%x", q.Raw)
	case procBFI:
		switch q.Class {
		case "nil":
			return nil, "ban", desc
		case "garbage":
			req := &csync.GetBlocksFromIDRequest{}
			desc += fmt.Sprintf(" data=%x", q.Raw)
			if err := req.Decode(q.Raw); err != nil {
				return q.Raw, "ban", desc + " (does not decode)"
			}
			if len(req.ID) != idLen {
				return q.Raw, "ban", desc + fmt.Sprintf(" (decodes to an ID of %d bytes)", len(req.ID))
			}
			return q.Raw, "unasserted", desc + " (read as a well-formed request by the decoder)"
		case "bad-len":
			return (&csync.GetBlocksFromIDRequest{ID: ids[0]}).Encode(), "ban", desc
		default:
			return (&csync.GetBlocksFromIDRequest{ID: ids[0]}).Encode(), "clean", desc
		}
	default:
		switch q.Class {
		case "nil":
			return nil, "ban", desc
		case "empty-list":
			return (&csync.GetHighestCommonBlockRequest{IDs: [][]byte{}}).Encode(), "ban", desc
		case "garbage":
			req := &csync.GetHighestCommonBlockRequest{}
			desc += fmt.Sprintf(" data=%x", q.Raw)
			if err := req.Decode(q.Raw); err != nil {
				return q.Raw, "ban", desc + " (does not decode)"
			}
			if len(req.IDs) == 0 {
				return q.Raw, "ban", desc + " (decodes to an empty list)"
			}
			for _, id := range req.IDs {
				if len(id) != idLen {
					return q.Raw, "ban", desc + fmt.Sprintf(" (decodes to a list with an ID of %d bytes)", len(id))
				}
			}
			return q.Raw, "unasserted", desc + " (read as a well-formed request by the decoder)"
		}
		data = (&csync.GetHighestCommonBlockRequest{IDs: ids}).Encode()
		bad, good := 0, 0
		for _, id := range ids {
			if len(id) == idLen {
				good++
			} else {
				bad++
			}
		}
		if bad > 0 || good == 0 {
			return data, "ban", desc
		}
		return data, "clean", desc
	}
}

// positionLabel: where the first malformed ID of a mixed list sits.
func positionLabel(ids [][]byte) string {
	for i, id := range ids {
		if len(id) != idLen {
			switch {
			case i == 0:
				return "first"
			case i == len(ids)-1:
				return "last"
			default:
				return "middle"
			}
		}
	}
	return "none"
}

func (r *srun) storedScore(p *speer) int {
	sc, _, _ := r.n.Conn.VerifPeerScore(p.ip)
	return sc
}

func (r *srun) listed(p *speer) bool {
	for _, ip := range r.n.Conn.VerifBannedIPs() {
		if canon(ip) == p.ip {
			return true
		}
	}
	return false
}

// cleanCheck: p sent only valid requests (plus the penalties applied on purpose): exact score, connected, not listed;
// and the node never earned a penalty at p.
func (r *srun) cleanCheck(p *speer, what string) string {
	t0 := time.Now()
	sc := r.storedScore(p)
	if v := r.bm.scoreSeen(p.ip, sc, t0, time.Now()); v != "" {
		return fmt.Sprintf("after %s from %s: %s - a valid sync request must never be penalised", what, r.pname(p), v)
	}
	if sc != p.score {
		return fmt.Sprintf("after %s from %s: the node stores score %d for %s, expected %d - a valid sync request must never be penalised", what, r.pname(p), sc, p.ip, p.score)
	}
	if r.listed(p) {
		return fmt.Sprintf("after %s from %s: %s is listed as banned", what, r.pname(p), p.ip)
	}
	if sc, _, _ := p.conn.VerifPeerScore(r.rip); sc != 0 {
		return fmt.Sprintf("after %s: the requester %s stores score %d for the node %s, which only answered", what, r.pname(p), sc, r.rip)
	}
	return ""
}

// one request. Returns a violation text or "".
func (r *srun) request(q sreq, prev *speer, last bool) (string, *speer) {
	p := prev
	if p == nil || p.dead || !q.Reuse {
		var err error
		if p, err = r.newPeer(); err != nil {
			r.res.infra = err.Error()
			return "", nil
		}
		ok, t0, t1, err := r.dialIn(p)
		if !ok {
			if v, _ := r.bm.gate(p.ip, gAccept, false, t0, t1); v != "" {
				return fmt.Sprintf("first connection of %s to the node failed: %s (%v)", r.pname(p), v, err), nil
			}
			r.res.infra = fmt.Sprintf("dial: %v", err)
			return "", nil
		}
		if ok, seen := r.seenAs(p); !ok {
			r.logf("environment: %s is seen by the node as %v; requester dropped", r.pname(p), seen)
			r.counts["sync-env:source-address-fallback"]++
			p.dead = true
			_ = p.conn.Disconnect(r.n.Conn.ID())
			return "", nil
		}
	} else {
		r.counts["sync-requester-reused"]++
	}
	if !r.linked(p) {
		r.logf("%s lost its connection without a penalty; requester dropped", r.pname(p))
		if v := r.cleanCheck(p, "losing the connection"); v != "" {
			return v, nil
		}
		p.dead = true
		return "", nil
	}
	if q.Preload > 0 && p.score+q.Preload < threshold && len(r.n.Conn.VerifRemoteAddrs(p.conn.ID())) == 1 {
		t0 := time.Now()
		r.n.Conn.ApplyPenalty(p.conn.ID(), q.Preload)
		want := p.score + q.Preload
		if !waitFor(3*time.Second, func() bool { return r.storedScore(p) == want }) {
			return fmt.Sprintf("ApplyPenalty(%s,%d): stored score %d, expected %d+%d", r.pname(p), q.Preload, r.storedScore(p), p.score, q.Preload), nil
		}
		r.bm.penalty(p.ip, q.Preload, want, true, t0, time.Now())
		p.score = want
		r.counts["sync-requester-with-partial-score"]++
		r.logf("node applies penalty %d to %s: score %d", q.Preload, r.pname(p), want)
	}
	data, verdict, desc := r.build(q)
	r.counts["sync-req:"+q.Proc+":"+q.Class+":"+verdict]++
	if q.Proc == procHCB && (q.Class == "mixed" || q.Class == "long-one-bad") {
		var ids [][]byte
		for _, d := range q.IDs {
			ids = append(ids, r.materialise(d))
		}
		r.counts["sync-req:"+q.Class+":first-malformed-id-"+positionLabel(ids)]++
		if len(ids[0]) == idLen {
			r.counts["sync-req:"+q.Class+":first-id-well-formed"]++
		}
	}
	for _, d := range q.IDs {
		if d.Kind == "bad" {
			r.counts[fmt.Sprintf("sync-req:malformed-id-len-%d", d.Len)]++
		}
	}
	ctx, cancel := context.WithTimeout(context.Background(), 8*time.Second)
	t0 := time.Now()
	done := make(chan p2p.Response, 1)
	go func() { done <- p.conn.RequestFrom(ctx, r.n.Conn.ID(), q.Proc, data) }()
	var resp p2p.Response
	gaveUp := false
	for waiting := true; waiting; {
		select {
		case resp = <-done:
			waiting = false
		case <-time.After(5 * time.Millisecond):
			// a banned requester gets no answer (the node closes the connection): stop waiting once the ban is stored
			if verdict == "ban" && !gaveUp && r.storedScore(p) >= threshold {
				gaveUp = true
				cancel()
			}
		}
	}
	timedOut := ctx.Err() != nil
	cancel()
	answered := resp.Error() == nil
	r.logf("%s -> node: %s  [rule: %s]  answered=%v %s", r.pname(p), desc, verdict, answered, errText(resp.Error()))
	switch verdict {
	case "clean":
		if !answered {
			if !timedOut {
				// e.g. getBlocksFromId for an unknown ID: the handler answers with an error response
				r.counts["sync-valid-answered-with-error"]++
			} else {
				time.Sleep(300 * time.Millisecond)
				r.counts["sync-valid-unanswered"]++
			}
		} else {
			r.counts["sync-valid-answered"]++
		}
		if v := r.cleanCheck(p, "the valid request "+desc); v != "" {
			return v, p
		}
		if !waitFor(time.Second, func() bool { return r.linked(p) }) {
			// a connection may also be lost for other reasons; only a penalty is the property's business
			if v := r.cleanCheck(p, "the valid request "+desc); v != "" {
				return v, p
			}
			r.logf("%s is no longer connected (no penalty stored)", r.pname(p))
			r.counts["sync-valid-then-disconnected-without-penalty"]++
			p.dead = true
			return "", p
		}
		r.cleans++
		return "", p
	case "unasserted":
		time.Sleep(100 * time.Millisecond)
		if sc := r.storedScore(p); sc != p.score || !r.linked(p) {
			r.counts["sync-unasserted-request-penalised"]++
		}
		p.dead = true // whatever happened is outside the rule; do not build on it
		_ = p.conn.Disconnect(r.n.Conn.ID())
		return "", p
	}
	// verdict ban
	p.dead = true
	prevScore := p.score
	var sc int
	if !waitFor(5*time.Second, func() bool { sc = r.storedScore(p); return sc >= threshold }) {
		return fmt.Sprintf("invalid sync request not penalised: %s sent %s; the handler documents this input as invalid (ban), but the node stores score %d for %s (before %d, threshold %d), request answered=%v, peer still connected=%v",
			r.pname(p), desc, sc, p.ip, prevScore, threshold, answered, r.linked(p)), p
	}
	t1 := time.Now()
	r.bm.penalty(p.ip, sc-prevScore, sc, true, t0, t1)
	st := r.bm.get(p.ip)
	if !st.banned {
		return fmt.Sprintf("harness: model not banned at score %d", sc), p
	}
	r.counts["sync-banned-by:"+q.Proc+":"+q.Class]++
	if prevScore > 0 {
		r.counts["sync-banned-from-partial-score"]++
	}
	lt0 := time.Now()
	if v, _ := r.bm.listed(p.ip, r.listed(p), lt0, time.Now()); v != "" {
		return fmt.Sprintf("after the invalid request %s: %s", desc, v), p
	}
	if !waitFor(3*time.Second, func() bool { return !has(r.n.Conn.ConnectedPeers(), p.conn.ID()) }) {
		return fmt.Sprintf("the node banned %s (invalid request %s, score %d >= %d) but peer %s is still connected 3s later", p.ip, desc, sc, threshold, r.pname(p)), p
	}
	waitFor(3*time.Second, func() bool { return !has(p.conn.ConnectedPeers(), r.n.Conn.ID()) })
	r.counts["sync-disconnected-after-ban"]++
	// inbound attempt from the banned IP
	ok, d0, d1, err := r.dialIn(p)
	zone := st.zone(d0, d1)
	r.logf("re-dial %s -> node: ok=%v zone=%s %s", r.pname(p), ok, zone, errText(err))
	if ok {
		if seenOK, seen := r.seenAs(p); !seenOK {
			r.logf("environment: re-dial came from %v (source-address fallback); not judged", seen)
			r.counts["sync-env:source-address-fallback"]++
			_ = p.conn.Disconnect(r.n.Conn.ID())
			_ = r.n.Conn.Disconnect(p.conn.ID())
			ok = false
			zone = "skipped"
		}
	}
	if zone != "skipped" {
		if v, _ := r.bm.gate(p.ip, gAccept, ok, d0, d1); v != "" && ok {
			return fmt.Sprintf("inbound connection at the node from %s after its invalid request %s: %s", r.pname(p), desc, v), p
		}
		r.counts["sync-redial-in:"+zone]++
		if zone == "must" && !ok {
			r.refused[0] = true
		}
	}
	// outbound attempt of the node towards the banned IP. Connect answers nil at once when a connection to the peer exists
	// (for instance the one the re-dial above opened from a fallback source address), so there must be none before, and
	// an accepted attempt must show as a connection to the peer's own IP afterwards.
	free := waitFor(3*time.Second, func() bool { return len(r.n.Conn.VerifRemoteAddrs(p.conn.ID())) == 0 })
	if !free {
		r.logf("the node still holds a connection to %s (%v); outbound attempt not made", r.pname(p), r.n.Conn.VerifRemoteAddrs(p.conn.ID()))
		r.counts["sync-dial-out:skipped"]++
	}
	if st.banned && free {
		r.n.Conn.VerifClearDialBackoff(p.conn.ID())
		ctx, cancel := context.WithTimeout(context.Background(), 5*time.Second)
		o0 := time.Now()
		err := r.n.Conn.Connect(ctx, *p.info)
		o1 := time.Now()
		cancel()
		zone := st.zone(o0, o1)
		r.logf("node dials %s: ok=%v zone=%s %s", r.pname(p), err == nil, zone, errText(err))
		if err == nil {
			if okSeen, seen := r.seenAs(p); !okSeen {
				r.logf("environment: the node is connected to %s through %v, not through its own dial; not judged", r.pname(p), seen)
				r.counts["sync-dial-out:skipped"]++
				_ = r.n.Conn.Disconnect(p.conn.ID())
				err = fmt.Errorf("not judged")
				zone = "skipped"
			}
		}
		if zone == "skipped" {
			// nothing to feed into the model
		} else if v, _ := r.bm.gate(p.ip, gAddrDial, err == nil, o0, o1); v != "" && err == nil {
			return fmt.Sprintf("outbound connection of the node to %s after its invalid request %s: %s", r.pname(p), desc, v), p
		}
		r.counts["sync-dial-out:"+zone]++
		if zone == "must" && err != nil {
			r.refused[1] = true
		}
		if err == nil {
			_ = r.n.Conn.Disconnect(p.conn.ID())
		}
	}
	r.bans++
	if last && r.s.Cycle {
		return r.cycle(p, desc), p
	}
	if has(p.conn.ConnectedPeers(), r.n.Conn.ID()) {
		_ = p.conn.Disconnect(r.n.Conn.ID())
	}
	return "", p
}

// cycle: the ban of p (short expiry) is awaited; then p is accepted again, served, and its score starts from zero.
func (r *srun) cycle(p *speer, desc string) string {
	st := r.bm.get(p.ip)
	hard := st.upper.Add(10 * r.bm.slack)
	for st.banned {
		v := persists(func() (string, bool) {
			t0 := time.Now()
			return r.bm.listed(p.ip, r.listed(p), t0, time.Now())
		})
		if v != "" {
			return fmt.Sprintf("ban of %s (invalid request %s): %s", p.ip, desc, v)
		}
		if st.banned {
			if time.Now().After(hard) {
				r.res.infra = "await: model did not resolve"
				return ""
			}
			time.Sleep(20 * time.Millisecond)
		}
	}
	r.logf("ban of %s is over", p.ip)
	if r.linked(p) {
		_ = p.conn.Disconnect(r.n.Conn.ID())
		waitFor(3*time.Second, func() bool { return !r.linked(p) })
	}
	ok, d0, d1, err := r.dialIn(p)
	if !ok {
		if v, _ := r.bm.gate(p.ip, gAccept, false, d0, d1); v != "" {
			return fmt.Sprintf("%s dials the node after its ban was seen over: %s (%v)", r.pname(p), v, err)
		}
		r.res.infra = fmt.Sprintf("dial after expiry: %v", err)
		return ""
	}
	if okSeen, _ := r.seenAs(p); !okSeen {
		r.counts["sync-env:source-address-fallback"]++
		return ""
	}
	p.score = 0
	// a valid request is served and leaves the clean score alone
	data := (&csync.GetHighestCommonBlockRequest{IDs: [][]byte{r.ids[0], r.ids[len(r.ids)-1]}}).Encode()
	ctx, cancel := context.WithTimeout(context.Background(), 8*time.Second)
	resp := p.conn.RequestFrom(ctx, r.n.Conn.ID(), procHCB, data)
	cancel()
	r.logf("%s after the ban: valid getHighestCommonBlock answered=%v %s", r.pname(p), resp.Error() == nil, errText(resp.Error()))
	if v := r.cleanCheck(p, "a valid request after the ban expired (the score must restart from zero)"); v != "" {
		return v
	}
	if len(r.n.Conn.VerifRemoteAddrs(p.conn.ID())) == 1 {
		t0 := time.Now()
		r.n.Conn.ApplyPenalty(p.conn.ID(), r.s.AfterK)
		if !waitFor(3*time.Second, func() bool { return r.storedScore(p) == r.s.AfterK }) {
			return fmt.Sprintf("penalty %d for %s after its ban expired: stored score %d, expected %d (clean score)", r.s.AfterK, r.pname(p), r.storedScore(p), r.s.AfterK)
		}
		r.bm.penalty(p.ip, r.s.AfterK, r.s.AfterK, true, t0, time.Now())
		p.score = r.s.AfterK
	}
	r.cycled = true
	r.counts["sync-ban-expired-accepted-again-clean-score"]++
	return ""
}

func runSyncScenario(s sscn, slot int) *seqResult {
	res := &seqResult{labels: map[string]bool{}}
	r := &srun{s: s, slot: slot, res: res, start: time.Now(), counts: map[string]int{}}
	defer r.teardown()
	if err := r.setup(); err != nil {
		res.infra = "setup: " + err.Error()
		return res
	}
	r.logf("sync scenario: node %s with %d blocks, ban expiry %ds (0 = production 24h) sweep %dms, %d requests", r.rip, s.Blocks, s.ExpiryS, s.SweepMs, len(s.Reqs))
	var key strings.Builder
	fmt.Fprintf(&key, "sync|%d|%d|%d|%v|", s.Blocks, s.ExpiryS, s.SweepMs, s.Cycle)
	var prev *speer
	for i, q := range s.Reqs {
		fmt.Fprintf(&key, "%s.%s.%v.%d.%x.%v;", q.Proc, q.Class, q.IDs, q.Preload, q.Raw, q.Reuse)
		v, p := r.request(q, prev, i == len(s.Reqs)-1)
		if v != "" {
			res.violation = v
			return res
		}
		if res.infra != "" {
			return res
		}
		prev = p
	}
	// closing round: every requester that only sent valid requests still has exactly its score
	for _, p := range r.peers {
		if !p.dead {
			if v := r.cleanCheck(p, "the scenario (closing round)"); v != "" {
				res.violation = v
				return res
			}
		}
	}
	res.key = key.String()
	for l, n := range r.counts {
		res.labels[l] = true
		_ = n
	}
	res.counts = r.counts
	// non-trivial: an invalid sync request got its sender banned with a certain refusal in both directions and a valid
	// request left its sender clean in the same scenario, or a full ban life cycle was observed
	res.nontrivial = (r.bans > 0 && r.refused[0] && r.refused[1] && r.cleans > 0) || r.cycled
	return res
}

func runSyncScenarioRobust(s sscn, slot int) *seqResult {
	var first *seqResult
	for attempt := 1; attempt <= 3; attempt++ {
		heartbeat()
		stalls := hbStalls.Load()
		res := runSyncScenario(s, slot)
		if res.violation != "" && hbStalls.Load() != stalls && s.ExpiryS > 0 {
			res.infra = "process stalled during the attempt; observed: " + res.violation
			res.violation = ""
		}
		if res.violation == "" && res.infra == "" {
			if first != nil {
				evid.R.Inconclusive("sync scenario failed on attempt 1 but passed on attempt %d: %s%s", attempt, first.violation, first.infra)
			}
			return res
		}
		if first == nil {
			first = res
		}
		if os.Getenv("VERIF_C18_DEBUG") != "" {
			fmt.Printf("DEBUG sync attempt %d failed: violation=%q infra=%q\n%s\n", attempt, res.violation, res.infra, res.render())
		}
	}
	return first
}

func registerSync(res *seqResult) {
	register("sync", res)
	for l, n := range res.counts {
		evid.R.Label(l+" [requests]", int64(n))
	}
}

// TestSyncRequests: generated request sequences against the real sync handlers of a consensus node.
func TestSyncRequests(t *testing.T) {
	n := 10
	rapid.Check(t, func(rt *rapid.T) {
		scns := rapid.SliceOfN(genSyncScenario(), n, n).Draw(rt, "scenarios")
		results := make([]*seqResult, len(scns))
		var wg sync.WaitGroup
		for i := range scns {
			wg.Add(1)
			go func(i int) {
				defer wg.Done()
				results[i] = runSyncScenarioRobust(scns[i], i)
			}(i)
		}
		wg.Wait()
		var fails []string
		for i, res := range results {
			if res.violation != "" {
				fails = append(fails, fmt.Sprintf("scenario %d: C18 violated (sync requests, 3 attempts): %s\nhistory:\n%s", i, res.violation, res.render()))
			} else if res.infra != "" {
				evid.R.Inconclusive("sync scenario dropped (environment): %s", res.infra)
				evid.R.Label("sync-inconclusive", 1)
			} else {
				registerSync(res)
			}
		}
		if len(fails) > 0 {
			rt.Fatalf("%s", strings.Join(fails, "\n\n"))
		}
	})
}

// TestRegressSyncRequests: fixed request scripts against the real sync handlers (every tier): each invalid shape the
// handlers name - including lists that mix well-formed and malformed block IDs at every position - gets the sender
// banned; the valid shapes never do.
func TestRegressSyncRequests(t *testing.T) {
	good := func(h int) sid { return sid{Kind: "chain", H: h} }
	unk := func(f byte) sid { return sid{Kind: "unknown", Fill: f, H: int(f)} }
	bad := func(l int) sid { return sid{Kind: "bad", Len: l, H: -1, Fill: 0x5c} }
	cut := func(l int) sid { return sid{Kind: "bad", Len: l, H: 1, Fill: 0x5c} }
	hcb := func(class string, ids ...sid) sreq { return sreq{Proc: procHCB, Class: class, IDs: ids, Reuse: true} }
	bfi := func(class string, ids ...sid) sreq { return sreq{Proc: procBFI, Class: class, IDs: ids, Reuse: true} }
	var long []sid
	for i := 0; i < 150; i++ {
		if i%7 == 3 {
			long = append(long, good(i))
		} else {
			long = append(long, sid{Kind: "unknown", Fill: byte(1 + i), H: i})
		}
	}
	scripts := []struct {
		name string
		s    sscn
	}{
		{"valid requests, then a well-formed ID followed by malformed ones (32,31,0)", sscn{Blocks: 3, Reqs: []sreq{
			{Proc: procGLB, Class: "plain", Reuse: true}, hcb("valid-unknown", unk(1), unk(2)), hcb("valid-known", good(0), good(2), good(1)), bfi("valid-known", good(1)), bfi("valid-unknown", unk(9)), bfi("valid-tip", sid{Kind: "chain", H: -1}),
			hcb("valid-long", long...), hcb("mixed", good(1), bad(31), bad(0))}}},
		{"malformed ID first, in the middle, last", sscn{Blocks: 2, Reqs: []sreq{
			hcb("mixed", bad(33), good(0), unk(3)), hcb("valid-dup", good(1), good(1), unk(4), unk(4)), hcb("mixed", good(0), cut(31), good(2)), hcb("mixed", unk(7), good(2), cut(33)), hcb("mixed", good(2), bad(64))}}},
		{"only malformed, none, nil, undecodable", sscn{Blocks: 2, Reqs: []sreq{
			hcb("all-malformed", bad(31)), hcb("empty-list"), hcb("nil"), {Proc: procHCB, Class: "garbage", Raw: []byte{0x0a, 0x20, 1, 2, 3}}, hcb("all-malformed", bad(0), cut(33)),
			bfi("nil"), bfi("bad-len", cut(31)), bfi("bad-len", bad(0)), bfi("bad-len", cut(33)), {Proc: procBFI, Class: "garbage", Raw: []byte{0x0a, 0x20, 1, 2, 3}}}}},
		{"ban life cycle after a mixed request from a partially penalised peer", sscn{Blocks: 4, ExpiryS: 1, SweepMs: 100, Cycle: true, AfterK: 7, Reqs: []sreq{
			hcb("valid-known", good(3)), {Proc: procHCB, Class: "mixed", IDs: []sid{good(3), bad(20), unk(5)}, Reuse: true, Preload: 40}}}},
	}
	results := make([]*seqResult, len(scripts))
	var wg sync.WaitGroup
	for i := range scripts {
		wg.Add(1)
		go func(i int) {
			defer wg.Done()
			s := scripts[i].s
			s.On = true
			results[i] = runSyncScenarioRobust(s, 40+i)
		}(i)
	}
	wg.Wait()
	for i, res := range results {
		if res.violation != "" {
			t.Errorf("C18 violated (sync requests, %s; 3 attempts): %s\nhistory:\n%s", scripts[i].name, res.violation, res.render())
		} else if res.infra != "" {
			evid.R.Inconclusive("regress sync script %q dropped (environment): %s", scripts[i].name, res.infra)
		} else {
			res.key = "regress-sync|" + scripts[i].name
			registerSync(res)
		}
	}
}
