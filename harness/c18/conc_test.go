package c18

// Concurrent traffic around the reset ticks of the rate limiter (flavour "Conc" of the end-to-end scenarios).
//
// One node V applies the drawn per-procedure limits with a short rate-limit interval (300-800 ms). Around every one of
// 3-6 consecutive reset ticks
//   - an offender overruns the limit of one procedure so that its decisive message (number limit+1) arrives right before
//     the tick: rateLimit.checkLimit then holds the lock of that procedure's counter while it penalises (and at the ban
//     threshold disconnects) the offender. In "hold" ticks the harness keeps checkLimit there ACROSS the tick: the logger
//     handed to V is the harness's, and checkLimit calls logger.Debugf("Peer %s sent too many messages ...") with the
//     counter lock held - a goroutine may be delayed at any point, a slow log sink is one way for that to happen. In
//     "free" ticks nothing is held and one or two offenders are merely timed at the estimated tick (natural coincidence
//     of the tick with the penalty/disconnect path, which is measured and reported).
//   - 2-3 innocent peers (own IPs) send legal amounts (50-100 % of every procedure's limit) in EVERY counter window,
//     early in the window, spread over it, late, or straddling the tick.
// Oracle: V never stores a score for an innocent peer's IP (sampled every 3 ms during the whole scenario), never lists
// it, stays connected to it, and every one of its requests is answered.
//
// Which messages may fall into one counter window of V is decided WITHOUT looking at the counters of the innocent peers:
//   - zone start: a tick cannot come earlier than one interval after the previous reset loop finished; the harness knows
//     an instant at which that loop had not finished yet (a sentinel message of peer K was still counted) -> "lower";
//     everything answered before lower+interval-5ms belongs to the old window;
//   - zone end: the sentinel counters of K for ALL procedures read zero (every procedure went through a reset) - or, if
//     that is not seen: the tick has positively fired (some sentinel dropped), no penalising checkLimit is in progress
//     at V (each one that logged has reached the handler) and the process ran >= 20 heartbeats (>= 100 ms) since: the
//     reset loop then had every lock available for that long ("window over by elapsed time", the same kind of rule as in
//     awaitCountersZero; never needed on the unchanged tree, see the label counts);
//   - a message that overlaps a zone is charged to BOTH windows; every window's charge stays <= limit.
// A reset that skips a counter (or is lost) therefore shows as a penalty for an innocent peer whose two adjacent windows
// add up to more than the limit.

import (
	"context"
	"fmt"
	"os"
	"sort"
	"strings"
	"sync"
	"testing"
	"time"

	"github.com/LiskHQ/lisk-engine/pkg/log"
	"github.com/LiskHQ/lisk-engine/pkg/p2p"
	"pgregory.net/rapid"

	"verifharness/evid"
)

type ctick struct {
	Mode    string // hold | free | none
	Proc    int    // procedure whose limit the offender exceeds before this tick
	Off     int    // preferred offender
	Twin    bool   // free: a second offender overruns at the same moment
	LeadMs  int    // hold: the decisive message is sent this long before the estimated tick
	LeadUs  int    // free: ... this many microseconds before it
	ExtraMs int    // hold: released at the latest this long after the estimated tick
}

type cplan struct {
	Pct   []int  // per procedure: share of the limit sent in this window (50-100 %)
	Phase string // early | spread | late | straddle
	Order []byte
}

type cconf struct {
	NInn  int
	NOff  int
	Ticks []ctick
	Plans [][]cplan // [innocent][window]
}

func genConc(t *rapid.T, s *escn) {
	s.Conc = true
	cc := &s.CC
	cc.NInn = rapid.IntRange(2, 3).Draw(t, "innocents")
	cc.NOff = rapid.IntRange(1, 3).Draw(t, "offenders")
	s.N = 2 + cc.NInn + cc.NOff
	perm := rapid.Permutation([]int{2, 3, 4, 5, 6, 7, 8, 9}).Draw(t, "octets")
	s.IPs = append([]int{}, perm[:s.N]...)
	s.Security = rapid.SampledFrom([]string{p2p.ConnectionSecurityNone, p2p.ConnectionSecurityTLS, p2p.ConnectionSecurityNoise}).Draw(t, "security")
	s.ExpiryS = rapid.SampledFrom([]int{1, 2, 2}).Draw(t, "expiryS")
	s.SweepMs = rapid.SampledFrom([]int{50, 100, 200}).Draw(t, "sweepMs")
	s.RateMs = rapid.SampledFrom([]int{300, 500, 500, 800}).Draw(t, "rateMs")
	s.BlackOf, s.DialOnly = -1, -1
	for i := 0; i < len(echoProcs); i++ {
		s.PL = append(s.PL, rapid.IntRange(4, 10).Draw(t, "limitN"))
		s.PP = append(s.PP, rapid.SampledFrom([]int{10, 25, 34, 50, 100, 100}).Draw(t, "penaltyN"))
	}
	s.Limit, s.Penalty = s.PL[0], s.PP[0]
	nTicks := rapid.IntRange(3, 6).Draw(t, "ticks")
	for i := 0; i < nTicks; i++ {
		cc.Ticks = append(cc.Ticks, ctick{
			Mode:    rapid.SampledFrom([]string{"hold", "hold", "hold", "free", "free", "none"}).Draw(t, "tickMode"),
			Proc:    rapid.IntRange(0, len(echoProcs)-1).Draw(t, "tickProc"),
			Off:     rapid.IntRange(0, cc.NOff-1).Draw(t, "tickOffender"),
			Twin:    rapid.Bool().Draw(t, "twin"),
			LeadMs:  rapid.IntRange(5, 60).Draw(t, "leadMs"),
			LeadUs:  rapid.IntRange(0, 3000).Draw(t, "leadUs"),
			ExtraMs: rapid.IntRange(20, 80).Draw(t, "extraMs"),
		})
	}
	for i := 0; i < cc.NInn; i++ {
		var plans []cplan
		for e := 0; e <= nTicks; e++ {
			var p cplan
			pcts, phases := []int{50, 60, 75, 90, 100}, []string{"early", "early", "spread", "late", "straddle"}
			if i == 0 {
				// one peer is steady: more than half of every limit in every window, sent well inside the window
				pcts, phases = []int{60, 75, 90, 100}, []string{"early", "early", "spread"}
			}
			for range echoProcs {
				p.Pct = append(p.Pct, rapid.SampledFrom(pcts).Draw(t, "pct"))
			}
			p.Phase = rapid.SampledFrom(phases).Draw(t, "phase")
			p.Order = rapid.SliceOfN(rapid.Byte(), 16, 16).Draw(t, "order")
			plans = append(plans, p)
		}
		cc.Plans = append(cc.Plans, plans)
	}
}

// ---------------------------------------------------------------------------------------------------------------
// penGate: the logger of node V. rateLimit.checkLimit logs "Peer %s sent too many messages of type %s, applying
// penalty" while it holds the lock of the procedure's counter, right before it applies the penalty. The gate records
// every such call and, when armed for (peer, procedure), keeps the call there until released (bounded).
// ---------------------------------------------------------------------------------------------------------------

const penLogPrefix = "Peer %s sent too many messages"
const holdCap = 2 * time.Second // no hold survives this, whatever the harness does

type penEvent struct {
	peer, proc string
	a          time.Time // Debugf entered: checkLimit holds the counter lock
	rel        time.Time // a deliberate hold was released at this instant (zero: never held)
	b          time.Time // the handler was called for the message: checkLimit has returned (zero: not yet)
	held       bool
}

type penHold struct {
	engaged chan struct{}
	release chan struct{}
	once    sync.Once
	ev      *penEvent
}

func (h *penHold) free() { h.once.Do(func() { close(h.release) }) }

type penGate struct {
	nopLogger
	mu      sync.Mutex
	armed   map[string]*penHold
	holds   []*penHold
	events  []*penEvent
	open    map[string][]*penEvent
	started time.Time // "Rate limiter handler started" was logged (the ticker is created after that)
}

func newPenGate() *penGate {
	return &penGate{armed: map[string]*penHold{}, open: map[string][]*penEvent{}}
}

func (g *penGate) With(...interface{}) log.Logger { return g }

func (g *penGate) Infof(format string, _ ...interface{}) {
	if strings.HasPrefix(format, "Rate limiter handler started") {
		g.mu.Lock()
		g.started = time.Now()
		g.mu.Unlock()
	}
}

func (g *penGate) Debugf(format string, args ...interface{}) {
	if len(args) < 2 || !strings.HasPrefix(format, penLogPrefix) {
		return
	}
	ev := &penEvent{peer: fmt.Sprint(args[0]), proc: fmt.Sprint(args[1]), a: time.Now()}
	key := ev.peer + "|" + ev.proc
	g.mu.Lock()
	g.events = append(g.events, ev)
	g.open[key] = append(g.open[key], ev)
	h := g.armed[key]
	delete(g.armed, key)
	if h != nil {
		ev.held = true
		h.ev = ev
	}
	g.mu.Unlock()
	if h == nil {
		return
	}
	close(h.engaged)
	select {
	case <-h.release:
	case <-time.After(holdCap):
	}
	g.mu.Lock()
	ev.rel = time.Now()
	g.mu.Unlock()
}

// arm: the next penalising checkLimit for (peer, proc) is kept in the logger until the hold is freed.
func (g *penGate) arm(peer, proc string) *penHold {
	h := &penHold{engaged: make(chan struct{}), release: make(chan struct{})}
	g.mu.Lock()
	g.armed[peer+"|"+proc] = h
	g.holds = append(g.holds, h)
	g.mu.Unlock()
	return h
}

// disarm: an armed hold that was not taken is removed; one that was taken is freed.
func (g *penGate) disarm(peer, proc string, h *penHold) {
	g.mu.Lock()
	if g.armed[peer+"|"+proc] == h {
		delete(g.armed, peer+"|"+proc)
	}
	g.mu.Unlock()
	h.free()
}

func (g *penGate) releaseAll() {
	g.mu.Lock()
	g.armed = map[string]*penHold{}
	hs := append([]*penHold{}, g.holds...)
	g.mu.Unlock()
	for _, h := range hs {
		h.free()
	}
}

// served: V's handler runs for a request of (peer, proc): the oldest penalising call for that pair has returned.
func (g *penGate) served(peer, proc string) {
	key := peer + "|" + proc
	g.mu.Lock()
	if q := g.open[key]; len(q) > 0 {
		q[0].b = time.Now()
		g.open[key] = q[1:]
	}
	g.mu.Unlock()
}

// unfinished: penalising checkLimit calls that logged and have not reached the handler yet.
func (g *penGate) unfinished() int {
	g.mu.Lock()
	defer g.mu.Unlock()
	n := 0
	for _, q := range g.open {
		n += len(q)
	}
	return n
}

func (g *penGate) startedAt() time.Time {
	g.mu.Lock()
	defer g.mu.Unlock()
	return g.started
}

func (g *penGate) snapshot() []penEvent {
	g.mu.Lock()
	defer g.mu.Unlock()
	out := make([]penEvent, 0, len(g.events))
	for _, e := range g.events {
		out = append(out, *e)
	}
	return out
}

// ---------------------------------------------------------------------------------------------------------------
// run
// ---------------------------------------------------------------------------------------------------------------

type cinnocent struct {
	mu        sync.Mutex // chg and prim are read by the watcher when it reports
	idx       int
	sentinel  bool                   // peer K: one message per procedure and window, sent by the coordinator
	chg       map[int]map[string]int // window -> procedure -> messages that MAY have been counted in that window (<= limit)
	prim      map[int]map[string]int // window -> procedure -> messages sent while that window was the current one (each once)
	sent      int
	straddled int
	skipped   int
}

type ctickRec struct {
	n             int
	mode          string
	proc          string
	offender      int
	engaged       bool
	a, rel        time.Time // deliberate hold: from / released
	lower, seen   time.Time // the tick fired after lower and at the latest at seen (first sentinel drop)
	insideHold    string    // confirmed | probable | "" (deliberate hold)
	endBy         string    // observed | elapsed
	endAt         time.Time
	launchedAt    time.Time
	est           time.Time
	offenceMissed string
}

type crun struct {
	*erun
	gate     *penGate
	cc       cconf
	interval time.Duration
	V        *enode
	K        *cinnocent
	inn      []*cinnocent
	offs     []int // node indices of the offenders

	ctx     context.Context // cancelled when the scenario stops: requests in flight end at once
	cancel  context.CancelFunc
	mu      sync.Mutex
	epoch   int
	ze      time.Time
	zs1     time.Time // from this instant on a message may be counted after the next reset
	zs2     time.Time // the same for the reset after that (zero: the next tick has not been seen yet)
	stop    bool
	behind  string // the accounting lost track (never judged)
	viol    string
	ticks   []*ctickRec
	bg      sync.WaitGroup
	counts  map[string]int
	offDone map[int]bool // offenders that are banned / gone
}

func (c *crun) count(l string, n int) {
	c.mu.Lock()
	c.counts[l] += n
	c.mu.Unlock()
}

func (c *crun) stopped() bool {
	c.mu.Lock()
	defer c.mu.Unlock()
	return c.stop
}

func (c *crun) fail(v string) {
	c.mu.Lock()
	if c.viol == "" {
		c.viol = v
	}
	c.stop = true
	c.mu.Unlock()
	c.cancel()
}

func (c *crun) lost(why string) {
	c.mu.Lock()
	if c.behind == "" {
		c.behind = why
	}
	c.stop = true
	c.mu.Unlock()
	c.cancel()
}

func (c *crun) rel(t time.Time) string {
	if t.IsZero() {
		return "-"
	}
	return fmt.Sprintf("+%.4fs", t.Sub(c.start).Seconds())
}

// describe: what an innocent peer sent, per window and procedure.
func (c *crun) describe(in *cinnocent) string {
	in.mu.Lock()
	defer in.mu.Unlock()
	var ws []int
	for e := range in.chg {
		ws = append(ws, e)
	}
	sort.Ints(ws)
	var b strings.Builder
	for _, e := range ws {
		fmt.Fprintf(&b, " window %d:", e)
		for _, p := range echoProcs {
			fmt.Fprintf(&b, " %s<=%d(sent in it %d)", p, in.chg[e][p], in.prim[e][p])
		}
		b.WriteString(";")
	}
	return b.String()
}

func (c *crun) describeTicks() string {
	c.mu.Lock()
	defer c.mu.Unlock()
	var b strings.Builder
	for _, t := range c.ticks {
		fmt.Fprintf(&b, "\n    tick %d (%s, %s): fired in (%s, %s]", t.n, t.mode, t.proc, c.rel(t.lower), c.rel(t.seen))
		if t.engaged {
			fmt.Fprintf(&b, "; checkLimit penalising offender N%d held the lock of the %s counter from %s to %s (tick inside the hold: %s)", t.offender, t.proc, c.rel(t.a), c.rel(t.rel), map[string]string{"": "no"}[t.insideHold]+t.insideHold)
		}
		if t.endBy != "" {
			fmt.Fprintf(&b, "; window end %s at %s", t.endBy, c.rel(t.endAt))
		}
	}
	return b.String()
}

// send one well-formed request of an innocent peer to V. The window accounting happens before (budget) and after
// (a slow request may have been counted later than planned) the request.
func (c *crun) send(in *cinnocent, p int, data []byte) {
	proc := echoProcs[p]
	L, _ := c.s.lim(0, proc)
	I := c.nodes[in.idx]
	charge := func(e int) int {
		in.mu.Lock()
		defer in.mu.Unlock()
		if in.chg[e] == nil {
			in.chg[e] = map[string]int{}
		}
		in.chg[e][proc]++
		return in.chg[e][proc]
	}
	charged := func(e int) int {
		in.mu.Lock()
		defer in.mu.Unlock()
		return in.chg[e][proc]
	}
	windows := func(now time.Time) []int {
		w := []int{c.epoch}
		if !now.Before(c.zs1) {
			w = append(w, c.epoch+1)
		}
		if !c.zs2.IsZero() && !now.Before(c.zs2) {
			w = append(w, c.epoch+2)
		}
		return w
	}
	c.mu.Lock()
	if c.stop {
		c.mu.Unlock()
		return
	}
	now := time.Now()
	E := c.epoch
	ws := windows(now)
	for _, e := range ws {
		if charged(e) >= L {
			c.mu.Unlock()
			in.skipped++
			return
		}
	}
	c.mu.Unlock()
	done := map[int]bool{}
	for _, e := range ws {
		charge(e)
		done[e] = true
	}
	in.mu.Lock()
	if in.prim[E] == nil {
		in.prim[E] = map[string]int{}
	}
	in.prim[E][proc]++
	in.mu.Unlock()
	in.sent++
	ctx, cancel := context.WithTimeout(c.ctx, 10*time.Second)
	resp := I.conn.RequestFrom(ctx, c.V.conn.ID(), proc, data)
	t1 := time.Now()
	cancel()
	// the message was counted at some instant between the send and t1: every window that instant can lie in is charged
	c.mu.Lock()
	var more []int
	for e := E + 1; e <= c.epoch; e++ {
		more = append(more, e)
	}
	more = append(more, windows(t1)...)
	c.mu.Unlock()
	for _, e := range more {
		if !done[e] {
			done[e] = true
			if charge(e) > L {
				c.lost(fmt.Sprintf("window accounting of N%d overflowed (%s, window %d)", in.idx, proc, e))
			}
		}
	}
	if len(done) > 1 {
		in.straddled++
	}
	if err := resp.Error(); err != nil {
		if c.stopped() {
			return
		}
		// not served: a violation if V holds a score for the sender, otherwise the environment
		waitBeats(4)
		sc, exp, ok := c.V.conn.VerifPeerScore(I.ip)
		if ok && (sc != 0 || exp != -1) {
			c.fail(fmt.Sprintf("well-formed request %s -> %s %s within the limits was not served and the sender was penalised: %s stores score %d (ban expiration %d) for %s; error: %v", c.name(in.idx), c.name(0), proc, c.name(0), sc, exp, I.ip, err))
			return
		}
		c.lost(fmt.Sprintf("a request of innocent peer N%d was not answered although V stores no score for it: %v", in.idx, err))
	}
}

// innocent: the traffic of one innocent peer: in every window a legal amount of every procedure, in the drawn phase.
func (c *crun) innocent(k int, in *cinnocent) {
	defer c.bg.Done()
	planned := -1
	var queue []int
	var next time.Time
	var gap time.Duration
	seq := 0
	for {
		c.mu.Lock()
		stop, E, zs1 := c.stop, c.epoch, c.zs1
		c.mu.Unlock()
		if stop {
			return
		}
		now := time.Now()
		if E != planned {
			planned = E
			plans := c.cc.Plans[k]
			pl := plans[E%len(plans)]
			var counts []int
			for p, proc := range echoProcs {
				L, _ := c.s.lim(0, proc)
				n := (pl.Pct[p%len(pl.Pct)]*L + 99) / 100
				in.mu.Lock()
				room := L - in.chg[E][proc]
				in.mu.Unlock()
				if n > room {
					n = room
				}
				if n < 0 {
					n = 0
				}
				counts = append(counts, n)
			}
			queue = interleave(counts, pl.Order)
			n := len(queue)
			switch pl.Phase {
			case "spread":
				gap = zs1.Sub(now) / time.Duration(n+1)
				if gap < 0 {
					gap = 0
				}
				next = now.Add(gap)
			case "late":
				gap = time.Millisecond
				next = zs1.Add(-time.Duration(n)*3*time.Millisecond - 5*time.Millisecond)
			case "straddle":
				gap = 4 * time.Millisecond
				next = zs1.Add(-6 * time.Millisecond)
			default:
				gap, next = 0, now
			}
		}
		if len(queue) == 0 {
			time.Sleep(2 * time.Millisecond)
			continue
		}
		if d := next.Sub(now); d > 0 {
			if d > 2*time.Millisecond {
				d = 2 * time.Millisecond
			}
			time.Sleep(d)
			continue
		}
		p := queue[0]
		queue = queue[1:]
		next = next.Add(gap)
		seq++
		c.send(in, p, []byte{byte(seq)})
	}
}

// watch: V must never store anything for the IP of an innocent peer.
func (c *crun) watch() {
	defer c.bg.Done()
	all := append([]*cinnocent{c.K}, c.inn...)
	for {
		if c.stopped() {
			return
		}
		for _, in := range all {
			I := c.nodes[in.idx]
			if sc, exp, ok := c.V.conn.VerifPeerScore(I.ip); ok && (sc != 0 || exp != -1) {
				c.fail(c.penalised(in, sc, exp))
				return
			}
		}
		time.Sleep(3 * time.Millisecond)
	}
}

func (c *crun) penalised(in *cinnocent, sc int, exp int64) string {
	I := c.nodes[in.idx]
	c.mu.Lock()
	E := c.epoch
	c.mu.Unlock()
	return fmt.Sprintf("well-formed traffic within the limits was penalised: %s stores score %d (ban expiration %d) for %s at %s during window %d; %s only sent well-formed requests, at most the limit of each procedure per counter window (limits %v of %v, interval %v; upper bounds per window:%s); reset ticks of %s so far:%s",
		c.name(0), sc, exp, I.ip, c.rel(time.Now()), E, c.name(in.idx), c.s.PL, echoProcs, c.interval, c.describe(in), c.name(0), c.describeTicks())
}

// offenderReady: node x can still offend (connected, not banned at V).
func (c *crun) offenderReady(x int) bool {
	if c.offDone[x] {
		return false
	}
	X := c.nodes[x]
	if _, exp, ok := c.V.conn.VerifPeerScore(X.ip); ok && exp != -1 {
		c.offDone[x] = true
		return false
	}
	if !c.connected(0, x) || !c.connected(x, 0) {
		c.offDone[x] = true
		return false
	}
	return true
}

// fire sends one request of an offender without waiting for it.
func (c *crun) fire(x int, proc string, data []byte) {
	X := c.nodes[x]
	c.bg.Add(1)
	go func() {
		defer c.bg.Done()
		ctx, cancel := context.WithTimeout(c.ctx, 1500*time.Millisecond)
		_ = X.conn.RequestFrom(ctx, c.V.conn.ID(), proc, data)
		cancel()
	}()
}

// fill: offender x sends requests of proc until V counts exactly the limit for it (the next one is over the limit).
func (c *crun) fill(x int, proc string, before time.Time) bool {
	X := c.nodes[x]
	L, _ := c.s.lim(0, proc)
	have := c.V.conn.VerifRateCounter(proc, X.conn.ID())
	for i := have; i < L; i++ {
		if !time.Now().Before(before) || c.stopped() {
			return false
		}
		ctx, cancel := context.WithTimeout(c.ctx, 3*time.Second)
		resp := X.conn.RequestFrom(ctx, c.V.conn.ID(), proc, []byte("fill"))
		cancel()
		if resp.Error() != nil {
			return false
		}
	}
	return time.Now().Before(before) && c.V.conn.VerifRateCounter(proc, X.conn.ID()) == L
}

// coordinate drives the ticks: sentinels, offenders, holds, and the declaration of the window ends.
func (c *crun) coordinate() {
	sentinelOf := func(q int) int { return c.V.conn.VerifRateCounter(echoProcs[q], c.nodes[c.K.idx].conn.ID()) }
	est := c.gate.startedAt().Add(c.interval)
	// single: the previous zone was shorter than an interval and ended with every sentinel seen reset inside it (or there
	// was no tick yet). All those resets then belong to ONE pass of the reset loop, that pass is through with the three
	// procedures, and the next tick is at least one interval after it: no reset can happen between the end of that zone and
	// the start (zs1) of this one. Without it a sentinel only counts as reset inside this zone if it was also seen counted
	// inside it, and nothing is held.
	single := true
	for n := 1; n <= len(c.cc.Ticks) && !c.stopped(); n++ {
		ct := c.cc.Ticks[n-1]
		if !single && ct.Mode == "hold" {
			ct.Mode = "free"
			c.count("conc:hold-tick-degraded-after-a-long-zone", 1)
		}
		placedAgain := false
		rec := &ctickRec{n: n, mode: ct.Mode, proc: echoProcs[ct.Proc%len(echoProcs)], offender: -1, est: est}
		c.mu.Lock()
		c.ticks = append(c.ticks, rec)
		zs1 := c.zs1
		c.mu.Unlock()
		// (A) sentinels: K has one message of every procedure counted at V. A sentinel counts as reset INSIDE this zone only
		// if it was seen counted at or after the start of the zone (zs1) and reads zero later; one that reads zero without
		// that is placed again (and the zone lasts until it drops).
		lastNZ := map[int]time.Time{}
		armed := map[int]bool{}
		lastTry := map[int]time.Time{}
		place := func(q int) {
			if now := time.Now(); now.Sub(lastTry[q]) >= 2*time.Millisecond {
				lastTry[q] = now
				c.send(c.K, q, []byte("sentinel"))
			}
		}
		for q := range echoProcs {
			t := time.Now()
			if sentinelOf(q) > 0 {
				armed[q], lastNZ[q] = true, t
				continue
			}
			place(q)
		}
		if c.stopped() {
			return
		}
		// (B) the offence: limit messages now, the decisive one right before the estimated tick
		P := ct.Proc % len(echoProcs)
		proc := echoProcs[P]
		var offenders []int
		var launchAt time.Time
		var hold *penHold
		if ct.Mode != "none" {
			lead := time.Duration(ct.LeadMs) * time.Millisecond
			if ct.Mode == "free" {
				lead = time.Duration(ct.LeadUs) * time.Microsecond
			}
			launchAt = est.Add(-lead)
			want := 1
			if ct.Mode == "free" && ct.Twin {
				want = 2
			}
			for j := 0; j < len(c.offs) && len(offenders) < want; j++ {
				x := c.offs[(ct.Off+j)%len(c.offs)]
				if !c.offenderReady(x) {
					continue
				}
				if c.fill(x, proc, launchAt.Add(-2*time.Millisecond)) {
					offenders = append(offenders, x)
				} else {
					c.count("conc:offence-not-prepared-in-time", 1)
					break
				}
			}
			if len(offenders) == 0 {
				rec.offenceMissed = "no offender ready"
				if ct.Mode == "hold" {
					c.count("conc:hold-tick-without-offender", 1)
				}
			} else {
				c.mu.Lock()
				rec.offender = offenders[0]
				c.mu.Unlock()
				if ct.Mode == "hold" {
					hold = c.gate.arm(c.nodes[offenders[0]].conn.ID().String(), proc)
				}
			}
		}
		// (C) the tick
		dropped := map[int]bool{}
		var firstDrop, lower, betaFrom time.Time
		var betaBeats int64
		launched, holding, released := false, false, false
		maxHold := c.interval / 2
		if maxHold > 300*time.Millisecond {
			maxHold = 300 * time.Millisecond
		}
		loopStart := time.Now()
		for {
			now := time.Now()
			if c.stopped() {
				break
			}
			if len(offenders) > 0 && !launched && !now.Before(launchAt) {
				launched = true
				rec.launchedAt = now
				for _, x := range offenders {
					c.fire(x, proc, []byte("over"))
				}
			}
			if hold != nil && !holding && !released {
				select {
				case <-hold.engaged:
					holding = true
					c.gate.mu.Lock()
					a := hold.ev.a
					c.gate.mu.Unlock()
					c.mu.Lock()
					rec.a, rec.engaged = a, true
					c.mu.Unlock()
				default:
				}
			}
			if hold != nil && launched && !holding && !released && (now.Sub(rec.launchedAt) > 40*time.Millisecond || (!firstDrop.IsZero() && now.Sub(firstDrop) > 5*time.Millisecond)) {
				// the decisive message did not run into the limit (it was counted after the tick, or it is late): give up the hold
				c.gate.disarm(c.nodes[offenders[0]].conn.ID().String(), proc, hold)
				released = true
			}
			// from the launch until the hold is over this goroutine does not touch the counter of P (reading it takes its lock)
			skipP := hold != nil && launched && !released
			for q := range echoProcs {
				if dropped[q] || (skipP && q == P) {
					continue
				}
				t := time.Now()
				if sentinelOf(q) != 0 {
					armed[q], lastNZ[q] = true, t
					continue
				}
				if !armed[q] || t.Before(zs1) || (!single && lastNZ[q].Before(zs1)) {
					// zero, but not known to have been reset inside this zone
					if armed[q] && !t.Before(zs1) {
						c.count("conc:sentinel-placed-again-inside-a-zone", 1)
						placedAgain = true
					}
					armed[q] = false
					place(q)
					continue
				}
				dropped[q] = true
				if firstDrop.IsZero() {
					firstDrop, lower = time.Now(), lastNZ[q]
					c.mu.Lock()
					rec.lower, rec.seen = lower, firstDrop
					c.zs2 = lower.Add(c.interval - 5*time.Millisecond)
					c.mu.Unlock()
				}
			}
			if holding && (!firstDrop.IsZero() || !now.Before(est.Add(time.Duration(ct.ExtraMs)*time.Millisecond)) || now.Sub(rec.a) >= maxHold) {
				inside := ""
				if !firstDrop.IsZero() && lower.After(rec.a) {
					inside = "confirmed" // another procedure's counter was reset while the lock of this one was held
				}
				hold.free()
				holding, released = false, true
				c.mu.Lock()
				rec.rel, rec.insideHold = time.Now(), inside
				c.mu.Unlock()
			}
			all := true
			for q := range echoProcs {
				if !dropped[q] {
					all = false
				}
			}
			if all && !firstDrop.IsZero() {
				c.mu.Lock()
				rec.endBy = "observed"
				c.mu.Unlock()
				break
			}
			if !firstDrop.IsZero() && !holding && c.gate.unfinished() == 0 {
				if betaFrom.IsZero() {
					betaFrom, betaBeats = now, hbBeats.Load()
				} else if hbBeats.Load()-betaBeats >= 20 && now.Sub(betaFrom) >= 100*time.Millisecond {
					c.mu.Lock()
					rec.endBy = "elapsed"
					c.mu.Unlock()
					break
				}
			} else {
				betaFrom = time.Time{}
			}
			if now.Sub(loopStart) > 10*time.Second+c.interval {
				c.lost("no reset tick observed within 10 s")
				break
			}
			if now.Before(zs1.Add(-3*time.Millisecond)) && (launchAt.IsZero() || launched || now.Before(launchAt.Add(-3*time.Millisecond))) {
				time.Sleep(time.Millisecond)
			} else {
				time.Sleep(150 * time.Microsecond)
			}
		}
		if hold != nil {
			c.gate.disarm(c.nodes[offenders[0]].conn.ID().String(), proc, hold)
			if !rec.engaged && launched {
				rec.offenceMissed = "the decisive message was not over the limit when it was counted"
			}
		}
		if c.stopped() {
			return
		}
		// (D) the window is over
		end := time.Now()
		if rec.engaged && rec.insideHold == "" && !firstDrop.IsZero() && firstDrop.Sub(rec.rel) < 2*time.Millisecond && !rec.rel.Before(est) {
			rec.insideHold = "probable" // the resets became visible the moment the hold ended
		}
		single = rec.endBy == "observed" && !placedAgain && end.Sub(zs1) < c.interval-10*time.Millisecond
		c.mu.Lock()
		rec.endAt = end
		c.epoch++
		c.ze = end
		c.zs1, c.zs2 = c.zs2, time.Time{}
		c.mu.Unlock()
		est = firstDrop.Add(c.interval)
		if rec.engaged && rec.rel.After(firstDrop) {
			est = rec.rel.Add(c.interval)
		}
		c.logf("tick %d (%s %s, offenders %v): estimated %s, decisive message sent %s, hold %s..%s (inside: %q), tick fired in (%s, %s], window end %s at %s%s",
			n, ct.Mode, proc, offenders, c.rel(rec.est), c.rel(rec.launchedAt), c.rel(rec.a), c.rel(rec.rel), rec.insideHold, c.rel(lower), c.rel(firstDrop), rec.endBy, c.rel(end),
			map[bool]string{true: "; " + rec.offenceMissed, false: ""}[rec.offenceMissed != ""])
	}
}

func runConcScenario(s escn) *seqResult {
	res := &seqResult{labels: map[string]bool{}, counts: map[string]int{}}
	gate := newPenGate()
	er := &erun{s: s, start: time.Now(), res: res}
	er.loggerFor = func(i int) log.Logger {
		if i == 0 {
			return gate
		}
		return nopLogger{}
	}
	er.onServe = func(i int, req *p2p.Request) {
		if i == 0 {
			gate.served(req.PeerID.String(), req.Procedure)
		}
	}
	defer er.teardown()
	defer gate.releaseAll()
	beforeStart := time.Now()
	if err := er.setup(); err != nil {
		res.infra = "setup: " + err.Error()
		return res
	}
	er.started = time.Now()
	cc := s.CC
	c := &crun{erun: er, gate: gate, cc: cc, interval: s.rateInterval(), V: er.nodes[0], counts: map[string]int{}, offDone: map[int]bool{}}
	c.ctx, c.cancel = context.WithCancel(context.Background())
	defer c.cancel()
	c.K = &cinnocent{idx: 1, sentinel: true, chg: map[int]map[string]int{}, prim: map[int]map[string]int{}}
	for i := 0; i < cc.NInn; i++ {
		c.inn = append(c.inn, &cinnocent{idx: 2 + i, chg: map[int]map[string]int{}, prim: map[int]map[string]int{}})
	}
	for i := 0; i < cc.NOff; i++ {
		c.offs = append(c.offs, 2+cc.NInn+i)
	}
	var ips []string
	for _, n := range er.nodes {
		ips = append(ips, n.ip)
	}
	er.logf("scenario concurrent traffic around reset ticks: V=%s, sentinel peer %s, innocent peers %v, offenders %v; security=%s expiry=%ds; procedures %v limits %v penalties %v at V (everybody else: generous limits, 1 h interval); rate-limit interval of V %v; %d ticks",
		er.name(0), er.name(1), ips[2:2+cc.NInn], ips[2+cc.NInn:], s.Security, s.ExpiryS, echoProcs, s.PL, s.PP, c.interval, len(cc.Ticks))
	res.labels["e2e-concurrent-around-reset-ticks"] = true
	res.labels[fmt.Sprintf("e2e-rate-interval:%v", c.interval)] = true
	started := gate.startedAt()
	if started.IsZero() || started.Before(beforeStart) {
		res.infra = "the start of V's rate limiter was not seen in its log"
		return res
	}
	// the first tick cannot come before (handler started) + interval
	c.zs1 = started.Add(c.interval - 5*time.Millisecond)
	c.ze = started
	// everybody connects to V
	for i := 1; i < s.N; i++ {
		if v := er.dial(i, 0, "conc: connect"); v != "" {
			res.violation = v
			return res
		}
		if res.infra != "" {
			return res
		}
		if !er.connected(0, i) {
			res.infra = "connection to V not established"
			return res
		}
	}
	heartbeat()
	c.bg.Add(1)
	go c.watch()
	for k, in := range c.inn {
		c.bg.Add(1)
		go c.innocent(k, in)
	}
	c.coordinate()
	c.mu.Lock()
	c.stop = true
	c.mu.Unlock()
	gate.releaseAll()
	c.cancel()
	c.bg.Wait()
	// closing observations
	if c.viol == "" && c.behind == "" {
		time.Sleep(30 * time.Millisecond)
		banned := er.nodes[0].conn.VerifBannedIPs()
		for _, in := range append([]*cinnocent{c.K}, c.inn...) {
			I := er.nodes[in.idx]
			if sc, exp, ok := c.V.conn.VerifPeerScore(I.ip); ok && (sc != 0 || exp != -1) {
				c.viol = c.penalised(in, sc, exp)
				break
			}
			for _, ip := range banned {
				if canon(ip) == I.ip {
					c.viol = fmt.Sprintf("listBannedPeers of %s contains %s, the IP of innocent peer %s", er.name(0), ip, er.name(in.idx))
				}
			}
			if c.viol == "" && (!er.connected(0, in.idx) || !er.connected(in.idx, 0)) {
				c.behind = fmt.Sprintf("innocent peer %s lost its connection to V although V stores no score for it", er.name(in.idx))
			}
		}
	}
	// what happened
	evs := gate.snapshot()
	var key strings.Builder
	fmt.Fprintf(&key, "conc|%v|%s|%d|%d|%v|%v|%d|%+v", ips, s.Security, s.ExpiryS, s.SweepMs, s.PL, s.PP, s.RateMs, cc)
	nontrivial := false
	for _, t := range c.ticks {
		if t.seen.IsZero() {
			continue
		}
		c.counts["conc:reset-ticks-observed"]++
		c.counts["conc:tick-mode:"+t.mode]++
		switch t.endBy {
		case "observed":
			c.counts["conc:window-end-by-direct-observation-of-all-counters"]++
		case "elapsed":
			c.counts["conc:window-end-by-elapsed-time-only"]++
		}
		coincided := false
		if t.engaged {
			c.counts["conc:checkLimit-held-in-the-logger-with-the-counter-locked"]++
			switch t.insideHold {
			case "confirmed":
				c.counts["conc:tick-while-counter-lock-held:deliberate-hold,confirmed"]++
				coincided = true
			case "probable":
				c.counts["conc:tick-while-counter-lock-held:deliberate-hold,probable"]++
				coincided = true
			default:
				c.counts["conc:deliberate-hold-missed-the-tick"]++
			}
		} else if t.mode == "hold" {
			c.counts["conc:hold-not-engaged"]++
		}
		// natural coincidence (estimate): the tick fired in (lower, seen]; a penalising checkLimit that was not held by the
		// harness had the lock from a until (at the latest) b
		for _, e := range evs {
			if e.held || e.b.IsZero() {
				continue
			}
			if e.a.Before(t.seen) && e.b.After(t.lower) {
				c.counts["conc:tick-possibly-while-counter-lock-held:natural-penalty-path(estimate)"]++
				coincided = true
				break
			}
		}
		if coincided {
			// sensitivity: an innocent peer whose two windows around this tick add up to more than the limit of that procedure
			L, _ := s.lim(0, t.proc)
			for _, in := range c.inn {
				if in.prim[t.n-1][t.proc]+in.prim[t.n][t.proc] > L {
					c.counts["conc:innocent-with-adjacent-windows-above-the-limit-around-a-coinciding-tick"]++
					nontrivial = true
				}
			}
		}
	}
	for _, e := range evs {
		c.counts["conc:penalising-checkLimit-calls"]++
		if e.held || e.b.IsZero() {
			continue
		}
		d := e.b.Sub(e.a)
		switch {
		case d < 100*time.Microsecond:
			c.counts["conc:natural-penalty-path-under-the-lock:<100us"]++
		case d < time.Millisecond:
			c.counts["conc:natural-penalty-path-under-the-lock:<1ms"]++
		case d < 10*time.Millisecond:
			c.counts["conc:natural-penalty-path-under-the-lock:<10ms"]++
		default:
			c.counts["conc:natural-penalty-path-under-the-lock:>=10ms"]++
		}
	}
	for _, in := range c.inn {
		c.counts["conc:innocent-requests"] += in.sent
		c.counts["conc:innocent-requests-charged-to-two-windows(straddling-a-tick)"] += in.straddled
		full := 0
		for e, m := range in.prim {
			_ = e
			for p, n := range m {
				if L, _ := s.lim(0, p); n == L {
					full++
				}
			}
		}
		c.counts["conc:innocent-window-filled-exactly-to-the-limit"] += full
	}
	for x := range c.offDone {
		_ = x
		c.counts["conc:offender-banned-or-gone"]++
	}
	for l, n := range c.counts {
		if n > 0 {
			res.labels[l] = true
		}
		res.counts[l] += n
	}
	for _, in := range append([]*cinnocent{c.K}, c.inn...) {
		er.logf("%s (innocent%s): %d requests, %d charged to two windows, %d skipped; per window:%s", er.name(in.idx), map[bool]string{true: ", sentinel"}[in.sentinel], in.sent, in.straddled, in.skipped, c.describe(in))
	}
	for _, e := range evs {
		er.logf("penalising checkLimit at V: peer %s.. %s, lock held from %s (deliberately until %s) to at most %s", e.peer[len(e.peer)-6:], e.proc, c.rel(e.a), c.rel(e.rel), c.rel(e.b))
	}
	switch {
	case c.viol != "":
		res.violation = c.viol
	case c.behind != "":
		res.infra = c.behind
	}
	res.nontrivial = nontrivial
	res.key = key.String()
	return res
}

// registerCounts adds the per-scenario counters of a scenario to the label histogram.
func registerCounts(res *seqResult) {
	for l, n := range res.counts {
		evid.R.Label(l+" [count]", int64(n))
	}
}

// TestConcOnly: diagnostic run of this flavour alone (VERIF_C18_CONC_ONLY=1; not part of any tier): 8 generated
// scenarios in parallel per rapid case, same judgement as TestE2E.
func TestConcOnly(t *testing.T) {
	if os.Getenv("VERIF_C18_CONC_ONLY") == "" {
		t.Skip("diagnostic; set VERIF_C18_CONC_ONLY=1")
	}
	gen := rapid.Custom(func(t *rapid.T) escn {
		s := escn{On: true}
		genConc(t, &s)
		return s
	})
	rapid.Check(t, func(rt *rapid.T) {
		runE2EBatch(rt, rapid.SliceOfN(gen, 8, 8).Draw(rt, "scenarios"))
	})
}
