// Package c18: property C18 — peer penalties accumulate into bans that are enforced and expire.
//
// (a) gater_test.go: the real connectionGater (built through the verif hook exactly like newPeer builds it) driven by
//     generated operation sequences against the ban model below (tolerance windows, wall time is real);
// (b) e2e_test.go: started p2p.Connections on distinct loopback IPs, misbehaving and legal traffic, then the ban
//     consequences (score, disconnect, dials in both directions, expiry);
//     three rate-limited procedures with their own limits (legal mixes over all of them across counter resets, one
//     procedure over its limit right after an observed reset); multiconn_test.go: a peer with 2-3 simultaneous
//     connections (after a ban none may remain); conc_test.go: concurrent traffic around the reset ticks;
//     late_test.go: honest but slow responders - well-formed, solicited responses that arrive after the requester's
//     timeout, retries or cancellation must leave every score at zero; hitrun_test.go: "hit-and-run" offenders that
//     close stream and connection right after the offending message - the offence is booked for the IP although the
//     peer has left (ordering forced through the victim's logger), re-dials refused for the ban, admitted afterwards;
//     size_test.go: large honest messages - well-formed requests and responses with payloads of 0 B .. 3 MiB in both
//     directions (nodes and the raw multi-connection peer) are delivered intact and leave every score at zero;
// (c) sync_test.go: generated valid and invalid sync requests against the real consensus/sync handlers of a harness
//     consensus node (an invalid request gets the sender banned, a valid one never changes its score).
package c18

import (
	"fmt"
	"net/netip"
	"os"
	"strconv"
	"strings"
	"sync"
	"sync/atomic"
	"testing"
	"time"

	"github.com/LiskHQ/lisk-engine/pkg/log"
	"github.com/LiskHQ/lisk-engine/pkg/p2p"

	"verifharness/evid"
)

func TestMain(m *testing.M) {
	pinProtocolConstants()
	evid.Main(m, "C18")
}

// threshold is read from the engine (MaxPenaltyScore) for convenience and pinned to the documented protocol value by
// pinProtocolConstants, so that a changed constant fails every run instead of moving the oracle with it.
const threshold = p2p.VerifMaxPenaltyScore

// Documented protocol values: ban score 100 (pkg/p2p/conngater.go "MaxPenaltyScore = 100 // When a peer exceeded the
// MaxPenaltyScore, it should be banned"; the Lisk P2P protocol bans at a penalty total of 100), 3 retries of a request
// = 4 attempts (pkg/p2p/message_protocol.go "messageMaxRetries = 3"; late_test.go takes its attempt budget from it).
const (
	documentedMaxPenaltyScore = 100
	documentedMaxRetries      = 3
)

// pinProtocolConstants runs before anything else in every process of this package (every tier, every shard).
func pinProtocolConstants() {
	bad := ""
	if p2p.VerifMaxPenaltyScore != documentedMaxPenaltyScore {
		bad += fmt.Sprintf("\n    p2p.MaxPenaltyScore = %d, documented ban threshold %d", p2p.VerifMaxPenaltyScore, documentedMaxPenaltyScore)
	}
	if p2p.VerifMaxRetries() != documentedMaxRetries {
		bad += fmt.Sprintf("\n    p2p.messageMaxRetries = %d, documented %d (= %d attempts per request)", p2p.VerifMaxRetries(), documentedMaxRetries, documentedMaxRetries+1)
	}
	if bad != "" {
		fmt.Printf("--- FAIL: TestMain (C18): an engine constant that the oracles of this package read through the verif accessors differs from the documented protocol value:%s\n"+
			"    (ban threshold and retry budget are part of the statement: a changed constant is a violation, not a new expectation)\nFAIL\n", bad)
		os.Exit(1)
	}
}

// nopLogger: log.NewSilentLogger still prints error lines.
type nopLogger struct{}

func (nopLogger) Debug(string, ...interface{})    {}
func (nopLogger) Info(string, ...interface{})     {}
func (nopLogger) Error(string, ...interface{})    {}
func (nopLogger) Debugf(string, ...interface{})   {}
func (nopLogger) Infof(string, ...interface{})    {}
func (nopLogger) Errorf(string, ...interface{})   {}
func (nopLogger) Warning(string, ...interface{})  {}
func (nopLogger) Warningf(string, ...interface{}) {}
func (l nopLogger) With(...interface{}) log.Logger { return l }

// slack is the scheduling allowance added to every "must be over by now" bound. Generous on purpose: the sweep loop of
// the gater is a goroutine of the process under test and may be delayed on a loaded machine.
func slack() time.Duration {
	if s := os.Getenv("VERIF_C18_SLACK_MS"); s != "" {
		if v, err := strconv.Atoi(s); err == nil && v > 0 {
			return time.Duration(v) * time.Millisecond
		}
	}
	return 3 * time.Second
}

// ---------------------------------------------------------------------------------------------------------------
// Process heartbeat. The sweep loop of the gater and the stream handlers are goroutines of this process; when the
// machine is overloaded they are delayed together with everything else here. Waiting is therefore measured in
// heartbeats of a goroutine of this process (one beat >= 5 ms of wall time *and* one scheduling round), and a verdict
// of the form "should have happened by now" is only final if it persists while the process demonstrably runs.
// ---------------------------------------------------------------------------------------------------------------

var (
	hbOnce   sync.Once
	hbBeats  atomic.Int64
	hbStalls atomic.Int64 // beats that took more than 250 ms
)

func heartbeat() {
	hbOnce.Do(func() {
		go func() {
			for {
				t := time.Now()
				time.Sleep(5 * time.Millisecond)
				if time.Since(t) > 250*time.Millisecond {
					hbStalls.Add(1)
				}
				hbBeats.Add(1)
			}
		}()
	})
}

func waitBeats(n int64) {
	heartbeat()
	start := hbBeats.Load()
	for hbBeats.Load()-start < n {
		time.Sleep(5 * time.Millisecond)
	}
}

// persists re-runs an observation whose failure is of the "should be over by now" kind: check returns the violation
// text and whether it is of that kind. Such a failure counts only if it is still there after >= 600 further beats
// (>= 3 s during which this process was scheduled 600 times).
func persists(check func() (string, bool)) string {
	v, soft := check()
	if v == "" || !soft {
		return v
	}
	heartbeat()
	start := hbBeats.Load()
	for hbBeats.Load()-start < 600 {
		waitBeats(10)
		v, soft = check()
		if v == "" || !soft {
			return v
		}
	}
	return v + " [re-checked over 600 process heartbeats]"
}

// canon returns the canonical identity of an IP: IPv4-mapped IPv6 addresses are the IPv4 address.
func canon(ip string) string {
	a, err := netip.ParseAddr(ip)
	if err != nil {
		return "invalid:" + ip
	}
	return a.Unmap().WithZone("").String()
}

// ---------------------------------------------------------------------------------------------------------------
// Ban model with tolerance windows.
//
// score(ip) = sum of penalties since the last expiry. When a penalty call makes it reach the threshold the IP is
// banned: every gate query that *finishes* before mustEnd = (start of that call) + expiry must refuse; every query that
// *starts* after upper = (end of the last penalty call made while banned) + expiry + 1 s + sweep + slack must accept
// (1 s: the engine keeps expiry times in whole unix seconds); in between either answer is allowed, but the first
// "accepted" observation ends the ban for good (monotone) and the score restarts from zero.
// ---------------------------------------------------------------------------------------------------------------

type ipState struct {
	score   int
	banned  bool
	mustEnd time.Time
	upper   time.Time
	// statistics for the non-trivial rule
	crossedByAccum bool
	qDuringBan     bool
	qAfterExpiry   bool
	everBanned     bool
	expiries       int
	full           bool // some ban was entered by accumulation, queried while certain, and seen over afterwards
	cycle          bool // some ban was queried while certain and seen over afterwards
}

type banModel struct {
	expiry, sweep, slack time.Duration
	st                   map[string]*ipState
	black                map[string]bool
}

func newBanModel(expiry, sweep time.Duration, blacklist []string) *banModel {
	m := &banModel{expiry: expiry, sweep: sweep, slack: slack(), st: map[string]*ipState{}, black: map[string]bool{}}
	for _, b := range blacklist {
		m.black[canon(b)] = true
	}
	return m
}

func (m *banModel) get(ip string) *ipState {
	s, ok := m.st[ip]
	if !ok {
		s = &ipState{}
		m.st[ip] = s
	}
	return s
}

func (m *banModel) upperAfter(t1 time.Time) time.Time {
	return t1.Add(m.expiry + time.Second + m.sweep + m.slack)
}

func (m *banModel) expire(s *ipState) {
	s.banned = false
	s.score = 0
	s.expiries++
}

func (s *ipState) sawAfterExpiry() {
	s.qAfterExpiry = true
	if s.qDuringBan {
		s.cycle = true
		if s.crossedByAccum {
			s.full = true
		}
	}
}

// zone of a banned IP for an observation made in [t0,t1]: "must" (still banned), "free" (ban certainly over), "maybe".
func (s *ipState) zone(t0, t1 time.Time) string {
	if !s.banned {
		return "clean"
	}
	if t1.Before(s.mustEnd) {
		return "must"
	}
	if t0.After(s.upper) {
		return "free"
	}
	return "maybe"
}

// penalty records an addPenalty(ip, amount) call that ran in [t0,t1] and returned ret. known=false means the return value
// was not observed (end-to-end paths). It returns a violation text or "".
func (m *banModel) penalty(ip string, amount int, ret int, known bool, t0, t1 time.Time) string {
	s := m.get(ip)
	switch s.zone(t0, t1) {
	case "must":
		// still banned: the statement says nothing about the score of a banned IP; the engine renews the ban.
		s.upper = maxTime(s.upper, m.upperAfter(t1))
		return ""
	case "maybe", "free":
		// "free" is not asserted here (a late sweep is judged by the gate queries, which can be re-checked): the
		// return value tells whether the old entry was still there.
		if known && ret == amount {
			m.expire(s) // the entry had been swept: this is a fresh score
		} else {
			s.upper = maxTime(s.upper, m.upperAfter(t1))
			return ""
		}
	}
	prev := s.score
	want := s.score + amount
	if known && ret != want {
		return fmt.Sprintf("addPenalty(%s,%d) returned %d, model score %d+%d=%d (penalties must accumulate per IP from a clean score)", ip, amount, ret, s.score, amount, want)
	}
	s.score = want
	if want >= threshold {
		s.banned = true
		s.everBanned = true
		s.mustEnd = t0.Add(m.expiry)
		s.upper = m.upperAfter(t1)
		s.crossedByAccum = prev > 0 && amount < threshold
		s.qDuringBan, s.qAfterExpiry = false, false
	}
	return ""
}

// Gate kinds.
const (
	gPeerDial = iota
	gAddrDial
	gAccept
	gSecuredIn
	gSecuredOut
	nGates
)

var gateName = [...]string{"InterceptPeerDial", "InterceptAddrDial", "InterceptAccept", "InterceptSecured(in)", "InterceptSecured(out)"}

// ipGate: gates that see the IP and that the statement's "every inbound and outbound attempt is refused" relies on
// (DESIGN §4 C18: InterceptAddrDial for outbound, InterceptAccept and InterceptSecured(inbound) for inbound).
func ipGate(g int) bool { return g == gAddrDial || g == gAccept || g == gSecuredIn }

// gate records the answer of one gate for ip observed in [t0,t1]; returns a violation text or "".
func (m *banModel) gate(ip string, g int, allowed bool, t0, t1 time.Time) (string, bool) {
	s := m.get(ip)
	if m.black[ip] {
		if ipGate(g) && allowed {
			return fmt.Sprintf("%s accepted blacklisted IP %s", gateName[g], ip), false
		}
		return "", false
	}
	switch s.zone(t0, t1) {
	case "clean":
		if !allowed {
			return fmt.Sprintf("%s refused %s which is neither banned (model score %d < %d) nor blacklisted", gateName[g], ip, s.score, threshold), false
		}
		if s.everBanned && ipGate(g) {
			s.sawAfterExpiry()
		}
	case "must":
		if ipGate(g) {
			if allowed {
				return fmt.Sprintf("%s accepted banned IP %s %.3fs before the ban may end (score %d >= %d)", gateName[g], ip, s.mustEnd.Sub(t1).Seconds(), s.score, threshold), false
			}
			s.qDuringBan = true
		}
	case "free":
		if ipGate(g) && !allowed {
			return fmt.Sprintf("%s still refuses %s %.3fs after the latest time the ban may last (expiry %v + 1s + sweep %v + slack %v)", gateName[g], ip, t0.Sub(s.upper).Seconds(), m.expiry, m.sweep, m.slack), true
		}
		if ipGate(g) {
			m.expire(s)
			s.sawAfterExpiry()
		}
	case "maybe":
		if ipGate(g) && allowed {
			m.expire(s)
			s.sawAfterExpiry()
		}
	}
	return "", false
}

// listed records whether ip appeared in listBannedPeers observed in [t0,t1].
func (m *banModel) listed(ip string, present bool, t0, t1 time.Time) (string, bool) {
	s := m.get(ip)
	switch s.zone(t0, t1) {
	case "clean":
		if present {
			return fmt.Sprintf("listBannedPeers contains %s which is not banned (model score %d)", ip, s.score), false
		}
	case "must":
		if !present {
			return fmt.Sprintf("listBannedPeers lacks banned IP %s", ip), false
		}
	case "free":
		if present {
			return fmt.Sprintf("listBannedPeers still contains %s %.3fs after the latest time the ban may last", ip, t0.Sub(s.upper).Seconds()), true
		}
		m.expire(s)
	case "maybe":
		if !present {
			m.expire(s)
		}
	}
	return "", false
}

// scoreSeen compares a score lookup (absent = 0) made in [t0,t1] with the model; only asserted when the IP is certainly
// not banned.
func (m *banModel) scoreSeen(ip string, score int, t0, t1 time.Time) string {
	s := m.get(ip)
	if s.zone(t0, t1) != "clean" {
		return ""
	}
	if score != s.score {
		return fmt.Sprintf("stored score of %s is %d, model %d (sum of penalties since the last expiry)", ip, score, s.score)
	}
	return ""
}

func maxTime(a, b time.Time) time.Time {
	if a.After(b) {
		return a
	}
	return b
}

// ---------------------------------------------------------------------------------------------------------------
// address forms
// ---------------------------------------------------------------------------------------------------------------

var peerIDs = []string{
	"",
	"QmYyQSo1c1Ym7orWxLYvCrM2EmxFTANf8wXmmE7DWjhx5N",
	"12D3KooWGQTQuV6JfgpKpc847NMsxaFnKXDEpkN5kbeH1REW41BR",
	"12D3KooWB4J4mraN1nAB9Ge5w8JrzGRKDQ3iGyDyHZdbMWDtYg3R",
}

// ipPool: distinct IPs; several differ in one character or are look-alikes of each other.
var ipPool = []string{
	"10.0.0.1", "10.0.0.10", "10.0.1.1", "1.2.3.4", "203.0.113.7", "127.0.0.1", "192.168.1.1",
	"::1", "2001:db8::1", "2001:db8::10", "2001:db8:0:1::1", "fe80::1", "::102:304", "64:ff9b::102:304",
}

const nForms = 6

// addrForm renders a multiaddress for the canonical ip in one of nForms spellings; port and peer ID vary freely.
func addrForm(ip string, form, port, pid int) string {
	a := netip.MustParseAddr(ip)
	var base string
	if a.Is4() {
		b := a.As4()
		switch form % nForms {
		case 0, 1:
			base = "/ip4/" + ip
		case 2:
			base = "/ip6/::ffff:" + ip
		case 3:
			base = fmt.Sprintf("/ip6/::ffff:%02x%02x:%02x%02x", b[0], b[1], b[2], b[3])
		case 4:
			base = "/ip6/0:0:0:0:0:ffff:" + ip
		case 5:
			base = fmt.Sprintf("/ip6/0000:0000:0000:0000:0000:FFFF:%02X%02X:%02X%02X", b[0], b[1], b[2], b[3])
		}
	} else {
		switch form % nForms {
		case 0, 1, 2:
			base = "/ip6/" + ip
		case 3, 4:
			base = "/ip6/" + a.StringExpanded()
		case 5:
			base = "/ip6/" + strings.ToUpper(a.StringExpanded())
		}
	}
	if form%2 == 0 {
		base += fmt.Sprintf("/tcp/%d", port)
	} else {
		base += fmt.Sprintf("/udp/%d/quic-v1", port)
	}
	if p := peerIDs[pid%len(peerIDs)]; p != "" {
		base += "/p2p/" + p
	}
	return base
}

func isMappedForm(ip string, form int) bool {
	return netip.MustParseAddr(ip).Is4() && form%nForms >= 2
}

// blacklistForm renders an IP as it could be written in Config.BlacklistedIPs.
func blacklistForm(ip string, form int) string {
	a := netip.MustParseAddr(ip)
	if a.Is4() {
		if form%3 == 1 {
			return "::ffff:" + ip
		}
		return ip
	}
	if form%3 == 1 {
		return a.StringExpanded()
	}
	return ip
}
