package c18

// LARGE HONEST MESSAGES (flavour "Size" of the end-to-end scenarios, plus sized payloads of the single well-formed
// requests of the general scenarios).
//
// "Well-formed traffic within the limits never leads to penalties." Well-formed says nothing about SIZE: a request or a
// response envelope that decodes, names a registered procedure and stays below every rate limit is honest traffic at
// 5 bytes and at 3 MiB (a getBlocksFromId answer with ~100 full blocks is about 1.5 MiB). Until this file every honest
// payload of the package was a few bytes long, so a node that reads only the first N bytes of a stream, fails to decode
// the truncated envelope and books the "malformed envelope" ban for the honest sender went unnoticed.
//
// Size classes of the PAYLOAD (the envelope adds the request ID, the procedure name and the field headers, ~50 bytes):
// 0, 1 KiB, 64 KiB, 1 MiB-64, 1 MiB-1, 1 MiB, 1 MiB+1, 1.5 MiB, 3 MiB. Neither the unchanged engine (io.ReadAll on the
// stream) nor libp2p (yamux streams, no message framing) has a size limit of its own: established on the unchanged tree
// by TestRegressLargeHonestMessages (all classes delivered intact in both directions, every score 0).
//
// Scenarios: 2-3 started p2p.Connections (own IPs / two responders on one IP / a dial-only peer seen as 127.0.0.1 /
// everybody on ::1) or a node plus the raw libp2p peer of multiconn_test.go with 2-3 simultaneous connections (requests
// and answers over connections of its choice). Every exchange = one well-formed request with a payload of a drawn class
// answered by a well-formed response with a payload of an independently drawn class (the echo handlers answer what the
// scenario tells them: hook erun.answer); every scenario has at least one large response to a small request and one
// large request, directions drawn; legal mixes over the three procedures, re-dials and drains in between. Limits 60-100
// per procedure, rate interval 1 h, response timeout 2 min (no re-sends): all traffic is within the limits whatever the
// timing.
//
// Oracle: (1) every node stores NO score and no ban for any IP of the scenario and for 127.0.0.1 / ::1 - read after every
// exchange, sampled every 5 ms through the whole scenario (also while a transfer is in flight: a banned requester would
// wait for an answer that cannot come), read again after the traffic has drained; a stored score is positive evidence
// (seqResult.hard), reported at its first occurrence; (2) the handler received exactly the bytes that were sent, once,
// and the requester got exactly the bytes the handler wrote; (3) afterwards everybody is still connected, a re-dial
// passes the gates, a further request is served. (2) and (3) follow the 3-attempt / stall rule of runScenarioRobust.

import (
	"bytes"
	"context"
	"encoding/binary"
	"errors"
	"fmt"
	"io"
	"os"
	"strings"
	"sync"
	"testing"
	"time"

	"github.com/LiskHQ/lisk-engine/pkg/p2p"
	"github.com/libp2p/go-libp2p/core/network"
	"pgregory.net/rapid"

	"verifharness/evid"
)

type sizeClass struct {
	name string
	n    int
}

var sizeClasses = []sizeClass{{"0", 0}, {"1KiB", 1 << 10}, {"64KiB", 64 << 10}, {"1MiB-64", 1<<20 - 64}, {"1MiB-1", 1<<20 - 1},
	{"1MiB", 1 << 20}, {"1MiB+1", 1<<20 + 1}, {"1.5MiB", 3 << 19}, {"3MiB", 3 << 20}}

const (
	sizeSmallTo   = 2 // classes 0..2 are small
	sizeLargeFrom = 3 // classes from 1 MiB-64 on are large
)

// sizedPayload: n bytes of a reproducible pseudo-random pattern (a truncated, shifted or repeated delivery differs).
func sizedPayload(seed uint64, n int) []byte {
	b := make([]byte, n+8)
	x := seed*0x9E3779B97F4A7C15 + 0x1234567
	for i := 0; i < n; i += 8 {
		x ^= x << 13
		x ^= x >> 7
		x ^= x << 17
		binary.LittleEndian.PutUint64(b[i:], x)
	}
	return b[:n:n]
}

// genReqSize: size class of a single well-formed request of the general scenarios (0: the usual 5 bytes).
func genReqSize(t *rapid.T) int {
	return rapid.SampledFrom([]int{0, 0, 0, 7, 0, 4, 8, 0, 1, 6, 0, 2, 5, 3}).Draw(t, "reqSize")
}

// sizedRequest (general scenarios, event "req"): the well-formed request carries a payload of the drawn class, the echo
// handler returns it. Rate-limit model, in-flight watcher and score comparison are those of every request.
func (r *erun) sizedRequest(a, b int, proc string, class int) string {
	c := sizeClasses[class%len(sizeClasses)]
	r.seq++
	data := sizedPayload(uint64(r.seq)<<8|uint64(class), c.n)
	r.logf("request %s -> %s %s with a payload of %d bytes (class %s; the handler echoes it)", r.name(a), r.name(b), proc, c.n, c.name)
	r.res.labels["sized-request:"+c.name] = true
	r.lastResp, r.lastOK = nil, false
	if v := r.request(a, b, proc, data); v != "" || r.res.infra != "" {
		return v
	}
	if r.lastOK {
		if !bytes.Equal(r.lastResp, data) {
			return fmt.Sprintf("well-formed request %s -> %s %s with a payload of %d bytes: the echoed response carries %d bytes that differ from the request (nobody was penalised: the message was not delivered intact)",
				r.name(a), r.name(b), proc, len(data), len(r.lastResp))
		}
		r.res.labels["sized-request-served-intact:"+c.name] = true
	}
	return ""
}

// sxch: one exchange. Nodes by index; in the multi variant 0 = the node, 1 = the raw peer.
type sxch struct {
	From, To int
	Proc     int
	Req      int // size class of the request payload
	Resp     int // size class of the response payload
	Via      int // multi: connection of the peer that carries its message (its request / its answer); -1: its first connection / the connection the request came in on
}

type sev struct {
	Kind string // xchg | legal | dial | settle | peerreq
	X    sxch
	E    eev
}

type sconf struct {
	Variant string // plain | shared | dialonly | v6 | multi
	NConn   int
	VFirst  bool
	Events  []sev
}

func genSize(t *rapid.T, s *escn) {
	s.Size = true
	zc := &s.SZ
	s.BlackOf, s.DialOnly = -1, -1
	s.Security = rapid.SampledFrom([]string{p2p.ConnectionSecurityNone, p2p.ConnectionSecurityTLS, p2p.ConnectionSecurityNoise}).Draw(t, "security")
	s.ExpiryS = rapid.SampledFrom([]int{3600, 3600, 3600, 2, 1}).Draw(t, "expiryS")
	s.SweepMs = rapid.SampledFrom([]int{50, 100, 200}).Draw(t, "sweepMs")
	for i := 0; i < len(echoProcs); i++ {
		s.PL = append(s.PL, rapid.IntRange(60, 100).Draw(t, "limitN"))
		s.PP = append(s.PP, rapid.SampledFrom([]int{10, 25, 50, 100}).Draw(t, "penaltyN"))
	}
	s.Limit, s.Penalty = s.PL[0], s.PP[0]
	zc.Variant = rapid.SampledFrom([]string{"plain", "multi", "shared", "dialonly", "v6", "plain", "multi"}).Draw(t, "sizeVariant")
	perm := rapid.Permutation([]int{2, 3, 4, 5, 6, 7, 8, 9}).Draw(t, "octets")
	s.N = 2
	switch zc.Variant {
	case "shared":
		s.N = 3
		s.IPs = append([]int{}, perm[:3]...)
		s.Shared, s.Group = true, []int{1, 2}
		s.IPs[2] = s.IPs[1]
	case "dialonly":
		s.IPs = append([]int{}, perm[:2]...)
		s.DialOnly = 1
	case "v6":
		s.V6 = true
		s.IPs = append([]int{}, perm[:2]...)
	case "multi":
		s.N = 1
		s.IPs = []int{perm[0]}
		s.V6 = rapid.IntRange(0, 4).Draw(t, "v6") == 0
		zc.NConn = rapid.SampledFrom([]int{2, 2, 3}).Draw(t, "nConn")
		zc.VFirst = rapid.IntRange(0, 2).Draw(t, "nodeDialsFirst") == 0
	default:
		s.IPs = append([]int{}, perm[:2]...)
	}
	peers := s.N - 1
	if zc.Variant == "multi" {
		peers = 1
	}
	small := func() int { return rapid.IntRange(0, sizeSmallTo).Draw(t, "small") }
	large := func() int {
		return rapid.SampledFrom([]int{7, 4, 6, 8, 5, 3}).Draw(t, "large")
	}
	anyClass := func() int { return rapid.SampledFrom([]int{1, 7, 0, 4, 2, 6, 8, 5, 3}).Draw(t, "class") }
	xchg := func(req, resp int) sev {
		x := sxch{From: 0, To: 1 + rapid.IntRange(0, peers-1).Draw(t, "peer"), Proc: rapid.IntRange(0, len(echoProcs)-1).Draw(t, "proc"), Req: req, Resp: resp, Via: -1}
		if rapid.Bool().Draw(t, "reverse") {
			x.From, x.To = x.To, x.From
		}
		if zc.Variant == "multi" {
			x.Via = rapid.IntRange(-1, zc.NConn-1).Draw(t, "via")
		}
		return sev{Kind: "xchg", X: x}
	}
	// always: a large response to a small request and a large request (directions drawn), then a few of any class
	evs := []sev{xchg(small(), large()), xchg(large(), anyClass())}
	if rapid.Bool().Draw(t, "largeRequestFirst") {
		evs[0], evs[1] = evs[1], evs[0]
	}
	for i := rapid.IntRange(1, 4).Draw(t, "nMore"); i > 0; i-- {
		evs = append(evs, xchg(anyClass(), anyClass()))
	}
	for i, e := range evs {
		zc.Events = append(zc.Events, e)
		if i == len(evs)-1 {
			break
		}
		switch rapid.IntRange(0, 7).Draw(t, "between") {
		case 0, 1:
			if zc.Variant == "multi" {
				zc.Events = append(zc.Events, sev{Kind: "peerreq", E: eev{From: rapid.IntRange(0, zc.NConn-1).Draw(t, "peerVia"), Proc: rapid.IntRange(0, len(echoProcs)-1).Draw(t, "peerProc")}})
				break
			}
			le := eev{Kind: rapid.SampledFrom([]string{"mix", "mix", "req"}).Draw(t, "legalKind"), From: 0, To: 1 + rapid.IntRange(0, peers-1).Draw(t, "legalPeer"), Burst: "within",
				Extra: rapid.IntRange(0, 3).Draw(t, "extra"), Proc: rapid.IntRange(0, len(echoProcs)-1).Draw(t, "proc"), Bytes: rapid.SliceOfN(rapid.Byte(), 24, 24).Draw(t, "order")}
			if rapid.Bool().Draw(t, "legalReverse") {
				le.From, le.To = le.To, le.From
			}
			zc.Events = append(zc.Events, sev{Kind: "legal", E: le})
		case 2:
			zc.Events = append(zc.Events, sev{Kind: "settle"})
		case 3:
			if zc.Variant != "multi" {
				de := eev{Kind: "dial", From: 0, To: 1 + rapid.IntRange(0, peers-1).Draw(t, "dialPeer")}
				if rapid.Bool().Draw(t, "dialReverse") {
					de.From, de.To = de.To, de.From
				}
				zc.Events = append(zc.Events, sev{Kind: "dial", E: de})
			}
		}
	}
}

// ---------------------------------------------------------------------------------------------------------------

// zx: one exchange at run time.
type zx struct {
	n        int
	x        sxch
	proc     string
	req, rsp []byte
	arrived  int // handler invocations for this exchange
	gotLen   int
	reqOK    bool
	outcome  string
	ms       float64
}

// zrun reuses the bookkeeping of the late-response scenarios (lrun: score sampling, watcher, drain detection through
// arrived/served and the nodes' message counters); verdicts and texts are its own.
type zrun struct {
	*lrun
	cur  *zx
	all  []*zx
	wait map[string]chan []byte // multi: ID of a request of the peer -> payload of the response
	sid  int64
}

func (c *zx) String() string {
	return fmt.Sprintf("#%d N%d -> N%d %s: request payload %d B (%s), response payload %d B (%s): %s", c.n, c.x.From, c.x.To, c.proc, len(c.req), sizeClasses[c.x.Req].name, len(c.rsp), sizeClasses[c.x.Resp].name, c.outcome)
}

func (z *zrun) traffic() string {
	z.mu.Lock()
	defer z.mu.Unlock()
	var xs []string
	for _, c := range z.all {
		xs = append(xs, c.String())
	}
	return fmt.Sprintf("%d exchange(s) of one well-formed request and one well-formed response each [%s]; %d further small requests of legal mixes; every procedure stays below its limit %v",
		len(z.all), strings.Join(xs, "; "), z.legalN, z.s.PL)
}

// check: no score, no ban anywhere (positive evidence when there is one).
func (z *zrun) check(when string) string {
	v := z.sample()
	if v == "" {
		v = z.sawScore()
	}
	if v == "" {
		return ""
	}
	z.res.hard = true
	return fmt.Sprintf("honest peer penalised: %s %s, although all traffic of the scenario was well-formed, solicited and within the limits - only large (%s)", v, when, z.traffic())
}

func (z *zrun) fail(v string) {
	if z.res.violation == "" {
		z.res.violation = v
		if z.sawScore() != "" || z.sample() != "" {
			z.res.hard = true
		}
	}
}

func (z *zrun) link(a, b int) (bool, string) {
	if z.m != nil {
		if n := z.m.nconns(); n != z.s.SZ.NConn {
			z.res.infra = fmt.Sprintf("environment: %d connections to the multi-connection peer instead of %d", n, z.s.SZ.NConn)
			return false, ""
		}
		return true, ""
	}
	return z.ensureConnected(a, b)
}

// answer: hook of the echo handlers of the real nodes.
func (z *zrun) answer(at int, req *p2p.Request) ([]byte, bool) {
	z.mu.Lock()
	defer z.mu.Unlock()
	c := z.cur
	if c == nil || c.x.To != at || c.proc != req.Procedure {
		return nil, false
	}
	if from, ok := z.idx[req.PeerID.String()]; !ok || from != c.x.From {
		return nil, false
	}
	c.arrived++
	c.gotLen = len(req.Data)
	c.reqOK = bytes.Equal(req.Data, c.req)
	return c.rsp, true
}

// await waits for the outcome of a transfer while the 5 ms watcher keeps reading the scores: as soon as somebody stored
// a score no answer can be expected (a ban closes the connection) and stop() ends the wait.
func (z *zrun) await(done <-chan struct{}, stop func()) {
	tick := time.NewTicker(5 * time.Millisecond)
	defer tick.Stop()
	stopped := false
	for {
		select {
		case <-done:
			return
		case <-tick.C:
			if !stopped && z.sawScore() != "" {
				stopped = true
				stop()
			}
		}
	}
}

const sizeTransferTimeout = 90 * time.Second

// nodeRequests: a started p2p.Connection sends the request of exchange c (to a node or to the raw peer).
func (z *zrun) nodeRequests(c *zx) ([]byte, error) {
	A := z.nodes[c.x.From]
	ctx, cancel := context.WithTimeout(context.Background(), sizeTransferTimeout)
	defer cancel()
	var resp p2p.Response
	done := make(chan struct{})
	go func() {
		defer close(done)
		resp = A.conn.RequestFrom(ctx, z.pid(c.x.To), c.proc, c.req)
	}()
	z.await(done, cancel)
	if err := resp.Error(); err != nil {
		return nil, err
	}
	return resp.Data(), nil
}

// peerRequests (multi): the raw peer sends the request of exchange c over one of its connections and collects the
// response at whichever of its hosts the node answers to.
func (z *zrun) peerRequests(c *zx) ([]byte, error) {
	mp := z.m.mp
	id := fmt.Sprintf("c18-size-%d-%d", z.sid, c.n)
	ch := make(chan []byte, 1)
	z.mu.Lock()
	z.wait[id] = ch
	z.mu.Unlock()
	via := 0
	if c.x.Via >= 0 {
		via = c.x.Via % z.s.SZ.NConn
	}
	if err := mp.send(via, z.m.info.ID, true, encodeEnvelope(id, c.proc, c.req, "", false)); err != nil {
		return nil, fmt.Errorf("the peer could not send its request over connection %d: %w", via, err)
	}
	var got []byte
	var err error
	done := make(chan struct{})
	stop := make(chan struct{})
	go func() {
		defer close(done)
		select {
		case got = <-ch:
		case <-stop:
			err = errors.New("no response (a score was stored meanwhile)")
		case <-time.After(sizeTransferTimeout):
			err = errors.New("no response within " + sizeTransferTimeout.String())
		}
	}()
	z.await(done, func() { close(stop) })
	return got, err
}

func (z *zrun) exchange(x sxch) string {
	a, b := x.From, x.To
	if a >= len(z.nodes) || b >= len(z.nodes) || a == b || a < 0 || b < 0 {
		return ""
	}
	x.Req, x.Resp = x.Req%len(sizeClasses), x.Resp%len(sizeClasses)
	ok, v := z.link(a, b)
	if v != "" || z.res.infra != "" {
		return v
	}
	if !ok {
		z.res.infra = fmt.Sprintf("%s and %s cannot connect although nobody is banned", z.name(a), z.name(b))
		return ""
	}
	proc := echoProcs[x.Proc%len(echoProcs)]
	if z.room(a, b, proc) < 1 {
		z.res.counts["size:exchange-skipped-(would-not-fit-below-the-limit)"]++
		return ""
	}
	z.charge(a, b, proc, 1)
	z.mu.Lock()
	c := &zx{n: len(z.all) + 1, x: x, proc: proc, outcome: "in flight"}
	seed := uint64(z.sid)<<10 | uint64(c.n)<<1
	c.req = sizedPayload(seed, sizeClasses[x.Req].n)
	c.rsp = sizedPayload(seed|1, sizeClasses[x.Resp].n)
	z.cur = c
	z.all = append(z.all, c)
	z.mu.Unlock()
	t0 := time.Now()
	var got []byte
	var err error
	if z.m != nil && a == 1 {
		got, err = z.peerRequests(c)
	} else {
		got, err = z.nodeRequests(c)
	}
	z.mu.Lock()
	z.cur = nil
	c.ms = time.Since(t0).Seconds() * 1000
	arrived, reqOK, gotLen := c.arrived, c.reqOK, c.gotLen
	switch {
	case err != nil:
		c.outcome = "NOT answered (" + errText(err) + ")"
	case arrived != 1 || !reqOK:
		c.outcome = fmt.Sprintf("request NOT delivered intact (handler ran %d time(s), last saw %d bytes)", arrived, gotLen)
	case !bytes.Equal(got, c.rsp):
		c.outcome = fmt.Sprintf("response NOT delivered intact (requester got %d bytes)", len(got))
	default:
		c.outcome = "both delivered intact"
	}
	z.mu.Unlock()
	z.logf("exchange %s after %.1f ms", c.String(), c.ms)
	if v := z.check(fmt.Sprintf("after exchange #%d (%s -> %s %s, request payload %d bytes, response payload %d bytes: %s)", c.n, z.name(a), z.name(b), proc, len(c.req), len(c.rsp), c.outcome)); v != "" {
		return v
	}
	if err != nil {
		waitBeats(20)
		if v := z.check(fmt.Sprintf("after exchange #%d stayed unanswered", c.n)); v != "" {
			return v
		}
		z.res.infra = fmt.Sprintf("exchange %s", c.String())
		return ""
	}
	if c.outcome != "both delivered intact" {
		return fmt.Sprintf("large well-formed message not delivered intact although nobody was penalised: exchange %s [sent request %d bytes, handler invocations %d, handler saw %d bytes (equal=%v); handler wrote %d bytes, requester received %d bytes (equal=%v)]",
			c.String(), len(c.req), arrived, gotLen, reqOK, len(c.rsp), len(got), bytes.Equal(got, c.rsp))
	}
	rq, rs := sizeClasses[x.Req], sizeClasses[x.Resp]
	z.res.counts["size:exchanges-delivered-intact"]++
	z.res.counts["size:request-payload:"+rq.name]++
	z.res.counts["size:response-payload:"+rs.name]++
	dir := "node0-requests"
	if a != 0 {
		dir = "peer-requests"
	}
	if x.Req >= sizeLargeFrom {
		z.res.labels["size:large-request:"+dir] = true
	}
	if x.Resp >= sizeLargeFrom {
		z.res.labels["size:large-response:"+dir] = true
	}
	if x.Req <= sizeSmallTo && x.Resp >= sizeLargeFrom {
		z.res.labels["size:large-response-to-a-small-request"] = true
	}
	// envelope = payload + ID (36) + procedure + field headers: payloads from 1 MiB-1 on make envelopes above 1 MiB
	if rq.n+40 > 1<<20 {
		z.res.counts["size:request-envelope-above-1MiB"]++
	}
	if rs.n+40 > 1<<20 {
		z.res.counts["size:response-envelope-above-1MiB"]++
	}
	if z.m != nil && x.Via >= 0 {
		z.res.labels["size:multi-connection-peer-uses-a-chosen-connection"] = true
	}
	return ""
}

func (z *zrun) settle(when string) string {
	ok := waitFor(5*time.Second, func() bool {
		if !z.quiet() {
			return false
		}
		waitBeats(3)
		return z.quiet()
	})
	if !ok {
		z.res.counts["size:drain-not-observed-within-5s"]++
		z.logf("settle (%s): the traffic was NOT seen drained within 5 s; scores are read anyway", when)
	}
	waitBeats(4)
	return z.check("after the traffic had drained (" + when + ")")
}

func (z *zrun) event(ev sev) string {
	switch ev.Kind {
	case "xchg":
		return z.exchange(ev.X)
	case "settle":
		return z.settle("scenario event")
	case "legal":
		if z.m != nil {
			return ""
		}
		e := ev.E
		if e.From >= len(z.nodes) || e.To >= len(z.nodes) || e.From == e.To {
			return ""
		}
		if e.Kind == "req" && z.headroom(e.From, e.To, echoProcs[e.Proc%len(echoProcs)]) < 1 {
			return ""
		}
		e.Burst, e.Size = "within", 0
		before := 0
		for _, X := range z.real() {
			for _, p := range echoProcs {
				for _, n := range X.cnt[p] {
					before += n
				}
			}
		}
		v := z.runEvent(e)
		for _, X := range z.real() {
			for _, p := range echoProcs {
				for _, n := range X.cnt[p] {
					before -= n
				}
			}
		}
		z.legalN += -before / 2
		z.res.labels["size:mixed-with-legal-traffic:"+e.Kind] = true
		if v != "" || z.res.infra != "" {
			return v
		}
		return z.check("after legal traffic " + z.name(e.From) + " -> " + z.name(e.To))
	case "dial":
		if z.m != nil {
			return ""
		}
		e := ev.E
		if e.From >= len(z.nodes) || e.To >= len(z.nodes) || e.From == e.To {
			return ""
		}
		if v := z.settle("before a re-dial"); v != "" {
			return v
		}
		z.res.labels["size:re-dial-between-exchanges"] = true
		if v := z.dial(e.From, e.To, "size: re-dial of honest peers"); v != "" || z.res.infra != "" {
			return v
		}
		return z.check("after a re-dial")
	case "peerreq":
		if z.m == nil {
			return ""
		}
		n := z.s.SZ.NConn
		proc := echoProcs[ev.E.Proc%len(echoProcs)]
		if L, _ := z.s.lim(0, proc); z.nodes[0].cnt[proc][1] >= L {
			return ""
		}
		if ok, _ := z.link(0, 1); !ok {
			return ""
		}
		z.logf("small well-formed %s request of the peer over connection %d", proc, ev.E.From%n)
		z.res.labels["size:mixed-with-legal-traffic:requests-of-the-multi-connection-peer"] = true
		z.legalN++
		if v := z.m.wellFormed(ev.E.From%n, proc, []byte("peer"), n); v != "" || z.res.infra != "" {
			return v
		}
		return z.check("after a small request of the peer")
	}
	return ""
}

// finish: drained, no score, everybody connected, gates open, served.
func (z *zrun) finish() string {
	if v := z.settle("end of the scenario"); v != "" {
		return v
	}
	if z.m != nil {
		m, n := z.m, z.s.SZ.NConn
		if m.nconns() != n {
			z.res.infra = fmt.Sprintf("the multi-connection peer holds %d of its %d connections at the end although no score is stored for it", m.nconns(), n)
			return ""
		}
		if v := m.attempt(n-1, "after large honest messages"); v != "" || z.res.infra != "" {
			return v
		}
		if m.nconns() != n {
			z.res.infra = "the re-dial of the multi-connection peer did not restore its connection"
			return ""
		}
		if L, _ := z.s.lim(0, procEcho); z.nodes[0].cnt[procEcho][1] < L {
			z.legalN++
			if v := m.wellFormed(n-1, procEcho, []byte("after"), n); v != "" || z.res.infra != "" {
				return v
			}
		}
		z.res.labels["size:gates-admit-the-peer-afterwards"] = true
		return z.check("at the end")
	}
	for j := 1; j < len(z.nodes); j++ {
		if !z.connected(0, j) || !z.connected(j, 0) {
			z.res.infra = fmt.Sprintf("%s and %s are not connected at the end although no score is stored", z.name(0), z.name(j))
			return ""
		}
	}
	for j := 1; j < len(z.nodes); j++ {
		a, b := 0, j
		if j%2 == 0 {
			a, b = j, 0
		}
		if v := z.dial(a, b, "size: gates after large honest messages"); v != "" || z.res.infra != "" {
			return v
		}
		if ok, v := z.ensureConnected(0, j); v != "" || z.res.infra != "" {
			return v
		} else if !ok {
			z.res.infra = "could not reconnect honest peers at the end"
			return ""
		}
		if z.headroom(0, j, procEcho) >= 1 {
			z.legalN++
			if v := z.request(0, j, procEcho, []byte("after")); v != "" || z.res.infra != "" {
				return v
			}
		}
		z.res.labels["size:gates-admit-the-peer-afterwards"] = true
	}
	return z.check("at the end")
}

var sizeSeq int64
var sizeMu sync.Mutex

func runSizeScenario(s escn) *seqResult {
	res := &seqResult{labels: map[string]bool{}, counts: map[string]int{}}
	er := &erun{s: s, start: time.Now(), res: res}
	l := &lrun{erun: er, toks: map[uint32]*ltok{}, idx: map[string]int{}, arrived: map[lkey]int{}, served: map[lkey]int{}, lateIP: map[string]int{},
		stopW: make(chan struct{}), doneW: make(chan struct{})}
	z := &zrun{lrun: l, wait: map[string]chan []byte{}}
	sizeMu.Lock()
	sizeSeq++
	z.sid = sizeSeq
	sizeMu.Unlock()
	er.onServe = func(i int, req *p2p.Request) { l.serve(i, req.PeerID.String(), req.Procedure, req.Data) }
	er.answer = z.answer
	defer er.teardown()
	if err := er.setup(); err != nil {
		res.infra = "setup: " + err.Error()
		return res
	}
	er.started = time.Now()
	zc := s.SZ
	for _, X := range er.nodes {
		X.conn.VerifSetResponseTimeout(2 * time.Minute) // generous: no re-send of a large request on a loaded machine
	}
	if zc.Variant == "multi" {
		mp, err := newMPeer(fmt.Sprintf("c18-size-%d-%d", evid.Seed(), z.sid), s.V6, s.Security)
		if err != nil {
			res.infra = "setup of the multi-connection peer: " + err.Error()
			return res
		}
		defer mp.close()
		V := er.nodes[0]
		P := &enode{idx: 1, ip: mp.ip, bm: newBanModel(time.Duration(s.ExpiryS)*time.Second, time.Duration(s.SweepMs)*time.Millisecond, nil),
			cnt: map[string]map[int]int{}, cause: map[int]string{}, banBy: map[string]int{}, contrib: map[string]map[int]bool{}}
		er.nodes = append(er.nodes, P)
		er.mp = mp
		l.m = &mrun{erun: er, V: V, P: P, mp: mp, info: V.info}
		for hi, h := range mp.hosts {
			hi := hi
			// the raw peer is an honest responder: a well-formed response under the request's ID with the payload the
			// scenario prescribes, over the connection the request came in on or over a chosen one
			h.SetStreamHandler(mp.reqID, func(st network.Stream) {
				buf, err := io.ReadAll(st)
				st.Close()
				if err != nil {
					return
				}
				var q p2p.Request
				if q.Decode(buf) != nil {
					return
				}
				from := st.Conn().RemotePeer()
				via, rsp := hi, q.Data
				z.mu.Lock()
				z.arrived[lkey{1, 0, q.Procedure}]++
				if c := z.cur; c != nil && c.x.To == 1 && c.proc == q.Procedure {
					c.arrived++
					c.gotLen = len(q.Data)
					c.reqOK = bytes.Equal(q.Data, c.req)
					rsp = c.rsp
					if c.x.Via >= 0 {
						via = c.x.Via % zc.NConn
					}
				}
				z.mu.Unlock()
				err = mp.send(via, from, false, encodeEnvelope(q.ID, q.Procedure, rsp, "", true))
				z.mu.Lock()
				if err != nil {
					z.sendErr++
				} else {
					z.served[lkey{1, 0, q.Procedure}]++
				}
				z.mu.Unlock()
			})
			h.SetStreamHandler(mp.resID, func(st network.Stream) {
				buf, err := io.ReadAll(st)
				st.Close()
				if err != nil {
					return
				}
				// a response envelope starts with the same three fields as a request envelope (id, procedure, data)
				var env p2p.Request
				if env.Decode(buf) != nil {
					return
				}
				z.mu.Lock()
				ch := z.wait[env.ID]
				delete(z.wait, env.ID)
				z.mu.Unlock()
				if ch != nil {
					ch <- env.Data
					return
				}
				mp.mu.Lock()
				w := mp.wait[env.ID]
				delete(mp.wait, env.ID)
				mp.mu.Unlock()
				if w != nil {
					close(w)
				}
			})
		}
	}
	for _, n := range er.nodes {
		l.idx[l.pid(n.idx).String()] = n.idx
	}
	for _, n := range er.nodes {
		l.ips = append(l.ips, n.ip)
	}
	l.ips = append(l.ips, "127.0.0.1", "::1")
	{
		seen := map[string]bool{}
		var u []string
		for _, ip := range l.ips {
			if !seen[ip] {
				seen[ip] = true
				u = append(u, ip)
			}
		}
		l.ips = u
	}
	var ips []string
	for _, n := range er.nodes {
		ips = append(ips, n.ip)
	}
	z.logf("scenario large honest messages (%s): nodes=%v security=%s expiry=%ds sweep=%dms; procedures %v limits %v penalties %v, rate-limit interval 1 h, response timeout 2 min; dialOnly=node %d shared=%v; multi-connection peer: %d connections (first by the node: %v)",
		zc.Variant, ips, s.Security, s.ExpiryS, s.SweepMs, echoProcs, s.PL, s.PP, s.DialOnly, s.Group, zc.NConn, zc.VFirst)
	res.labels["e2e-large-honest-messages"] = true
	res.labels["size:variant:"+zc.Variant] = true
	if s.V6 {
		res.labels["e2e-ipv6"] = true
	}
	if s.ExpiryS >= 3600 {
		res.labels["size:expiry-1h(nothing-swept)"] = true
	} else {
		res.labels["size:expiry-1-2s(watched)"] = true
	}
	heartbeat()
	go l.watch()
	stopWatch := func() {
		select {
		case <-l.stopW:
		default:
			close(l.stopW)
		}
		<-l.doneW
	}
	defer stopWatch()
	if l.m != nil {
		if v := l.m.connectAll(mcycle{NConn: zc.NConn, VFirst: zc.VFirst}); v != "" {
			z.fail(v)
			return res
		}
		if res.infra == "" && l.m.nconns() != zc.NConn {
			res.infra = "the multi-connection peer could not open its connections"
		}
	} else {
		for j := 1; j < len(er.nodes) && res.infra == ""; j++ {
			ok, v := er.ensureConnected(0, j)
			if v != "" {
				z.fail(v)
				return res
			}
			if !ok && res.infra == "" {
				res.infra = "honest peers could not connect"
			}
		}
	}
	if res.infra != "" {
		return res
	}
	var key strings.Builder
	fmt.Fprintf(&key, "size|%s|%v|%s|%d|%d|%v|%v|%d|%v|%d|%v|", zc.Variant, ips, s.Security, s.ExpiryS, s.SweepMs, s.PL, s.PP, s.DialOnly, s.Group, zc.NConn, zc.VFirst)
	for _, ev := range zc.Events {
		fmt.Fprintf(&key, "%s.%+v.%s.%d.%d.%d.%d.%x;", ev.Kind, ev.X, ev.E.Kind, ev.E.From, ev.E.To, ev.E.Proc, ev.E.Extra, ev.E.Bytes)
		res.labels["size-event:"+ev.Kind] = true
		if v := z.event(ev); v != "" {
			z.fail(v)
			return res
		}
		if res.infra != "" {
			return res
		}
	}
	if v := z.finish(); v != "" {
		z.fail(v)
		return res
	}
	if res.infra != "" {
		return res
	}
	stopWatch()
	if v := z.sawScore(); v != "" {
		res.hard = true
		res.violation = fmt.Sprintf("honest peer penalised: %s (seen by the 5 ms sampling only: the entry was gone at the next direct read), although all traffic of the scenario was well-formed, solicited and within the limits - only large (%s)", v, z.traffic())
		return res
	}
	if l.sendErr > 0 {
		res.counts["size:raw-peer-could-not-send-a-response"] += l.sendErr
	}
	// non-trivial: an envelope above 1 MiB went through in each role, the scores were read after the drain, the gates were tried
	res.nontrivial = res.counts["size:request-envelope-above-1MiB"] >= 1 && res.counts["size:response-envelope-above-1MiB"] >= 1 &&
		res.counts["size:drain-not-observed-within-5s"] == 0 && res.labels["size:gates-admit-the-peer-afterwards"]
	res.key = key.String()
	return res
}

// TestSizeOnly: diagnostic run of this flavour alone (VERIF_C18_SIZE_ONLY=1; not part of any tier).
func TestSizeOnly(t *testing.T) {
	if os.Getenv("VERIF_C18_SIZE_ONLY") == "" {
		t.Skip("diagnostic; set VERIF_C18_SIZE_ONLY=1")
	}
	gen := rapid.Custom(func(t *rapid.T) escn {
		s := escn{On: true}
		genSize(t, &s)
		return s
	})
	rapid.Check(t, func(rt *rapid.T) {
		runE2EBatch(rt, rapid.SliceOfN(gen, 8, 8).Draw(rt, "scenarios"))
	})
}

// TestRegressLargeHonestMessages: fixed scripts (every tier). A well-formed message is well-formed at every size: a
// 1.5 MiB response to a small request, a 1.5 MiB request, the classes around 1 MiB and 3 MiB in both directions, between
// nodes and with the multi-connection raw peer, must be delivered intact and leave every score at zero, everybody
// connected, the gates open.
// (A node that reads at most 1 MiB of a stream decodes a truncated envelope and bans the honest sender as "malformed".)
func TestRegressLargeHonestMessages(t *testing.T) {
	const (
		c0, c1K, c64K, cM64, cM1, cM, cMp1, c15M, c3M = 0, 1, 2, 3, 4, 5, 6, 7, 8
	)
	x := func(from, to, proc, req, resp int) sev {
		return sev{Kind: "xchg", X: sxch{From: from, To: to, Proc: proc, Req: req, Resp: resp, Via: -1}}
	}
	via := func(e sev, v int) sev { e.X.Via = v; return e }
	order := []byte{3, 1, 4, 1, 5, 9, 2, 6, 5, 3, 5, 8, 9, 7, 9, 3, 2, 3, 8, 4, 6, 2, 6, 4}
	mix := func(from, to int) sev {
		return sev{Kind: "legal", E: eev{Kind: "mix", From: from, To: to, Burst: "within", Extra: 2, Bytes: order}}
	}
	base := func(variant, sec string, expiry int, ips ...int) escn {
		s := escn{On: true, Size: true, N: len(ips), IPs: ips, Security: sec, ExpiryS: expiry, SweepMs: 100, Limit: 80, Penalty: 50,
			PL: []int{80, 70, 90}, PP: []int{50, 25, 100}, BlackOf: -1, DialOnly: -1}
		s.SZ.Variant = variant
		return s
	}
	dialOnly := base("dialonly", p2p.ConnectionSecurityNoise, 3600, 6, 7)
	dialOnly.DialOnly = 1
	multi := base("multi", p2p.ConnectionSecurityNone, 3600, 8)
	multi.N, multi.SZ.NConn, multi.SZ.VFirst = 1, 2, false
	type script struct {
		name string
		s    escn
		evs  []sev
	}
	scripts := []script{
		{"1.5 MiB response to a 1 KiB request, then a 1.5 MiB request", base("plain", p2p.ConnectionSecurityNone, 3600, 2, 3),
			[]sev{x(0, 1, 0, c1K, c15M), {Kind: "settle"}, x(0, 1, 0, c15M, c1K)}},
		{"payloads around 1 MiB and 3 MiB in both directions (tls, expiry 2 s, sampled)", base("plain", p2p.ConnectionSecurityTLS, 2, 4, 5),
			[]sev{x(0, 1, 0, cM64, cM1), x(1, 0, 1, cM, cMp1), x(1, 0, 2, c0, c3M), mix(0, 1), x(0, 1, 2, c3M, c0), x(1, 0, 0, cMp1, c64K)}},
		{"dial-only peer (seen as 127.0.0.1) sends and receives 1.5 MiB (noise)", dialOnly,
			[]sev{x(1, 0, 0, c15M, c64K), x(0, 1, 1, c64K, c15M), mix(1, 0), x(0, 1, 1, cM1, cM)}},
		{"raw peer with 2 connections: its 1.5 MiB request over connection 1, its 1.5 MiB answer over connection 0, a 3 MiB answer of the node", multi,
			[]sev{via(x(1, 0, 0, c15M, c1K), 1), via(x(0, 1, 1, c1K, c15M), 0), {Kind: "peerreq", E: eev{From: 1, Proc: 0}}, via(x(1, 0, 2, c0, c3M), 0), via(x(0, 1, 0, cMp1, cM1), -1)}},
	}
	results := make([]*seqResult, len(scripts))
	var wg sync.WaitGroup
	for i, sc := range scripts {
		s := sc.s
		s.SZ.Events = sc.evs
		wg.Add(1)
		go func(i int, s escn) {
			defer wg.Done()
			results[i] = runScenarioRobust(s)
		}(i, s)
	}
	wg.Wait()
	for i, sc := range scripts {
		res := results[i]
		switch {
		case res.violation != "":
			how := "3 attempts"
			if res.hard {
				how = "positive evidence, reported at its first occurrence"
			}
			t.Errorf("C18 violated (large honest messages, %s; %s): %s\nhistory:\n%s", sc.name, how, res.violation, res.render())
		case res.infra != "":
			evid.R.Inconclusive("large-message regression scenario %q dropped: %s", sc.name, res.infra)
		default:
			want := 0
			for _, e := range sc.evs {
				if e.Kind == "xchg" {
					want++
				}
			}
			if n := res.counts["size:exchanges-delivered-intact"]; n != want {
				evid.R.Note("large-message regression script %q: %d of %d exchanges ran", sc.name, n, want)
			}
			register("e2e-size-regress", res)
			registerCounts(res)
			if os.Getenv("VERIF_C18_SHOW") != "" {
				t.Logf("%s (non-trivial=%v, counts %v):\n%s", sc.name, res.nontrivial, res.counts, res.render())
			}
		}
	}
}
