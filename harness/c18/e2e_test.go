package c18

import (
	"bytes"
	"context"
	"fmt"
	"os"
	"strings"
	"sync"
	"sync/atomic"
	"testing"
	"time"

	"github.com/LiskHQ/lisk-engine/pkg/codec"
	"github.com/LiskHQ/lisk-engine/pkg/log"
	"github.com/LiskHQ/lisk-engine/pkg/p2p"
	"pgregory.net/rapid"

	"verifharness/evid"
)

// ---------------------------------------------------------------------------------------------------------------
// (b) end-to-end: started p2p.Connections on distinct loopback IPs
// ---------------------------------------------------------------------------------------------------------------

const (
	procEcho   = "echo"   // rate-limited with the scenario's (limit, penalty)
	procEcho2  = "echo2"  // further echo procedures with their OWN (limit, penalty): every procedure has its own counter
	procEcho3  = "echo3"  // per peer, so traffic within the limit of every single procedure is legal whatever the sum is
	procStrict = "strict" // application handler that penalises/bans the sender like the sync/txpool handlers do
)

// echoProcs: the rate-limited echo procedures, index = eev.Proc.
var echoProcs = []string{procEcho, procEcho2, procEcho3}

func procIndex(proc string) int {
	for i, p := range echoProcs {
		if p == proc {
			return i
		}
	}
	return -1
}

// sigF1: known finding C18-F1 (ban issued by the message protocol itself does not close the connection).
const sigF1 = "ban-without-disconnect:message-protocol-envelope"

type eev struct {
	Kind  string // req | burst | mix | over | badreq | badres | unkreq | unkres | app | dial | drop | await | resetwait
	From  int
	To    int
	Proc  int    // req/burst/over: index into echoProcs
	Burst string // within | tolimit | over1 | over
	Extra int
	K     int // app: penalty amount, 0 = BanPeer
	Bytes []byte
	Size  int // req: payload size class of the well-formed request and of its echoed response (index into sizeClasses, size_test.go; 0: the usual 5 bytes)
}

type escn struct {
	On       bool
	Legal    bool // legal traffic only, short rate interval, resets
	V6       bool // two nodes, both on ::1
	N        int
	IPs      []int // last octet of 127.0.0.x per node
	Security string
	ExpiryS  int
	SweepMs  int
	Limit    int
	Penalty  int
	BlackBy  int // node that blacklists ...
	BlackOf  int // ... the IP of this node (-1: none)
	BlackF   int
	DialOnly int // index of a node started without listen addresses (it can only dial out; peers see it as 127.0.0.1), -1: none
	Shared   bool  // several nodes on ONE IP address (same 127.0.0.x / ::1, different ports): the group below
	Group    []int // nodes that share the address (>= 2 when Shared)
	PL       []int // limits of echoProcs (PL[0] == Limit); empty: all procedures use Limit
	PP       []int // penalties of echoProcs (PP[0] == Penalty); empty: all use Penalty
	RateMs   int   // legal / mirror scenarios: rate-limit interval in ms (0: 250)
	Mirror   bool  // short rate-limit interval AND offences: node 1 exceeds the limit of ONE procedure of node 0 right after an observed counter reset
	Multi    bool  // a peer with several simultaneous connections to node 0 (multiconn_test.go)
	MC       []mcycle
	Conc     bool  // concurrent traffic around the reset ticks of node 0 (conc_test.go): offenders overrun a limit right before a tick while innocent peers send legal amounts in every window
	CC       cconf
	Late     bool  // honest peers answer LATE: well-formed, solicited responses after the requester's response timeout / cancelled context (late_test.go)
	LC       lconf
	HitRun   bool  // "hit-and-run" offenders: the offending message is followed at once by the close of the stream AND of the connection (hitrun_test.go)
	HR       hconf
	Size     bool // large honest messages: well-formed requests and responses of 0 B .. 3 MiB in both directions (size_test.go)
	SZ       sconf
	Events   []eev
}

// lim: (limit, penalty) that node x applies to procedure proc. In a mirror scenario only node 0 uses the drawn limits, the
// other nodes are generous (their counters of responses never matter).
func (s *escn) lim(x int, proc string) (int, int) {
	if proc == procStrict {
		return 100, 10
	}
	i := procIndex(proc)
	L, P := s.Limit, s.Penalty
	if i >= 0 && i < len(s.PL) {
		L = s.PL[i]
	}
	if i >= 0 && i < len(s.PP) {
		P = s.PP[i]
	}
	if (s.Mirror || s.Conc || s.HitRun) && x != 0 {
		L = 1000 * L
	}
	return L, P
}

func genMalformed(t *rapid.T) []byte {
	valid := (&p2p.Request{ID: "0e7c4b1c-7b1e-4c3c-9d57-1f2f3a4b5c6d", Procedure: procEcho, Data: []byte("payload")}).Encode()
	switch rapid.IntRange(0, 4).Draw(t, "malKind") {
	case 0: // truncated inside a field
		return append([]byte{}, valid[:rapid.IntRange(1, len(valid)-1).Draw(t, "cut")]...)
	case 1: // wrong wire type for field 1
		return append([]byte{0x08, 0x01}, valid[2:]...)
	case 2: // length runs past the end
		return []byte{0x0a, byte(rapid.IntRange(3, 120).Draw(t, "len")), 0x41, 0x42}
	case 3: // over-long varint
		return bytes.Repeat([]byte{0xff}, rapid.IntRange(10, 14).Draw(t, "nff"))
	default:
		return rapid.SliceOfN(rapid.Byte(), 1, 40).Draw(t, "rnd")
	}
}

func genScenario() *rapid.Generator[escn] {
	return rapid.Custom(func(t *rapid.T) escn {
		var s escn
		s.On = rapid.IntRange(0, 15).Draw(t, "on") > 0
		// flavours added later: a peer with several simultaneous connections (1 in 5), one procedure's limit exceeded
		// right after observed counter resets while the other procedures carry legal traffic (1 in 10)
		// (rapid draws small values and the bounds of a range far more often than the middle: the middle values are used,
		// measured shares ~20 % and ~10 %)
		// (0..21 since the flavour "large honest messages" was added: measured shares of the draw 20: 2.6 %, 21: 5.3 %; the
		// others shrink by about a tenth each, late responses 17-19: 8.3 %)
		switch f := rapid.IntRange(0, 21).Draw(t, "flavour"); {
		case f >= 20 && os.Getenv("VERIF_C18_NO_SIZE") == "":
			// honest messages of every size class up to 3 MiB, requests and responses, both directions (size_test.go)
			genSize(t, &s)
			return s
		case (f == 3 || f == 13) && os.Getenv("VERIF_C18_NO_HITRUN") == "":
			// hit-and-run offenders (hitrun_test.go): one value taken from the general scenarios and one from the
			// multi-connection peers (measured share of the draw: see notes/C18.md)
			genHitRun(t, &s)
			return s
		case f >= 8 && f <= 13:
			genMulti(t, &s)
			return s
		case f >= 14 && f <= 16:
			genMirror(t, &s)
			return s
		case f >= 4 && f <= 7:
			// concurrent traffic around reset ticks (measured share ~13 %)
			genConc(t, &s)
			return s
		case f >= 17 && f <= 19 && os.Getenv("VERIF_C18_NO_LATE") == "":
			// honest but slow responders: late, well-formed, solicited responses (late_test.go; measured share of the
			// draw: 17: 2.8 %, 18: 3.1 %, 19: 5.7 % = ~11.6 %; the general scenarios keep 0-3 = ~39 %).
			// VERIF_C18_NO_LATE=1 (diagnostic, to measure the cost of this flavour) falls through to the general scenarios.
			genLate(t, &s)
			return s
		}
		s.Legal = rapid.IntRange(0, 3).Draw(t, "legal") == 0
		s.V6 = rapid.IntRange(0, 4).Draw(t, "v6") == 0
		s.N = rapid.SampledFrom([]int{2, 2, 3}).Draw(t, "nodes")
		if s.V6 {
			s.N = 2
		}
		// one scenario in three: several peers on one IP address (nodes behind one NAT gateway / on one host)
		s.Shared = rapid.IntRange(0, 2).Draw(t, "sharedIP") == 0
		if s.Shared {
			s.N = rapid.SampledFrom([]int{3, 3, 3, 4}).Draw(t, "sharedNodes")
			if s.V6 {
				s.N = 3 // everybody is on ::1
			}
		}
		perm := rapid.Permutation([]int{2, 3, 4, 5, 6, 7, 8, 9}).Draw(t, "octets")
		s.IPs = append([]int{}, perm[:s.N]...)
		s.Security = rapid.SampledFrom([]string{p2p.ConnectionSecurityNone, p2p.ConnectionSecurityTLS, p2p.ConnectionSecurityNoise}).Draw(t, "security")
		s.ExpiryS = rapid.SampledFrom([]int{1, 1, 2}).Draw(t, "expiryS")
		s.SweepMs = rapid.SampledFrom([]int{50, 100, 200}).Draw(t, "sweepMs")
		s.Limit = rapid.IntRange(2, 6).Draw(t, "limit")
		s.Penalty = rapid.SampledFrom([]int{10, 25, 34, 50, 99, 100, 120}).Draw(t, "penalty")
		// every procedure has its own limit and penalty
		s.PL, s.PP = []int{s.Limit}, []int{s.Penalty}
		for i := 1; i < len(echoProcs); i++ {
			s.PL = append(s.PL, rapid.IntRange(2, 6).Draw(t, "limitN"))
			s.PP = append(s.PP, rapid.SampledFrom([]int{10, 25, 34, 50, 99, 100, 120}).Draw(t, "penaltyN"))
		}
		s.BlackOf = -1
		if rapid.IntRange(0, 3).Draw(t, "blacklist") == 0 {
			s.BlackBy = rapid.IntRange(0, s.N-1).Draw(t, "blackBy")
			s.BlackOf = (s.BlackBy + 1 + rapid.IntRange(0, s.N-2).Draw(t, "blackOf")) % s.N
			s.BlackF = rapid.IntRange(0, 2).Draw(t, "blackForm")
		}
		s.DialOnly = -1
		if !s.V6 && rapid.IntRange(0, 2).Draw(t, "dialOnly") == 0 {
			s.DialOnly = rapid.IntRange(0, s.N-1).Draw(t, "dialOnlyNode")
		}
		if s.Shared {
			genSharing(t, &s)
		}
		pair := func(e *eev) {
			e.From = rapid.IntRange(0, s.N-1).Draw(t, "from")
			e.To = (e.From + 1 + rapid.IntRange(0, s.N-2).Draw(t, "to")) % s.N
		}
		if s.Legal {
			// Legal traffic only, spread over all procedures: every procedure stays within ITS limit while the sum over
			// the procedures exceeds single limits, before the first reset tick of the rate limiter and after observed
			// resets (short interval).
			s.RateMs = rapid.SampledFrom([]int{250, 250, 600, 1500}).Draw(t, "rateMs")
			mix := func() eev {
				e := eev{Kind: "mix"}
				pair(&e)
				e.Burst = rapid.SampledFrom([]string{"within", "tolimit", "tolimit"}).Draw(t, "burst")
				e.Extra = rapid.IntRange(0, 5).Draw(t, "extra")
				e.Bytes = rapid.SliceOfN(rapid.Byte(), 24, 24).Draw(t, "order")
				return e
			}
			s.Events = append(s.Events, mix()) // right away: (normally) before the first tick
			n := rapid.IntRange(3, 12).Draw(t, "nEvents")
			for i := 0; i < n; i++ {
				e := eev{Kind: rapid.SampledFrom([]string{"req", "burst", "burst", "mix", "mix", "mix", "dial", "drop", "resetwait"}).Draw(t, "kind")}
				if e.Kind == "mix" {
					s.Events = append(s.Events, mix())
					continue
				}
				pair(&e)
				e.Proc = rapid.IntRange(0, len(echoProcs)-1).Draw(t, "proc")
				e.Burst = rapid.SampledFrom([]string{"within", "tolimit", "tolimit"}).Draw(t, "burst")
				e.Extra = rapid.IntRange(0, 5).Draw(t, "extra")
				e.Size = genReqSize(t)
				s.Events = append(s.Events, e)
			}
			// and certainly after a reset: every procedure filled exactly to its limit
			last := mix()
			last.Burst = "tolimit"
			s.Events = append(s.Events, eev{Kind: "resetwait", From: last.From, To: last.To}, last)
			return s
		}
		// offence scenario: a few life cycles "misbehave until banned, try to connect both ways, wait, reconnect"
		cycles := rapid.IntRange(1, 2).Draw(t, "cycles")
		scripted := s.Shared && rapid.IntRange(0, 9).Draw(t, "siblingScript") < 7
		for c := 0; c < cycles; c++ {
			if scripted {
				genSiblingCycle(t, &s)
				continue
			}
			var off eev
			pair(&off)
			dialOnlyOffender := false
			if s.DialOnly >= 0 && rapid.IntRange(0, 3).Draw(t, "dialOnlyOffends") > 0 {
				// the peer without listen addresses misbehaves towards a listening node
				off.From = s.DialOnly
				off.To = (s.DialOnly + 1 + rapid.IntRange(0, s.N-2).Draw(t, "victim")) % s.N
				dialOnlyOffender = true
			}
			for i := rapid.IntRange(0, 2).Draw(t, "nPre"); i > 0; i-- {
				e := eev{Kind: rapid.SampledFrom([]string{"req", "burst", "app", "burst"}).Draw(t, "pre"), From: off.From, To: off.To}
				if rapid.IntRange(0, 3).Draw(t, "preOther") == 0 {
					pair(&e)
				}
				e.Burst = rapid.SampledFrom([]string{"within", "tolimit", "over1", "over"}).Draw(t, "burst")
				e.Extra = rapid.IntRange(0, s.Limit+2).Draw(t, "extra")
				e.K = rapid.IntRange(1, 60).Draw(t, "k")
				e.Proc = rapid.SampledFrom([]int{0, 0, 1, 2}).Draw(t, "proc")
				e.Size = genReqSize(t)
				s.Events = append(s.Events, e)
			}
			e := eev{From: off.From, To: off.To}
			e.Kind = rapid.SampledFrom([]string{"badreq", "badres", "unkreq", "unkres", "app", "app", "burst", "burst"}).Draw(t, "offence")
			e.Proc = rapid.SampledFrom([]int{0, 0, 1, 2}).Draw(t, "proc")
			e.Burst = "over"
			e.Extra = rapid.IntRange(0, 3*(s.Limit+1)).Draw(t, "extra")
			e.K = rapid.SampledFrom([]int{0, 0, 40, 99, 100, 120}).Draw(t, "k")
			e.Bytes = genMalformed(t)
			if dialOnlyOffender {
				// handler-issued BanPeer / ApplyPenalty up to the threshold are the paths that must find the peer's real IP
				switch rapid.SampledFrom([]string{"ban", "ban", "penalty", "asDrawn", "asDrawn"}).Draw(t, "dialOnlyOffence") {
				case "ban":
					e.Kind, e.K = "app", 0
				case "penalty":
					e.Kind, e.K = "app", rapid.SampledFrom([]int{100, 120}).Draw(t, "kFull")
				}
			}
			s.Events = append(s.Events, e)
			// more of the same until banned is handled at run time (a burst/app may stay below the threshold)
			for i := rapid.IntRange(1, 3).Draw(t, "nDials"); i > 0; i-- {
				d := eev{Kind: "dial", From: off.From, To: off.To}
				if rapid.Bool().Draw(t, "reverse") {
					d.From, d.To = d.To, d.From
				}
				s.Events = append(s.Events, d)
			}
			if s.N == 3 && rapid.Bool().Draw(t, "thirdParty") {
				third := 3 - off.From - off.To
				e := eev{Kind: rapid.SampledFrom([]string{"req", "dial"}).Draw(t, "thirdKind"), From: third, To: rapid.SampledFrom([]int{off.From, off.To}).Draw(t, "thirdTo")}
				if rapid.Bool().Draw(t, "thirdRev") {
					e.From, e.To = e.To, e.From
				}
				s.Events = append(s.Events, e)
			}
			s.Events = append(s.Events, eev{Kind: "await", From: off.From, To: off.To})
			for i := rapid.IntRange(1, 2).Draw(t, "nAfter"); i > 0; i-- {
				d := eev{Kind: rapid.SampledFrom([]string{"dial", "dial", "req"}).Draw(t, "after"), From: off.From, To: off.To}
				if rapid.Bool().Draw(t, "reverseAfter") {
					d.From, d.To = d.To, d.From
				}
				s.Events = append(s.Events, d)
			}
			s.Events = append(s.Events, eev{Kind: "app", From: off.From, To: off.To, K: rapid.IntRange(1, 30).Draw(t, "kAfter")})
		}
		return s
	})
}

// genSharing puts 2..N nodes of the scenario on ONE IP address (different ports). Every gater keeps its score per IP, so
// these nodes are one "peer IP" for everybody else. A node without listen addresses is seen as 127.0.0.1; when it is
// part of the group the listening members listen on 127.0.0.1 as well.
func genSharing(t *rapid.T, s *escn) {
	idx := make([]int, s.N)
	for i := range idx {
		idx[i] = i
	}
	order := rapid.Permutation(idx).Draw(t, "shareOrder")
	nShare := 2
	if rapid.IntRange(0, 4).Draw(t, "shareAll") == 0 {
		nShare = s.N // the node that hands out the penalties lives on the same IP as the peers it penalises
	} else if s.N == 4 && rapid.Bool().Draw(t, "shareThree") {
		nShare = 3
	}
	if s.V6 {
		nShare = s.N
	}
	if s.DialOnly >= 0 && rapid.Bool().Draw(t, "dialOnlyShares") {
		for i, x := range order {
			if x == s.DialOnly {
				order[0], order[i] = order[i], order[0]
			}
		}
	}
	s.Group = append([]int{}, order[:nShare]...)
	octet := s.IPs[s.Group[0]]
	for _, i := range s.Group {
		if i == s.DialOnly {
			octet = 1
		}
	}
	for _, i := range s.Group {
		s.IPs[i] = octet
	}
}

// genSiblingCycle: one life cycle of an IP address that two peers ("first", "second") share, seen from a third node v:
// both connect; penalties of one or of both of them take the IP's total to the threshold (the peer whose penalty
// reaches it is disconnected; the other one keeps its connection, that is the engine's behaviour and nothing the
// statement forbids); then the still connected peer offends as well - through ApplyPenalty / the rate limit (its IP's
// total is already at the threshold, so it must be disconnected) or through one of the ban paths; both try to come back
// during the ban, v tries to reach them; after the expiry both reconnect and collect small penalties from a clean score.
func genSiblingCycle(t *rapid.T, s *escn) {
	g := rapid.Permutation(append([]int{}, s.Group...)).Draw(t, "siblings")
	first, second := g[0], g[1]
	var others []int
	for i := 0; i < s.N; i++ {
		if i != first && i != second {
			others = append(others, i)
		}
	}
	v := rapid.SampledFrom(others).Draw(t, "victimOfSiblings")
	add := func(e eev) { s.Events = append(s.Events, e) }
	for _, x := range []int{first, second} {
		e := eev{Kind: "req", From: x, To: v}
		if rapid.IntRange(0, 2).Draw(t, "victimDials") == 0 {
			e.From, e.To = v, x // the connection is opened by v (outbound): the peer's IP is then its listen IP as well
		}
		add(e)
	}
	for i := rapid.IntRange(0, 2).Draw(t, "nPre"); i > 0; i-- {
		e := eev{Kind: rapid.SampledFrom([]string{"req", "burst", "app"}).Draw(t, "pre"), From: rapid.SampledFrom([]int{first, second}).Draw(t, "preBy"), To: v}
		e.Burst = rapid.SampledFrom([]string{"within", "tolimit"}).Draw(t, "burst")
		e.Extra = rapid.IntRange(0, s.Limit+2).Draw(t, "extra")
		e.K = rapid.IntRange(1, 20).Draw(t, "k")
		add(e)
	}
	switch rapid.SampledFrom([]string{"single", "single", "across"}).Draw(t, "banMode") {
	case "single":
		e := eev{From: first, To: v, Burst: "over"}
		e.Kind = rapid.SampledFrom([]string{"app", "app", "app", "burst", "badreq", "unkreq", "badres", "unkres"}).Draw(t, "offence")
		e.K = rapid.SampledFrom([]int{0, 0, 100, 120}).Draw(t, "k")
		e.Extra = 12 * (s.Limit + 1) // enough excess windows for any penalty amount
		e.Bytes = genMalformed(t)
		add(e)
	default:
		// the total is reached by penalties of BOTH peers: the one whose penalty reaches it is thrown out, the roles swap
		k1 := rapid.IntRange(40, 70).Draw(t, "k1")
		add(eev{Kind: "app", From: second, To: v, K: k1})
		add(eev{Kind: "app", From: first, To: v, K: 100 - k1 + rapid.IntRange(0, 15).Draw(t, "kOver")})
	}
	// the peer that is still connected offends although its IP is banned
	{
		e := eev{From: second, To: v}
		switch rapid.SampledFrom([]string{"penalty", "penalty", "penalty", "rate", "rate", "rate", "ban", "badreq", "unkreq", "unkres"}).Draw(t, "siblingOffence") {
		case "penalty":
			e.Kind, e.K = "app", rapid.IntRange(1, 30).Draw(t, "kSmall")
		case "rate":
			e.Kind, e.Burst, e.Extra = "burst", rapid.SampledFrom([]string{"over1", "over"}).Draw(t, "burst"), rapid.IntRange(0, 3).Draw(t, "extra")
		case "ban":
			e.Kind, e.K = "app", 0
		case "badreq":
			e.Kind, e.Bytes = "badreq", genMalformed(t)
		case "unkreq":
			e.Kind = "unkreq"
		default:
			e.Kind = "unkres"
		}
		add(e)
	}
	ends := [][2]int{{second, v}, {first, v}, {v, first}, {v, second}}
	for i := rapid.IntRange(1, 3).Draw(t, "nDials"); i > 0; i-- {
		p := rapid.SampledFrom(ends).Draw(t, "dialEnds")
		add(eev{Kind: "dial", From: p[0], To: p[1]})
	}
	add(eev{Kind: "await", From: first, To: v})
	add(eev{Kind: "await", From: second, To: v})
	for i := rapid.IntRange(1, 2).Draw(t, "nAfter"); i > 0; i-- {
		p := rapid.SampledFrom(ends).Draw(t, "afterEnds")
		add(eev{Kind: rapid.SampledFrom([]string{"dial", "dial", "req"}).Draw(t, "after"), From: p[0], To: p[1]})
	}
	// clean score, and it accumulates over both peers again
	add(eev{Kind: "app", From: second, To: v, K: rapid.IntRange(1, 30).Draw(t, "kAfter")})
	add(eev{Kind: "app", From: first, To: v, K: rapid.IntRange(1, 30).Draw(t, "kAfter2")})
}

// rateInterval: the rate-limit interval of a legal / mirror scenario.
func (s *escn) rateInterval() time.Duration {
	if s.RateMs > 0 {
		return time.Duration(s.RateMs) * time.Millisecond
	}
	return 250 * time.Millisecond
}

// legalSem: scenarios with a short rate-limit interval. The harness does not know when a node resets its counters, so
// its own counts (reset only when a reset was OBSERVED) are an upper bound of the node's: traffic that is within the
// limits by these counts is legal whenever the resets happen.
func (s *escn) legalSem() bool { return s.Legal || s.Mirror }

// genMirror: "exceeding ONE procedure's limit is still penalised after resets" next to legal traffic on the other
// procedures. Two nodes; node 0 applies the drawn limits, node 1 (generous limits) sends. Rate-limit interval 1 s.
// Script: legal mix (before the first tick) -> [wait for an observed reset edge at node 0, then limit+1 messages of one
// procedure interleaved with legal amounts of the others: exactly one penalty of that procedure] x until the penalties
// add up to the threshold -> the ban consequences as in every offence scenario -> legal mix -> small penalty.
func genMirror(t *rapid.T, s *escn) {
	s.Mirror = true
	s.N = 2
	perm := rapid.Permutation([]int{2, 3, 4, 5, 6, 7, 8, 9}).Draw(t, "octets")
	s.IPs = append([]int{}, perm[:s.N]...)
	s.V6 = rapid.IntRange(0, 5).Draw(t, "v6") == 0
	s.Security = rapid.SampledFrom([]string{p2p.ConnectionSecurityNone, p2p.ConnectionSecurityTLS, p2p.ConnectionSecurityNoise}).Draw(t, "security")
	s.ExpiryS = rapid.SampledFrom([]int{1, 1, 2}).Draw(t, "expiryS")
	s.SweepMs = rapid.SampledFrom([]int{50, 100, 200}).Draw(t, "sweepMs")
	s.RateMs = 1000
	s.BlackOf, s.DialOnly = -1, -1
	for i := 0; i < len(echoProcs); i++ {
		s.PL = append(s.PL, rapid.IntRange(2, 6).Draw(t, "limitN"))
		s.PP = append(s.PP, rapid.SampledFrom([]int{34, 50, 50, 100, 120}).Draw(t, "penaltyN"))
	}
	s.Limit, s.Penalty = s.PL[0], s.PP[0]
	mix := func() eev {
		return eev{Kind: "mix", From: 1, To: 0, Burst: rapid.SampledFrom([]string{"within", "tolimit", "tolimit"}).Draw(t, "burst"),
			Extra: rapid.IntRange(0, 5).Draw(t, "extra"), Bytes: rapid.SliceOfN(rapid.Byte(), 24, 24).Draw(t, "order")}
	}
	s.Events = append(s.Events, mix())
	total := 0
	for total < threshold {
		k := rapid.IntRange(0, len(echoProcs)-1).Draw(t, "overProc")
		e := eev{Kind: "over", From: 1, To: 0, Proc: k, Burst: rapid.SampledFrom([]string{"within", "tolimit"}).Draw(t, "others"),
			Extra: rapid.IntRange(0, 5).Draw(t, "extra"), Bytes: rapid.SliceOfN(rapid.Byte(), 24, 24).Draw(t, "order")}
		s.Events = append(s.Events, e)
		total += s.PP[k]
		if total < threshold && rapid.Bool().Draw(t, "mixBetween") {
			s.Events = append(s.Events, mix())
		}
	}
	for i := rapid.IntRange(1, 2).Draw(t, "nDials"); i > 0; i-- {
		d := eev{Kind: "dial", From: 1, To: 0}
		if rapid.Bool().Draw(t, "reverse") {
			d.From, d.To = 0, 1
		}
		s.Events = append(s.Events, d)
	}
	s.Events = append(s.Events, eev{Kind: "await", From: 1, To: 0}, eev{Kind: "dial", From: 1, To: 0}, eev{Kind: "resetwait", From: 1, To: 0})
	last := mix()
	last.Burst = "tolimit"
	s.Events = append(s.Events, last, eev{Kind: "app", From: 1, To: 0, K: rapid.IntRange(1, 30).Draw(t, "kAfter")})
}

// preState: what the receiver of a possibly offending message stored for the sender's IP just before the message.
type preState struct {
	x, y      int
	score     int
	exp       int64
	ok        bool // an entry existed
	connected bool
}

type enode struct {
	banBy    map[string]int          // ip -> index of the peer whose penalty took the IP to the threshold (current ban)
	contrib  map[string]map[int]bool // ip -> peers whose penalties make up the current score
	idx      int
	ip       string
	conn     *p2p.Connection
	info     *p2p.AddrInfo
	bm       *banModel
	cnt      map[string]map[int]int // procedure -> peer index -> messages counted since the last reset/penalty
	stopGate func()
	cause    map[int]string // last penalty cause per peer index
	dialOnly bool           // started without listen addresses
	started  bool
}

type erun struct {
	s     escn
	nodes []*enode
	start time.Time
	res   *seqResult
	seq   int
	pre   map[[2]int]*preState // snapshots taken right before the last message that may earn a penalty (consumed by expectPenalty)
	// optional (conc_test.go): the logger handed to node i, and a callback run by the echo handlers of node i
	loggerFor func(i int) log.Logger
	onServe   func(i int, req *p2p.Request)
	// optional (hitrun_test.go): called by the strict handler of node i right before and right after its ApplyPenalty/BanPeer call
	onStrict func(i int, req *p2p.Request, phase string)
	// optional (size_test.go): the answer of the echo handlers of node i to this request (false: echo the request data)
	answer   func(i int, req *p2p.Request) ([]byte, bool)
	lastResp []byte // payload of the response of the last served request (request)
	lastOK   bool
	// legal / mirror scenarios
	started    time.Time // all nodes started (their rate limiters tick from about here)
	firstReset bool      // a counter reset was observed at least one interval after the start
	mp         *mpeer    // multi-connection scenarios
}

// snap records what x stores about y's IP (and whether y is connected) right now.
func (r *erun) snap(x, y int) {
	X, Y := r.nodes[x], r.nodes[y]
	sc, exp, ok := X.conn.VerifPeerScore(Y.ip)
	if r.pre == nil {
		r.pre = map[[2]int]*preState{}
	}
	r.pre[[2]int{x, y}] = &preState{x: x, y: y, score: sc, exp: exp, ok: ok, connected: r.connected(x, y)}
}

// siblingsConnected: peers other than y that are connected to x from y's IP address.
func (r *erun) siblingsConnected(x, y int) []int {
	var out []int
	for z, Z := range r.nodes {
		if z != x && z != y && Z.ip == r.nodes[y].ip && r.connected(x, z) {
			out = append(out, z)
		}
	}
	return out
}

var scenarioSeq atomic.Int64

func (r *erun) logf(format string, a ...any) {
	r.res.history = append(r.res.history, fmt.Sprintf("[%7.3fs] ", time.Since(r.start).Seconds())+fmt.Sprintf(format, a...))
}

func (r *erun) name(i int) string { return fmt.Sprintf("N%d(%s)", i, r.nodes[i].ip) }

func (r *erun) setup() error {
	s := r.s
	expiry := time.Duration(s.ExpiryS) * time.Second
	sweep := time.Duration(s.SweepMs) * time.Millisecond
	id := scenarioSeq.Add(1)
	for i := 0; i < s.N; i++ {
		n := &enode{idx: i, cnt: map[string]map[int]int{procEcho: {}, procEcho2: {}, procEcho3: {}, procStrict: {}}, cause: map[int]string{}, banBy: map[string]int{}, contrib: map[string]map[int]bool{}}
		var addr string
		if s.V6 {
			n.ip = "::1"
			addr = "/ip6/::1/tcp/0"
		} else if i == s.DialOnly {
			n.dialOnly = true
			n.ip = "127.0.0.1" // no listen socket to dial from: the kernel picks the loopback source address
		} else {
			n.ip = fmt.Sprintf("127.0.0.%d", s.IPs[i])
			addr = "/ip4/" + n.ip + "/tcp/0"
		}
		r.nodes = append(r.nodes, n)
		_ = addr
	}
	for i, n := range r.nodes {
		addr := "/ip4/" + n.ip + "/tcp/0"
		if s.V6 {
			addr = "/ip6/::1/tcp/0"
		}
		var bl []string
		if s.BlackOf >= 0 && s.BlackBy == i {
			bl = []string{blacklistForm(r.nodes[s.BlackOf].ip, s.BlackF)}
		}
		listen := []string{addr}
		if n.dialOnly {
			listen = nil
		}
		cfg := &p2p.Config{Addresses: listen, ChainID: []byte{0xc1, 0x80, 0x00, 0x01}, Version: "1.0", ConnectionSecurity: s.Security, BlacklistedIPs: bl}
		var lg log.Logger = nopLogger{}
		if r.loggerFor != nil {
			lg = r.loggerFor(i)
		}
		c := p2p.NewConnection(lg, cfg)
		n.conn = c
		n.bm = newBanModel(expiry, sweep, bl)
		for _, proc := range echoProcs {
			L, P := s.lim(i, proc)
			node := i
			if err := c.RegisterRPCHandler(proc, func(w p2p.ResponseWriter, req *p2p.Request) {
				if r.onServe != nil {
					r.onServe(node, req)
				}
				if r.answer != nil {
					if data, ok := r.answer(node, req); ok {
						w.Write(data)
						return
					}
				}
				w.Write(req.Data)
			}, p2p.WithRPCMessageCounter(L, P)); err != nil {
				return err
			}
		}
		strictNode := i
		if err := c.RegisterRPCHandler(procStrict, func(w p2p.ResponseWriter, req *p2p.Request) {
			// like sync.HandleRPCEndpoint*: an invalid request penalises or bans the sender through the public API
			if len(req.Data) == 1 {
				if r.onStrict != nil {
					r.onStrict(strictNode, req, "before")
				}
				if req.Data[0] == 0 {
					c.BanPeer(req.PeerID)
				} else {
					c.ApplyPenalty(req.PeerID, int(req.Data[0]))
				}
				if r.onStrict != nil {
					r.onStrict(strictNode, req, "after")
				}
			}
			w.Write([]byte{1})
		}); err != nil {
			return err
		}
		if s.Legal || s.Mirror || (s.Conc && i == 0) {
			c.VerifSetRateLimitInterval(s.rateInterval())
		} else {
			c.VerifSetRateLimitInterval(time.Hour) // no reset inside an offence scenario: the counter model is exact
		}
		c.VerifSetResponseTimeout(time.Minute) // no silent re-sends: every request is counted once
		if err := c.Start([]byte(fmt.Sprintf("c18-%d-%d-%d", evid.Seed(), id, i))); err != nil {
			return fmt.Errorf("start node %d on %s: %w", i, addr, err)
		}
		stop, err := c.VerifRetimeGater(expiry, sweep)
		if err != nil {
			return err
		}
		n.stopGate = stop
		n.started = true
		if n.dialOnly {
			n.info = &p2p.AddrInfo{ID: c.ID()}
			continue
		}
		addrs, err := c.MultiAddress()
		if err != nil || len(addrs) == 0 {
			return fmt.Errorf("no listen address on node %d: %v", i, err)
		}
		n.info, err = p2p.AddrInfoFromMultiAddr(addrs[0])
		if err != nil {
			return err
		}
	}
	return nil
}

func (r *erun) teardown() {
	for _, n := range r.nodes {
		if n.stopGate != nil {
			n.stopGate()
		}
		if n.conn != nil && n.started {
			_ = n.conn.Stop()
		}
	}
}

func has(ids p2p.PeerIDs, id p2p.PeerID) bool {
	for _, x := range ids {
		if x == id {
			return true
		}
	}
	return false
}

func (r *erun) connected(a, b int) bool {
	return has(r.nodes[a].conn.ConnectedPeers(), r.nodes[b].conn.ID())
}

// waitFor polls f until it holds; gives up after d of wall time during which this process also got d/10ms heartbeats.
func waitFor(d time.Duration, f func() bool) bool {
	heartbeat()
	deadline := time.Now().Add(d)
	start := hbBeats.Load()
	need := int64(d / (10 * time.Millisecond))
	for {
		if f() {
			return true
		}
		if time.Now().After(deadline) && hbBeats.Load()-start >= need {
			return false
		}
		time.Sleep(5 * time.Millisecond)
	}
}

// zone of "y's IP at x" right now.
func (r *erun) zone(x, y int) string {
	now := time.Now()
	n := r.nodes[x]
	if n.bm.black[r.nodes[y].ip] {
		return "black"
	}
	return n.bm.get(r.nodes[y].ip).zone(now, now)
}

// dial from a to b and judge the outcome against both gaters' models.
func (r *erun) dial(a, b int, why string) string {
	A, B := r.nodes[a], r.nodes[b]
	if B.dialOnly {
		return r.probeOut(a, b, why)
	}
	if r.connected(a, b) || r.connected(b, a) {
		_ = A.conn.Disconnect(B.conn.ID())
		_ = B.conn.Disconnect(A.conn.ID())
		if !waitFor(5*time.Second, func() bool { return !r.connected(a, b) && !r.connected(b, a) }) {
			r.res.infra = "could not disconnect before a dial"
			return ""
		}
	}
	A.conn.VerifClearDialBackoff(B.conn.ID())
	za, zb := r.zone(a, b), r.zone(b, a)
	ctx, cancel := context.WithTimeout(context.Background(), 10*time.Second)
	t0 := time.Now()
	err := A.conn.Connect(ctx, *B.info)
	t1 := time.Now()
	cancel()
	ok := err == nil
	r.logf("dial %s -> %s (%s): ok=%v  [%s's view of %s: %s; %s's view of %s: %s] %s", r.name(a), r.name(b), why, ok, r.name(a), B.ip, za, r.name(b), A.ip, zb, errText(err))
	r.res.labels["dial:"+za+"/"+zb] = true
	if ok {
		if !waitFor(5*time.Second, func() bool { return r.connected(a, b) && r.connected(b, a) }) {
			r.res.infra = "connection not visible on both sides after a successful dial"
			return ""
		}
		// Environment guard: a node dials from its listen socket (SO_REUSEPORT), so its peer sees the listen IP. When
		// the kernel cannot reuse that 4-tuple (TIME_WAIT after a close) libp2p falls back to an unbound socket and the
		// loopback source address becomes 127.0.0.1 - a different IP, about which the scenario's model says nothing.
		seenOK := false
		seen := B.conn.VerifRemoteAddrs(A.conn.ID())
		for _, ra := range seen {
			if strings.HasPrefix(ra, "/ip4/"+A.ip+"/") || strings.HasPrefix(ra, "/ip6/"+A.ip+"/") {
				seenOK = true
			}
		}
		if !seenOK {
			r.res.infra = fmt.Sprintf("environment: %s is seen by %s as %v (source-address fallback), not as its listen IP", r.name(a), r.name(b), seen)
			return ""
		}
		// accepted by a's InterceptAddrDial and b's InterceptAccept/InterceptSecured
		if v, _ := A.bm.gate(B.ip, gAddrDial, true, t0, t1); v != "" {
			return fmt.Sprintf("outbound connection %s -> %s succeeded: %s", r.name(a), r.name(b), v)
		}
		if v, _ := B.bm.gate(A.ip, gAccept, true, t0, t1); v != "" {
			return fmt.Sprintf("inbound connection at %s from %s succeeded: %s", r.name(b), r.name(a), v)
		}
		return ""
	}
	aClean, bClean := za == "clean", zb == "clean"
	switch {
	case aClean && bClean:
		return fmt.Sprintf("connection %s -> %s refused although neither side has the other's IP banned or blacklisted: %v", r.name(a), r.name(b), err)
	case !aClean && bClean:
		if v, soft := A.bm.gate(B.ip, gAddrDial, false, t0, t1); v != "" {
			if soft && r.banListClears(a, b) == "" {
				return "" // the sweep was late; the refusal was consistent with the (still listed) ban
			}
			return fmt.Sprintf("outbound connection %s -> %s refused: %s", r.name(a), r.name(b), v)
		}
	case aClean && !bClean:
		if v, soft := B.bm.gate(A.ip, gAccept, false, t0, t1); v != "" {
			if soft && r.banListClears(b, a) == "" {
				return ""
			}
			return fmt.Sprintf("inbound connection at %s from %s refused: %s", r.name(b), r.name(a), v)
		}
	}
	return ""
}

// fakePeer: a well-formed peer ID nobody uses; outbound probes dial it so that the probed address does not enter the
// peerstore entry of a real peer.
const fakePeer = "12D3KooWB4J4mraN1nAB9Ge5w8JrzGRKDQ3iGyDyHZdbMWDtYg3R"

// probeOut: b cannot be dialled (no listen address), but an outbound attempt towards its IP still passes a's
// InterceptAddrDial: a dials a closed port on that IP. A ban/blacklisting shows as libp2p's "gater disallows connection"
// / "no good addresses"; an accepted attempt runs into "connection refused" instead.
func (r *erun) probeOut(a, b int, why string) string {
	A, B := r.nodes[a], r.nodes[b]
	info, err := p2p.AddrInfoFromMultiAddr("/ip4/" + B.ip + "/tcp/1/p2p/" + fakePeer)
	if err != nil {
		r.res.infra = "probe address: " + err.Error()
		return ""
	}
	A.conn.VerifClearDialBackoff(info.ID)
	za := r.zone(a, b)
	ctx, cancel := context.WithTimeout(context.Background(), 5*time.Second)
	t0 := time.Now()
	err = A.conn.Connect(ctx, *info)
	t1 := time.Now()
	cancel()
	if err == nil {
		_ = A.conn.Disconnect(info.ID)
		r.res.infra = "environment: something listens on " + B.ip + ":1"
		return ""
	}
	refused := strings.Contains(err.Error(), "gater disallows") || strings.Contains(err.Error(), "no good addresses")
	r.logf("outbound probe %s -> %s:1 (%s): refused by the gater=%v  [%s's view of %s: %s] %s", r.name(a), B.ip, why, refused, r.name(a), B.ip, za, errText(err))
	r.res.labels["probe-out:"+za] = true
	if v, soft := A.bm.gate(B.ip, gAddrDial, !refused, t0, t1); v != "" {
		if soft && r.banListClears(a, b) == "" {
			return ""
		}
		return fmt.Sprintf("outbound attempt %s -> %s: %s", r.name(a), B.ip, v)
	}
	return ""
}

// listedOnce feeds one listBannedPeers observation of y's IP at x into x's model.
func (r *erun) listedOnce(x, y int) (string, bool) {
	X, Y := r.nodes[x], r.nodes[y]
	t0 := time.Now()
	present := false
	for _, ip := range X.conn.VerifBannedIPs() {
		if canon(ip) == Y.ip {
			present = true
		}
	}
	return X.bm.listed(Y.ip, present, t0, time.Now())
}

// banListClears: x's ban of y's IP is over according to the model's latest bound; "" if the ban list agrees (possibly
// after re-checking while the process runs).
func (r *erun) banListClears(x, y int) string {
	return persists(func() (string, bool) { return r.listedOnce(x, y) })
}

func errText(err error) string {
	if err == nil {
		return ""
	}
	s := strings.ReplaceAll(err.Error(), "\n", " | ")
	if len(s) > 160 {
		s = s[:160] + "..."
	}
	return "err=" + s
}

// ensure a and b are connected (legal dial) if the models allow it; returns false if they cannot talk now.
func (r *erun) ensureConnected(a, b int) (bool, string) {
	if r.connected(a, b) && r.connected(b, a) {
		return true, ""
	}
	if r.zone(a, b) != "clean" || r.zone(b, a) != "clean" {
		return false, ""
	}
	from, to := a, b
	if r.nodes[b].dialOnly {
		from, to = b, a // only the node without listen addresses can open this connection
	}
	if v := r.dial(from, to, "to exchange messages"); v != "" || r.res.infra != "" {
		return false, v
	}
	return r.connected(a, b), ""
}

// expectPenalty waits until x's stored score for y's IP shows the effect of a penalty that was triggered after t0:
// exact >= 0: the score must become prev+exact; exact < 0: it must rise; exact == banAtOnce: it must rise to the ban
// threshold or beyond in this one step. Then the model is updated with what was seen.
//
// banAtOnce is what pkg/p2p documents for envelope offences (undecodable request/response envelope, unregistered
// procedure): onRequest/onResponse call banRemotePeer -> Peer.banPeer = addPenalty(MaxPenaltyScore) + disconnect. Until
// the audit of 2026-09 ANY rise of the stored score was accepted for them and became the model's ledger entry, so a
// token penalty (+1) instead of the ban went through; multiconn_test.go (envelopeOffence) already demanded the ban.
const banAtOnce = -2

func (r *erun) expectPenalty(x, y int, exact int, cause string, t0 time.Time) string {
	X, Y := r.nodes[x], r.nodes[y]
	st := X.bm.get(Y.ip)
	if st.banned {
		// the score of a banned IP is outside the statement, the connection of the penalised peer is not
		return r.penaltyOnBannedIP(x, y, exact, cause, t0)
	}
	delete(r.pre, [2]int{x, y})
	prev := st.score
	var sc int
	okSeen := waitFor(6*time.Second, func() bool {
		sc, _, _ = X.conn.VerifPeerScore(Y.ip)
		if exact >= 0 {
			return sc == prev+exact
		}
		return sc > prev
	})
	t1 := time.Now()
	if !okSeen {
		if exact >= 0 {
			return fmt.Sprintf("after %s, %s stores score %d for %s; expected %d+%d", cause, r.name(x), sc, Y.ip, prev, exact)
		}
		return fmt.Sprintf("%s by %s did not raise its score at %s (score %d, before %d)", cause, r.name(y), r.name(x), sc, prev)
	}
	X.cause[y] = cause
	r.logf("%s: score of %s at %s: %d -> %d", cause, Y.ip, r.name(x), prev, sc)
	if exact == banAtOnce && sc < threshold {
		return fmt.Sprintf("%s by %s raised its score at %s by %d only (%d -> %d, ban threshold %d) and left the IP %s unbanned: a malformed envelope / unknown procedure must ban the peer at once",
			cause, r.name(y), r.name(x), sc-prev, prev, sc, threshold, Y.ip)
	}
	if v := X.bm.penalty(Y.ip, sc-prev, sc, true, t0, t1); v != "" {
		return v
	}
	if exact == banAtOnce && !st.banned {
		return fmt.Sprintf("%s by %s: score %d -> %d at %s but the model does not have %s banned (threshold %d)", cause, r.name(y), prev, sc, r.name(x), Y.ip, threshold)
	}
	if prev == 0 || X.contrib[Y.ip] == nil {
		X.contrib[Y.ip] = map[int]bool{}
	}
	X.contrib[Y.ip][y] = true
	if len(X.contrib[Y.ip]) >= 2 {
		r.res.labels["shared-ip:score-accumulated-over-several-peers"] = true
	}
	if st.banned {
		r.res.labels["banned-by:"+cause] = true
		if Y.dialOnly {
			r.res.labels["dial-only-peer-banned-by:"+cause] = true
		}
		X.banBy[Y.ip] = y
		if len(X.contrib[Y.ip]) >= 2 {
			r.res.labels["shared-ip:banned-by-penalties-of-several-peers"] = true
		}
		sibs := r.siblingsConnected(x, y)
		if len(sibs) > 0 {
			r.res.labels["shared-ip:banned-while-another-peer-of-the-ip-is-connected"] = true
			r.logf("%s is banned at %s while %d other peer(s) from that IP are connected: %v", Y.ip, r.name(x), len(sibs), sibs)
		}
		if v := r.afterBan(x, y, cause, ""); v != "" {
			return v
		}
		for _, z := range sibs {
			if r.connected(x, z) {
				// engine behaviour (only the penalised peer's connections are closed); the statement does not forbid it
				r.res.labels["shared-ip:other-peer-keeps-its-connection-after-the-ban"] = true
			}
		}
		return ""
	}
	return ""
}

// penaltyOnBannedIP: y was penalised at x (message sent after t0) while the model has y's IP banned at x. The stored
// score of a banned IP is not asserted. What the statement does fix: a penalty that leaves the IP's total at or above
// the threshold ("once the total reaches the ban threshold the peer is disconnected") must close the penalised peer's
// connection - in particular the connection of a second peer of an IP that another peer got banned. amount < 0: a ban
// (the engine adds the threshold itself).
func (r *erun) penaltyOnBannedIP(x, y int, amount int, cause string, t0 time.Time) string {
	X, Y := r.nodes[x], r.nodes[y]
	pre := r.pre[[2]int{x, y}]
	delete(r.pre, [2]int{x, y})
	if amount < 0 {
		amount = threshold
	}
	if pre == nil {
		X.bm.penalty(Y.ip, 1, 0, false, t0, time.Now()) // no snapshot: only tell the model that the ban may have been renewed
		return ""
	}
	var sc int
	var exp int64
	// an entry that differs from the snapshot; a missing entry is the sweep's doing (the penalty may still be on its way)
	seen := waitFor(6*time.Second, func() bool {
		var ok bool
		sc, exp, ok = X.conn.VerifPeerScore(Y.ip)
		return ok && (!pre.ok || sc != pre.score || exp != pre.exp)
	})
	t1 := time.Now()
	if !seen {
		r.logf("%s by %s while %s is banned at %s: stored score stays %d (nothing asserted)", cause, r.name(y), Y.ip, r.name(x), pre.score)
		r.res.labels["penalty-on-banned-ip-not-visible"] = true
		X.bm.penalty(Y.ip, 1, 0, false, t0, t1)
		return ""
	}
	st := X.bm.get(Y.ip)
	zone := st.zone(t0, t1)
	r.logf("%s by %s while %s is banned at %s (zone %s, banned because of N%d): stored score %d -> %d, peer connected before: %v", cause, r.name(y), Y.ip, r.name(x), zone, X.banBy[Y.ip], pre.score, sc, pre.connected)
	// must zone: the ban is renewed; later: a return value equal to the amount means that the old entry had been swept
	if v := X.bm.penalty(Y.ip, amount, sc, true, t0, t1); v != "" {
		return v
	}
	if sc == amount {
		// fresh entry: this peer alone accounts for the new score
		X.contrib[Y.ip] = map[int]bool{y: true}
		X.banBy[Y.ip] = y
	}
	if sc < threshold || !pre.connected {
		return ""
	}
	X.cause[y] = cause
	r.res.labels["penalty-on-banned-ip:"+cause] = true
	r.res.labels["penalty-on-banned-ip-in-zone:"+zone] = true
	other := ""
	if by, ok := X.banBy[Y.ip]; ok && by != y {
		r.res.labels["shared-ip:second-peer-penalised-after-ban-by-first:"+cause] = true
		other = fmt.Sprintf("; the IP had been banned because of %s, %s kept its connection and was penalised now (stored total %d -> %d)", r.name(by), r.name(y), pre.score, sc)
	}
	if v := r.afterBan(x, y, cause, other); v != "" {
		return v
	}
	r.res.labels["disconnected-by-penalty-on-banned-ip"] = true
	return ""
}

// afterBan: x has just banned y's IP: the peer must get disconnected.
func (r *erun) afterBan(x, y int, cause string, note string) string {
	X, Y := r.nodes[x], r.nodes[y]
	if v, _ := r.listedOnce(x, y); v != "" {
		return v
	}
	envelope := cause == "badreq" || cause == "badres" || cause == "unkreq" || cause == "unkres"
	patience := 3 * time.Second
	if envelope && evid.R.IsKnown(sigF1) {
		patience = 700 * time.Millisecond // known finding: do not spend the ban's lifetime waiting for it
	}
	gone := waitFor(patience, func() bool { return !r.connected(x, y) })
	if !gone {
		if envelope && evid.R.KnownFinding(sigF1) {
			evid.R.Excluded(1)
			r.res.labels["known-F1-worked-around"] = true
			r.logf("KNOWN C18-F1: %s banned %s (%s) but keeps the connection; closing it by hand to continue", r.name(x), Y.ip, cause)
			_ = X.conn.Disconnect(Y.conn.ID())
			waitFor(3*time.Second, func() bool { return !r.connected(x, y) && !r.connected(y, x) })
			return ""
		}
		sig := "other"
		if envelope {
			sig = sigF1
		}
		return fmt.Sprintf("%s banned %s (cause %s, score >= %d) but peer %s is still connected %v later%s [signature %s]", r.name(x), Y.ip, cause, threshold, r.name(y), patience, note, sig)
	}
	r.res.labels["disconnected-after-ban"] = true
	waitFor(3*time.Second, func() bool { return !r.connected(y, x) })
	return ""
}

// request sends one well-formed request a -> b and applies the rate-limit model on both sides.
func (r *erun) request(a, b int, proc string, data []byte) string {
	A, B := r.nodes[a], r.nodes[b]
	L, P := r.s.lim(b, proc)   // what b applies to a's requests
	LA, PA := r.s.lim(a, proc) // what a applies to b's responses
	// prediction at b (request) and at a (response)
	B.cnt[proc][a]++
	penB := B.cnt[proc][a] > L
	banB := false
	if penB {
		B.cnt[proc][a] = 0
		st := B.bm.get(A.ip)
		banB = !st.banned && st.score+P >= threshold
	}
	appBan := false
	if proc == procStrict && len(data) == 1 {
		st := B.bm.get(A.ip)
		k := int(data[0])
		if k == 0 {
			k = threshold
		}
		add := 0
		if penB {
			add = P
		}
		appBan = !st.banned && st.score+add+k >= threshold
	}
	if proc == procStrict {
		// Connection.ApplyPenalty/BanPeer act once per open connection to the peer; the model assumes the usual single one
		if n := len(B.conn.VerifRemoteAddrs(A.conn.ID())); n != 1 {
			r.res.infra = fmt.Sprintf("environment: %d connections between %s and %s (ApplyPenalty applies the amount once per connection)", n, r.name(a), r.name(b))
			return ""
		}
	}
	// a's IP is already banned at b (another peer of that IP got it banned, a kept its connection) and this request earns
	// a penalty: b closes the connection - unless the ban's entry was swept in the meantime (then the score is fresh)
	cut := false
	if stB := B.bm.get(A.ip); stB.banned && (penB || (proc == procStrict && len(data) == 1)) {
		cut = true
	}
	timeout := 10 * time.Second
	if banB || appBan {
		timeout = 300 * time.Millisecond // no answer can come: b closes the connection
	} else if cut {
		timeout = 3 * time.Second
		if r.zone(b, a) == "must" {
			timeout = 300 * time.Millisecond
		}
	}
	ctx, cancel := context.WithTimeout(context.Background(), timeout)
	r.pre = nil
	r.snap(b, a)
	r.snap(a, b)
	t0 := time.Now()
	// Watch the stored scores while the request is in flight where the model expects NO penalty: a false penalty that
	// reaches the threshold closes the connection (the request then waits for its timeout) and a short ban may be over
	// and swept before anybody looks again.
	var falseScore atomic.Value
	stopW, doneW := make(chan struct{}), make(chan struct{})
	{
		type watch struct {
			x, y int
			want int
		}
		var ws []watch
		if !penB && !(proc == procStrict && len(data) == 1) && r.zone(b, a) == "clean" {
			ws = append(ws, watch{b, a, B.bm.get(A.ip).score})
		}
		if A.cnt[proc][b]+1 <= LA && r.zone(a, b) == "clean" {
			ws = append(ws, watch{a, b, A.bm.get(B.ip).score})
		}
		sample := func() {
			for _, w := range ws {
				if sc, _, ok := r.nodes[w.x].conn.VerifPeerScore(r.nodes[w.y].ip); ok && sc != w.want && falseScore.Load() == nil {
					falseScore.Store(fmt.Sprintf("%s stored score %d for %s (model %d: the traffic of %s is within the limit of every procedure, no penalty is due) %.3fs after the request was sent",
						r.name(w.x), sc, r.nodes[w.y].ip, w.want, r.name(w.y), time.Since(t0).Seconds()))
					cancel() // no answer will come
				}
			}
		}
		go func() {
			defer close(doneW)
			for {
				sample()
				select {
				case <-stopW:
					sample() // a penalty is stored before the answer is sent
					return
				case <-time.After(5 * time.Millisecond):
				}
			}
		}()
	}
	resp := A.conn.RequestFrom(ctx, B.conn.ID(), proc, data)
	cancel()
	close(stopW)
	<-doneW
	answered := resp.Error() == nil
	if fs := falseScore.Load(); fs != nil {
		return fmt.Sprintf("well-formed request %s -> %s %s within the limits was penalised: %s; request answered=%v, %s still connected to %s=%v",
			r.name(a), r.name(b), proc, fs.(string), answered, r.name(b), r.name(a), r.connected(b, a))
	}
	if penB {
		r.res.labels["rate-penalty"] = true
		if v := r.expectPenalty(b, a, P, "rate-limit("+proc+")", t0); v != "" {
			return v
		}
	}
	if proc == procStrict && len(data) == 1 {
		if data[0] == 0 {
			if v := r.expectPenalty(b, a, -1, "app-ban", t0); v != "" {
				return v
			}
			if st := B.bm.get(A.ip); !st.banned {
				return fmt.Sprintf("BanPeer(%s) at %s left the IP unbanned (score %d)", r.name(a), r.name(b), st.score)
			}
		} else if v := r.expectPenalty(b, a, int(data[0]), "app-penalty", t0); v != "" {
			return v
		}
	}
	if banB || appBan {
		return ""
	}
	if cut && !answered {
		return ""
	}
	if !answered {
		r.logf("request %s -> %s %s unanswered: %v", r.name(a), r.name(b), proc, resp.Error())
		// a request within the limits that is not served: if somebody earned a score for it, that is the violation
		// (a false penalty that reached the threshold closes the connection before the answer)
		waitBeats(20)
		if v := r.checkScores(fmt.Sprintf("after the request %s -> %s %s (within the limits by the model: no penalty expected) stayed unanswered", r.name(a), r.name(b), proc)); v != "" {
			return v
		}
		r.res.infra = "a request that the model expects to be served was not answered: " + resp.Error().Error()
		return ""
	}
	r.lastResp, r.lastOK = resp.Data(), true
	// response counted at a
	A.cnt[proc][b]++
	if A.cnt[proc][b] > LA {
		A.cnt[proc][b] = 0
		r.res.labels["rate-penalty-on-responder"] = true
		if v := r.expectPenalty(a, b, PA, "rate-limit-responses("+proc+")", t0); v != "" {
			return v
		}
	}
	return ""
}

func encodeEnvelope(id, procedure string, data []byte, errText string, response bool) []byte {
	w := codec.NewWriter()
	w.WriteString(1, id)
	w.WriteString(2, procedure)
	w.WriteBytes(3, data)
	if response {
		w.WriteString(4, errText)
	}
	return w.Result()
}

// checkScores: every stored score equals the model wherever the model is certain (in particular: zero where nothing
// was ever penalised).
func (r *erun) checkScores(when string) string {
	for x, X := range r.nodes {
		for y, Y := range r.nodes {
			if x == y {
				continue
			}
			t0 := time.Now()
			sc, _, _ := X.conn.VerifPeerScore(Y.ip)
			if v := X.bm.scoreSeen(Y.ip, sc, t0, time.Now()); v != "" {
				return fmt.Sprintf("%s at %s: %s", when, r.name(x), v)
			}
		}
	}
	return ""
}

// headroom: how many further messages of proc a may send to b (and b answer) without anybody exceeding the limit, by
// the harness's counts.
func (r *erun) headroom(a, b int, proc string) int {
	A, B := r.nodes[a], r.nodes[b]
	LB, _ := r.s.lim(b, proc)
	LA, _ := r.s.lim(a, proc)
	h := LB - B.cnt[proc][a]
	if x := LA - A.cnt[proc][b]; x < h {
		h = x
	}
	return h
}

// interleave: counts[k] copies of k in an order fixed by the drawn bytes.
func interleave(counts []int, rnd []byte) []int {
	var out []int
	for k, n := range counts {
		for i := 0; i < n; i++ {
			out = append(out, k)
		}
	}
	for i := len(out) - 1; i > 0; i-- {
		x := 0
		if len(rnd) > 0 {
			x = int(rnd[i%len(rnd)])
		}
		j := x % (i + 1)
		out[i], out[j] = out[j], out[i]
	}
	return out
}

// awaitCountersZero: all message counters of all rate-limited procedures are seen at zero on all nodes at once (every
// node went through a reset since the last message); the harness's counts restart as well. Always true (see below).
func (r *erun) awaitCountersZero() bool {
	ok := waitFor(10*time.Second, func() bool {
		for x, X := range r.nodes {
			for y, Y := range r.nodes {
				if x == y {
					continue
				}
				for _, proc := range echoProcs {
					if X.conn.VerifRateCounter(proc, Y.conn.ID()) != 0 {
						return false
					}
				}
			}
		}
		return true
	})
	if !ok {
		// Not observed - but nothing was sent for 10 s (>= 6 intervals, during which this process demonstrably ran): whatever
		// window the limit refers to is over, new traffic up to the limits is legal. If the node still counts the old
		// messages, it will penalise legal traffic, and that is what gets reported.
		r.logf("rate counters NOT seen at zero within 10 s (interval %v); nothing was sent meanwhile, so the windows are over by elapsed time: counts restart", r.s.rateInterval())
		r.res.labels["rate-window-over-by-elapsed-time-only"] = true
	}
	if time.Since(r.started) >= r.s.rateInterval() {
		r.firstReset = true
	}
	for _, X := range r.nodes {
		for _, proc := range echoProcs {
			X.cnt[proc] = map[int]int{}
		}
	}
	return true
}

// overAfterReset (mirror scenarios): a exceeds the limit of ONE procedure at b by one message, next to legal amounts of
// the other procedures, all inside one counter window of b: exactly one penalty of that procedure is due - also after
// any number of resets. The window is found by observation: a marker message is sent and b's counter for it is polled
// until it drops to zero (the reset tick happened between the last two polls); the next tick is at least one interval
// after that, and everything has to be sent well before (else the event is given up: nothing is sent that could be
// illegal or unpenalised by bad luck).
func (r *erun) overAfterReset(e eev) string {
	a, b := e.From, e.To
	ok, v := r.ensureConnected(a, b)
	if v != "" || !ok || r.res.infra != "" {
		return v
	}
	A, B := r.nodes[a], r.nodes[b]
	proc := echoProcs[e.Proc%len(echoProcs)]
	interval := r.s.rateInterval()
	margin := 350 * time.Millisecond
	// the marker: one legal message of a procedure that has room for it (else wait for a reset first)
	marker := ""
	for _, p := range echoProcs {
		if marker == "" && r.headroom(a, b, p) >= 1 {
			marker = p
		}
	}
	if marker == "" {
		if !r.awaitCountersZero() {
			r.res.infra = "rate counters were not reset within 10 s"
			return ""
		}
		marker = proc
	}
	lower := time.Now() // no tick of b before this instant can have been the one that removes the marker
	if v := r.request(a, b, marker, []byte("marker")); v != "" || r.res.infra != "" {
		return v
	}
	edge := waitFor(10*time.Second, func() bool {
		if B.conn.VerifRateCounter(marker, A.conn.ID()) == 0 {
			return true
		}
		lower = time.Now()
		return false
	})
	if !edge {
		r.res.infra = "marker message was not reset within 10 s"
		return ""
	}
	seen := time.Now()
	deadline := lower.Add(interval - margin)
	if time.Since(r.started) >= interval {
		r.firstReset = true
	}
	// b's counters for a are zero now, exactly
	for _, p := range echoProcs {
		B.cnt[p][a] = 0
	}
	L, P := r.s.lim(b, proc)
	var counts []int
	for k, p := range echoProcs {
		h := r.headroom(a, b, p)
		n := h
		if e.Burst == "within" && h >= 1 {
			n = 1 + e.Extra%h
		}
		if k == e.Proc%len(echoProcs) {
			n = L + 1
		}
		if n < 0 {
			n = 0
		}
		counts = append(counts, n)
	}
	order := interleave(counts, e.Bytes)
	r.logf("over %s -> %s right after an observed reset of %s's counters (tick between +%.3fs and +%.3fs, interval %v): %v requests of %v in the order %v; limits %v: one penalty of %d for %s is due",
		r.name(a), r.name(b), r.name(b), lower.Sub(r.start).Seconds(), seen.Sub(r.start).Seconds(), interval, counts, echoProcs, order, r.s.PL, P, proc)
	r.res.labels["over-one-procedure-after-reset"] = true
	before := B.bm.get(A.ip).score
	for i, k := range order {
		if r.zone(a, b) != "clean" || r.zone(b, a) != "clean" || !r.connected(a, b) {
			break
		}
		if time.Now().After(deadline) {
			// too slow for this window: from here on the harness's counts are upper bounds again; stop sending
			r.logf("over: window nearly used up after %d of %d requests, event given up", i, len(order))
			r.res.labels["over-given-up-slow"] = true
			return ""
		}
		if v := r.request(a, b, echoProcs[k], []byte{byte(i)}); v != "" || r.res.infra != "" {
			return v
		}
	}
	if st := B.bm.get(A.ip); st.banned || st.score == before+P {
		r.res.labels["one-procedure-over-its-limit-penalised-after-reset"] = true
		if r.firstReset {
			r.res.labels["one-procedure-over-its-limit-penalised-after-the-first-tick"] = true
		}
	}
	return ""
}

func (r *erun) runEvent(e eev) string {
	a, b := e.From, e.To
	A, B := r.nodes[a], r.nodes[b]
	switch e.Kind {
	case "req":
		ok, v := r.ensureConnected(a, b)
		if v != "" || !ok || r.res.infra != "" {
			return v
		}
		proc := echoProcs[e.Proc%len(echoProcs)]
		// a single request is legal only while it stays within the limit
		if r.s.legalSem() && r.headroom(a, b, proc) < 1 {
			return ""
		}
		if e.Size > 0 {
			// a well-formed request is well-formed at every size: payload of a drawn size class, echoed by the handler
			return r.sizedRequest(a, b, proc, e.Size)
		}
		r.logf("request %s -> %s %s", r.name(a), r.name(b), proc)
		return r.request(a, b, proc, []byte("hello"))
	case "burst":
		ok, v := r.ensureConnected(a, b)
		if v != "" || !ok || r.res.infra != "" {
			return v
		}
		proc := echoProcs[e.Proc%len(echoProcs)]
		L, P := r.s.lim(b, proc)
		h := r.headroom(a, b, proc)
		n := 0
		switch e.Burst {
		case "within":
			if h >= 1 {
				n = 1 + e.Extra%h
			}
		case "tolimit":
			n = h
		case "over1":
			n = h + 1
		default:
			n = h + 1 + e.Extra
		}
		if r.s.legalSem() && n > h {
			n = h
		}
		r.logf("burst %s -> %s: %d %s requests (headroom %d of limit %d, penalty %d)", r.name(a), r.name(b), n, proc, h, L, P)
		if n > h {
			r.res.labels["burst-above-limit"] = true
			r.res.labels["burst-above-limit:"+proc] = true
		} else if n == h && n > 0 {
			r.res.labels["burst-exactly-to-limit"] = true
		}
		for i := 0; i < n; i++ {
			if r.s.Shared {
				// a peer can be connected although its IP is banned (another peer of the IP caused the ban): it goes on
				if !r.connected(a, b) || !r.connected(b, a) {
					break
				}
			} else if r.zone(a, b) != "clean" || r.zone(b, a) != "clean" || !r.connected(a, b) {
				break // banned meanwhile
			}
			if v := r.request(a, b, proc, []byte{byte(i)}); v != "" || r.res.infra != "" {
				return v
			}
		}
		return ""
	case "mix":
		// legal traffic over ALL procedures, interleaved: every procedure stays within its own limit, the sum does not care
		ok, v := r.ensureConnected(a, b)
		if v != "" || !ok || r.res.infra != "" {
			return v
		}
		var counts []int
		total, minL, full := 0, 1<<30, 0
		for _, proc := range echoProcs {
			h := r.headroom(a, b, proc)
			n := h
			if e.Burst == "within" && h >= 1 {
				n = 1 + e.Extra%h
			}
			if n < 0 {
				n = 0
			}
			if L, _ := r.s.lim(b, proc); L < minL {
				minL = L
			}
			if n == h && n > 0 {
				full++
			}
			counts = append(counts, n)
			total += n
		}
		order := interleave(counts, e.Bytes)
		r.logf("mix %s -> %s: %v requests of %v in the order %v (each within the limit of its own procedure; limits %v)", r.name(a), r.name(b), counts, echoProcs, order, r.s.PL)
		sentBefore := r.firstReset
		for i, k := range order {
			if r.zone(a, b) != "clean" || r.zone(b, a) != "clean" || !r.connected(a, b) {
				break
			}
			if v := r.request(a, b, echoProcs[k], []byte{byte(i)}); v != "" || r.res.infra != "" {
				return v
			}
		}
		if total > minL {
			r.res.labels["legal-mix:sum-over-procedures-exceeds-a-single-limit"] = true
			if sentBefore {
				r.res.labels["legal-mix:sum-exceeds-a-single-limit-after-an-observed-reset"] = true
			} else if time.Since(r.start) < r.s.rateInterval() {
				r.res.labels["legal-mix:sum-exceeds-a-single-limit-before-the-first-tick"] = true
			}
		}
		if full >= 2 {
			r.res.labels["legal-mix:two-or-more-procedures-filled-exactly-to-their-limits"] = true
		}
		// legal traffic: still connected, not listed (the scores are compared after every event)
		for _, p := range [][2]int{{b, a}, {a, b}} {
			if r.zone(p[0], p[1]) == "clean" {
				if v, _ := r.listedOnce(p[0], p[1]); v != "" {
					return "after legal traffic: " + v
				}
			}
		}
		return ""
	case "over":
		return r.overAfterReset(e)
	case "app":
		ok, v := r.ensureConnected(a, b)
		if v != "" || !ok || r.res.infra != "" {
			return v
		}
		if B.cnt[procStrict][a] >= 90 || r.s.Legal {
			return ""
		}
		r.logf("request %s -> %s strict k=%d (handler calls %s)", r.name(a), r.name(b), e.K, map[bool]string{true: "BanPeer", false: "ApplyPenalty"}[e.K == 0])
		return r.request(a, b, procStrict, []byte{byte(e.K)})
	case "badreq", "badres", "unkreq", "unkres":
		ok, v := r.ensureConnected(a, b)
		if v != "" || !ok || r.res.infra != "" {
			return v
		}
		isReq := e.Kind == "badreq" || e.Kind == "unkreq"
		var data []byte
		switch e.Kind {
		case "badreq", "badres":
			data = e.Bytes
			// classify with the real decoders: the bytes must be undecodable or name an unregistered procedure
			var proc string
			var derr error
			if isReq {
				q := &p2p.Request{}
				derr = q.Decode(data)
				proc = q.Procedure
			} else {
				proc, derr = p2p.VerifDecodeResponseEnvelope(data)
			}
			if len(data) == 0 || (derr == nil && (proc == procEcho || proc == procStrict)) {
				data = []byte{0x0a, 0x05, 0x01}
				derr = fmt.Errorf("truncated")
			}
			if derr != nil {
				r.res.labels["envelope-undecodable"] = true
			} else {
				r.res.labels["envelope-decodable-unknown-procedure"] = true
			}
		default:
			data = encodeEnvelope("6f1c1f0e-1111-4222-8333-444455556666", fmt.Sprintf("noSuchProcedure%d", e.Extra), []byte("x"), "", !isReq)
		}
		r.logf("%s %s -> %s: %d raw bytes %x on the %s protocol", e.Kind, r.name(a), r.name(b), len(data), data, map[bool]string{true: "request", false: "response"}[isReq])
		ctx, cancel := context.WithTimeout(context.Background(), 10*time.Second)
		r.pre = nil
		r.snap(b, a)
		t0 := time.Now()
		err := A.conn.VerifRawSend(ctx, B.conn.ID(), isReq, data)
		cancel()
		if err != nil {
			r.res.infra = "raw send failed: " + err.Error()
			return ""
		}
		return r.expectPenalty(b, a, banAtOnce, e.Kind, t0)
	case "dial":
		return r.dial(a, b, "scenario event")
	case "drop":
		if r.connected(a, b) {
			r.logf("%s disconnects %s", r.name(a), r.name(b))
			_ = A.conn.Disconnect(B.conn.ID())
			waitFor(5*time.Second, func() bool { return !r.connected(a, b) && !r.connected(b, a) })
		}
		return ""
	case "await":
		// wait until each side's ban of the other (if any) is seen over
		for _, p := range [][2]int{{b, a}, {a, b}} {
			X, Y := r.nodes[p[0]], r.nodes[p[1]]
			st := X.bm.get(Y.ip)
			if !st.banned {
				continue
			}
			r.logf("await: %s's ban of %s (must last until +%.3fs, at most until +%.3fs)", r.name(p[0]), Y.ip, st.mustEnd.Sub(r.start).Seconds(), st.upper.Sub(r.start).Seconds())
			hard := st.upper.Add(10 * X.bm.slack)
			for st.banned {
				if v := r.banListClears(p[0], p[1]); v != "" {
					return v
				}
				if st.banned {
					if time.Now().After(hard) {
						r.res.infra = "await: model did not resolve"
						return ""
					}
					time.Sleep(20 * time.Millisecond)
				}
			}
			r.logf("await: ban of %s at %s is over", Y.ip, r.name(p[0]))
			r.res.labels["ban-expired-and-observed"] = true
		}
		return ""
	case "resetwait":
		if !r.s.legalSem() {
			return ""
		}
		if !r.awaitCountersZero() {
			r.res.infra = "rate counters were not reset within 10 s"
			return ""
		}
		r.logf("rate counters seen reset on all nodes")
		r.res.labels["rate-window-reset-observed"] = true
		return ""
	}
	return ""
}

func runScenario(s escn) *seqResult {
	if s.Multi {
		return runMultiScenario(s)
	}
	if s.Conc {
		return runConcScenario(s)
	}
	if s.Late {
		return runLateScenario(s)
	}
	if s.HitRun {
		return runHitRunScenario(s)
	}
	if s.Size {
		return runSizeScenario(s)
	}
	res := &seqResult{labels: map[string]bool{}}
	r := &erun{s: s, start: time.Now(), res: res}
	defer r.teardown()
	if err := r.setup(); err != nil {
		res.infra = "setup: " + err.Error()
		return res
	}
	r.started = time.Now()
	var ips []string
	for _, n := range r.nodes {
		ips = append(ips, n.ip)
	}
	r.logf("scenario legal=%v nodes=%v security=%s expiry=%ds sweep=%dms limit=%d penalty=%d blacklist: node %d lists node %d (form %d) dialOnly=node %d", s.Legal, ips, s.Security, s.ExpiryS, s.SweepMs, s.Limit, s.Penalty, s.BlackBy, s.BlackOf, s.BlackF, s.DialOnly)
	if len(s.PL) > 0 {
		r.logf("procedures %v: limits %v, penalties %v (own counter per procedure and peer)", echoProcs, s.PL, s.PP)
	}
	if s.legalSem() {
		r.logf("rate-limit interval %v (mirror=%v: only node 0 applies the limits above)", s.rateInterval(), s.Mirror)
		res.labels[fmt.Sprintf("e2e-rate-interval:%v", s.rateInterval())] = true
	}
	if s.Mirror {
		res.labels["e2e-mirror"] = true
	}
	if s.V6 {
		res.labels["e2e-ipv6"] = true
	}
	if s.BlackOf >= 0 {
		res.labels["e2e-blacklist"] = true
	}
	if s.DialOnly >= 0 {
		res.labels["e2e-dial-only-node"] = true
	}
	if s.Shared {
		res.labels["e2e-shared-ip"] = true
		res.labels[fmt.Sprintf("e2e-shared-ip:%d-of-%d-nodes-on-one-ip", len(s.Group), s.N)] = true
		for _, i := range s.Group {
			if i == s.DialOnly && len(s.Group) > 1 {
				res.labels["e2e-shared-ip:dial-only-peer-and-listener-on-127.0.0.1"] = true
			}
		}
		r.logf("shared IP: nodes %v are on %s", s.Group, r.nodes[s.Group[0]].ip)
	}
	// sanity of the environment: the IP a node sees for its peer is the peer's listen IP (reuseport dialing)
	if s.BlackOf < 0 {
		from, to := 0, 1
		if r.nodes[1].dialOnly {
			from, to = 1, 0
		}
		if v := r.dial(from, to, "environment check"); v != "" {
			res.violation = v
			return res
		}
		if res.infra != "" {
			return res
		}
	}
	var key strings.Builder
	fmt.Fprintf(&key, "%v|%v|%s|%d|%d|%d|%d|%d>%d.%d|D%d|", s.Legal, ips, s.Security, s.ExpiryS, s.SweepMs, s.Limit, s.Penalty, s.BlackBy, s.BlackOf, s.BlackF, s.DialOnly)
	fmt.Fprintf(&key, "%v|%v|%d|%v|", s.PL, s.PP, s.RateMs, s.Mirror)
	for _, e := range s.Events {
		if e.From >= s.N || e.To >= s.N || e.From == e.To {
			continue
		}
		fmt.Fprintf(&key, "%s.%d.%d.%s.%d.%d.%x.%d.%d;", e.Kind, e.From, e.To, e.Burst, e.Extra, e.K, e.Bytes, e.Proc, e.Size)
		res.labels["event:"+e.Kind] = true
		if v := r.runEvent(e); v != "" {
			res.violation = v
			return res
		}
		if res.infra != "" {
			return res
		}
		if v := r.checkScores("after " + e.Kind); v != "" {
			res.violation = v
			return res
		}
	}
	time.Sleep(30 * time.Millisecond)
	if v := r.checkScores("at the end"); v != "" {
		res.violation = v
		return res
	}
	for _, X := range r.nodes {
		for _, Y := range r.nodes {
			st := X.bm.get(Y.ip)
			if st.cycle {
				res.nontrivial = true
			}
		}
	}
	if s.Legal {
		res.labels["e2e-legal-only"] = true
		// legal-only scenarios count as non-trivial when traffic reached the limit or crossed a counter reset
		if res.labels["burst-exactly-to-limit"] || res.labels["legal-mix:sum-over-procedures-exceeds-a-single-limit"] {
			res.nontrivial = true
		}
	}
	res.key = key.String()
	return res
}

// runScenarioRobust repeats a failing scenario: only a failure that shows up in all three attempts is reported, so a
// wall-clock effect (a stalled goroutine on a loaded machine) cannot produce a violation.
func runScenarioRobust(s escn) *seqResult {
	var first *seqResult
	for attempt := 1; attempt <= 3; attempt++ {
		heartbeat()
		stalls := hbStalls.Load()
		res := runScenario(s)
		if res.violation != "" && res.hard {
			// positive evidence (late_test.go: a score / ban stored for the IP of a peer that only ever sent well-formed,
			// solicited traffic within the limits): no stall and no retry can explain a stored penalty away
			return res
		}
		if res.violation != "" && hbStalls.Load() != stalls {
			// the process was not scheduled for > 250 ms at least once during this attempt: with bans that live 1-2 s
			// a failed observation is not evidence
			res.infra = "process stalled during the attempt; observed: " + res.violation
			res.violation = ""
		}
		if res.violation == "" && res.infra == "" {
			if first != nil {
				evid.R.Inconclusive("e2e scenario failed on attempt 1 but passed on attempt %d: %s%s", attempt, first.violation, first.infra)
			}
			return res
		}
		if first == nil {
			first = res
		}
		if os.Getenv("VERIF_C18_DEBUG") != "" {
			fmt.Printf("DEBUG attempt %d failed: violation=%q infra=%q\n%s\n", attempt, res.violation, res.infra, res.render())
		}
	}
	return first
}

func TestE2E(t *testing.T) {
	n := 8
	rapid.Check(t, func(rt *rapid.T) {
		runE2EBatch(rt, rapid.SliceOfN(genScenario(), n, n).Draw(rt, "scenarios"))
	})
}

// runE2EBatch runs the scenarios of one rapid case in parallel and registers / reports the results.
func runE2EBatch(rt *rapid.T, scns []escn) {
	results := make([]*seqResult, len(scns))
	var wg sync.WaitGroup
	for i := range scns {
		if !scns[i].On {
			continue
		}
		wg.Add(1)
		go func(i int) {
			defer wg.Done()
			results[i] = runScenarioRobust(scns[i])
		}(i)
	}
	wg.Wait()
	var fails []string
	for i, res := range results {
		if res == nil {
			continue
		}
		if res.violation != "" {
			how := "3 attempts"
			if res.hard {
				how = "positive evidence, reported at its first occurrence"
			}
			fails = append(fails, fmt.Sprintf("scenario %d: C18 violated (end-to-end, %s): %s\nhistory:\n%s", i, how, res.violation, res.render()))
		} else if res.infra != "" {
			evid.R.Inconclusive("e2e scenario dropped (environment): %s", res.infra)
			evid.R.Label("e2e-inconclusive", 1)
		} else {
			register("e2e", res)
			registerCounts(res)
		}
	}
	if len(fails) > 0 {
		rt.Fatalf("%s", strings.Join(fails, "\n\n"))
	}
}
