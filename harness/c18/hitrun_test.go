package c18

// End-to-end scenarios with "HIT-AND-RUN" OFFENDERS.
//
// Penalties and bans belong to the IP address, not to the live connection: "Malformed envelopes, unknown procedures,
// invalid sync requests and request rates above the limit lead to these penalties" whether or not the offender is still
// there when the node gets to book the offence. A peer that writes its offending message, closes the stream AND the
// connection at once and is gone before the victim's stream handler reaches the penalty must find its IP carrying the
// score (a ban for envelope offences) all the same: its re-dials are refused by the gates for the ban's duration and
// admitted again afterwards. (A penalty path that first asks "is this peer still connected?" and books nothing when
// it is not lets such a peer offend for ever.) In every other scenario of this package the offender waits for the
// node's reaction and is therefore still connected when its offence is booked.
//
// Offenders: (node) a started p2p.Connection on its own loopback IP / without listen address (seen as 127.0.0.1) / on
// ::1 next to the victim, sending through the raw-stream hook; (raw) the libp2p peer of multiconn_test.go with 1-3
// simultaneous connections on 127.0.0.1 / ::1. Offences: undecodable envelope / unknown procedure on the request and on
// the response protocol, a request that exceeds a procedure's rate limit (the window is filled with served requests
// first), handler-issued ApplyPenalty / BanPeer.
//
// Orderings (drawn; the handle is the logger handed to the victim: MessageProtocol.onRequest/onResponse log "Data from
// <peer> received" after the stream was read and before anything is decoded, rateLimit.checkLimit logs "Peer <id> sent
// too many messages ..." right before it applies the penalty):
//   gone   - forced: the victim's handler is kept in that logger call until the victim itself no longer lists a
//            connection to the offender (the offender closes as soon as the message has been read), then released: the
//            penalty path certainly runs for a peer that has left ("a goroutine may be delayed at any point");
//   race   - not forced: the offender closes a drawn 0-10 ms after the write; whatever happens is labelled (message
//            lost / penalty path entered with the offender gone / still connected);
//   logged - the offender closes as soon as the victim has logged the offence (the penalty is being booked).
// Raw peer with >= 2 connections: scope "all" closes every connection, scope "one" only the one that carried the message
// (the ban must then close the others).
//
// Oracle - positive evidence only: once the victim has LOGGED the offence (it demonstrably read the message and reached
// the penalty call; "Error while decoding message" / "rpcHandler ... is not registered" / "sent too many messages") the
// offender's IP must carry the score within 6 s (heartbeat-aware): >= the threshold in one step for envelope offences,
// exactly the procedure's penalty for the rate limit. A message that the victim never logged (the close overtook the
// data) earns nothing and is only counted. Then the usual consequences (ban model of common_test.go): listed, no
// connection left, re-dials from the IP and the victim's own dial refused while the ban is certain, ban seen over,
// re-dial admitted, request served, clean score, small penalty exact. Below the threshold the re-dial must be ADMITTED.
//
// Outside the domain (recorded, not asserted): Connection.ApplyPenalty / BanPeer take a peer ID and resolve the
// address(es) through the peer's live connections (ConnsToPeer); for a peer that has left the unchanged engine knows no
// address and books nothing. A handler-issued penalty is asserted only when the victim still held a connection to the
// peer right AFTER the call returned (then the call certainly saw it).

import (
	"context"
	"fmt"
	"os"
	"strings"
	"sync"
	"testing"
	"time"

	"github.com/libp2p/go-libp2p/core/network"
	"pgregory.net/rapid"

	"github.com/LiskHQ/lisk-engine/pkg/log"
	"github.com/LiskHQ/lisk-engine/pkg/p2p"

	"verifharness/evid"
)

// hoff: one hit-and-run offence.
type hoff struct {
	Kind    string // badreq | unkreq | badres | unkres | rate | app
	Order   string // gone | race | logged
	DelayUs int    // race: pause between the write and the close
	Scope   string // all | one (raw peer with >= 2 connections)
	Via     int    // raw peer: connection that carries the offending message
	Proc    int    // rate: procedure
	K       int    // app: amount, 0 = BanPeer
	Bytes   []byte // badreq / badres
}

// hcyc: connect, behave, hit-and-run offences until banned, try to come back, wait, come back.
type hcyc struct {
	Warm   []int  // well-formed requests first (procedure index)
	Offs   []hoff // the last one is an envelope offence or the rate limit (repeated until banned)
	Redial []int  // during the ban: >= 0 the offender dials (raw: that host), -1 the victim dials
	After  int
	KAfter int
}

type hconf struct {
	Raw    bool // the offender is the raw libp2p peer (one key, NConn hosts), else a started p2p.Connection (node 1)
	NConn  int
	VFirst bool
	Cycles []hcyc
}

func genHitOff(t *rapid.T, kinds []string) hoff {
	o := hoff{Kind: rapid.SampledFrom(kinds).Draw(t, "hitKind")}
	o.Order = rapid.SampledFrom([]string{"gone", "race", "gone", "logged", "gone", "race"}).Draw(t, "hitOrder")
	o.DelayUs = rapid.SampledFrom([]int{0, 200, 1000, 3000, 500, 10000}).Draw(t, "hitDelayUs")
	o.Scope = rapid.SampledFrom([]string{"all", "one", "all"}).Draw(t, "hitScope")
	o.Via = rapid.IntRange(0, 2).Draw(t, "hitVia")
	o.Proc = rapid.IntRange(0, len(echoProcs)-1).Draw(t, "hitProc")
	o.K = rapid.SampledFrom([]int{0, 20, 0, 40, 60, 100}).Draw(t, "hitK")
	if o.Kind == "badreq" || o.Kind == "badres" {
		o.Bytes = genMalformed(t)
	}
	return o
}

func genHitRun(t *rapid.T, s *escn) {
	s.HitRun = true
	hc := &s.HR
	s.BlackOf, s.DialOnly = -1, -1
	s.Security = rapid.SampledFrom([]string{p2p.ConnectionSecurityNone, p2p.ConnectionSecurityTLS, p2p.ConnectionSecurityNoise}).Draw(t, "security")
	s.SweepMs = rapid.SampledFrom([]int{50, 100, 200}).Draw(t, "sweepMs")
	for i := 0; i < len(echoProcs); i++ {
		s.PL = append(s.PL, rapid.IntRange(2, 6).Draw(t, "limitN"))
		s.PP = append(s.PP, rapid.SampledFrom([]int{25, 34, 50, 99, 100, 120}).Draw(t, "penaltyN"))
	}
	s.Limit, s.Penalty = s.PL[0], s.PP[0]
	perm := rapid.Permutation([]int{2, 3, 4, 5, 6, 7, 8, 9}).Draw(t, "octets")
	switch rapid.SampledFrom([]string{"node", "raw", "node-dialonly", "raw", "node-v6", "node", "raw"}).Draw(t, "hitOffender") {
	case "raw":
		hc.Raw = true
		s.N = 1
		s.IPs = append([]int{}, perm[:1]...)
		s.V6 = rapid.IntRange(0, 5).Draw(t, "v6") == 0
		hc.NConn = rapid.SampledFrom([]int{2, 1, 3, 2}).Draw(t, "nConn")
		hc.VFirst = rapid.IntRange(0, 2).Draw(t, "nodeDialsFirst") == 0
		s.ExpiryS = rapid.SampledFrom([]int{2, 1, 2}).Draw(t, "expiryS")
	case "node-dialonly":
		s.N = 2
		s.IPs = append([]int{}, perm[:2]...)
		s.DialOnly = 1
		s.ExpiryS = rapid.SampledFrom([]int{2, 1, 2}).Draw(t, "expiryS")
	case "node-v6":
		s.N = 2
		s.IPs = append([]int{}, perm[:2]...)
		s.V6 = true
		s.ExpiryS = rapid.SampledFrom([]int{2, 1, 2}).Draw(t, "expiryS")
	default:
		s.N = 2
		s.IPs = append([]int{}, perm[:2]...)
		s.ExpiryS = rapid.SampledFrom([]int{2, 1, 2}).Draw(t, "expiryS")
	}
	for c := rapid.IntRange(1, 2).Draw(t, "cycles"); c > 0; c-- {
		var cy hcyc
		for i := rapid.IntRange(0, 2).Draw(t, "nWarm"); i > 0; i-- {
			cy.Warm = append(cy.Warm, rapid.IntRange(0, len(echoProcs)-1).Draw(t, "warmProc"))
		}
		for i := rapid.IntRange(0, 2).Draw(t, "nPre"); i > 0; i-- {
			cy.Offs = append(cy.Offs, genHitOff(t, []string{"app", "rate", "app"}))
		}
		cy.Offs = append(cy.Offs, genHitOff(t, []string{"badreq", "rate", "unkreq", "badres", "rate", "unkres"}))
		for i := rapid.IntRange(1, 3).Draw(t, "nRedials"); i > 0; i-- {
			cy.Redial = append(cy.Redial, rapid.IntRange(-1, 2).Draw(t, "redialBy"))
		}
		cy.After = rapid.IntRange(-1, 2).Draw(t, "afterBy")
		cy.KAfter = rapid.IntRange(1, 30).Draw(t, "kAfter")
		hc.Cycles = append(hc.Cycles, cy)
	}
}

// ---------------------------------------------------------------------------------------------------------------
// hrGate: the logger of the victim. It records what the victim's stream handlers log about the message that is being
// watched and, when asked to, keeps the handler inside the logger call (bounded) - the ordering handle.
// ---------------------------------------------------------------------------------------------------------------

const hrHoldCap = 8 * time.Second // no hold survives this, whatever the harness does

type hrWatch struct {
	peer, kind, proc string // kind: env | rate
	hold             bool
	engaged          chan struct{} // the hold point was reached (env: stream read; rate: checkLimit is about to penalise)
	release          chan struct{}
	done             chan struct{} // the offence was logged: the penalty call is next
	onceE, onceR     sync.Once
	onceD            sync.Once
	mu               sync.Mutex
	readAt           time.Time
	offenceAt        time.Time
	line             string
	connsAt          int // connections the victim held to the offender when the offence was logged
	errs             []string
}

func (w *hrWatch) free() { w.onceR.Do(func() { close(w.release) }) }

func (w *hrWatch) holdHere() {
	w.onceE.Do(func() { close(w.engaged) })
	if w.hold {
		select {
		case <-w.release:
		case <-time.After(hrHoldCap):
		}
	}
}

func (w *hrWatch) offence(line string, conns int) {
	w.mu.Lock()
	first := w.offenceAt.IsZero()
	if first {
		w.offenceAt, w.line, w.connsAt = time.Now(), line, conns
	}
	w.mu.Unlock()
	if first {
		w.onceD.Do(func() { close(w.done) })
	}
}

func (w *hrWatch) errors() string {
	w.mu.Lock()
	defer w.mu.Unlock()
	if len(w.errs) == 0 {
		return "none"
	}
	return strings.Join(w.errs, " | ")
}

type hrGate struct {
	nopLogger
	mu    sync.Mutex
	cur   *hrWatch
	conns func() int
}

func (g *hrGate) With(...interface{}) log.Logger { return g }

func (g *hrGate) watch(peer, kind, proc string, hold bool) *hrWatch {
	w := &hrWatch{peer: peer, kind: kind, proc: proc, hold: hold, engaged: make(chan struct{}), release: make(chan struct{}), done: make(chan struct{})}
	g.mu.Lock()
	old := g.cur
	g.cur = w
	g.mu.Unlock()
	if old != nil {
		old.free()
	}
	return w
}

func (g *hrGate) current() (*hrWatch, func() int) {
	g.mu.Lock()
	defer g.mu.Unlock()
	return g.cur, g.conns
}

func (g *hrGate) releaseAll() {
	g.mu.Lock()
	w := g.cur
	g.mu.Unlock()
	if w != nil {
		w.free()
	}
}

func (g *hrGate) Debugf(format string, args ...interface{}) {
	w, conns := g.current()
	if w == nil || conns == nil {
		return
	}
	switch {
	case w.kind == "env" && strings.HasPrefix(format, "Data from %v received") && len(args) >= 1 && fmt.Sprint(args[0]) == w.peer:
		w.mu.Lock()
		first := w.readAt.IsZero()
		if first {
			w.readAt = time.Now()
		}
		w.mu.Unlock()
		if first {
			w.holdHere()
		}
	case w.kind == "rate" && strings.HasPrefix(format, penLogPrefix) && len(args) >= 2 && fmt.Sprint(args[0]) == w.peer && fmt.Sprint(args[1]) == w.proc:
		w.mu.Lock()
		first := w.readAt.IsZero()
		if first {
			w.readAt = time.Now()
		}
		w.mu.Unlock()
		if first {
			w.holdHere()
			w.offence(fmt.Sprintf(format, args...), conns())
		}
	}
}

func (g *hrGate) Errorf(format string, args ...interface{}) {
	w, conns := g.current()
	if w == nil || conns == nil {
		return
	}
	switch {
	case w.kind == "env" && (strings.HasPrefix(format, "Error while decoding message") || strings.HasPrefix(format, "rpcHandler %s")):
		w.mu.Lock()
		read := !w.readAt.IsZero()
		w.mu.Unlock()
		if read {
			w.offence(fmt.Sprintf(format, args...), conns())
		}
	case strings.HasPrefix(format, "banPeer error"), strings.HasPrefix(format, "Rate limit error"), strings.HasPrefix(format, "Failed to apply penalty"),
		strings.HasPrefix(format, "Failed to ban peer"), strings.HasPrefix(format, "Error onRequest"), strings.HasPrefix(format, "Error onResponse"):
		w.mu.Lock()
		if len(w.errs) < 6 {
			w.errs = append(w.errs, fmt.Sprintf(format, args...))
		}
		w.mu.Unlock()
	}
}

// strictWatch: what the strict handler of the victim saw around its ApplyPenalty / BanPeer call for the offender.
type strictWatch struct {
	entered, done    chan struct{}
	onceE, onceD     sync.Once
	nBefore, nAfter  int
	before, after    time.Time
	haveB, haveAfter bool
}

// ---------------------------------------------------------------------------------------------------------------

type hrun struct {
	*mrun
	c         hconf
	gate      *hrGate
	smu       sync.Mutex
	sw        *strictWatch
	lost      int       // messages that the victim was not seen to process
	goneHit   bool      // an offence was booked whose penalty path was entered with the offender gone
}

func (h *hrun) raw() bool { return h.c.Raw }

func (h *hrun) opid() p2p.PeerID {
	if h.raw() {
		return h.mp.id
	}
	return h.nodes[1].conn.ID()
}

func (h *hrun) oip() string { return h.nodes[1].ip }

func (h *hrun) stt() *ipState { return h.V.bm.get(h.oip()) }

// nc: connections the victim holds to the offender.
func (h *hrun) nc() int { return len(h.V.conn.VerifRemoteAddrs(h.opid())) }

// left: the victim no longer knows a connection to the offender.
func (h *hrun) left() bool { return h.nc() == 0 && !has(h.V.conn.ConnectedPeers(), h.opid()) }

func (h *hrun) who() string {
	if h.raw() {
		return fmt.Sprintf("raw peer %s on %s", h.mp.id, h.oip())
	}
	return h.name(1)
}

func (h *hrun) count(l string) { h.res.counts[l]++ }

func (h *hrun) onStrict(node int, req *p2p.Request, phase string) {
	if node != 0 || req.PeerID != h.opid() {
		return
	}
	h.smu.Lock()
	w := h.sw
	h.smu.Unlock()
	if w == nil {
		return
	}
	n := h.nc()
	if phase == "before" {
		w.onceE.Do(func() { w.nBefore, w.before, w.haveB = n, time.Now(), true; close(w.entered) })
	} else {
		w.onceD.Do(func() { w.nAfter, w.after, w.haveAfter = n, time.Now(), true; close(w.done) })
	}
}

// link: the offender is connected to the victim (raw: over all its NConn connections). A (re-)dial in the clean zone
// must be admitted by the gates.
func (h *hrun) link(why string) string {
	if h.zone(0, 1) != "clean" {
		return ""
	}
	if h.raw() {
		// exactly the hosts 0..NConn-1 hold one connection each (the victim may have re-dialled the peer to answer a
		// request, a re-dial after a ban may have come from another host)
		ok := h.nc() == h.c.NConn
		for i, hh := range h.mp.hosts {
			if (hh.Network().Connectedness(h.info.ID) == network.Connected) != (i < h.c.NConn) {
				ok = false
			}
		}
		if ok {
			return ""
		}
		return h.connectAll(mcycle{NConn: h.c.NConn, VFirst: h.c.VFirst})
	}
	if h.connected(0, 1) && h.connected(1, 0) && h.nc() == 1 {
		return ""
	}
	for try := 0; try < 3; try++ {
		// erun.dial first drops whatever connection exists (a re-dial of the victim may have crossed this dial)
		if v := h.dial(1, 0, why); v != "" || h.res.infra != "" {
			return v
		}
		waitBeats(2)
		if h.nc() == 1 {
			return ""
		}
	}
	h.res.infra = fmt.Sprintf("environment: %d connections between %s and %s", h.nc(), h.name(0), h.name(1))
	return ""
}

func (h *hrun) sendRaw(via int, request bool, data []byte) error {
	if h.raw() {
		return h.mp.send(via%len(h.mp.hosts), h.info.ID, request, data)
	}
	ctx, cancel := context.WithTimeout(context.Background(), 10*time.Second)
	defer cancel()
	return h.nodes[1].conn.VerifRawSend(ctx, h.V.conn.ID(), request, data)
}

// closeConns: the offender closes its connection(s) to the victim (scope one: only the one that carried the message).
func (h *hrun) closeConns(scope string, via int) {
	if h.raw() {
		for i, hh := range h.mp.hosts {
			if scope == "one" && i != via%len(h.mp.hosts) {
				continue
			}
			_ = hh.Network().ClosePeer(h.info.ID)
		}
	} else {
		_ = h.nodes[1].conn.Disconnect(h.V.conn.ID())
	}
}

// settle: after an offence the offender has closed; wait until both sides agree - normally "not connected". A victim
// that still answers the offending request (rate limit / handler-issued penalty below the threshold) opens a stream for
// the response and thereby RE-DIALS an offender whose listen address it knows: "connected again on both sides" is a
// settled state as well (link sorts it out). Scope one: the remaining connections stay unless a ban closes them.
func (h *hrun) settle(scope string, answers bool) {
	if scope == "one" {
		return
	}
	// the victim's answer (and with it its re-dial) comes within milliseconds of the penalty; "gone on both sides" counts
	// only after it has lasted 40 process heartbeats when an answer is due and the victim knows where to dial
	grace := int64(0)
	if answers && (h.raw() || h.s.DialOnly != 1) {
		grace = 40
	}
	var goneSince int64 = -1
	waitFor(2*time.Second, func() bool {
		on := 0
		if h.raw() {
			for _, hh := range h.mp.hosts {
				if hh.Network().Connectedness(h.info.ID) == network.Connected {
					on++
				}
			}
		} else if h.connected(1, 0) {
			on = 1
		}
		if h.left() && on == 0 {
			if goneSince < 0 {
				goneSince = hbBeats.Load()
			}
			return hbBeats.Load()-goneSince >= grace
		}
		goneSince = -1
		if on > 0 && on == h.nc() {
			h.res.labels["hit-and-run:victim-re-dialled-the-offender-to-answer"] = true
			return true
		}
		return false
	})
}

// served: one well-formed request of the offender that the model expects to be served (rate-limit model of the victim).
func (h *hrun) served(via int, proc string, data []byte) string {
	if h.raw() {
		n := h.nc()
		return h.wellFormed(via%n, proc, data, n)
	}
	return h.request(1, 0, proc, data)
}

// redial: by >= 0 the offender dials (raw: host by), by < 0 the victim dials; judged by the victim's ban model.
func (h *hrun) redial(by int, why string) string {
	if h.raw() {
		return h.attempt(by, why)
	}
	if by >= 0 {
			return h.dial(1, 0, why)
	}
	return h.dial(0, 1, why)
}

// banned: the victim's model has just seen the offender's IP banned: listed, and no connection to the offender left.
func (h *hrun) banned(cause string, o hoff, nBefore int) string {
	if v, _ := h.listedOnce(0, 1); v != "" {
		return v
	}
	h.res.labels["banned-by:"+cause] = true
	h.res.labels["hit-and-run:banned-by:"+cause] = true
	patience := 3 * time.Second
	if !waitFor(patience, h.left) {
		return fmt.Sprintf("%s banned %s (cause %s, hit-and-run order %s, scope %s, score >= %d) but %s is still connected over %d of its %d connection(s) %v later: %v [signature hit-and-run-still-connected]",
			h.name(0), h.oip(), cause, o.Order, o.Scope, threshold, h.who(), h.nc(), nBefore, patience, h.V.conn.VerifRemoteAddrs(h.opid()))
	}
	h.res.labels["disconnected-after-ban"] = true
	if o.Scope == "one" && nBefore >= 2 {
		h.res.labels["hit-and-run:other-connections-closed-by-the-ban"] = true
	}
	h.settle("all", false)
	return ""
}

// hit: an envelope offence or the decisive message above a rate limit, followed by the close of stream and connection.
// Returns what happened (booked | lost | skipped) and a violation text.
func (h *hrun) hit(o hoff) (string, string) {
	V := h.V
	st := h.stt()
	n := h.nc()
	if n == 0 || h.zone(0, 1) != "clean" {
		return "skipped", ""
	}
	via := 0
	if h.raw() {
		via = o.Via % n
	}
	scope := o.Scope
	if !h.raw() || n < 2 || scope != "one" {
		scope = "all"
	}
	isReq := o.Kind != "badres" && o.Kind != "unkres"
	cause := o.Kind
	kind, proc := "env", ""
	want := -1 // ban at once
	var data []byte
	switch o.Kind {
	case "badreq", "badres":
		data = o.Bytes
		var p string
		var derr error
		if isReq {
			q := &p2p.Request{}
			derr = q.Decode(data)
			p = q.Procedure
		} else {
			p, derr = p2p.VerifDecodeResponseEnvelope(data)
		}
		if len(data) == 0 || (derr == nil && (procIndex(p) >= 0 || p == procStrict)) {
			data = []byte{0x0a, 0x05, 0x01}
			derr = fmt.Errorf("truncated")
		}
		if derr != nil {
			h.res.labels["envelope-undecodable"] = true
		} else {
			h.res.labels["envelope-decodable-unknown-procedure"] = true
		}
	case "unkreq", "unkres":
		data = encodeEnvelope("6f1c1f0e-1111-4222-8333-444455556666", fmt.Sprintf("noSuchProcedure%d", o.Proc), []byte("x"), "", !isReq)
	case "rate":
		kind, proc = "rate", echoProcs[o.Proc%len(echoProcs)]
		L, P := h.s.lim(0, proc)
		want, cause = P, "rate-limit("+proc+")"
		// fill the window with served requests: the next one is message limit+1
		for i := 0; V.cnt[proc][1] < L; i++ {
			if v := h.served(via+i, proc, []byte{byte(i)}); v != "" || h.res.infra != "" {
				return "skipped", v
			}
			if h.nc() != n {
				h.res.infra = fmt.Sprintf("environment: %d of %d connections left while the rate window was being filled", h.nc(), n)
				return "skipped", ""
			}
		}
		h.seq++
		data = encodeEnvelope(fmt.Sprintf("c18-hit-%d-%d", scenarioSeq.Load(), h.seq), proc, []byte("one too many"), "", false)
	}
	prev := st.score
	w := h.gate.watch(h.opid().String(), kind, proc, o.Order == "gone")
	defer w.free()
	h.logf("HIT-AND-RUN %s by %s (order %s, scope %s, connection %d of %d): %d raw bytes %x on the %s protocol, then stream and connection are closed",
		cause, h.who(), o.Order, scope, via, n, len(data), data, map[bool]string{true: "request", false: "response"}[isReq])
	t0 := time.Now()
	if err := h.sendRaw(via, isReq, data); err != nil {
		h.res.infra = "raw send failed: " + err.Error()
		return "skipped", ""
	}
	switch o.Order {
	case "gone":
		// the handler reads the message and is kept in the logger; the offender leaves; the victim notices; the handler goes on
		if !waitChan(w.engaged, 5*time.Second) {
			h.res.infra = "the victim's stream handler did not reach the hold point within 5 s"
			return "skipped", ""
		}
		h.closeConns(scope, via)
		ok := waitFor(5*time.Second, func() bool {
			if scope == "one" {
				return h.nc() <= n-1
			}
			return h.left()
		})
		if !ok {
			h.res.infra = "the victim did not notice the offender's close within 5 s"
			return "skipped", ""
		}
		h.logf("  the victim read the message and no longer lists %s connection(s) to the offender (%d left); its handler continues now", map[bool]string{true: "the offending", false: "any"}[scope == "one"], h.nc())
		w.free()
	case "race":
		if o.DelayUs > 0 {
			time.Sleep(time.Duration(o.DelayUs) * time.Microsecond)
		}
		h.closeConns(scope, via)
	default: // logged
		waitChan(w.done, 3*time.Second)
		h.closeConns(scope, via)
	}
	h.res.labels["hit-and-run:"+o.Kind+":"+o.Order] = true
	h.count("hit-and-run:offences-sent:" + o.Order)
	// victim-side evidence: the offence was logged, i.e. the message was read and the penalty call is reached
	processed := h.evidence(w)
	if !processed {
		h.settle(scope, false)
		sc, _, _ := V.conn.VerifPeerScore(h.oip())
		if sc == prev {
			h.lost++
			h.count("hit-and-run:message-not-seen-processed-by-the-victim(nothing-due):" + o.Order)
			h.logf("  the victim did not log the offence (the close overtook the message; errors logged: %s): nothing is due", w.errors())
			return "lost", ""
		}
	}
	w.mu.Lock()
	at, line, connsAt := w.offenceAt, w.line, w.connsAt
	w.mu.Unlock()
	if processed {
		if connsAt == 0 {
			h.count("hit-and-run:observed:penalty-path-entered-with-the-offender-gone:" + o.Order)
		} else if scope == "one" && connsAt < n {
			h.count("hit-and-run:observed:penalty-path-entered-with-the-offending-connection-gone:" + o.Order)
		} else {
			h.count("hit-and-run:observed:penalty-path-entered-while-the-offender-was-still-connected:" + o.Order)
		}
		h.logf("  victim logged %q %.3fs after the write, holding %d connection(s) to the offender", line, at.Sub(t0).Seconds(), connsAt)
	}
	var sc int
	booked := waitFor(6*time.Second, func() bool {
		sc, _, _ = V.conn.VerifPeerScore(h.oip())
		if want >= 0 {
			return sc == prev+want
		}
		return sc > prev
	})
	t1 := time.Now()
	evidence := fmt.Sprintf("the victim's stream handler read the message and logged %q %.3fs after the write (it held %d connection(s) to the offender at that moment; order %s, scope %s; errors logged by the victim: %s)",
		line, at.Sub(t0).Seconds(), connsAt, o.Order, scope, w.errors())
	if !booked {
		if want >= 0 {
			return "", fmt.Sprintf("hit-and-run offence not booked: %s exceeded the limit of %s at %s and closed its connection; %s; but %s stores score %d for %s 6 s later, expected %d+%d: the penalty belongs to the IP, not to the live connection",
				h.who(), proc, h.name(0), evidence, h.name(0), sc, h.oip(), prev, want)
		}
		return "", fmt.Sprintf("hit-and-run offence not booked: %s sent %s to %s and closed its connection; %s; but %s stores score %d for %s 6 s later (before %d, ban threshold %d): the ban belongs to the IP, not to the live connection",
			h.who(), o.Kind, h.name(0), evidence, h.name(0), sc, h.oip(), prev, threshold)
	}
	h.logf("  %s: score of %s at %s: %d -> %d", cause, h.oip(), h.name(0), prev, sc)
	if want < 0 && sc < threshold {
		return "", fmt.Sprintf("%s by %s (hit-and-run) raised its score at %s by %d only (%d -> %d, ban threshold %d) and left the IP %s unbanned: a malformed envelope / unknown procedure must ban the peer at once",
			o.Kind, h.who(), h.name(0), sc-prev, prev, sc, threshold, h.oip())
	}
	if kind == "rate" {
		V.cnt[proc][1] = 0
		h.res.labels["rate-penalty"] = true
	}
	if v := V.bm.penalty(h.oip(), sc-prev, sc, true, t0, t1); v != "" {
		return "", v
	}
	h.res.labels["hit-and-run:booked:"+cause] = true
	h.count("hit-and-run:offences-booked")
	if processed && (connsAt == 0 || (scope == "one" && connsAt < n)) {
		h.goneHit = true
		h.res.labels["hit-and-run:booked-although-the-offender-had-left:"+o.Kind] = true
	}
	if st.banned {
		if v := h.banned(cause, o, n); v != "" {
			return "", v
		}
	} else {
		if want < 0 {
			return "", fmt.Sprintf("%s by %s: score %d -> %d at %s but the model does not have %s banned (threshold %d)", o.Kind, h.who(), prev, sc, h.name(0), h.oip(), threshold)
		}
		h.settle(scope, true)
	}
	return "booked", ""
}

// evidence waits for the victim to log the offence. It gives up when the victim has not even READ the message 100
// process heartbeats (>= 0.5 s) after it stopped listing a connection to the offender (the close overtook the data: the
// stream never came into being at the victim or its read failed), at the latest after 3 s.
func (h *hrun) evidence(w *hrWatch) bool {
	var goneAt int64 = -1
	ok := false
	waitFor(3*time.Second, func() bool {
		select {
		case <-w.done:
			ok = true
			return true
		default:
		}
		w.mu.Lock()
		read := !w.readAt.IsZero()
		w.mu.Unlock()
		if read || !h.left() {
			return false
		}
		if goneAt < 0 {
			goneAt = hbBeats.Load()
		}
		return hbBeats.Load()-goneAt >= 100
	})
	return ok
}

func waitChan(ch <-chan struct{}, d time.Duration) bool {
	ok := false
	waitFor(d, func() bool {
		select {
		case <-ch:
			ok = true
		default:
		}
		return ok
	})
	return ok
}

// app: application-level penalty (Connection.ApplyPenalty / BanPeer) for a peer that leaves.
func (h *hrun) app(o hoff) (string, string) {
	V := h.V
	st := h.stt()
	n := h.nc()
	if n == 0 || h.zone(0, 1) != "clean" {
		return "skipped", ""
	}
	k, what, amount := o.K, "app-penalty", o.K
	if k <= 0 || k > 255 {
		k, what, amount = 0, "app-ban", threshold
	}
	prev := st.score
	pid := h.opid()
	t0 := time.Now()
	h.res.labels["hit-and-run:"+what+":"+o.Order] = true
	if o.Order == "gone" {
		// the offender has left; right afterwards the application penalises it by peer ID
		h.closeConns("all", 0)
		if !waitFor(5*time.Second, h.left) {
			h.res.infra = "the victim did not notice the offender's close within 5 s"
			return "skipped", ""
		}
		h.logf("HIT-AND-RUN %s: %s has left; %s calls %s for its peer ID right afterwards", what, h.who(), h.name(0), map[bool]string{true: "BanPeer", false: fmt.Sprintf("ApplyPenalty(%d)", k)}[k == 0])
		if k == 0 {
			V.conn.BanPeer(pid)
		} else {
			V.conn.ApplyPenalty(pid, k)
		}
		waitBeats(10)
		h.settle("all", false)
		sc, _, _ := V.conn.VerifPeerScore(h.oip())
		if sc == prev {
			h.count("hit-and-run:" + what + "-for-a-peer-that-left:nothing-booked(no-connection=no-address-known;outside-the-domain)")
			h.logf("  nothing booked (the engine resolves a peer ID through its live connections): outside the domain, not asserted")
			return "out-of-domain", ""
		}
		h.count("hit-and-run:" + what + "-for-a-peer-that-left:booked")
		if v := V.bm.penalty(h.oip(), sc-prev, sc, true, t0, time.Now()); v != "" {
			return "", v
		}
		if st.banned {
			return "booked", h.banned(what, o, n)
		}
		return "booked", ""
	}
	// handler-issued: a strict request, then the close; the handler's call races with the disconnect
	sw := &strictWatch{entered: make(chan struct{}), done: make(chan struct{})}
	h.smu.Lock()
	h.sw = sw
	h.smu.Unlock()
	defer func() { h.smu.Lock(); h.sw = nil; h.smu.Unlock() }()
	via := 0
	if h.raw() {
		via = o.Via % n
	}
	h.seq++
	data := encodeEnvelope(fmt.Sprintf("c18-hit-%d-%d", scenarioSeq.Load(), h.seq), procStrict, []byte{byte(k)}, "", false)
	h.logf("HIT-AND-RUN %s by %s (order %s, connection %d of %d): strict request k=%d (the handler calls %s), then stream and connection are closed", what, h.who(), o.Order, via, n, k,
		map[bool]string{true: "BanPeer", false: "ApplyPenalty"}[k == 0])
	if err := h.sendRaw(via, true, data); err != nil {
		h.res.infra = "raw send failed: " + err.Error()
		return "skipped", ""
	}
	if o.Order == "logged" {
		waitChan(sw.entered, 3*time.Second)
	} else if o.DelayUs > 0 {
		time.Sleep(time.Duration(o.DelayUs) * time.Microsecond)
	}
	h.closeConns("all", 0)
	var goneAt int64 = -1
	processed := false
	waitFor(3*time.Second, func() bool {
		select {
		case <-sw.done:
			processed = true
			return true
		default:
		}
		select {
		case <-sw.entered:
			return false
		default:
		}
		if !h.left() {
			return false
		}
		if goneAt < 0 {
			goneAt = hbBeats.Load()
		}
		return hbBeats.Load()-goneAt >= 100
	})
	h.settle("all", true)
	// a stable reading of the score
	var sc int
	waitFor(2*time.Second, func() bool {
		a, _, _ := V.conn.VerifPeerScore(h.oip())
		waitBeats(4)
		b, _, _ := V.conn.VerifPeerScore(h.oip())
		sc = b
		return a == b
	})
	if !processed && sc == prev {
		h.lost++
		h.count("hit-and-run:message-not-seen-processed-by-the-victim(nothing-due):" + o.Order)
		h.logf("  the strict handler of the victim did not run: nothing is due")
		return "lost", ""
	}
	V.cnt[procStrict][1]++
	d := sc - prev
	class := "raced(the-peer-left-during-the-call)"
	switch {
	case processed && sw.nBefore == 0:
		class = "peer-gone-before-the-call(no-address-known;outside-the-domain)"
	case processed && sw.nAfter >= 1:
		class = "peer-connected-through-the-whole-call"
	case !processed:
		class = "handler-not-seen-finished"
	}
	nB, nA := -1, -1
	if processed {
		nB, nA = sw.nBefore, sw.nAfter
	}
	h.logf("  strict handler: %d connection(s) to the offender before its %s call, %d after (-1: not seen); stored score %d -> %d [%s]", nB, what, nA, prev, sc, class)
	if d == 0 {
		h.count("hit-and-run:handler-" + what + ":nothing-booked:" + class)
		if processed && sw.nAfter >= 1 {
			return "", fmt.Sprintf("handler-issued %s(%d) of %s for %s booked nothing (stored score %d, before %d) although %s held %d connection(s) to the peer before AND %d after the call", what, k, h.name(0), h.who(), sc, prev, h.name(0), sw.nBefore, sw.nAfter)
		}
		return "out-of-domain", ""
	}
	h.count("hit-and-run:handler-" + what + ":booked:" + class)
	if d < 0 || d%amount != 0 || d/amount > n {
		return "", fmt.Sprintf("handler-issued %s(%d) for %s with %d connection(s) changed the score of %s from %d to %d (not 1..%d times the amount)", what, k, h.who(), n, h.oip(), prev, sc, n)
	}
	if v := V.bm.penalty(h.oip(), d, sc, true, t0, time.Now()); v != "" {
		return "", v
	}
	h.res.labels["hit-and-run:booked:"+what] = true
	if st.banned {
		return "booked", h.banned(what, o, n)
	}
	return "booked", ""
}

// syncLost: a message that was declared lost may still have been processed later (a very slow handler); the model would
// then be behind the engine. Not a verdict about the engine: the scenario is dropped.
func (h *hrun) syncLost(when string) bool {
	if h.lost == 0 || h.zone(0, 1) != "clean" {
		return true
	}
	if sc, _, _ := h.V.conn.VerifPeerScore(h.oip()); sc != h.stt().score {
		h.res.infra = fmt.Sprintf("slow run: a message declared lost was processed later (%s: stored score %d, model %d)", when, sc, h.stt().score)
		return false
	}
	return true
}

func (h *hrun) cycle(cy hcyc) string {
	V := h.V
	if v := h.link("hit-and-run offender connects"); v != "" || h.res.infra != "" {
		return v
	}
	if h.zone(0, 1) != "clean" || h.nc() == 0 {
		return ""
	}
	for i, p := range cy.Warm {
		proc := echoProcs[p%len(echoProcs)]
		if L, _ := h.s.lim(0, proc); V.cnt[proc][1] >= L {
			continue
		}
		h.logf("well-formed %s request of the offender", proc)
		if v := h.served(i, proc, []byte{byte(i)}); v != "" || h.res.infra != "" {
			return v
		}
	}
	lostInRow := 0
	for i, o := range cy.Offs {
		rounds := 1
		if i == len(cy.Offs)-1 {
			rounds = 8
		}
		for round := 0; round < rounds && !h.stt().banned && h.zone(0, 1) == "clean"; round++ {
			if !h.syncLost("before an offence") {
				return ""
			}
			if v := h.link("the offender comes back (its IP is below the threshold: must be admitted)"); v != "" || h.res.infra != "" {
				return v
			}
			if h.nc() == 0 {
				return ""
			}
			if round > 0 {
				h.res.labels["hit-and-run:re-dial-below-the-threshold-admitted"] = true
			}
			var out, v string
			oo := o
			if lostInRow >= 2 && oo.Order == "race" {
				oo.Order = "logged" // the race loses the message every time here: close once the victim has logged the offence
			}
			if o.Kind == "app" {
				out, v = h.app(oo)
			} else {
				out, v = h.hit(oo)
			}
			if v != "" || h.res.infra != "" {
				return v
			}
			if out == "lost" {
				lostInRow++
				if lostInRow >= 4 {
					break
				}
			} else {
				lostInRow = 0
			}
			if out == "skipped" {
				break
			}
		}
		if h.stt().banned || lostInRow >= 4 {
			break
		}
	}
	if !h.stt().banned {
		h.res.labels["hit-and-run:cycle-ended-without-a-ban"] = true
		if !h.syncLost("end of a cycle without a ban") {
			return ""
		}
		return ""
	}
	// during the ban: every attempt from the offender's IP and the victim's own dial are refused
	for _, by := range cy.Redial {
		if v := h.redial(by, "hit-and-run offender: during the ban"); v != "" || h.res.infra != "" {
			return v
		}
	}
	if v := h.runEvent(eev{Kind: "await", From: 1, To: 0}); v != "" || h.res.infra != "" {
		return v
	}
	// after the ban: admitted, served, clean score, small penalty exact (one connection)
	if h.nc() == 0 {
		if v := h.redial(cy.After, "hit-and-run offender: after the ban"); v != "" || h.res.infra != "" {
			return v
		}
	}
	if h.zone(0, 1) != "clean" || h.nc() == 0 {
		return ""
	}
	if !h.raw() {
		if V.cnt[procEcho][1] < h.s.PL[0] {
			if v := h.runEvent(eev{Kind: "req", From: 1, To: 0}); v != "" || h.res.infra != "" {
				return v
			}
		}
		if h.nc() != 1 {
			return ""
		}
		h.logf("strict request: ApplyPenalty(%d) from a clean score", cy.KAfter)
		return h.request(1, 0, procStrict, []byte{byte(cy.KAfter)})
	}
	for h.nc() > 1 {
		if !h.dropAll() {
			h.res.infra = "could not drop the connections of the raw peer"
			return ""
		}
		if v := h.attempt(cy.After, "hit-and-run offender: after the ban (single connection)"); v != "" || h.res.infra != "" {
			return v
		}
		if h.nc() == 0 {
			return ""
		}
	}
	via := 0
	for i, hh := range h.mp.hosts {
		if hh.Network().Connectedness(h.info.ID) == network.Connected {
			via = i
		}
	}
	if V.cnt[procEcho][1] < h.s.PL[0] {
		if v := h.wellFormed(via, procEcho, []byte("back"), 1); v != "" || h.res.infra != "" {
			return v
		}
	}
	h.logf("strict request: ApplyPenalty(%d) from a clean score over the only connection", cy.KAfter)
	return h.wellFormed(via, procStrict, []byte{byte(cy.KAfter)}, 1)
}

var hitSeq int64
var hitMu sync.Mutex

func runHitRunScenario(s escn) *seqResult {
	res := &seqResult{labels: map[string]bool{}, counts: map[string]int{}}
	er := &erun{s: s, start: time.Now(), res: res}
	gate := &hrGate{}
	h := &hrun{c: s.HR, gate: gate}
	er.loggerFor = func(i int) log.Logger {
		if i == 0 {
			return gate
		}
		return nopLogger{}
	}
	er.onStrict = h.onStrict
	defer er.teardown()
	defer gate.releaseAll()
	if err := er.setup(); err != nil {
		res.infra = "setup: " + err.Error()
		return res
	}
	er.started = time.Now()
	V := er.nodes[0]
	if s.HR.Raw {
		hitMu.Lock()
		hitSeq++
		id := hitSeq
		hitMu.Unlock()
		mp, err := newMPeer(fmt.Sprintf("c18-hitrun-%d-%d", evid.Seed(), id), s.V6, s.Security)
		if err != nil {
			res.infra = "setup of the raw peer: " + err.Error()
			return res
		}
		defer mp.close()
		P := &enode{idx: 1, ip: mp.ip, bm: newBanModel(time.Duration(s.ExpiryS)*time.Second, time.Duration(s.SweepMs)*time.Millisecond, nil),
			cnt: map[string]map[int]int{}, cause: map[int]string{}, banBy: map[string]int{}, contrib: map[string]map[int]bool{}}
		er.nodes = append(er.nodes, P)
		er.mp = mp
		h.mrun = &mrun{erun: er, V: V, P: P, mp: mp, info: V.info}
	} else {
		h.mrun = &mrun{erun: er, V: V, P: er.nodes[1], info: V.info}
	}
	gate.mu.Lock()
	gate.conns = h.nc
	gate.mu.Unlock()
	offender := "node"
	switch {
	case s.HR.Raw:
		offender = fmt.Sprintf("raw-peer-with-%d-connection(s)", s.HR.NConn)
	case s.DialOnly == 1:
		offender = "node-without-listen-address(seen-as-127.0.0.1)"
	case s.V6:
		offender = "node-on-::1"
	}
	h.logf("scenario hit-and-run offender: victim %s, offender %s (%s), security=%s expiry=%ds sweep=%dms procedures %v limits %v penalties %v (only the victim applies them)",
		h.name(0), h.who(), offender, s.Security, s.ExpiryS, s.SweepMs, echoProcs, s.PL, s.PP)
	res.labels["e2e-hit-and-run"] = true
	res.labels["hit-and-run:offender:"+offender] = true
	if s.V6 {
		res.labels["e2e-ipv6"] = true
	}
	if s.DialOnly >= 0 {
		res.labels["e2e-dial-only-node"] = true
	}
	var key strings.Builder
	fmt.Fprintf(&key, "hitrun|%s|%s|%v|%d|%s|%d|%d|%v|%v|%v|%d|%v|", V.ip, h.oip(), s.V6, s.DialOnly, s.Security, s.ExpiryS, s.SweepMs, s.PL, s.PP, s.HR.Raw, s.HR.NConn, s.HR.VFirst)
	for _, cy := range s.HR.Cycles {
		fmt.Fprintf(&key, "%+v;", cy)
		if v := h.cycle(cy); v != "" {
			res.violation = v
			return res
		}
		if res.infra != "" {
			return res
		}
	}
	if h.syncLost("at the end") {
		t0 := time.Now()
		sc, _, _ := V.conn.VerifPeerScore(h.oip())
		if v := V.bm.scoreSeen(h.oip(), sc, t0, time.Now()); v != "" {
			res.violation = fmt.Sprintf("at the end at %s: %s", h.name(0), v)
			return res
		}
	}
	if res.infra != "" {
		return res
	}
	// non-trivial: an offence was booked although the penalty path was entered with the offender (or its offending
	// connection) gone, the IP was refused while the ban was certain and the ban was seen over
	res.nontrivial = h.goneHit && h.stt().cycle
	res.key = key.String()
	return res
}

// TestHitRunOnly: diagnostic run of this flavour alone (VERIF_C18_HITRUN_ONLY=1; not part of any tier).
func TestHitRunOnly(t *testing.T) {
	if os.Getenv("VERIF_C18_HITRUN_ONLY") == "" {
		t.Skip("diagnostic; set VERIF_C18_HITRUN_ONLY=1")
	}
	gen := rapid.Custom(func(t *rapid.T) escn {
		s := escn{On: true}
		genHitRun(t, &s)
		return s
	})
	rapid.Check(t, func(rt *rapid.T) {
		runE2EBatch(rt, rapid.SliceOfN(gen, 8, 8).Draw(rt, "scenarios"))
	})
}

// TestRegressHitAndRun: fixed scripts (every tier). The offender writes its offending message, closes stream and
// connection, and the victim's handler reaches the penalty when the victim itself no longer lists a connection to the
// offender (order "gone": forced through the victim's logger), or whenever the race lets it (orders "race", "logged").
// The IP must carry the ban / the score all the same, re-dials are refused for the ban's duration and admitted afterwards.
// (A Peer.addPenalty / banPeer that books nothing for a peer that is no longer connected lets the offender escape.)
func TestRegressHitAndRun(t *testing.T) {
	type script struct {
		name   string
		expect string // label that must be present
		s      escn
	}
	bad := []byte{0x0a, 0x05, 0x01}
	node := func(i int, expiry int) escn {
		return escn{On: true, HitRun: true, N: 2, IPs: []int{2 + (2*i)%8, 2 + (2*i+1)%8}, Security: []string{p2p.ConnectionSecurityNone, p2p.ConnectionSecurityTLS, p2p.ConnectionSecurityNoise}[i%3],
			ExpiryS: expiry, SweepMs: 100, Limit: 3, Penalty: 50, PL: []int{3, 2, 4}, PP: []int{50, 100, 34}, BlackOf: -1, DialOnly: -1}
	}
	rawp := func(i int, nconn int, vfirst bool) escn {
		s := escn{On: true, HitRun: true, N: 1, IPs: []int{2 + i%8}, Security: []string{p2p.ConnectionSecurityNone, p2p.ConnectionSecurityTLS, p2p.ConnectionSecurityNoise}[i%3],
			ExpiryS: 2, SweepMs: 100, Limit: 3, Penalty: 50, PL: []int{3, 2, 4}, PP: []int{50, 100, 34}, BlackOf: -1, DialOnly: -1}
		s.HR = hconf{Raw: true, NConn: nconn, VFirst: vfirst}
		return s
	}
	cyc := func(offs ...hoff) []hcyc {
		return []hcyc{{Warm: []int{0, 2}, Offs: offs, Redial: []int{0, -1, 1}, After: 0, KAfter: 7}}
	}
	var scripts []script
	add := func(name, expect string, s escn, offs ...hoff) {
		s.HR.Cycles = cyc(offs...)
		scripts = append(scripts, script{name, expect, s})
	}
	// forced: the penalty path runs when the offender is gone
	add("node on its own IP, undecodable request, offender gone before the ban is issued", "hit-and-run:booked-although-the-offender-had-left:badreq", node(0, 2),
		hoff{Kind: "badreq", Order: "gone", Bytes: bad})
	add("node without listen address (127.0.0.1), unknown procedure in a request, gone", "hit-and-run:booked-although-the-offender-had-left:unkreq", func() escn { s := node(1, 2); s.DialOnly = 1; return s }(),
		hoff{Kind: "unkreq", Order: "gone"})
	add("both nodes on ::1, undecodable response, gone", "hit-and-run:booked-although-the-offender-had-left:badres", func() escn { s := node(2, 2); s.V6 = true; return s }(),
		hoff{Kind: "badres", Order: "gone", Bytes: bad})
	add("node on its own IP, unknown procedure in a response, gone", "hit-and-run:booked-although-the-offender-had-left:unkres", node(3, 2),
		hoff{Kind: "unkres", Order: "gone"})
	add("node without listen address, rate limit of echo (3, penalty 50) exceeded twice, gone each time, re-dial in between admitted", "hit-and-run:banned-by:rate-limit(echo)", func() escn { s := node(4, 2); s.DialOnly = 1; return s }(),
		hoff{Kind: "rate", Order: "gone", Proc: 0})
	add("raw peer with 3 connections (first one outbound), unknown procedure in a request over connection 1, all closed, gone", "hit-and-run:booked-although-the-offender-had-left:unkreq", rawp(5, 3, true),
		hoff{Kind: "unkreq", Order: "gone", Scope: "all", Via: 1})
	add("raw peer with 2 connections, undecodable request over connection 1, ONLY that connection closed before the ban is issued", "hit-and-run:other-connections-closed-by-the-ban", rawp(6, 2, false),
		hoff{Kind: "badreq", Order: "gone", Scope: "one", Via: 1, Bytes: bad})
	add("raw peer on ::1 with 2 connections, rate limit of echo2 (2, penalty 100) exceeded, gone", "hit-and-run:banned-by:rate-limit(echo2)", func() escn { s := rawp(7, 2, false); s.V6 = true; return s }(),
		hoff{Kind: "rate", Order: "gone", Proc: 1, Scope: "all", Via: 0})
	// not forced: whatever the race gives is labelled; app-level penalties for a peer that left are recorded
	add("node without listen address: BanPeer right after the disconnect (recorded), ApplyPenalty(40) by a handler racing with the close, then an undecodable request closed at once", "hit-and-run:banned-by:badreq", func() escn { s := node(8, 2); s.DialOnly = 1; return s }(),
		hoff{Kind: "app", Order: "gone", K: 0}, hoff{Kind: "app", Order: "race", K: 40, DelayUs: 200}, hoff{Kind: "badreq", Order: "race", DelayUs: 1000, Bytes: bad})
	add("raw peer with 1 connection: unknown procedure in a response, closed as soon as the victim logged it", "hit-and-run:banned-by:unkres", rawp(9, 1, false),
		hoff{Kind: "app", Order: "logged", K: 20}, hoff{Kind: "unkres", Order: "logged"})
	results := make([]*seqResult, len(scripts))
	var wg sync.WaitGroup
	for i, sc := range scripts {
		wg.Add(1)
		go func(i int, s escn) {
			defer wg.Done()
			results[i] = runScenarioRobust(s)
		}(i, sc.s)
	}
	wg.Wait()
	for i, sc := range scripts {
		res := results[i]
		switch {
		case res.violation != "":
			t.Errorf("C18 violated (hit-and-run offender, %s; 3 attempts): %s\nhistory:\n%s", sc.name, res.violation, res.render())
		case res.infra != "":
			evid.R.Inconclusive("hit-and-run regression scenario %q dropped: %s", sc.name, res.infra)
		default:
			if !res.labels[sc.expect] {
				t.Errorf("harness: script %q passed without %q\n%s", sc.name, sc.expect, res.render())
			}
			if !res.nontrivial {
				evid.R.Note("hit-and-run regression script %q: not counted as non-trivial (no forced ordering in it, or no refusal observed while the ban was certain)", sc.name)
			}
			register("e2e-hit-and-run-regress", res)
			registerCounts(res)
			if os.Getenv("VERIF_C18_SHOW") != "" {
				t.Logf("%s (non-trivial=%v):\n%s", sc.name, res.nontrivial, res.render())
			}
		}
	}
}
