package c18

// LATE BUT HONEST RESPONSES (flavour "Late" of the end-to-end scenarios).
//
// "Well-formed traffic within the limits never leads to penalties." An honest peer can be SLOW: its handler answers a
// request only after the requester's response timeout has expired (the requester has removed the pending entry and
// re-sent the request under a fresh ID, up to messageMaxRetries times), or after the caller cancelled its context.
// Every such answer is a well-formed response to a request this node really sent - solicited, decodable, a registered
// procedure, far below every rate limit - that merely finds no waiter any more. It must cost its sender nothing.
//
// Scenarios: started p2p.Connections on loopback IPs (distinct, shared by several responders, a dial-only responder seen
// as 127.0.0.1, everybody on ::1) and, as one variant, a responder that is a raw libp2p peer with 2-3 simultaneous
// connections and answers over a connection of its choice. The echo handlers of the scenario delay their answer as the
// request's token tells them:
//   slow    the first 1..(messageMaxRetries+1) attempts of a RequestFrom are answered timeout+3..30 ms after they
//           arrived (several late responses per request), the next attempt promptly (none when all are slow);
//   edge    every attempt is answered timeout-6 ms .. timeout+6 ms after it arrived (answer racing the timeout);
//   cancel  the requester's context ends 8 ms before .. 8 ms after the handler answers (single attempt under a long
//           response timeout, or in the middle of the retries under a short one);
//   prompt  answered at once.
// They are mixed with the existing legal traffic (mixes over the three procedures, single requests, in both
// directions), re-dials and well-formed requests of the multi-connection peer. The response timeout of a requester is
// set per event through the hook (15-60 ms for the late kinds, one minute for everything else).
//
// "Within the limits" by construction: the rate-limit interval is one hour, the limits are 60-100 per procedure, and the
// harness charges every RequestFrom with the MAXIMUM number of messages it can cause (messageMaxRetries+1 requests at
// the responder and as many responses at the requester); an event that would not fit is skipped.
//
// Oracle (timing-robust: it never says that a response WAS late): after purely honest traffic every node stores NO
// score and no ban for any IP of the scenario (and for 127.0.0.1 / ::1) - read after every event, sampled every 5 ms
// during the whole scenario (a ban of 1-2 s could otherwise be over and swept before anybody looks; most scenarios use
// an expiry of one hour so that nothing is ever swept), and read again after the traffic has demonstrably drained (all
// handlers returned and every node's message counters account for every request and response) -, nobody is listed,
// everybody is still connected, re-dials pass the gates in both directions and a further request is served.
// A stored score is positive evidence that no scheduling delay can produce: it is reported at once (seqResult.hard),
// without the three-attempt rule of the timing-dependent observations.
//
// How many responses were OBSERVED late (the requester had given up - errTimeout or a cancelled context - while the
// handler completed) is counted in the labels, so that a starved generator is visible.

import (
	"context"
	"encoding/binary"
	"fmt"
	"io"
	"os"
	"sort"
	"strings"
	"sync"
	"testing"
	"time"

	"github.com/LiskHQ/lisk-engine/pkg/p2p"
	"github.com/libp2p/go-libp2p/core/network"
	"pgregory.net/rapid"

	"verifharness/evid"
)

// lreq: one RequestFrom of an honest node to an honest (possibly slow) node.
type lreq struct {
	Kind    string // slow | edge | cancel | prompt
	From    int
	To      int
	Proc    int
	TmoMs   int   // response timeout of the requester while this request runs (0: one minute)
	Slow    int   // slow: the first Slow attempts are answered after the timeout, later ones promptly
	OverMs  int   // slow: handler delay = timeout + OverMs
	OffUs   []int // edge: handler delay of attempt i = timeout + OffUs[i] microseconds
	DelayMs int   // cancel: handler delay (every attempt)
	CutUs   int   // cancel: the requester's context ends at handler delay + CutUs microseconds
	Via     int   // multi-connection responder: host that sends the answer (-1: the host that received the request)
}

// lev: one step of a late-response scenario.
type lev struct {
	Kind string // reqs | legal | dial | settle | peerreq
	Reqs []lreq // reqs: sent concurrently when more than one (same requester, same response timeout)
	E    eev    // legal (mix/req) and dial: run by the general event runner; peerreq: From = host, Proc = procedure
}

type lconf struct {
	Variant string // plain | shared | dialonly | v6 | multi
	NConn   int    // multi: simultaneous connections of the raw peer
	VFirst  bool   // multi: the first connection is opened by the node
	Events  []lev
}

func lateMaxAttempts() int { return p2p.VerifMaxRetries() + 1 }

func (q lreq) cost() int {
	if q.TmoMs == 0 {
		return 1 // one minute: no re-send within the life of a scenario
	}
	return lateMaxAttempts()
}

func genLateReq(t *rapid.T, from, to, T int, kinds []string) lreq {
	q := lreq{From: from, To: to, Via: -1, Proc: rapid.IntRange(0, len(echoProcs)-1).Draw(t, "lateProc")}
	q.Kind = rapid.SampledFrom(kinds).Draw(t, "lateKind")
	switch q.Kind {
	case "allslow":
		q.Kind, q.TmoMs, q.Slow = "slow", T, lateMaxAttempts()
		q.OverMs = rapid.IntRange(3, 30).Draw(t, "overMs")
	case "slow":
		q.TmoMs = T
		q.Slow = rapid.IntRange(1, lateMaxAttempts()).Draw(t, "slowAttempts")
		q.OverMs = rapid.IntRange(3, 30).Draw(t, "overMs")
	case "edge":
		q.TmoMs = T
		q.OffUs = rapid.SliceOfN(rapid.IntRange(-6000, 6000), lateMaxAttempts(), lateMaxAttempts()).Draw(t, "offUs")
	case "cancel":
		q.TmoMs = rapid.SampledFrom([]int{0, 0, T}).Draw(t, "cancelTmo")
		if q.TmoMs == 0 {
			q.DelayMs = rapid.IntRange(8, 50).Draw(t, "delayMs")
		} else {
			q.DelayMs = T + rapid.IntRange(2, 2*T).Draw(t, "delayOver")
		}
		q.CutUs = rapid.IntRange(-8000, 8000).Draw(t, "cutUs")
	}
	return q
}

// withTimeout: the requests of one concurrent event share their requester and therefore its response timeout.
func (q lreq) withTimeout(T int) lreq {
	if q.TmoMs == T {
		return q
	}
	if q.Kind == "cancel" {
		q.DelayMs = T + 2 + q.DelayMs%(2*T)
	}
	q.TmoMs = T
	return q
}

var lateTimeouts = []int{15, 20, 20, 25, 30, 40, 60}

func genLate(t *rapid.T, s *escn) {
	s.Late = true
	lc := &s.LC
	s.BlackOf, s.DialOnly = -1, -1
	s.Security = rapid.SampledFrom([]string{p2p.ConnectionSecurityNone, p2p.ConnectionSecurityTLS, p2p.ConnectionSecurityNoise}).Draw(t, "security")
	// one hour: nothing is swept during the scenario, whatever the engine stored is still there at the end
	s.ExpiryS = rapid.SampledFrom([]int{3600, 3600, 3600, 2, 1}).Draw(t, "expiryS")
	s.SweepMs = rapid.SampledFrom([]int{50, 100, 200}).Draw(t, "sweepMs")
	for i := 0; i < len(echoProcs); i++ {
		s.PL = append(s.PL, rapid.IntRange(60, 100).Draw(t, "limitN"))
		s.PP = append(s.PP, rapid.SampledFrom([]int{10, 25, 50, 100}).Draw(t, "penaltyN"))
	}
	s.Limit, s.Penalty = s.PL[0], s.PP[0]
	lc.Variant = rapid.SampledFrom([]string{"dialonly", "shared", "plain", "multi", "v6", "plain", "shared", "multi"}).Draw(t, "lateVariant")
	perm := rapid.Permutation([]int{2, 3, 4, 5, 6, 7, 8, 9}).Draw(t, "octets")
	switch lc.Variant {
	case "plain":
		s.N = rapid.SampledFrom([]int{2, 2, 3}).Draw(t, "nodes")
		s.IPs = append([]int{}, perm[:s.N]...)
	case "shared":
		// two or three responders on ONE IP address: their late responses add up on one score
		s.N = rapid.SampledFrom([]int{3, 3, 4}).Draw(t, "sharedNodes")
		s.IPs = append([]int{}, perm[:s.N]...)
		s.Shared = true
		for i := 1; i < s.N; i++ {
			s.Group = append(s.Group, i)
			s.IPs[i] = s.IPs[1]
		}
		if rapid.IntRange(0, 4).Draw(t, "shareAll") == 0 {
			s.Group = append([]int{0}, s.Group...)
			s.IPs[0] = s.IPs[1]
		}
	case "dialonly":
		s.N = rapid.SampledFrom([]int{2, 3}).Draw(t, "nodes")
		s.IPs = append([]int{}, perm[:s.N]...)
		s.DialOnly = rapid.IntRange(1, s.N-1).Draw(t, "dialOnlyNode")
		if s.N == 3 && rapid.Bool().Draw(t, "listenerOn127001") {
			// a listening responder on 127.0.0.1 next to the dial-only one
			s.Shared, s.Group = true, []int{1, 2}
			s.IPs[1], s.IPs[2] = 1, 1
		}
	case "v6":
		s.V6 = true
		s.N = rapid.SampledFrom([]int{2, 3}).Draw(t, "nodes")
		s.IPs = append([]int{}, perm[:s.N]...)
	case "multi":
		s.N = 1
		s.IPs = []int{perm[0]}
		s.V6 = rapid.IntRange(0, 4).Draw(t, "v6") == 0
		lc.NConn = rapid.SampledFrom([]int{2, 2, 3}).Draw(t, "nConn")
		lc.VFirst = rapid.IntRange(0, 2).Draw(t, "nodeDialsFirst") == 0
	}
	add := func(e lev) { lc.Events = append(lc.Events, e) }
	T := func() int { return rapid.SampledFrom(lateTimeouts).Draw(t, "timeoutMs") }
	mixed := []string{"slow", "slow", "edge", "edge", "cancel", "cancel", "prompt", "allslow"}
	if lc.Variant == "multi" {
		via := func(q lreq) lreq { q.Via = rapid.IntRange(-1, lc.NConn-1).Draw(t, "answerVia"); return q }
		peerreq := func() lev {
			return lev{Kind: "peerreq", E: eev{From: rapid.IntRange(0, lc.NConn-1).Draw(t, "peerVia"), Proc: rapid.IntRange(0, len(echoProcs)-1).Draw(t, "peerProc")}}
		}
		if rapid.Bool().Draw(t, "peerFirst") {
			add(peerreq())
		}
		if rapid.Bool().Draw(t, "single") {
			q := genLateReq(t, 0, 1, T(), []string{"slow"})
			q.Slow = 1
			add(lev{Kind: "reqs", Reqs: []lreq{via(q)}})
			add(lev{Kind: "settle"})
		}
		for i := rapid.IntRange(2, 3).Draw(t, "nAllSlow"); i > 0; i-- {
			add(lev{Kind: "reqs", Reqs: []lreq{via(genLateReq(t, 0, 1, T(), []string{"allslow", "allslow", "slow"}))}})
			if rapid.IntRange(0, 2).Draw(t, "between") == 0 {
				add(peerreq())
			}
		}
		for i := rapid.IntRange(1, 4).Draw(t, "nMixed"); i > 0; i-- {
			add(lev{Kind: "reqs", Reqs: []lreq{via(genLateReq(t, 0, 1, T(), mixed))}})
			switch rapid.IntRange(0, 3).Draw(t, "between") {
			case 0:
				add(peerreq())
			case 1:
				add(lev{Kind: "settle"})
			}
		}
		return
	}
	var resp []int
	for j := 1; j < s.N; j++ {
		resp = append(resp, j)
	}
	legal := func() lev {
		j := rapid.SampledFrom(resp).Draw(t, "legalPeer")
		e := eev{Kind: rapid.SampledFrom([]string{"mix", "mix", "req"}).Draw(t, "legalKind"), From: 0, To: j, Burst: "within",
			Extra: rapid.IntRange(0, 3).Draw(t, "extra"), Proc: rapid.IntRange(0, len(echoProcs)-1).Draw(t, "proc"), Bytes: rapid.SliceOfN(rapid.Byte(), 24, 24).Draw(t, "order")}
		if rapid.Bool().Draw(t, "legalReverse") {
			e.From, e.To = e.To, e.From
		}
		return lev{Kind: "legal", E: e}
	}
	if rapid.Bool().Draw(t, "legalFirst") {
		add(legal())
	}
	// a single late response, then the score is read
	if rapid.Bool().Draw(t, "single") {
		q := genLateReq(t, 0, rapid.SampledFrom(resp).Draw(t, "singleTo"), T(), []string{"slow"})
		q.Slow = 1
		add(lev{Kind: "reqs", Reqs: []lreq{q}})
		add(lev{Kind: "settle"})
	}
	// volume: per responder 2-3 requests whose attempts are (nearly) all answered late (6-12 late responses per peer, more
	// per IP when peers share it) plus a few of the other kinds
	queues := make([][]lreq, s.N)
	for _, j := range resp {
		for i := rapid.IntRange(2, 3).Draw(t, "nAllSlow"); i > 0; i-- {
			queues[j] = append(queues[j], genLateReq(t, 0, j, T(), []string{"allslow", "allslow", "slow"}))
		}
		for i := rapid.IntRange(1, 4).Draw(t, "nMixed"); i > 0; i-- {
			queues[j] = append(queues[j], genLateReq(t, 0, j, T(), mixed))
		}
		q := queues[j]
		ord := rapid.Permutation(idxs(len(q))).Draw(t, "order")
		queues[j] = nil
		for _, k := range ord {
			queues[j] = append(queues[j], q[k])
		}
	}
	for {
		var live []int
		for _, j := range resp {
			if len(queues[j]) > 0 {
				live = append(live, j)
			}
		}
		if len(live) == 0 {
			break
		}
		if len(live) >= 2 && rapid.Bool().Draw(t, "fan") {
			// the requester asks several peers at once
			tt := T()
			var rs []lreq
			for _, j := range live {
				rs = append(rs, queues[j][0].withTimeout(tt))
				queues[j] = queues[j][1:]
			}
			add(lev{Kind: "reqs", Reqs: rs})
		} else {
			j := rapid.SampledFrom(live).Draw(t, "next")
			add(lev{Kind: "reqs", Reqs: []lreq{queues[j][0]}})
			queues[j] = queues[j][1:]
		}
		switch rapid.IntRange(0, 9).Draw(t, "between") {
		case 0, 1:
			add(legal())
		case 2:
			add(lev{Kind: "settle"})
		case 3:
			// the other direction: node 0 is the slow one
			j := rapid.SampledFrom(resp).Draw(t, "reverseFrom")
			add(lev{Kind: "reqs", Reqs: []lreq{genLateReq(t, j, 0, T(), mixed)}})
		case 4:
			j := rapid.SampledFrom(resp).Draw(t, "dialPeer")
			e := eev{Kind: "dial", From: 0, To: j}
			if rapid.Bool().Draw(t, "dialReverse") {
				e.From, e.To = j, 0
			}
			add(lev{Kind: "dial", E: e})
		}
	}
}

func idxs(n int) []int {
	out := make([]int, n)
	for i := range out {
		out[i] = i
	}
	return out
}

// ---------------------------------------------------------------------------------------------------------------

type ltok struct {
	id       uint32
	q        lreq
	T        time.Duration
	started  int // handler invocations (= attempts that arrived)
	done     int // handler completions
	outcome  string
	errText  string
	t0, t1   time.Time
	returned bool
}

func (t *ltok) delay(i int) time.Duration {
	switch t.q.Kind {
	case "slow":
		if i < t.q.Slow {
			return t.T + time.Duration(t.q.OverMs)*time.Millisecond
		}
	case "edge":
		if len(t.q.OffUs) > 0 {
			if d := t.T + time.Duration(t.q.OffUs[i%len(t.q.OffUs)])*time.Microsecond; d > 0 {
				return d
			}
		}
	case "cancel":
		return time.Duration(t.q.DelayMs) * time.Millisecond
	}
	return 0
}

type lkey struct {
	at, from int
	proc     string
}

type lrun struct {
	*erun
	m       *mrun // multi variant
	mu      sync.Mutex
	toks    map[uint32]*ltok
	order   []*ltok
	idx     map[string]int // peer ID -> node index
	arrived map[lkey]int   // requests of `from` whose handler at `at` started
	served  map[lkey]int   // ... completed (real nodes: the response is sent right after; raw peer: response sent)
	lateIP  map[string]int // responder IP -> responses observed late so far
	ips     []string
	seen    string // first stored score / listed IP (positive evidence)
	stopW   chan struct{}
	doneW   chan struct{}
	sendErr int
	legalN  int
}

const lateMagic = "LATE"

func tokData(id uint32) []byte {
	b := make([]byte, 10)
	copy(b, lateMagic)
	binary.BigEndian.PutUint32(b[4:], id)
	return b
}

func parseTok(b []byte) (uint32, bool) {
	if len(b) != 10 || string(b[:4]) != lateMagic {
		return 0, false
	}
	return binary.BigEndian.Uint32(b[4:]), true
}

// serve: the body of every echo handler of the scenario (real nodes through erun.onServe, the raw peer through its own
// stream handler): counts the request and delays the answer as the request's token says.
func (l *lrun) serve(at int, peerID string, proc string, data []byte) *ltok {
	l.mu.Lock()
	from, ok := l.idx[peerID]
	if !ok {
		from = -1
	}
	k := lkey{at, from, proc}
	l.arrived[k]++
	var d time.Duration
	var t *ltok
	if id, ok := parseTok(data); ok {
		if t = l.toks[id]; t != nil {
			d = t.delay(t.started)
			t.started++
		}
	}
	l.mu.Unlock()
	if d > 0 {
		time.Sleep(d)
	}
	if at == 0 || l.m == nil {
		l.mu.Lock()
		l.served[k]++
		if t != nil {
			t.done++
		}
		l.mu.Unlock()
	}
	return t
}

func (l *lrun) real() []*enode {
	var out []*enode
	for _, n := range l.nodes {
		if n.conn != nil {
			out = append(out, n)
		}
	}
	return out
}

func (l *lrun) pid(i int) p2p.PeerID {
	if l.m != nil && i == 1 {
		return l.m.mp.id
	}
	return l.nodes[i].conn.ID()
}

// sample reads every score and ban list of the scenario; returns a description of the first stored penalty.
func (l *lrun) sample() string {
	for _, X := range l.real() {
		for _, ip := range l.ips {
			if sc, exp, ok := X.conn.VerifPeerScore(ip); ok && (sc != 0 || exp != -1) {
				return fmt.Sprintf("%s stores score %d (ban expiration %d, -1 = not banned) for %s", l.name(X.idx), sc, exp, ip)
			}
		}
		if b := X.conn.VerifBannedIPs(); len(b) > 0 {
			return fmt.Sprintf("listBannedPeers of %s contains %v", l.name(X.idx), b)
		}
	}
	return ""
}

func (l *lrun) watch() {
	defer close(l.doneW)
	for {
		if v := l.sample(); v != "" {
			l.mu.Lock()
			if l.seen == "" {
				l.seen = fmt.Sprintf("%s at +%.3fs", v, time.Since(l.start).Seconds())
			}
			l.mu.Unlock()
			return
		}
		select {
		case <-l.stopW:
			return
		case <-time.After(5 * time.Millisecond):
		}
	}
}

func (l *lrun) sawScore() string {
	l.mu.Lock()
	defer l.mu.Unlock()
	return l.seen
}

// traffic: what has been sent so far, for the violation text.
func (l *lrun) traffic() string {
	l.mu.Lock()
	defer l.mu.Unlock()
	att, late, nAns, nTmo, nCan := 0, 0, 0, 0, 0
	for _, t := range l.order {
		att += t.started
		switch t.outcome {
		case "answered":
			nAns++
			late += t.done - 1
		case "timeout":
			nTmo++
			late += t.done
		case "cancelled":
			nCan++
			late += t.done
		}
	}
	var per []string
	for ip, n := range l.lateIP {
		per = append(per, fmt.Sprintf("%s:%d", ip, n))
	}
	sort.Strings(per)
	return fmt.Sprintf("%d RequestFrom calls to honest peers whose handlers answer every request, some of them slowly (%d answered, %d gave up after %d timeouts each, %d cancelled by the caller), %d requests arrived, about %d well-formed responses were sent after their requester had stopped waiting; %d requests of the legal mixes; every procedure stays below its limit %v by the harness's worst-case count",
		len(l.order), nAns, nTmo, lateMaxAttempts(), nCan, att, late, l.legalN, l.s.PL)
}

// check: no score, no ban anywhere. The only verdict of these scenarios that is not timing-dependent.
func (l *lrun) check(when string) string {
	v := l.sample()
	if v == "" {
		v = l.sawScore()
	}
	if v == "" {
		return ""
	}
	l.res.hard = true
	return fmt.Sprintf("honest peer penalised: %s %s, although all traffic of the scenario was well-formed, solicited and within the limits (%s)", v, when, l.traffic())
}

func (l *lrun) fail(v string) {
	if l.res.violation == "" {
		l.res.violation = v
		if l.sawScore() != "" || l.sample() != "" {
			l.res.hard = true
		}
	}
}

func (l *lrun) setTimeout(i int, ms int) {
	d := time.Minute
	if ms > 0 {
		d = time.Duration(ms) * time.Millisecond
	}
	l.nodes[i].conn.VerifSetResponseTimeout(d)
}

func (l *lrun) describe(q lreq) string {
	proc := echoProcs[q.Proc%len(echoProcs)]
	tmo := "1m"
	if q.TmoMs > 0 {
		tmo = fmt.Sprintf("%dms", q.TmoMs)
	}
	switch q.Kind {
	case "slow":
		return fmt.Sprintf("%s (response timeout %s): the handler answers the first %d attempt(s) after %d ms, later ones at once", proc, tmo, q.Slow, q.TmoMs+q.OverMs)
	case "edge":
		return fmt.Sprintf("%s (response timeout %s): the handler answers attempt i after timeout%+d us", proc, tmo, q.OffUs)
	case "cancel":
		return fmt.Sprintf("%s (response timeout %s): the handler answers after %d ms, the caller's context ends after %d ms %+d us", proc, tmo, q.DelayMs, q.DelayMs, q.CutUs)
	}
	return fmt.Sprintf("%s (response timeout %s): answered at once", proc, tmo)
}

func (l *lrun) fire(t *ltok) {
	q := t.q
	A := l.nodes[q.From]
	var ctx context.Context
	var cancel context.CancelFunc
	if q.Kind == "cancel" {
		d := time.Duration(q.DelayMs)*time.Millisecond + time.Duration(q.CutUs)*time.Microsecond
		if d < time.Millisecond {
			d = time.Millisecond
		}
		ctx, cancel = context.WithTimeout(context.Background(), d)
	} else {
		ctx, cancel = context.WithTimeout(context.Background(), 20*time.Second)
	}
	t0 := time.Now()
	resp := A.conn.RequestFrom(ctx, l.pid(q.To), echoProcs[q.Proc%len(echoProcs)], tokData(t.id))
	t1 := time.Now()
	ended := ctx.Err() != nil
	cancel()
	outcome, text := "answered", ""
	if err := resp.Error(); err != nil {
		text = err.Error()
		switch {
		case text == "timeout":
			outcome = "timeout"
		case q.Kind == "cancel" && ended:
			// the caller's context was over when the call returned: ctx.Err() itself, or whatever the stream layer makes of
			// a context that ends while the request stream is being opened ("failed to open stream: i/o deadline reached")
			outcome = "cancelled"
		default:
			outcome = "error"
		}
	}
	l.mu.Lock()
	t.t0, t.t1, t.outcome, t.errText, t.returned = t0, t1, outcome, text, true
	l.mu.Unlock()
}

// room: how many further messages of proc the pair may exchange without anybody exceeding the limit, worst case.
func (l *lrun) room(a, b int, proc string) int {
	if l.m != nil {
		L, _ := l.s.lim(0, proc)
		return L - l.nodes[0].cnt[proc][1]
	}
	return l.headroom(a, b, proc)
}

func (l *lrun) charge(a, b int, proc string, n int) {
	if l.m != nil {
		l.nodes[0].cnt[proc][1] += n
		return
	}
	l.nodes[b].cnt[proc][a] += n // requests counted at the responder
	l.nodes[a].cnt[proc][b] += n // responses counted at the requester
}

func (l *lrun) link(a, b int) (bool, string) {
	if l.m != nil {
		if n := l.m.nconns(); n != l.s.LC.NConn {
			l.res.infra = fmt.Sprintf("environment: %d connections to the multi-connection peer instead of %d", n, l.s.LC.NConn)
			return false, ""
		}
		return true, ""
	}
	return l.ensureConnected(a, b)
}

func (l *lrun) reqs(ev lev) string {
	var toks []*ltok
	from := ev.Reqs[0].From
	for _, q := range ev.Reqs {
		if q.From >= len(l.nodes) || q.To >= len(l.nodes) || q.From == q.To || q.From != from {
			continue
		}
		ok, v := l.link(q.From, q.To)
		if v != "" || l.res.infra != "" {
			return v
		}
		if !ok {
			l.res.infra = fmt.Sprintf("%s and %s cannot connect although nobody is banned", l.name(q.From), l.name(q.To))
			return ""
		}
		proc := echoProcs[q.Proc%len(echoProcs)]
		if l.room(q.From, q.To, proc) < q.cost() {
			l.res.counts["late:request-skipped-(would-not-fit-below-the-limit-in-the-worst-case)"]++
			continue
		}
		l.charge(q.From, q.To, proc, q.cost())
		l.mu.Lock()
		t := &ltok{id: uint32(len(l.order) + 1), q: q, T: time.Duration(q.TmoMs) * time.Millisecond}
		l.toks[t.id] = t
		l.order = append(l.order, t)
		l.mu.Unlock()
		toks = append(toks, t)
	}
	if len(toks) == 0 {
		return ""
	}
	l.setTimeout(from, toks[0].q.TmoMs)
	if len(toks) == 1 {
		l.fire(toks[0])
	} else {
		l.res.labels["late:requester-asks-several-peers-at-once"] = true
		var wg sync.WaitGroup
		for _, t := range toks {
			wg.Add(1)
			go func(t *ltok) { defer wg.Done(); l.fire(t) }(t)
		}
		wg.Wait()
	}
	l.setTimeout(from, 0)
	l.mu.Lock()
	for _, t := range toks {
		l.logf("request #%d %s -> %s %s: %s after %.1f ms (%d attempt(s) arrived so far, %d answered by the handler so far) %s", t.id, l.name(t.q.From), l.name(t.q.To), l.describe(t.q),
			t.outcome, t.t1.Sub(t.t0).Seconds()*1000, t.started, t.done, t.errText)
	}
	l.mu.Unlock()
	for _, t := range toks {
		l.res.counts["late:requests"]++
		l.res.counts["late:requests:"+t.q.Kind]++
		l.res.counts["late:outcome:"+t.q.Kind+":"+t.outcome]++
		if t.outcome == "error" {
			if v := l.check("after a request failed (" + t.errText + ")"); v != "" {
				return v
			}
			l.res.infra = fmt.Sprintf("request %s -> %s failed: %s", l.name(t.q.From), l.name(t.q.To), t.errText)
			return ""
		}
	}
	return l.check("after request(s) of " + l.name(from))
}

// quiet: every handler has returned and every node's message counters account for exactly the requests that arrived and
// the responses that were sent: nothing of the scenario's traffic is in flight any more.
func (l *lrun) quiet() bool {
	l.mu.Lock()
	defer l.mu.Unlock()
	for _, t := range l.order {
		if !t.returned || t.started != t.done {
			return false
		}
		if t.started < 1 && t.outcome != "cancelled" { // a context may end before the request has left
			return false
		}
		if t.outcome == "timeout" && t.started != lateMaxAttempts() {
			return false
		}
	}
	for _, X := range l.real() {
		for y := range l.nodes {
			if y == X.idx {
				continue
			}
			for _, proc := range echoProcs {
				want := l.arrived[lkey{X.idx, y, proc}] + l.served[lkey{y, X.idx, proc}]
				if got := X.conn.VerifRateCounter(proc, l.pid(y)); got != want {
					return false
				}
			}
		}
	}
	return true
}

func (l *lrun) settle(when string) string {
	ok := waitFor(5*time.Second, func() bool {
		if !l.quiet() {
			return false
		}
		waitBeats(3)
		return l.quiet()
	})
	if !ok {
		l.res.counts["late:drain-not-observed-within-5s"]++
		l.logf("settle (%s): the traffic was NOT seen drained within 5 s (lost message?); scores are read anyway", when)
	}
	waitBeats(4)
	// how many responses the requesters are known to have missed: attempts that were answered by the handler minus the
	// one (if any) that the requester took
	l.mu.Lock()
	per := map[string]int{}
	for _, t := range l.order {
		n := t.done
		if t.outcome == "answered" {
			n--
		}
		if n > 0 {
			per[l.nodes[t.q.To].ip] += n
		}
	}
	l.lateIP = per
	for _, n := range per {
		switch {
		case n == 1:
			l.res.labels["late:score-read-after-late-responses-from-one-ip:exactly-1"] = true
		case n < 5:
			l.res.labels["late:score-read-after-late-responses-from-one-ip:2-4"] = true
		case n < 12:
			l.res.labels["late:score-read-after-late-responses-from-one-ip:5-11"] = true
		default:
			l.res.labels["late:score-read-after-late-responses-from-one-ip:>=12"] = true
		}
	}
	l.mu.Unlock()
	l.logf("settle (%s): drained=%v, responses observed late per responder IP so far: %v", when, ok, per)
	return l.check("after the traffic had drained (" + when + ")")
}

func (l *lrun) event(ev lev) string {
	switch ev.Kind {
	case "reqs":
		if len(ev.Reqs) == 0 {
			return ""
		}
		return l.reqs(ev)
	case "settle":
		return l.settle("scenario event")
	case "legal":
		if l.m != nil {
			return ""
		}
		e := ev.E
		if e.From >= len(l.nodes) || e.To >= len(l.nodes) || e.From == e.To {
			return ""
		}
		proc := echoProcs[e.Proc%len(echoProcs)]
		if e.Kind == "req" && l.headroom(e.From, e.To, proc) < 1 {
			return ""
		}
		e.Burst = "within" // a mix never exceeds the headroom of any procedure
		before := 0
		for _, X := range l.real() {
			for _, p := range echoProcs {
				for _, n := range X.cnt[p] {
					before += n
				}
			}
		}
		v := l.runEvent(e)
		for _, X := range l.real() {
			for _, p := range echoProcs {
				for _, n := range X.cnt[p] {
					before -= n
				}
			}
		}
		l.legalN += -before / 2
		l.res.labels["late:mixed-with-legal-traffic:"+e.Kind] = true
		if v != "" || l.res.infra != "" {
			return v
		}
		return l.check("after legal traffic " + l.name(e.From) + " -> " + l.name(e.To))
	case "dial":
		if l.m != nil {
			return ""
		}
		e := ev.E
		if e.From >= len(l.nodes) || e.To >= len(l.nodes) || e.From == e.To {
			return ""
		}
		// responses still on their way would be sent into the closing connection (or re-open it from the other side)
		if v := l.settle("before a re-dial"); v != "" {
			return v
		}
		l.res.labels["late:re-dial-between-late-responses"] = true
		if v := l.dial(e.From, e.To, "late: re-dial of honest peers"); v != "" || l.res.infra != "" {
			return v
		}
		return l.check("after a re-dial")
	case "peerreq":
		if l.m == nil {
			return ""
		}
		n := l.s.LC.NConn
		proc := echoProcs[ev.E.Proc%len(echoProcs)]
		if L, _ := l.s.lim(0, proc); l.nodes[0].cnt[proc][1] >= L {
			return ""
		}
		if ok, _ := l.link(0, 1); !ok {
			return ""
		}
		l.logf("well-formed %s request of the peer over connection %d", proc, ev.E.From%n)
		l.res.labels["late:mixed-with-legal-traffic:requests-of-the-multi-connection-peer"] = true
		l.legalN++
		if v := l.m.wellFormed(ev.E.From%n, proc, []byte("peer"), n); v != "" || l.res.infra != "" {
			return v
		}
		return l.check("after a request of the peer")
	}
	return ""
}

// finish: the closing observations: drained, no score, nobody listed, everybody connected, gates open, served.
func (l *lrun) finish() string {
	if v := l.settle("end of the scenario"); v != "" {
		return v
	}
	if l.m != nil {
		m, n := l.m, l.s.LC.NConn
		if m.nconns() != n {
			l.res.infra = fmt.Sprintf("the multi-connection peer holds %d of its %d connections at the end although no score is stored for it", m.nconns(), n)
			return ""
		}
		// a re-dial of one of its sockets passes the gates (InterceptAccept/Secured), then it is served
		if v := m.attempt(n-1, "after late responses"); v != "" || l.res.infra != "" {
			return v
		}
		if m.nconns() != n {
			l.res.infra = "the re-dial of the multi-connection peer did not restore its connection"
			return ""
		}
		if L, _ := l.s.lim(0, procEcho); l.nodes[0].cnt[procEcho][1] < L {
			if v := m.wellFormed(n-1, procEcho, []byte("after"), n); v != "" || l.res.infra != "" {
				return v
			}
		}
		l.res.labels["late:gates-admit-the-peer-afterwards"] = true
		return l.check("at the end")
	}
	for j := 1; j < len(l.nodes); j++ {
		if !l.connected(0, j) || !l.connected(j, 0) {
			l.res.infra = fmt.Sprintf("%s and %s are not connected at the end although no score is stored", l.name(0), l.name(j))
			return ""
		}
	}
	for j := 1; j < len(l.nodes) && j <= 2; j++ {
		a, b := 0, j
		if j%2 == 0 && !l.nodes[0].dialOnly {
			a, b = j, 0
		}
		if l.nodes[a].dialOnly && l.nodes[b].dialOnly {
			continue
		}
		if v := l.dial(a, b, "late: gates after late responses"); v != "" || l.res.infra != "" {
			return v
		}
		if ok, v := l.ensureConnected(0, j); v != "" || l.res.infra != "" {
			return v
		} else if !ok {
			l.res.infra = "could not reconnect honest peers at the end"
			return ""
		}
		for _, X := range l.real() {
			X.conn.VerifSetResponseTimeout(time.Minute)
		}
		if l.headroom(0, j, procEcho) >= 1 {
			l.legalN++
			if v := l.request(0, j, procEcho, []byte("after")); v != "" || l.res.infra != "" {
				return v
			}
		}
		l.res.labels["late:gates-admit-the-peer-afterwards"] = true
	}
	return l.check("at the end")
}

var lateSeq int64
var lateMu sync.Mutex

func runLateScenario(s escn) *seqResult {
	res := &seqResult{labels: map[string]bool{}, counts: map[string]int{}}
	er := &erun{s: s, start: time.Now(), res: res}
	l := &lrun{erun: er, toks: map[uint32]*ltok{}, idx: map[string]int{}, arrived: map[lkey]int{}, served: map[lkey]int{}, lateIP: map[string]int{},
		stopW: make(chan struct{}), doneW: make(chan struct{})}
	er.onServe = func(i int, req *p2p.Request) { l.serve(i, req.PeerID.String(), req.Procedure, req.Data) }
	defer er.teardown()
	if err := er.setup(); err != nil {
		res.infra = "setup: " + err.Error()
		return res
	}
	er.started = time.Now()
	lc := s.LC
	if lc.Variant == "multi" {
		lateMu.Lock()
		lateSeq++
		id := lateSeq
		lateMu.Unlock()
		mp, err := newMPeer(fmt.Sprintf("c18-late-%d-%d", evid.Seed(), id), s.V6, s.Security)
		if err != nil {
			res.infra = "setup of the multi-connection peer: " + err.Error()
			return res
		}
		defer mp.close()
		V := er.nodes[0]
		P := &enode{idx: 1, ip: mp.ip, bm: newBanModel(time.Duration(s.ExpiryS)*time.Second, time.Duration(s.SweepMs)*time.Millisecond, nil),
			cnt: map[string]map[int]int{}, cause: map[int]string{}, banBy: map[string]int{}, contrib: map[string]map[int]bool{}}
		er.nodes = append(er.nodes, P)
		er.mp = mp
		l.m = &mrun{erun: er, V: V, P: P, mp: mp, info: V.info}
		// the raw peer is an honest, slow responder: it answers every request of the node with a well-formed response
		// under the request's ID, over the connection the request arrived on or over another one of its connections
		for hi, h := range mp.hosts {
			hi := hi
			h.SetStreamHandler(mp.reqID, func(st network.Stream) {
				buf, err := io.ReadAll(st)
				st.Close()
				if err != nil {
					return
				}
				var q p2p.Request
				if q.Decode(buf) != nil {
					return
				}
				from := st.Conn().RemotePeer()
				t := l.serve(1, from.String(), q.Procedure, q.Data)
				via := hi
				if t != nil && t.q.Via >= 0 && t.q.Via < lc.NConn {
					via = t.q.Via
				}
				err = mp.send(via, from, false, encodeEnvelope(q.ID, q.Procedure, q.Data, "", true))
				l.mu.Lock()
				if err != nil {
					l.sendErr++
				} else {
					l.served[lkey{1, 0, q.Procedure}]++
				}
				if t != nil {
					t.done++ // the handler is through with this attempt
				}
				l.mu.Unlock()
			})
		}
	}
	for _, n := range er.nodes {
		l.idx[l.pid(n.idx).String()] = n.idx
		dup := false
		for _, ip := range l.ips {
			dup = dup || ip == n.ip
		}
		if !dup {
			l.ips = append(l.ips, n.ip)
		}
	}
	for _, ip := range []string{"127.0.0.1", "::1"} {
		dup := false
		for _, x := range l.ips {
			dup = dup || x == ip
		}
		if !dup {
			l.ips = append(l.ips, ip)
		}
	}
	var ips []string
	for _, n := range er.nodes {
		ips = append(ips, n.ip)
	}
	l.logf("scenario late honest responses (%s): nodes=%v security=%s expiry=%ds sweep=%dms; procedures %v limits %v penalties %v, rate-limit interval 1 h; dialOnly=node %d shared=%v; multi-connection responder: %d connections (first by the node: %v)",
		lc.Variant, ips, s.Security, s.ExpiryS, s.SweepMs, echoProcs, s.PL, s.PP, s.DialOnly, s.Group, lc.NConn, lc.VFirst)
	res.labels["e2e-late-honest-responses"] = true
	res.labels["late:variant:"+lc.Variant] = true
	if s.V6 {
		res.labels["e2e-ipv6"] = true
	}
	if s.Shared {
		res.labels["late:responders-share-an-ip"] = true
	}
	if s.ExpiryS >= 3600 {
		res.labels["late:expiry-1h(nothing-swept)"] = true
	} else {
		res.labels["late:expiry-1-2s(watched)"] = true
	}
	heartbeat()
	go l.watch()
	stopWatch := func() {
		select {
		case <-l.stopW:
		default:
			close(l.stopW)
		}
		<-l.doneW
	}
	defer stopWatch()
	// connect
	if l.m != nil {
		if v := l.m.connectAll(mcycle{NConn: lc.NConn, VFirst: lc.VFirst}); v != "" {
			l.fail(v)
			return res
		}
		if res.infra == "" && l.m.nconns() != lc.NConn {
			res.infra = "the multi-connection peer could not open its connections"
		}
	} else {
		for j := 1; j < len(er.nodes) && res.infra == ""; j++ {
			ok, v := er.ensureConnected(0, j)
			if v != "" {
				l.fail(v)
				return res
			}
			if !ok && res.infra == "" {
				res.infra = "honest peers could not connect"
			}
		}
	}
	if res.infra != "" {
		return res
	}
	var key strings.Builder
	fmt.Fprintf(&key, "late|%s|%v|%s|%d|%d|%v|%v|%d|%v|%d|%v|", lc.Variant, ips, s.Security, s.ExpiryS, s.SweepMs, s.PL, s.PP, s.DialOnly, s.Group, lc.NConn, lc.VFirst)
	for _, ev := range lc.Events {
		fmt.Fprintf(&key, "%s.%+v.%s.%d.%d.%d.%d.%x;", ev.Kind, ev.Reqs, ev.E.Kind, ev.E.From, ev.E.To, ev.E.Proc, ev.E.Extra, ev.E.Bytes)
		res.labels["late-event:"+ev.Kind] = true
		if v := l.event(ev); v != "" {
			l.fail(v)
			return res
		}
		if res.infra != "" {
			return res
		}
	}
	if v := l.finish(); v != "" {
		l.fail(v)
		return res
	}
	if res.infra != "" {
		return res
	}
	stopWatch()
	if v := l.sawScore(); v != "" {
		res.hard = true
		res.violation = fmt.Sprintf("honest peer penalised: %s (seen by the 5 ms sampling only: the entry was gone at the next direct read), although all traffic of the scenario was well-formed, solicited and within the limits (%s)", v, l.traffic())
		return res
	}
	// harness sanity: the worst-case counts really are upper bounds of the nodes' counters
	for _, X := range l.real() {
		for y := range l.nodes {
			if y == X.idx {
				continue
			}
			for _, proc := range echoProcs {
				L, _ := s.lim(X.idx, proc)
				if got := X.conn.VerifRateCounter(proc, l.pid(y)); got > X.cnt[proc][y] || got > L {
					res.infra = fmt.Sprintf("harness: %s counted %d %s messages of %s, the worst-case count is %d (limit %d)", l.name(X.idx), got, proc, l.name(y), X.cnt[proc][y], L)
					return res
				}
			}
		}
	}
	// what was exercised
	late, perIP, maxIP := 0, map[string]int{}, 0
	for _, t := range l.order {
		n := t.done
		if t.outcome == "answered" {
			n--
			if t.started > 1 {
				res.counts["late:answered-after-timeouts-of-earlier-attempts"]++
			}
		}
		if n < 0 {
			n = 0
		}
		late += n
		perIP[l.nodes[t.q.To].ip] += n
		res.counts["late:attempts-arrived"] += t.started
		if t.q.Kind == "cancel" && t.outcome == "cancelled" {
			res.counts["late:context-ended-before-the-answer-(handler-completed-afterwards)"]++
		}
		if t.q.Kind == "cancel" && t.outcome == "answered" {
			res.counts["late:context-ended-after-the-answer"]++
		}
		if t.q.Kind == "edge" {
			if t.outcome == "answered" && t.started == 1 {
				res.counts["late:edge:answer-beat-the-timeout-at-the-first-attempt"]++
			} else {
				res.counts["late:edge:timeout-beat-the-answer-at-least-once"]++
			}
		}
		if l.m != nil && t.q.Via >= 0 {
			res.labels["late:multi-connection-peer-answers-over-a-chosen-connection"] = true
		}
	}
	res.counts["late:responses-observed-late-(requester-had-given-up,-handler-completed)"] = late
	for _, n := range perIP {
		if n > maxIP {
			maxIP = n
		}
		if n >= 5 {
			res.counts["late:ips-with->=5-responses-observed-late"]++
		}
		if n >= 12 {
			res.counts["late:ips-with->=12-responses-observed-late"]++
		}
	}
	if l.sendErr > 0 {
		res.counts["late:raw-peer-could-not-send-a-response"] += l.sendErr
	}
	switch {
	case maxIP >= 12:
		res.labels["late:max-late-responses-from-one-ip:>=12"] = true
	case maxIP >= 5:
		res.labels["late:max-late-responses-from-one-ip:5-11"] = true
	case maxIP >= 1:
		res.labels["late:max-late-responses-from-one-ip:1-4"] = true
	default:
		res.labels["late:no-response-observed-late"] = true
	}
	// non-trivial: responses were observed late, the scores were read after the traffic had drained and the gates were tried
	res.nontrivial = late >= 1 && res.counts["late:drain-not-observed-within-5s"] == 0 && res.labels["late:gates-admit-the-peer-afterwards"]
	res.key = key.String()
	return res
}

// TestLateOnly: diagnostic run of this flavour alone (VERIF_C18_LATE_ONLY=1; not part of any tier).
func TestLateOnly(t *testing.T) {
	if os.Getenv("VERIF_C18_LATE_ONLY") == "" {
		t.Skip("diagnostic; set VERIF_C18_LATE_ONLY=1")
	}
	gen := rapid.Custom(func(t *rapid.T) escn {
		s := escn{On: true}
		genLate(t, &s)
		return s
	})
	rapid.Check(t, func(rt *rapid.T) {
		runE2EBatch(rt, rapid.SliceOfN(gen, 8, 8).Draw(rt, "scenarios"))
	})
}

// TestRegressLateHonestResponses: fixed scripts (every tier). An honest peer that answers slower than the requester's
// response timeout - or whose requester cancels - produces well-formed, solicited responses for request IDs that are no
// longer pending. Five to twelve of them per IP (and single ones, with the score read directly) must leave every score
// at zero, nobody listed, everybody connected, the gates open.
// (A node that treats a response without a pending request as "unsolicited" and penalises it bans slow honest peers.)
func TestRegressLateHonestResponses(t *testing.T) {
	all := lateMaxAttempts()
	slow := func(from, to, proc, tmo, n, over int) lev {
		return lev{Kind: "reqs", Reqs: []lreq{{Kind: "slow", From: from, To: to, Proc: proc, TmoMs: tmo, Slow: n, OverMs: over, Via: -1}}}
	}
	cancel := func(to, proc, tmo, delay, cutUs int) lev {
		return lev{Kind: "reqs", Reqs: []lreq{{Kind: "cancel", From: 0, To: to, Proc: proc, TmoMs: tmo, DelayMs: delay, CutUs: cutUs, Via: -1}}}
	}
	edge := func(to, proc, tmo int, off ...int) lev {
		return lev{Kind: "reqs", Reqs: []lreq{{Kind: "edge", From: 0, To: to, Proc: proc, TmoMs: tmo, OffUs: off, Via: -1}}}
	}
	settle := lev{Kind: "settle"}
	order := []byte{3, 1, 4, 1, 5, 9, 2, 6, 5, 3, 5, 8, 9, 7, 9, 3, 2, 3, 8, 4, 6, 2, 6, 4}
	mix := func(from, to int) lev {
		return lev{Kind: "legal", E: eev{Kind: "mix", From: from, To: to, Burst: "within", Extra: 2, Bytes: order}}
	}
	base := func(variant, sec string, expiry int, ips ...int) escn {
		s := escn{On: true, Late: true, N: len(ips), IPs: ips, Security: sec, ExpiryS: expiry, SweepMs: 100, Limit: 80, Penalty: 50,
			PL: []int{80, 70, 90}, PP: []int{50, 25, 100}, BlackOf: -1, DialOnly: -1}
		s.LC.Variant = variant
		return s
	}
	type script struct {
		name string
		s    escn
		evs  []lev
		min  int // responses that must have been observed late for the script to have done its job (else a note)
	}
	shared := base("shared", p2p.ConnectionSecurityNoise, 2, 2, 5, 5)
	shared.Shared, shared.Group = true, []int{1, 2}
	dialOnly := base("dialonly", p2p.ConnectionSecurityNone, 3600, 2, 3)
	dialOnly.DialOnly = 1
	v6 := base("v6", p2p.ConnectionSecurityTLS, 3600, 2, 3)
	v6.V6 = true
	multi := base("multi", p2p.ConnectionSecurityNone, 3600, 4)
	multi.N, multi.LC.NConn, multi.LC.VFirst = 1, 3, true
	via := func(e lev, v int) lev { e.Reqs[0].Via = v; return e }
	scripts := []script{
		{"three requests, every attempt answered 25 ms after the 20 ms timeout (12 late responses)", base("plain", p2p.ConnectionSecurityNone, 3600, 2, 3),
			[]lev{slow(0, 1, 0, 20, all, 25), slow(0, 1, 0, 20, all, 25), slow(0, 1, 1, 20, all, 25)}, 8},
		{"single late responses, the score read after each (5 requests, first attempt late, second answered)", base("plain", p2p.ConnectionSecurityTLS, 3600, 4, 5),
			[]lev{slow(0, 1, 0, 30, 1, 15), settle, slow(0, 1, 1, 30, 1, 15), settle, slow(0, 1, 2, 25, 1, 10), settle, slow(0, 1, 0, 25, 1, 10), settle, slow(0, 1, 0, 20, 1, 20)}, 3},
		{"the caller cancels 15 ms before the answer (6x) and 30 ms after it (2x); once in the middle of the retries", base("plain", p2p.ConnectionSecurityNoise, 3600, 6, 7),
			[]lev{cancel(1, 0, 0, 40, -15000), cancel(1, 0, 0, 40, -15000), cancel(1, 1, 0, 40, -15000), cancel(1, 0, 0, 40, 30000), cancel(1, 2, 0, 30, -15000),
				cancel(1, 0, 0, 30, -15000), cancel(1, 0, 0, 30, -15000), cancel(1, 0, 0, 30, 30000), cancel(1, 1, 20, 50, -5000)}, 4},
		{"answers racing the 20 ms timeout (timeout -3 .. +3 ms), 8 requests", base("plain", p2p.ConnectionSecurityNone, 2, 8, 9),
			[]lev{edge(1, 0, 20, 0, 1000, -1000, 2000), edge(1, 0, 20, 500, -500, 1500, -1500), edge(1, 1, 20, 3000, 2000, 1000, 0), edge(1, 2, 20, -3000, -2000, -1000, 0),
				edge(1, 0, 20, 250, 750, -250, -750), edge(1, 0, 25, 0, 0, 0, 0), edge(1, 1, 25, 1000, 1000, 1000, 1000), edge(1, 2, 25, -1000, -1000, -1000, -1000)}, 1},
		{"two slow responders on one IP, three late responses each (expiry 2 s, sampled)", shared,
			[]lev{mix(1, 0), slow(0, 1, 0, 20, 3, 20), slow(0, 2, 0, 20, 3, 20), {Kind: "reqs", Reqs: []lreq{
				{Kind: "slow", From: 0, To: 1, Proc: 1, TmoMs: 25, Slow: all, OverMs: 15, Via: -1}, {Kind: "slow", From: 0, To: 2, Proc: 1, TmoMs: 25, Slow: all, OverMs: 15, Via: -1}}}, mix(0, 2)}, 6},
		{"slow responder without listen address (seen as 127.0.0.1), two requests with every attempt late", dialOnly,
			[]lev{slow(0, 1, 0, 20, all, 20), mix(1, 0), slow(0, 1, 2, 30, all, 10)}, 5},
		{"both nodes on ::1, both slow in turn, legal mixes in between", v6,
			[]lev{mix(0, 1), slow(0, 1, 0, 20, 2, 20), slow(1, 0, 0, 20, 2, 20), slow(0, 1, 1, 20, 2, 20), mix(1, 0), slow(1, 0, 2, 20, all, 20), slow(0, 1, 2, 25, 2, 10),
				{Kind: "dial", E: eev{Kind: "dial", From: 1, To: 0}}, slow(0, 1, 0, 20, 1, 30)}, 5},
		{"slow responder with 3 simultaneous connections answering over other connections", multi,
			[]lev{{Kind: "peerreq", E: eev{From: 1, Proc: 0}}, via(slow(0, 1, 0, 20, all, 20), 2), via(slow(0, 1, 1, 25, all, 15), 0), {Kind: "peerreq", E: eev{From: 2, Proc: 1}},
				via(edge(1, 0, 20, 0, 1000, -1000, 2000), 1), via(cancel(1, 0, 0, 40, -15000), -1)}, 5},
	}
	results := make([]*seqResult, len(scripts))
	var wg sync.WaitGroup
	for i, sc := range scripts {
		s := sc.s
		s.LC.Events = sc.evs
		wg.Add(1)
		go func(i int, s escn) {
			defer wg.Done()
			results[i] = runScenarioRobust(s)
		}(i, s)
	}
	wg.Wait()
	for i, sc := range scripts {
		res := results[i]
		switch {
		case res.violation != "":
			t.Errorf("C18 violated (late but honest responses, %s): %s\nhistory:\n%s", sc.name, res.violation, res.render())
		case res.infra != "":
			evid.R.Inconclusive("late-response regression scenario %q dropped: %s", sc.name, res.infra)
		default:
			if n := res.counts["late:responses-observed-late-(requester-had-given-up,-handler-completed)"]; n < sc.min {
				evid.R.Note("late-response regression script %q: only %d responses were observed late (expected >= %d)", sc.name, n, sc.min)
			}
			register("e2e-late-regress", res)
			registerCounts(res)
			if os.Getenv("VERIF_C18_SHOW") != "" {
				t.Logf("%s (non-trivial=%v, counts %v):\n%s", sc.name, res.nontrivial, res.counts, res.render())
			}
		}
	}
}
