package c11

// Argument immutability, argument re-use and argument aliasing for every public function of pkg/trie/rmt.
//
//   - guard: deep copies of the arguments of a call taken before the call, compared byte for byte (through the full capacity of
//     every outer slice) after the call. No function of the package documents that it consumes an argument.
//   - aliasArgs: the same arguments laid out so that they share backing arrays (all hashes sub-slices of one buffer with full
//     or spare capacity, all outer slices windows into one array, the index list a window into a larger array); results must
//     equal those obtained with independent copies.
//   - re-use (same proof object / same index slice / same data slices used for several calls) is done at the call sites in
//     c11_test.go (checkProof, checkUpdate, checkWitness, appendChecked).

import (
	"bytes"
	"fmt"
	"strings"

	"github.com/LiskHQ/lisk-engine/pkg/trie/rmt"

	"verifharness/evid"
)

const sigF5 = "hash arguments that are sub-slices of one caller buffer with spare capacity:branchHash(append(callerHash, other...)) writes into the caller's buffer:following argument overwritten, result wrong"

// ---------------------------------------------------------------------------------------------------------------------
// guard

type argDiff struct {
	kind string // "buffer" (shared byte buffer), "content" (bytes of one element of a list), "shape" (anything else)
	desc string
}

type guard struct {
	f    fataler
	ctx  func() string
	chks []func() *argDiff
}

func newGuard(f fataler, ctx func() string) *guard { return &guard{f: f, ctx: ctx} }

func firstDiff(a, b []byte) int {
	for i := 0; i < len(a) && i < len(b); i++ {
		if a[i] != b[i] {
			return i
		}
	}
	return len(a)
}

func clip(b []byte) string {
	if len(b) > 80 {
		return fmt.Sprintf("%x…(%d bytes)", b[:80], len(b))
	}
	return fmt.Sprintf("%x", b)
}

// bytes registers a byte slice argument (compared through its full capacity).
func (g *guard) bytes(name string, v []byte) []byte { return g.bytesKind("shape", name, v) }

func (g *guard) bytesKind(kind, name string, v []byte) []byte {
	full := v[:cap(v)]
	before := append([]byte{}, full...)
	g.chks = append(g.chks, func() *argDiff {
		if !bytes.Equal(full, before) {
			i := firstDiff(full, before)
			where := "within its length"
			if i >= len(v) {
				where = "in its spare capacity"
			}
			return &argDiff{kind, fmt.Sprintf("%s (len %d cap %d) changed %s at byte %d: before %s after %s", name, len(v), cap(v), where, i, clip(before), clip(full))}
		}
		return nil
	})
	return v
}

// list registers a [][]byte argument: every element of the outer slice through its full capacity, byte for byte.
func (g *guard) list(name string, v [][]byte) [][]byte {
	full := v[:cap(v)]
	before := copyList(full)
	g.chks = append(g.chks, func() *argDiff {
		for i := range full {
			if len(full[i]) != len(before[i]) {
				return &argDiff{"shape", fmt.Sprintf("%s[%d] (outer len %d cap %d): length %d -> %d", name, i, len(v), cap(v), len(before[i]), len(full[i]))}
			}
			if !bytes.Equal(full[i], before[i]) {
				return &argDiff{"content", fmt.Sprintf("%s[%d] (outer len %d cap %d): before %s after %s", name, i, len(v), cap(v), clip(before[i]), clip(full[i]))}
			}
		}
		return nil
	})
	return v
}

// idxs registers a []uint64 argument through its full capacity.
func (g *guard) idxs(name string, v []uint64) []uint64 {
	full := v[:cap(v)]
	before := append([]uint64{}, full...)
	g.chks = append(g.chks, func() *argDiff {
		for i := range full {
			if full[i] != before[i] {
				return &argDiff{"shape", fmt.Sprintf("%s (len %d cap %d): before %v after %v", name, len(v), cap(v), before, full)}
			}
		}
		return nil
	})
	return v
}

// proof registers a proof object: the fields are re-read through the pointer after the call.
func (g *guard) proof(name string, p *rmt.Proof) *rmt.Proof {
	ref := cloneProof(p)
	g.chks = append(g.chks, func() *argDiff {
		if p.Size != ref.Size {
			return &argDiff{"shape", fmt.Sprintf("%s.Size: before %d after %d", name, ref.Size, p.Size)}
		}
		if len(p.Idxs) != len(ref.Idxs) {
			return &argDiff{"shape", fmt.Sprintf("%s.Idxs: before %v after %v", name, ref.Idxs, p.Idxs)}
		}
		for i := range p.Idxs {
			if p.Idxs[i] != ref.Idxs[i] {
				return &argDiff{"shape", fmt.Sprintf("%s.Idxs: before %v after %v", name, ref.Idxs, p.Idxs)}
			}
		}
		if len(p.SiblingHashes) != len(ref.SiblingHashes) {
			return &argDiff{"shape", fmt.Sprintf("%s.SiblingHashes: %d -> %d entries", name, len(ref.SiblingHashes), len(p.SiblingHashes))}
		}
		for i := range p.SiblingHashes {
			if len(p.SiblingHashes[i]) != len(ref.SiblingHashes[i]) {
				return &argDiff{"shape", fmt.Sprintf("%s.SiblingHashes[%d]: length %d -> %d", name, i, len(ref.SiblingHashes[i]), len(p.SiblingHashes[i]))}
			}
			if !bytes.Equal(p.SiblingHashes[i], ref.SiblingHashes[i]) {
				return &argDiff{"content", fmt.Sprintf("%s.SiblingHashes[%d]: before %x after %x", name, i, ref.SiblingHashes[i], p.SiblingHashes[i])}
			}
		}
		return nil
	})
	return p
}

func (g *guard) diffs() []*argDiff {
	var out []*argDiff
	for _, c := range g.chks {
		if d := c(); d != nil {
			out = append(out, d)
		}
	}
	return out
}

// verify fails if the call changed any registered argument. The registrations stay (the same objects are re-used).
func (g *guard) verify(call string) {
	evid.R.Label("args-compared-after-call", 1)
	if ds := g.diffs(); len(ds) > 0 {
		var sb strings.Builder
		for _, d := range ds {
			sb.WriteString("\n  " + d.desc)
		}
		g.f.Fatalf("%s modified its argument(s) (caller-owned data; nothing documents that the call consumes them):%s\n%s", call, sb.String(), g.ctx())
	}
}

func cloneProof(p *rmt.Proof) *rmt.Proof {
	idx := make([]uint64, len(p.Idxs))
	copy(idx, p.Idxs)
	return &rmt.Proof{Size: p.Size, Idxs: idx, SiblingHashes: copyList(p.SiblingHashes)}
}

func renderProof(p *rmt.Proof, err error) string {
	if err != nil {
		return "err:" + err.Error()
	}
	return fmt.Sprintf("size=%d idxs=%v siblings=%v", p.Size, p.Idxs, hxs(p.SiblingHashes))
}

// exact returns a copy whose capacity equals its length.
func exactIdxs(v []uint64) []uint64 {
	out := make([]uint64, len(v))
	copy(out, v)
	return out
}

// ---------------------------------------------------------------------------------------------------------------------
// query order kinds

func orderKind(pos []int) string {
	if len(pos) < 2 {
		return "order=single"
	}
	asc, desc := true, true
	for i := 1; i < len(pos); i++ {
		if pos[i] > pos[i-1] {
			desc = false
		} else {
			asc = false
		}
	}
	switch {
	case asc:
		return "order=ascending"
	case desc:
		return "order=descending"
	}
	return "order=shuffled"
}

func reversed(pos []int) []int {
	out := make([]int, len(pos))
	for i, p := range pos {
		out[len(pos)-1-i] = p
	}
	return out
}

// strided returns pos permuted by a stride coprime to its length (deterministic shuffle: 5,2,7,0-like orders).
func strided(pos []int, step int) []int {
	l := len(pos)
	if l < 3 {
		return reversed(pos)
	}
	gcd := func(a, b int) int {
		for b != 0 {
			a, b = b, a%b
		}
		return a
	}
	step = step%l + 1
	for gcd(step, l) != 1 || step == 1 {
		step++
		if step >= l {
			step = l - 1 // l-1 is always coprime to l
			break
		}
	}
	out := make([]int, l)
	for i := range out {
		out[i] = pos[(i*step+step)%l]
	}
	return out
}

// ---------------------------------------------------------------------------------------------------------------------
// aliasing layouts

// aliasModesFor maps a selector to the layouts tried for one case (nil = none).
func aliasModesFor(sel int) []string {
	switch sel {
	case 2:
		return []string{"fullcap"}
	case 3:
		return []string{"spare"}
	case 4:
		return []string{"outer"}
	case 5:
		return []string{"outer+fullcap", "spare"}
	}
	return nil
}

const (
	idxSentinel = uint64(0xDEADBEEFCAFE)
	bufPad      = 40
)

// aliasArgs holds one call's arguments laid out with shared backing arrays.
//
//	fullcap        every []byte element is buf[a:b:b] of ONE buffer (elements adjacent, no spare capacity)
//	spare          every []byte element is buf[a:b] of ONE buffer (capacity runs over all following elements)
//	outer          the outer [][]byte slices are windows all[a:b] of ONE array (capacity runs over the following lists)
//	outer+fullcap  both
//
// The index list is always a window big[2:2+k] of a larger array with sentinels on both sides.
type aliasArgs struct {
	mode     string
	buf      []byte
	buf0     []byte
	firstLen int
	lists    [][][]byte
	all      [][]byte
	big      []uint64
	idxs     []uint64
}

func buildAlias(mode string, lists [][][]byte, idxs []uint64) *aliasArgs {
	a := &aliasArgs{mode: mode}
	spare := mode == "spare"
	packed := spare || strings.Contains(mode, "fullcap")
	outer := strings.HasPrefix(mode, "outer")
	elems := make([][][]byte, len(lists))
	if packed {
		tot := 0
		for _, l := range lists {
			for _, e := range l {
				tot += len(e)
			}
		}
		buf := make([]byte, tot+bufPad)
		for i := tot; i < len(buf); i++ {
			buf[i] = 0xEE
		}
		off := 0
		first := true
		for li, l := range lists {
			elems[li] = make([][]byte, len(l))
			for i, e := range l {
				copy(buf[off:], e)
				if spare {
					elems[li][i] = buf[off : off+len(e)]
				} else {
					elems[li][i] = buf[off : off+len(e) : off+len(e)]
				}
				if first && len(e) > 0 {
					a.firstLen = len(e)
					first = false
				}
				off += len(e)
			}
		}
		a.buf = buf
		a.buf0 = append([]byte{}, buf...)
	} else {
		for li, l := range lists {
			elems[li] = copyList(l)
		}
	}
	a.lists = make([][][]byte, len(lists))
	if outer {
		total := 2
		for _, l := range elems {
			total += len(l)
		}
		all := make([][]byte, 0, total)
		for li, l := range elems {
			start := len(all)
			all = append(all, l...)
			a.lists[li] = all[start:len(all)] // capacity runs to the end of the shared array
		}
		all = append(all, []byte("outer-sentinel-1"), []byte("outer-sentinel-2"))
		a.all = all
	} else {
		copy(a.lists, elems) // make([][]byte, len) above: capacity = length
	}
	if idxs != nil {
		big := make([]uint64, len(idxs)+5)
		for i := range big {
			big[i] = idxSentinel + uint64(i)
		}
		copy(big[2:], idxs)
		a.big = big
		a.idxs = big[2 : 2+len(idxs)]
	}
	return a
}

func (a *aliasArgs) register(g *guard, names []string) {
	if a.buf != nil {
		g.bytesKind("buffer", "the buffer shared by all hash/data arguments", a.buf)
	}
	for li, l := range a.lists {
		g.list(names[li], l)
	}
	if a.big != nil {
		g.idxs("the array holding the index list (window [2:2+k])", a.big)
	}
}

// f5Shape: the deviation is exactly what the known defect F5 produces: only bytes of the shared spare-capacity buffer changed
// (no index, size, length or outer slice), and the first element of the buffer (which no append can reach) is intact.
func (a *aliasArgs) f5Shape(ds []*argDiff) bool {
	if a.mode != "spare" || a.buf == nil {
		return false
	}
	changed := false
	for _, d := range ds {
		switch d.kind {
		case "buffer":
			changed = true
		case "content":
		default:
			return false
		}
	}
	return changed && bytes.Equal(a.buf[:a.firstLen], a.buf0[:a.firstLen])
}

// aliasPure runs a call that does not change any state with every layout in modes and compares the rendered result with
// want (the rendering obtained with independent copies); the arguments must be unchanged afterwards. A deviation in the
// "spare" layout that has the shape of the known finding F5 is reported as such (while it is listed as known).
func aliasPure(f fataler, what string, c func() string, modes []string, names []string, lists [][][]byte, idxs []uint64, want string, call func(a *aliasArgs) string) {
	for _, mode := range modes {
		a := buildAlias(mode, lists, idxs)
		g := newGuard(f, c)
		a.register(g, names)
		var got string
		must(f, what+" [arguments share backing arrays: "+mode+"]", c, func() { got = call(a) })
		ds := g.diffs()
		evid.R.Label("args-compared-after-call", 1)
		if (got != want || len(ds) > 0) && a.f5Shape(ds) && evid.R.KnownFinding(sigF5) {
			evid.R.Excluded(1)
			evid.R.Label("alias="+mode+":known-F5", 1)
			continue
		}
		if got != want {
			var sb strings.Builder
			for _, d := range ds {
				sb.WriteString("\n  " + d.desc)
			}
			f.Fatalf("%s: with arguments sharing backing arrays (layout %q) the result is %s, with independent copies it is %s; argument changes:%s\n%s",
				what, mode, got, want, sb.String(), c())
		}
		if len(ds) > 0 {
			g.verify(what + " [layout " + mode + "]")
		}
		evid.R.Label("alias="+mode, 1)
	}
}

// scribble overwrites a buffer the caller is free to re-use after a call returned.
func scribble(bs ...[]byte) {
	for _, b := range bs {
		b = b[:cap(b)]
		for i := range b {
			b[i] = 0xA5
		}
	}
}
